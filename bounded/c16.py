"""Engine B for C16: the System Z ranking object (SystemZPreOCF) vs the Z-ranking of the oracle.

Checked per (semantic base, mode):
  lazy-order    rank_world over the worlds in a given order on a fresh object, then forced
                re-computation; every returned / cached rank must be the oracle's kz (extended
                mode: the top rank = number of finite layers + 1 for exactly the infeasible worlds)
  all-at-once   compute_all_ranks() on a fresh object
  base-accept   conditional_acceptance of every base conditional outside the infinity layer
  queries       conditional_acceptance == real System Z operator == oracle, for queries whose
                antecedent has a feasible model
  facts         init_system_z(bb, facts=...): ranking of the base augmented by (Bottom|!fact);
                fact violators get the top rank; an augmented base that is not weakly consistent
                (or, with extended=False, not consistent) is refused with a ValueError carrying
                the diagnostics flags; unknown variables are refused with a ValueError

Every check is re-executable from its `input` dict alone (see `judge` / `replay`).
"""
from __future__ import annotations

import hashlib
import itertools
import json
import random

from .common import (
    ATOMS2,
    BeliefBase,
    Queries,
    distinct_queries,
    merge,
    pmap,
    rnd_conditional,
    s2_bases,
    s2_queries,
    s3_base,
    split_text,
)

MODULE = "c16"


# ---------------------------------------------------------------------------
# helpers
# ---------------------------------------------------------------------------
def _build(inp):
    """conditionals (real objects) + real belief base from an input dict"""
    from oracle.gen import cond as mkcond

    conds = {}
    for k, t in inp["conditionals"].items():
        b, a = split_text(t)
        c = mkcond(b, a)
        c.index = int(k)
        conds[int(k)] = c
    order = list(inp.get("bb_signature") or inp["signature"])
    bb = BeliefBase(order, dict(conds), "c16")
    return conds, bb, order


def _bits(sem, order):
    """oracle world index -> bitstring of the ranking object (bit i <-> atom order[i])"""
    return {wi: "".join("1" if w[a] else "0" for a in order) for wi, w in enumerate(sem.worlds)}


def _expected_ranks(ans, sem, order):
    """kz over bitstrings; infeasible worlds get the top rank = one above all finite ranks"""
    from oracle.core import INF

    top = len(ans.finite) + 1
    bits = _bits(sem, order)
    return {bits[w]: (top if ans.kz[w] >= INF else ans.kz[w]) for w in sem.U}, top


def _mk_obj(bb, inp, facts=None):
    from inference.preocf import PreOCF

    kw = {}
    if inp.get("pass_signature"):
        kw["signature"] = list(bb.signature)
    if facts is not None:
        kw["facts"] = list(facts)
        if inp.get("facts_as_fnode"):
            from parser.Wrappers import parse_formula

            kw["facts"] = [parse_formula(f) for f in facts]
    return PreOCF.init_system_z(bb, extended=inp["extended"], **kw)


def _oracle(inp, conds, extra=()):
    from oracle.core import Answers, Sem

    sem = Sem(conds, list(extra), inp["signature"])
    return sem, Answers(sem, inp["mode"] == "extended")


def unknown_in(facts, sig):
    """atoms mentioned by the fact texts that are not in the signature (CL identifiers)"""
    import re

    return sorted({t for f in facts for t in re.findall(r"[A-Za-z_][A-Za-z_0-9]*", f) if t not in set(sig) and t not in ("Top", "Bottom")})


def _has_ranking(ans):
    """consistent for the mode: a tolerance partition exists (the empty base included: its partition is
    empty and kz is 0 everywhere; only the inference OPERATORS refuse an empty base, C06)"""
    return getattr(ans, "partition", None) is not None


def _exc(e):
    return f"EXC {type(e).__name__}: {str(e)[:300]}"


# ---------------------------------------------------------------------------
# the judge: one explicit input -> (evaluations, [(kind, expected, observed)])
# ---------------------------------------------------------------------------
def judge(inp):
    check = inp["check"]
    conds, bb, order = _build(inp)
    bad = []
    ev = 0

    if check in ("lazy-order", "all-at-once", "base-accept", "queries"):
        from oracle.gen import cond as mkcond

        queries = [mkcond(*split_text(t)) for t in inp.get("queries", [])]
        sem, ans = _oracle(inp, conds, [f for q in queries for f in (q.antecedence, q.consequence)])
        assert _has_ranking(ans), "checker: base not consistent in this mode"
        want, top = _expected_ranks(ans, sem, order)

        if check == "lazy-order":
            try:
                obj = _mk_obj(bb, inp)
                if set(obj.ranks) != set(want):
                    bad.append(("world-set", sorted(want), sorted(obj.ranks)))
                got, cached, forced = {}, {}, {}
                for w in inp["order"]:
                    got[w] = obj.rank_world(w)
                    cached[w] = obj.ranks[w]
                    ev += 1
                again = {w: obj.rank_world(w) for w in inp["order"]}
                for w in reversed(inp["order"]):
                    forced[w] = obj.rank_world(w, force_calculation=True)
                    ev += 1
                final = dict(obj.ranks)
            except Exception as e:  # noqa
                return ev + 1, [("exception", want, _exc(e))]
            want_o = {w: want[w] for w in inp["order"]}  # the order may be partial
            if got != want_o:
                bad.append(("rank-lazy", want_o, got))
            if cached != got or again != got:
                bad.append(("rank-cache", got, {"cached": cached, "second_call": again}))
            if forced != want_o:
                bad.append(("rank-forced", want_o, forced))
            # worlds never asked for are still uncomputed (None) or, if filled in, correct
            if any(final.get(w) != want[w] and not (w not in want_o and final.get(w) is None) for w in want):
                bad.append(("rank-final-table", {w: want[w] if w in want_o else None for w in want}, final))
        elif check == "all-at-once":
            try:
                obj = _mk_obj(bb, inp)
                got = obj.compute_all_ranks()
                table = dict(obj.ranks)
                ev += 1
            except Exception as e:  # noqa
                return ev + 1, [("exception", want, _exc(e))]
            if got != want:
                bad.append(("rank-all-at-once", want, got))
            if table != want:
                bad.append(("rank-final-table", want, table))
        elif check == "base-accept":
            inf = set(ans.inf_layer)
            try:
                obj = _mk_obj(bb, inp)
                if inp.get("precompute"):
                    obj.compute_all_ranks()
                got = {}
                for k, c in conds.items():
                    got[str(k)] = bool(obj.conditional_acceptance(c))
                    ev += 1
            except Exception as e:  # noqa
                return ev + 1, [("exception", None, _exc(e))]
            wrong = {k: v for k, v in got.items() if int(k) not in inf and v is not True}
            if wrong:
                bad.append(("base-conditional-not-accepted", {k: True for k in wrong}, wrong))
        else:  # queries
            feas = ans.feas
            keep = [q for q in queries if sem.q(q)[0] & feas]
            assert len(keep) == len(queries), "checker: query with infeasible antecedent"
            want_q = [bool(ans.system_z(q)) for q in queries]
            try:
                obj = _mk_obj(bb, inp)
                if inp.get("precompute"):
                    obj.compute_all_ranks()
                got_q = []
                for q in queries:
                    got_q.append(bool(obj.conditional_acceptance(q)))
                    ev += 1
            except Exception as e:  # noqa
                return ev + 1, [("exception", want_q, _exc(e))]
            try:
                from inference.inference_manager import InferenceManager

                m = InferenceManager(bb, "system-z", weakly=inp["mode"] == "extended")
                df = m.inference(Queries({i + 1: q for i, q in enumerate(queries)}))
                op = [bool(x) for x in df["result"].tolist()]
            except Exception as e:  # noqa
                op = _exc(e)
            if got_q != op:
                bad.append(("acceptance-vs-operator", op, got_q))
            if got_q != want_q:
                bad.append(("acceptance-vs-definition", want_q, got_q))
        return ev, bad

    if check == "facts":
        from oracle.core import Answers, Sem, partition_extended, partition_strict
        from oracle.gen import cond as mkcond
        from parser.Wrappers import parse_formula

        facts = list(inp["facts"])
        sig = set(inp["signature"])
        # which atoms does a fact mention (by the definition of the CL syntax: identifiers)
        unknown = unknown_in(facts, sig)
        try:
            obj = _mk_obj(bb, inp, facts=facts)
            err = None
        except ValueError as e:
            obj, err = None, str(e)
        except Exception as e:  # noqa
            return 1, [("exception", "ranking object or ValueError", _exc(e))]
        ev += 1
        if unknown:
            if err is None:
                bad.append(("unknown-variable-not-refused", f"ValueError naming {unknown}", "constructed"))
            elif not all(u in err for u in unknown):
                bad.append(("unknown-variable-message", f"ValueError naming {unknown}", err))
            return ev, bad
        # augmented base: (Bottom | !fact) keyed after the highest key
        aug = dict(conds)
        nk = max(aug, default=0)
        fact_keys = []
        for f in facts:
            nk += 1
            c = mkcond("Bottom", f"!({f})")
            c.index = nk
            aug[nk] = c
            fact_keys.append(nk)
        sem = Sem(aug, [], inp["signature"])
        semb = Sem(conds, [], inp["signature"])
        # facts given and extended unspecified -> extended semantics; extended=False -> strict
        ext = inp["extended"] is not False if facts else bool(inp["extended"])
        pe = (partition_extended if ext else partition_strict)(sem.keys, sem.ver, sem.fal, sem.U)
        if pe is None:
            if not facts:
                # no facts: construction of an inconsistent base is outside the property
                return 0, []
            fm = sem.U
            for f in facts:
                fm = fm & sem.mod(parse_formula(f))
            pbe = partition_extended(semb.keys, semb.ver, semb.fal, semb.U)
            pbs = partition_strict(semb.keys, semb.ver, semb.fal, semb.U)
            flags = {"facts_consistent": bool(fm), "combination_consistent": False}
            if ext:
                flags["belief_base_weakly_consistent"] = pbe is not None
                flags["belief_base_consistent"] = pbe is not None and len(pbe[-1]) == 0
            else:
                flags["belief_base_consistent"] = pbs is not None
            if err is None:
                bad.append(("unsatisfiable-combination-not-refused", "ValueError with diagnostics", "constructed"))
            else:
                missing = [f"{k}={v}" for k, v in flags.items() if f"{k}={v}" not in err]
                if missing:
                    bad.append(("refusal-without-diagnostics", [f"{k}={v}" for k, v in flags.items()], err))
            return ev, bad
        if err is not None:
            bad.append(("satisfiable-combination-refused", "ranking object", "ValueError: " + err[:300]))
            return ev, bad
        ans = Answers(sem, ext)
        want, top = _expected_ranks(ans, sem, order)
        bits = _bits(sem, order)
        try:
            if inp.get("order"):
                got = {}
                for w in inp["order"]:
                    got[w] = obj.rank_world(w)
                    ev += 1
                forced = {w: obj.rank_world(w, force_calculation=True) for w in inp["order"]}
            else:
                got = obj.compute_all_ranks()
                forced = got
                ev += 1
            table = dict(obj.ranks)
        except Exception as e:  # noqa
            return ev + 1, [("exception", want, _exc(e))]
        if got != want or forced != want or table != want:
            bad.append(("facts-rank", want, got if got != want else (forced if forced != want else table)))
        viol = [bits[w] for w in sem.U if any(w in sem.fal[k] for k in fact_keys)]
        notop = {w: got.get(w) for w in viol if got.get(w) != top}
        if notop:
            bad.append(("fact-violator-not-top", {w: top for w in notop}, notop))
        # base conditionals outside the infinity layer of the augmented base are accepted
        inf = set(ans.inf_layer)
        try:
            acc = {str(k): bool(obj.conditional_acceptance(c)) for k, c in conds.items() if k not in inf}
            ev += len(acc)
        except Exception as e:  # noqa
            return ev + 1, bad + [("exception", None, _exc(e))]
        wrong = {k: v for k, v in acc.items() if v is not True}
        if wrong:
            bad.append(("base-conditional-not-accepted", {k: True for k in wrong}, wrong))
        return ev, bad

    raise ValueError(f"checker: unknown check {check}")


def _violation(inp, kind, expected, observed):
    return {"module": MODULE, "kind": kind, "input": inp, "expected": expected, "observed": observed}


def replay(v):
    ev, bad = judge(v["input"])
    same = [b for b in bad if b[0] == v["kind"]]
    return {
        "violates": bool(same),
        "kinds": [b[0] for b in bad],
        "expected": same[0][1] if same else None,
        "observed": same[0][2] if same else None,
    }


# ---------------------------------------------------------------------------
# worker: one base -> all its checks
# ---------------------------------------------------------------------------
def _fp(*parts):
    return hashlib.sha1(json.dumps(parts, default=str, sort_keys=True).encode()).hexdigest()[:16]


def _case(args):
    sig, bb_sig, cond_texts, query_texts, fact_lists, all_orders, n_orders, seed = args
    from oracle.core import Answers, Sem
    from oracle.gen import cond as mkcond

    rng = random.Random(seed)
    out = {"evaluations": 0, "fingerprints": [], "violations": [], "rejected": False}
    base = {"signature": list(sig), "bb_signature": list(bb_sig), "conditionals": {str(k): f"({b}|{a})" for k, (b, a) in cond_texts.items()}}
    conds, bb, order = _build(base)
    queries = [mkcond(b, a) for (b, a) in query_texts]
    sem = Sem(conds, [], sig)
    semq = Sem(conds, [f for q in queries for f in (q.antecedence, q.consequence)], sig)  # queries may mention further atoms
    fp_base = tuple(sorted((tuple(sorted(sem.ver[k])), tuple(sorted(sem.fal[k]))) for k in sem.keys))
    bits = _bits(sem, order)
    worlds = [bits[w] for w in sorted(sem.U)]

    def do(inp, fp):
        ev, bad = judge(inp)
        out["evaluations"] += ev
        if ev:
            out["fingerprints"].append(fp)
        for kind, exp, obs in bad:
            out["violations"].append(_violation(inp, kind, exp, obs))

    any_mode = False
    for mode in ("strict", "extended"):
        ans = Answers(sem, mode == "extended")
        if not _has_ranking(ans):
            continue
        any_mode = True
        ext_flag = True if mode == "extended" else rng.choice([None, False])
        cfg = dict(base, mode=mode, extended=ext_flag, pass_signature=rng.random() < 0.3)
        if all_orders and len(worlds) <= 4:
            orders = [list(p) for p in itertools.permutations(worlds)]
        else:
            orders = [rng.sample(worlds, len(worlds)) for _ in range(n_orders)]
            orders.append(rng.sample(worlds, rng.randint(1, len(worlds))))  # a partial order of computation
        for o in orders:
            do(dict(cfg, check="lazy-order", order=o), _fp(fp_base, mode, "order", o))
        do(dict(cfg, check="all-at-once"), _fp(fp_base, mode, "all"))
        do(dict(cfg, check="base-accept", precompute=rng.random() < 0.5), _fp(fp_base, mode, "base-accept"))
        ansq = Answers(semq, mode == "extended")
        qs = [q for q in queries if semq.q(q)[0] & ansq.feas][:6]
        if qs and conds:  # the operator refuses an empty base (C06), nothing to compare with
            do(
                dict(cfg, check="queries", queries=[str(q) for q in qs], precompute=rng.random() < 0.5),
                _fp(fp_base, mode, "queries", semq.sig, sorted((tuple(sorted(semq.q(q)[1])), tuple(sorted(semq.q(q)[2]))) for q in qs)),
            )
    out["rejected"] = not any_mode
    # facts (the base need not be consistent: the augmented base decides)
    for facts in fact_lists:
        for ext_flag in ((None, True, False) if facts else (True,)):
            if ext_flag is False and rng.random() < 0.5:
                continue
            inp = dict(base, check="facts", mode="extended" if ext_flag is not False else "strict", extended=ext_flag, facts=list(facts), pass_signature=rng.random() < 0.3)
            if facts and not unknown_in(facts, sig) and rng.random() < 0.25:
                inp["facts_as_fnode"] = True  # facts may be given as formula objects
            if rng.random() < 0.5:
                inp["order"] = rng.sample(worlds, len(worlds))
            do(inp, _fp(fp_base, "facts", ext_flag, facts, bool(inp.get("order"))))
    return out


# ---------------------------------------------------------------------------
# scopes
# ---------------------------------------------------------------------------
FACTS2 = [
    [],
    ["a"],
    ["!b"],
    ["!b", "a"],
    ["a", "b"],
    ["a;b"],
    ["a", "!a"],
    ["(a,b)", "!a"],
    ["!(a,b)"],
    ["(a;!b)", "b"],
    ["Top"],
    ["Bottom"],
    ["a", "Top"],
    ["c"],  # unknown variable
    ["a", "(b,zz)"],  # unknown variable
]


def _facts3(rng, sig):
    def lit():
        a = rng.choice(sig)
        return a if rng.random() < 0.6 else "!" + a

    r = rng.random()
    if r < 0.1:
        return []
    if r < 0.45:
        return [lit()]
    if r < 0.7:
        return [lit(), lit()]
    if r < 0.85:
        return [f"({lit()};{lit()})"]
    if r < 0.95:
        return [f"!({lit()},{lit()})", lit()]
    return [lit(), "q7"]  # unknown variable


SIZES = {"quick": (200, 100, 4, 3), "thorough": (None, 1000, None, 6)}


def _rekey(rng, cond_texts):
    """now and then other keys than 1..n (the ranking object is defined for any keys)"""
    if not cond_texts or rng.random() >= 0.15:
        return cond_texts
    ks = sorted(rng.sample(range(0, 10), len(cond_texts)))
    return {nk: v for nk, (_, v) in zip(ks, sorted(cond_texts.items()))}


def build_cases(tier, seed):
    rng = random.Random(seed)
    n2, n3, o2, o3 = SIZES[tier]
    exhaustive = n2 is None
    cases = []
    for sig, conds in s2_bases(rng, exhaustive, n2 or 0):
        qs = distinct_queries(s2_queries(rng, False, 14))
        bb_sig = list(sig) if rng.random() < 0.5 else list(reversed(sig))
        facts = rng.sample(FACTS2, 3)
        cases.append((list(sig), bb_sig, _rekey(rng, {k: split_text(str(c)) for k, c in conds.items()}), [split_text(str(q)) for q in qs], facts, exhaustive, o2 or 0, rng.randrange(10**9)))
    # the empty base: consistent, kz = 0 everywhere
    cases.append((list(ATOMS2), list(ATOMS2), {}, [split_text(str(q)) for q in distinct_queries(s2_queries(rng, False, 6))], [[], ["a"], ["a", "!a"]], exhaustive, o2 or 0, rng.randrange(10**9)))
    for _ in range(n3):
        sig, conds = s3_base(rng, consts=0.1)
        qs = [rnd_conditional(rng, sig, 2, 0.08) for _ in range(12)]
        if rng.random() < 0.2:  # a query mentioning an atom outside the signature
            qs.insert(0, rnd_conditional(rng, list(sig) + ["z"], 1, 0.0))
        qs = distinct_queries(qs)
        bb_sig = list(sig)
        if rng.random() < 0.5:
            rng.shuffle(bb_sig)
        facts = [_facts3(rng, sig) for _ in range(2)]
        cases.append((list(sig), bb_sig, _rekey(rng, {k: split_text(str(c)) for k, c in conds.items()}), [split_text(str(q)) for q in qs], facts, False, o3, rng.randrange(10**9)))
    return cases


def run(tier, seed):
    cases = build_cases(tier, seed)
    res = merge(pmap(_case, cases))
    exhaustive = SIZES[tier][0] is None
    res["scope"] = (
        f"S2 (atoms a,b; <=2 conditionals up to semantics) {'exhaustive 3402 bases, all 24 orders of lazy ranking' if exhaustive else 'seeded sample of 200 bases, 4 seeded orders + 1 partial'}"
        f" + S3 {SIZES[tier][1]} seeded bases (3-4 atoms, <=5 conditionals) with {SIZES[tier][3]} seeded orders + 1 partial; strict (extended None/False) and extended mode; "
        "forced recomputation, compute_all_ranks on a fresh object, acceptance of base conditionals, <=6 queries with feasible antecedent vs the real System Z operator and the definition; "
        "fact lists of 0-2 facts (literals, compounds, contradictory, constants, unknown variables) with extended None/True/False"
    )
    res["rule"] = (
        "one case = (semantic base, mode, order of lazy computation | all-at-once | base-accept | query set | fact list+extended flag); "
        "only bases accepted in the mode are ranked (non-trivial: every world's rank is compared literally); bases inconsistent in both modes only take part in the facts checks"
    )
    res["samples"] = [dict(signature=c[0], bb_signature=c[1], conditionals={str(k): f"({b}|{a})" for k, (b, a) in c[2].items()}, facts=c[4]) for c in cases[:2]] + [
        dict(signature=c[0], bb_signature=c[1], conditionals={str(k): f"({b}|{a})" for k, (b, a) in c[2].items()}, facts=c[4]) for c in cases[-1:]
    ]
    return res
