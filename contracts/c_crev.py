"""Contracts: inference/c_revision.py -- the constraint system of c-revision (C19, C17).

Specification vocabulary.  A compilation entry is a triple (rank, acc, rej): a world of prior rank
`rank` that verifies the OTHER conditionals `acc` and falsifies the others `rej`.  Under an
assignment s of integers to the symbols gamma+_i / gamma-_i its revised rank, without the
contribution of the conditional the entry belongs to, is

    TermOf(t, gpz, s) = rank + sum of gamma-_i over rej + (0 if gpz else sum of gamma+_i over acc)

(gpz = gamma_plus_zero: all gamma+ are 0).  For a conditional k with verifying entries V and
falsifying entries F the revised ranking accepts it iff
    gamma+_k + min_V TermOf  <  gamma-_k + min_F TermOf,    i.e.   gamma-_k - gamma+_k > mv_k - mf_k
with mv_k / mf_k the two minima (infinite for an empty list: no constraint if only F is empty,
unsatisfiable if V is empty).  RevCSP is that system for all keys plus gamma >= 0; Engine P proves
that the pysmt constraint list built by the real code holds under s exactly when RevCSP does.

The fixed_gamma_* maps are excluded by precondition: their handling is the open known finding
KF-C19-fixed-gamma (the fixed value is not used inside the other conditionals' sums).
"""
import z3

from contracts import c_cinf as CC
from pyvc import iterm as IT
from pyvc import logic as L
from pyvc.contract import Contract, LoopSpec
from pyvc.iterm import Asg, HoldAll, IsMinOf, LIForm, LITerm, asg, iv
from pyvc.logic import Forall, LInt
from pyvc.values import *  # noqa

GmName = IT.fstr_fun("gamma-_{}", [L.Int])
GpName = IT.fstr_fun("gamma+_{}", [L.Int])
SumGm = IT.named_sum("Gm", GmName)
SumGp = IT.named_sum("Gp", GpName)

TripleT = TTuple([TInt, TList(TInt), TList(TInt)])
TS_ = TripleT.sort()
rank_of, acc_of, rej_of = (TS_.accessor(0, i) for i in range(3))
LTr = L.list_theory(TS_)
DictTL = TDict(TList(TripleT))
ATL = z3.ArraySort(L.Int, LTr.sort)
DictLT = CC.DictLT
ALT = CC.ALT


def TermOf(t, gpz, s):
    return rank_of(t) + SumGm(rej_of(t), s, LInt.len(rej_of(t))) + z3.If(gpz, 0, SumGp(acc_of(t), s, LInt.len(acc_of(t))))


# TermsOK(R, TL, gpz): R is the list of pysmt terms of the entries TL, position by position
TermsOK = z3.Function("TermsOK", LITerm.sort, LTr.sort, L.Bool, L.Bool)
_R = z3.Const("_to_R", LITerm.sort)
_TL = z3.Const("_to_TL", LTr.sort)
_g = z3.Bool("_to_g")
_j = z3.Int("_to_j")
_s = z3.Const("_to_s", Asg)
_tw_j = z3.Function("TermsOK!wj", LITerm.sort, LTr.sort, L.Bool, L.Int)
_tw_s = z3.Function("TermsOK!ws", LITerm.sort, LTr.sort, L.Bool, Asg)
_ok = TermsOK(_R, _TL, _g)
L.TH.axiom([_R, _TL, _g], _ok, z3.Implies(_ok, LITerm.len(_R) == LTr.len(_TL)), "TermsOK.len")
_eq = iv(LITerm.at(_R, _j), _s) == TermOf(LTr.at(_TL, _j), _g, _s)
_rng = z3.And(0 <= _j, _j < LITerm.len(_R))
L.TH.axiom([_R, _TL, _g, _j, _s], [_ok, iv(LITerm.at(_R, _j), _s)], z3.Implies(z3.And(_ok, _rng), _eq), "TermsOK.elim")
L.TH.axiom([_R, _TL, _g, _j, _s], [_ok, SumGm(rej_of(LTr.at(_TL, _j)), _s, LInt.len(rej_of(LTr.at(_TL, _j))))], z3.Implies(z3.And(_ok, _rng), _eq), "TermsOK.elim2")
_wj, _ws = _tw_j(_R, _TL, _g), _tw_s(_R, _TL, _g)
L.TH.axiom(
    [_R, _TL, _g],
    _ok,
    z3.Implies(
        z3.Not(_ok),
        z3.Or(LITerm.len(_R) != LTr.len(_TL), z3.And(0 <= _wj, _wj < LITerm.len(_R), iv(LITerm.at(_R, _wj), _ws) != TermOf(LTr.at(_TL, _wj), _g, _ws))),
    ),
    "TermsOK.intro",
)

AllLETerm, _ = IT.defpred_all("AllLETerm", [L.Int, LTr.sort, L.Bool, Asg], lambda x: LTr.len(x[1]), lambda x, k: x[0] <= TermOf(LTr.at(x[1], k), x[2], x[3]), lambda x, k: LTr.at(x[1], k))
SomeGETerm, _ = IT.defpred_some("SomeGETerm", [L.Int, LTr.sort, L.Bool, Asg], lambda x: LTr.len(x[1]), lambda x, k: x[0] >= TermOf(LTr.at(x[1], k), x[2], x[3]), lambda x, k: LTr.at(x[1], k))


def IsMinTerm(m, TL, gpz, s):
    return z3.And(AllLETerm(m, TL, gpz, s), SomeGETerm(m, TL, gpz, s))


# --- _gamma: memoised Symbol(name, INT) -------------------------------------------------------
def _cache_inv(c):
    d = c._gamma_sym_cache if False else c._st.env["_gamma_sym_cache"]
    n = z3.Const("_gc_n", StrSort)
    mem, _w = L.mem_theory(StrSort)
    return [Forall([n], [mem(d.keys, n)], z3.Implies(mem(d.keys, n), z3.Select(d.val, n) == IT.i_sym(n)), "gamma.cache")]


Contract(
    "inference.c_revision:_gamma",
    params={"name": TStr},
    returns=TITerm,
    globals={"_gamma_sym_cache": TDict(TITerm, TStr)},
    module_inv=_cache_inv,
    ensures=lambda c, r: [r.t == IT.i_sym(c.name.t)],
    properties=["C19", "C17"],
    note="the module-level cache only memoises Symbol(name, INT): invariant `cache[n] is the symbol named n`, holds for the empty initial cache, re-established at exit; no other function of the module touches the cache (checked)",
)


# --- symbolize_minima_expression ------------------------------------------------------------
def _sym_outer(s, j, pre):
    m = s.minima
    p = z3.Int("_sy_p")
    if not isinstance(s.results, VDict):
        return [j == 0]
    r = s.results
    rng = z3.And(0 <= p, p < j)
    return [
        LInt.len(r.keys) == j,
        L.LForall([p], [LInt.at(r.keys, p)], z3.Implies(rng, LInt.at(r.keys, p) == LInt.at(m.keys, p)), "sy.keys.prefix"),
        Forall([p], [LInt.at(m.keys, p)], z3.Implies(rng, TermsOK(z3.Select(r.val, LInt.at(m.keys, p)), z3.Select(m.val, LInt.at(m.keys, p)), s.gamma_plus_zero.t)), "sy.terms"),
    ]


def _sym_inner(s, j, pre):
    r, r0 = s.results, pre.results
    q = z3.Int("_sy_q")
    a = z3.Const("_sy_a", Asg)
    k = z3.Int("_sy_k")
    R = z3.Select(r.val, s.index.t)
    return [
        r.keys == r0.keys,
        Forall([k], [z3.Select(r.val, k)], z3.Implies(k != s.index.t, z3.Select(r.val, k) == z3.Select(r0.val, k)), "sy.frame"),
        LITerm.len(R) == j,
        Forall([q, a], [iv(LITerm.at(R, q), a)], z3.Implies(z3.And(0 <= q, q < j), iv(LITerm.at(R, q), a) == TermOf(LTr.at(s.triple_list.t, q), s.gamma_plus_zero.t, a)), "sy.interim"),
    ]


def _sym_post(c, r):
    m = c.minima
    k = z3.Int("_sy_k2")
    return [
        r.keys == m.keys,
        Forall([k], [L.mem_Int(m.keys, k)], z3.Implies(L.mem_Int(m.keys, k), TermsOK(z3.Select(r.val, k), z3.Select(m.val, k), c.gamma_plus_zero.t)), "symbolize.terms"),
        Forall(
            [k],
            [LInt.at(m.keys, k)],
            z3.Implies(z3.And(0 <= k, k < LInt.len(m.keys)), TermsOK(z3.Select(r.val, LInt.at(m.keys, k)), z3.Select(m.val, LInt.at(m.keys, k)), c.gamma_plus_zero.t)),
            "symbolize.terms.by.position",
        ),
    ]


Contract(
    "inference.c_revision:symbolize_minima_expression",
    params={"minima": DictTL, "gamma_plus_zero": TBool},
    defaults={"gamma_plus_zero": lambda ex: VBool(False)},
    returns=DictLT,
    locals={"results": DictLT, "terms": TList(TITerm)},
    ensures=_sym_post,
    hints=lambda c, r: [LInt.ext_facts(r.keys, c.minima.keys)],
    loops={0: LoopSpec("for (index, triple_list) in minima.items()", _sym_outer), 1: LoopSpec("for triple in triple_list", _sym_inner)},
    properties=["C19", "C17"],
    fuel=8,
)


# --- encoding (module-level function of c_revision) -----------------------------------------
GamT = TTuple([TITerm, TITerm])
GS_ = GamT.sort()
gp_of, gm_of = GS_.accessor(0, 0), GS_.accessor(0, 1)
AG = z3.ArraySort(L.Int, GS_)
MvName, MfName = CC.MvName, CC.MfName


def _renc_body(k, gam, vS, fS, a):
    """no constraint if the conditional is verified somewhere and falsified nowhere; otherwise mv / mf
    are the minima of its term lists and (gamma-) - (gamma+) exceeds mv - mf"""
    mv, mf = asg(a, MvName(k)), asg(a, MfName(k))
    g = z3.Select(gam, k)
    return z3.Implies(
        z3.Not(z3.And(LITerm.len(z3.Select(vS, k)) > 0, LITerm.len(z3.Select(fS, k)) == 0)),
        z3.And(IsMinOf(mv, z3.Select(vS, k), a), IsMinOf(mf, z3.Select(fS, k), a), iv(gm_of(g), a) - iv(gp_of(g), a) > mv - mf),
    )


REncAll, _ = IT.defpred_all(
    "REncAll",
    [LInt.sort, AG, ALT, ALT, Asg, L.Int],
    lambda x: x[5],
    lambda x, p: _renc_body(LInt.at(x[0], p), x[1], x[2], x[3], x[4]),
    lambda x, p: LInt.at(x[0], p),
)


def _renc_inv(s, j, pre):
    a = z3.Const("_re_a", Asg)
    csp = s.csp.t if isinstance(s.csp, VList) else LIForm.nil
    return [Forall([a], [HoldAll(csp, a)], HoldAll(csp, a) == REncAll(s.gammas.keys, s.gammas.val, s.vSums.val, s.fSums.val, a, j), "rev.encoding.inv")]


def _renc_post(c, r):
    a = z3.Const("_re_a2", Asg)
    return IT.both([a], HoldAll(r.t, a), REncAll(c.gammas.keys, c.gammas.val, c.vSums.val, c.fSums.val, a, LInt.len(c.gammas.keys)), "rev.encoding.meaning")


Contract(
    "inference.c_revision:encoding",
    params={"gammas": TDict(GamT), "vSums": DictLT, "fSums": DictLT},
    returns=TList(TIForm),
    locals={"csp": TList(TIForm)},
    requires=lambda c: [CC._keys_in(c.gammas.keys, [c.vSums.keys, c.fSums.keys], "renc")],
    ensures=_renc_post,
    loops={0: LoopSpec("for (index, gamma) in gammas.items()", _renc_inv)},
    properties=["C19", "C17"],
    fuel=7,
)


# --- translate_to_csp -----------------------------------------------------------------------
CompT = TTuple([DictTL, DictTL])
LG = L.list_theory(GS_)


def _rev_body(k, vT, fT, gpz, a):
    mv, mf = asg(a, MvName(k)), asg(a, MfName(k))
    gm, gp = asg(a, GmName(k)), z3.If(gpz, 0, asg(a, GpName(k)))
    V, F = z3.Select(vT, k), z3.Select(fT, k)
    return z3.And(
        gm >= 0,
        gp >= 0,
        z3.Implies(z3.Not(z3.And(LTr.len(V) > 0, LTr.len(F) == 0)), z3.And(IsMinTerm(mv, V, gpz, a), IsMinTerm(mf, F, gpz, a), gm - gp > mv - mf)),
    )


# RevCSP(keys, vT, fT, gpz, a): the constraint system of the revision (module docstring)
RevCSP, _ = IT.defpred_all(
    "RevCSP",
    [LInt.sort, ATL, ATL, L.Bool, Asg],
    lambda x: LInt.len(x[0]),
    lambda x, p: _rev_body(LInt.at(x[0], p), x[1], x[2], x[3], x[4]),
    lambda x, p: LInt.at(x[0], p),
)


def _nn_body(g, a):
    return z3.And(z3.Implies(IT.is_sym(gp_of(g)), iv(gp_of(g), a) >= 0), z3.Implies(IT.is_sym(gm_of(g)), iv(gm_of(g), a) >= 0))


NonNegUpTo, _ = IT.defpred_all("NonNegUpTo", [LG.sort, Asg, L.Int], lambda x: x[2], lambda x, p: _nn_body(LG.at(x[0], p), x[1]), lambda x, p: LG.at(x[0], p))


def _falsy(v):
    """None or an empty dict"""
    return z3.Or(v.isnone, LInt.len(v.val.keys) == 0)


def _tt_pre(c):
    v, f = c.compilation.items
    return [CC._keys_in(v.keys, [f.keys], "tt"), _falsy(c.fixed_gamma_plus), _falsy(c.fixed_gamma_minus)]


def _gam_def(gam_val, k, gpz):
    g = z3.Select(gam_val, k)
    return z3.And(gp_of(g) == z3.If(gpz, IT.i_const(z3.IntVal(0)), IT.i_sym(GpName(k))), gm_of(g) == IT.i_sym(GmName(k)))


def _tt_inv0(s, j, pre):
    v = s.compilation.items[0]
    p = z3.Int("_tt_p")
    if not isinstance(s.gammas, VDict):
        return [j == 0]
    g = s.gammas
    rng = z3.And(0 <= p, p < j)
    return [
        LInt.len(g.keys) == j,
        L.LForall([p], [LInt.at(g.keys, p)], z3.Implies(rng, LInt.at(g.keys, p) == LInt.at(v.keys, p)), "tt.keys.prefix"),
        L.LForall([p], [LInt.at(v.keys, p)], z3.Implies(rng, LInt.at(g.keys, p) == LInt.at(v.keys, p)), "tt.keys.prefix2"),
        L.LForall([p], [LInt.at(v.keys, p)], z3.Implies(rng, _gam_def(g.val, LInt.at(v.keys, p), s.gamma_plus_zero.t)), "tt.gammas"),
    ]


def _tt_inv1(s, j, pre):
    a = z3.Const("_tt_a", Asg)
    g = s.gammas
    vals = L.values_of(GS_)(g.keys, g.val)
    t = s.gteZeros.t if isinstance(s.gteZeros, VList) else LIForm.nil
    return IT.both([a], HoldAll(t, a), NonNegUpTo(vals, a, j), "tt.nonneg")


def _tt_post(c, r):
    v, f = c.compilation.items
    a = z3.Const("_tt_a2", Asg)
    return IT.iff2([a], HoldAll(r.t, a), RevCSP(v.keys, v.val, f.val, c.gamma_plus_zero.t, a), "translate_to_csp.meaning")


Contract(
    "inference.c_revision:translate_to_csp",
    params={"compilation": CompT, "gamma_plus_zero": TBool, "fixed_gamma_plus": TOptional(TDict(TInt)), "fixed_gamma_minus": TOptional(TDict(TInt))},
    defaults={"gamma_plus_zero": lambda ex: VBool(False), "fixed_gamma_plus": lambda ex: VNone(), "fixed_gamma_minus": lambda ex: VNone()},
    returns=TList(TIForm),
    locals={"gammas": TDict(GamT), "gteZeros": TList(TIForm)},
    requires=_tt_pre,
    ensures=_tt_post,
    hints=lambda c, r: [LInt.ext_facts(c.gammas.keys, c.compilation.items[0].keys)],
    abstractions={
        "getattr(gamma_plus, 'is_symbol', lambda: False)()": (lambda s: VBool(IT.is_sym(s.gamma_plus.t)), "TB-ifml: FNode.is_symbol() holds exactly for Symbol nodes"),
        "getattr(gamma_minus, 'is_symbol', lambda: False)()": (lambda s: VBool(IT.is_sym(s.gamma_minus.t)), "TB-ifml: as above"),
    },
    loops={0: LoopSpec("for i in compilation[0].keys()", _tt_inv0), 1: LoopSpec("for (gamma_plus, gamma_minus) in gammas.values()", _tt_inv1)},
    properties=["C19", "C17"],
    fuel=8,
    note="precondition: no fixed_gamma_* values (their treatment is the open finding KF-C19-fixed-gamma); keys of the verification compilation are keys of the falsification compilation",
)
