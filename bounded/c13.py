"""Engine B for C13: answers are independent of batching, history and parallel evaluation.

Oracle-free and relational: the reference answer of a query is the answer the real
manager gives when the query is asked ALONE on a FRESH manager; every row of every
call of a history on ONE manager is compared with that reference and with the
submitted (key, text) pair; leftover child processes are looked for after each call.
"""
from __future__ import annotations

import hashlib
import json
import multiprocessing as mp
import os
import random

from .common import BeliefBase, Queries, merge, pmap, rnd_conditional, s3_base, split_text, texts_of

CONFIGS = [
    ("p-entailment", "rc2"),
    ("system-z", "rc2"),
    ("system-w", "rc2"),
    ("system-w", "z3"),
    ("lex_inf", "rc2"),
    ("lex_inf", "z3"),
    ("c-inference", "rc2"),
]

BIRDS_SIG = ["b", "p", "f", "w"]
BIRDS = {1: ("f", "b"), 2: ("!f", "p"), 3: ("b", "p"), 4: ("w", "b")}
BIRDS_POOL = [("f", "p"), ("w", "p"), ("!f", "(p,b)"), ("b", "f"), ("w", "(b,!f)"), ("f", "b"), ("!w", "p")]

ODD_KEYS = [7, 3, 100, 0, -2]
JUDGED = ("index", "result", "query", "inference_timed_out", "preprocessing_timed_out")


# ---------------------------------------------------------------------------
# process bookkeeping
# ---------------------------------------------------------------------------
def _proc_children():
    """{pid: state} of the processes whose parent is this process (incl. zombies); None if /proc is unusable"""
    me = os.getpid()
    out = {}
    try:
        names = os.listdir("/proc")
    except OSError:
        return None
    for d in names:
        if not d.isdigit():
            continue
        try:
            with open(f"/proc/{d}/stat") as fh:
                s = fh.read()
        except OSError:
            continue
        r = s.rfind(")")
        f = s[r + 2 :].split()
        if int(f[1]) != me:
            continue
        try:
            with open(f"/proc/{d}/cmdline") as fh:
                cmd = fh.read().replace("\0", " ")
        except OSError:
            cmd = ""
        if "resource_tracker" in cmd:
            continue  # multiprocessing's bookkeeping helper, not a worker
        out[int(d)] = f[0]
    return out


def _allow_children():
    """pool workers are daemonic and may not fork; multi_inference forks one process per query"""
    cfg = mp.current_process()._config
    old = cfg.get("daemon")
    cfg["daemon"] = False
    return old


def _restore_children(old):
    cfg = mp.current_process()._config
    if old is None:
        cfg.pop("daemon", None)
    else:
        cfg["daemon"] = old


# ---------------------------------------------------------------------------
# one call on a manager, judged
# ---------------------------------------------------------------------------
def _mk(text_pair):
    from oracle.gen import cond as mkcond

    return mkcond(*text_pair)


def _txt(pair):
    return f"({pair[0]}|{pair[1]})"


def _call(manager, batch, multi, before=None):
    """batch: list of (key, (b, a)); before: children that existed before the history; returns dict(rows=, exc=, leftover=)"""
    qd = {}
    for k, pair in batch:
        qd[k] = _mk(pair)
    if before is None:
        before = _proc_children(), {c.pid for c in mp.active_children()}
    before, before_active = before
    old = _allow_children() if multi else None
    out = {"rows": None, "exc": None, "leftover": []}
    try:
        df = manager.inference(Queries(qd), multi_inference=multi)
        rows = []
        for _, r in df.iterrows():
            rows.append(
                [
                    _plain(r["index"]),
                    _plain(r["result"]),
                    str(r["query"]),
                    _plain(r["inference_timed_out"]),
                    _plain(r["preprocessing_timed_out"]),
                ]
            )
        out["rows"] = rows
    except Exception as e:  # noqa  (a refusal would have shown in the alone runs; here every exception counts)
        out["exc"] = f"{type(e).__name__}: {e}"
    finally:
        if multi:
            _restore_children(old)
    after = _proc_children()
    left = []
    if before is not None and after is not None:
        left = [f"pid {p} state {s}" for p, s in after.items() if p not in before]
    # (active_children also reaps finished children, hence after the /proc scan)
    live = [f"active {c.name}" for c in mp.active_children() if c.pid not in before_active]
    out["leftover"] = left + live
    return out


def _plain(x):
    try:
        import numpy as np

        if isinstance(x, np.generic):
            x = x.item()
    except Exception:  # noqa
        pass
    if isinstance(x, (bool, int, str)) or x is None:
        return x
    if isinstance(x, float) and x == x and abs(x) < 2**62 and x == int(x):
        return int(x)
    return repr(x)


def _judge_call(batch, got, ref):
    """compare one call with the submitted batch and the alone answers.

    returns (kind or None, discrepancies, carve_out or None)"""
    disc = []
    if got["exc"] is not None:
        return "exception", [dict(what="exception", observed=got["exc"])], None
    rows = got["rows"]
    texts = [_txt(p) for _, p in batch]
    if len(rows) != len(batch):
        disc.append(dict(what="row-count", expected=len(batch), observed=len(rows)))
    for i, ((key, pair), text) in enumerate(zip(batch, texts)):
        if i >= len(rows):
            break
        idx, res, qtext, ito, pto = rows[i]
        if qtext != text:
            disc.append(dict(what="row-text", row=i, expected=text, observed=qtext))
        if idx != key or isinstance(idx, bool):
            disc.append(dict(what="row-index", row=i, expected=key, observed=idx))
        if res is not ref[text]:
            disc.append(dict(what="wrong-answer", row=i, query=text, expected=ref[text], observed=res))
        if ito is not False or pto is not False:
            disc.append(dict(what="timeout-flag-without-budget", row=i, observed=[ito, pto]))
    for x in got["leftover"]:
        disc.append(dict(what="leftover-children", observed=x))
    if not disc:
        return None, [], None
    order = ["row-count", "row-text", "wrong-answer", "timeout-flag-without-budget", "leftover-children", "row-index"]
    kind = min((d["what"] for d in disc), key=order.index)
    carve = None
    dup_texts = {t for t in texts if texts.count(t) > 1}
    if dup_texts and all(
        d["what"] == "row-index"
        and texts[d["row"]] in dup_texts
        and d["observed"] in [k for (k, _), t in zip(batch, texts) if t == texts[d["row"]]]
        for d in disc
    ):
        carve = "duplicate-texts"
    return kind, disc, carve


# ---------------------------------------------------------------------------
# histories
# ---------------------------------------------------------------------------
def _histories(rng, pool, parallel, long=False):
    """pool: list of distinct (b, a); returns {shape: [ {queries:[[key,[b,a]]...], multi:bool} ... ]}"""
    n = min(5, len(pool))
    base = pool[:n]
    std = [(i + 1, p) for i, p in enumerate(base)]
    h = {}
    h["repeat"] = [(std, False), (std, False)]
    p1, p2 = std[:], std[:]
    rng.shuffle(p1)
    rng.shuffle(p2)
    h["permute"] = [(std, False), (p1, False), (list(reversed(std)), False), (p2, False)]
    # re-keyed permutation: same texts, keys follow the new positions
    h["permute-rekeyed"] = [(std, False), ([(i + 1, p) for i, (_, p) in enumerate(p1)], False)]
    a = [(i + 1, p) for i, p in enumerate(pool[: max(1, len(pool) // 2)])]
    b = [(i + 1, p) for i, p in enumerate(pool[len(pool) // 2 :][:5])] or a
    mixed = [(i + 1, p) for i, p in enumerate((pool[::2] + pool[1::2])[:5])]
    h["interleave"] = [(a, False), (b, False), (mixed, False), (b, False), (a, False)]
    odd = [(ODD_KEYS[i], p) for i, p in enumerate(base)]
    h["odd-keys"] = [(odd, False), (std, False), (odd, False)]
    big = [(rng.choice([-1, 1]) * rng.randrange(10**6), p) for p in base]
    if len({k for k, _ in big}) == len(big):
        h["random-keys"] = [(big, False), (big, False)]
    h["alone-then-batch"] = [([(1, p)], False) for p in base[:3]] + [(std, False)] + [([(9, base[-1])], False)]
    d0 = base[0]
    dup = [(1, d0), (2, base[-1]), (3, d0)] if n > 1 else [(1, d0), (2, d0)]
    h["dup-texts"] = [(dup, False), ([(1, d0)], False), (dup, False)]
    if n > 2:
        dup2 = [(5, base[1]), (4, base[1]), (3, base[2]), (2, base[1]), (1, base[0])]
        h["dup-texts-3"] = [(dup2, False)]
    if long:
        # many calls on one manager: the id pool / cached CNFs keep growing between calls
        calls = []
        for _ in range(12):
            sub = rng.sample(pool, rng.randint(1, min(4, len(pool))))
            keys = rng.sample(range(-5, 40), len(sub))
            calls.append(([(k, p) for k, p in zip(keys, sub)], False))
        h["long"] = calls + [(std, False)]
    if parallel:
        h["par-vs-seq"] = [(std, False), (std, True), (std, True), (std, False)]
        h["par-first"] = [(p1, True), (p1, False)]
        h["par-odd-keys"] = [(odd, True), (odd, False)]
        h["par-dup-texts"] = [(dup, True), (dup, False)]
    return {k: [dict(queries=[[key, list(p)] for key, p in batch], multi=m) for batch, m in v] for k, v in h.items()}


def _run_history(sig, conds, system, pm, weakly, history, ref=None):
    """execute a history on one fresh manager; returns (list of violation dicts (kind, call, ...), evaluations, ref)"""
    from inference.inference_manager import InferenceManager

    bb = BeliefBase(list(sig), dict(conds), "c13")
    if ref is None:
        ref = {}
    for call in history:
        for _, pair in call["queries"]:
            t = _txt(pair)
            if t not in ref:
                m = InferenceManager(bb, system, pmaxsat_solver=pm, weakly=weakly)
                df = m.inference(Queries({1: _mk(pair)}))
                assert len(df) == 1
                ref[t] = _plain(df["result"].tolist()[0])
    manager = InferenceManager(BeliefBase(list(sig), dict(conds), "c13"), system, pmaxsat_solver=pm, weakly=weakly)
    found = []
    evals = 0
    seen = {}
    before = _proc_children(), {c.pid for c in mp.active_children()}
    for ci, call in enumerate(history):
        batch = [(k, tuple(p)) for k, p in call["queries"]]
        got = _call(manager, batch, call["multi"], before)
        evals += 1
        kind, disc, carve = _judge_call(batch, got, ref)
        if kind:
            v = dict(kind=kind, call=ci, multi=call["multi"], discrepancies=disc, rows=got["rows"])
            if carve:
                v["carve_out"] = carve
            found.append(v)
        # the same batch asked before on this manager: the judged columns must agree literally
        sig_batch = json.dumps(call["queries"])
        if got["rows"] is not None:
            if sig_batch in seen:
                pci, pmulti, prows = seen[sig_batch]
                if prows != got["rows"]:
                    found.append(
                        dict(
                            kind="parallel-differs" if pmulti != call["multi"] else "later-call-differs",
                            call=ci,
                            multi=call["multi"],
                            discrepancies=[dict(what="call-differs", earlier_call=pci, expected=prows, observed=got["rows"])],
                            rows=got["rows"],
                        )
                    )
            else:
                seen[sig_batch] = (ci, call["multi"], got["rows"])
    return found, evals, ref


def _base_id(sig, cond_texts):
    return hashlib.sha1(json.dumps([list(sig), sorted((str(k), list(v)) for k, v in cond_texts.items())]).encode()).hexdigest()[:12]


def _case(args):
    sig, cond_texts, system, pm, weakly, pool, seed, parallel, long = args
    from inference.inference_manager import InferenceManager
    from oracle.gen import cond as mkcond

    conds = {}
    for k, (b, a) in cond_texts.items():
        c = mkcond(b, a)
        c.index = k
        conds[k] = c
    out = {"evaluations": 0, "fingerprints": [], "violations": [], "rejected": False}
    # refusal (inconsistent base for this mode): not C13's business
    try:
        InferenceManager(BeliefBase(list(sig), dict(conds), "c13"), system, pmaxsat_solver=pm, weakly=weakly).inference(
            Queries({1: _mk(pool[0])})
        )
    except AssertionError:
        out["rejected"] = True
        return out
    rng = random.Random(seed)
    ref = {}
    bid = _base_id(sig, cond_texts)
    for shape, history in _histories(rng, pool, parallel, long).items():
        found, evals, ref = _run_history(sig, conds, system, pm, weakly, history, ref)
        out["evaluations"] += evals
        answers = {ref[_txt(p)] for call in history for _, p in call["queries"]}
        if len(history) >= 2 or len(history[0]["queries"]) >= 2:
            if answers == {True, False}:
                out["fingerprints"].append((bid, system, pm, weakly, shape))
        for f in found:
            v = dict(
                module="c13",
                kind=f["kind"],
                input=dict(
                    signature=list(sig),
                    conditionals={str(k): list(t) for k, t in cond_texts.items()},
                    system=system,
                    pmaxsat=pm,
                    weakly=weakly,
                    shape=shape,
                    history=history,
                    call=f["call"],
                ),
                expected=dict(
                    rows=[[k, ref[_txt(p)], _txt(p)] for k, p in history[f["call"]]["queries"]],
                    note="[key, answer when asked alone on a fresh manager, text] per submitted query, in submission order",
                ),
                observed=dict(rows=f["rows"], discrepancies=f["discrepancies"]),
            )
            if "carve_out" in f:
                v["carve_out"] = f["carve_out"]
            out["violations"].append(v)
    return out


def _pool_for(rng, sig, conds):
    """query pool: some conditionals of the base (usually accepted) + random ones (usually not) + a self-fulfilling one"""
    texts = list(texts_of(conds).values())
    rng.shuffle(texts)
    pool = [tuple(t) for t in texts[:2]]
    tries = 0
    while len(pool) < 6 and tries < 50:
        tries += 1
        q = split_text(str(rnd_conditional(rng, sig, 2, 0.05)))
        if q not in pool:
            pool.append(q)
    a = rng.choice(sig)
    if (a, a) not in pool:
        pool.append((a, a))
    rng.shuffle(pool)
    return pool


def run(tier, seed):
    rng = random.Random(seed)
    thorough = tier == "thorough"
    from inference.consistency_sat import consistency

    n_bases = 100 if thorough else 12
    par_every = 2 if thorough else 4
    cases = []
    long_every = 1 if thorough else 3
    bases = [(BIRDS_SIG, dict(BIRDS), list(BIRDS_POOL), True)]
    skipped = 0
    weak_only = 0
    while len(bases) <= n_bases and skipped < 200 * n_bases:
        sig, conds = s3_base(rng, consts=0.06)
        bb = BeliefBase(list(sig), dict(conds), "c13")
        # bases every mode refuses are skipped here (the per-mode refusal is detected again in the worker);
        # bases only the extended mode accepts make up at most a third
        if consistency(bb, "z3", False)[0] is False:
            if consistency(bb, "z3", True)[0] is False or weak_only >= n_bases // 3:
                skipped += 1
                continue
            weak_only += 1
        bases.append((sig, texts_of(conds), _pool_for(rng, sig, conds), len(bases) % par_every == 0))
    for bi, (sig, ctexts, pool, par) in enumerate(bases):
        for weakly in (False, True):
            for system, pm in CONFIGS:
                if system == "c-inference" and weakly:
                    continue
                cases.append((sig, ctexts, system, pm, weakly, pool, rng.randrange(10**9), par, bi % long_every == 0))
    order = list(range(len(cases)))
    random.Random(seed + 1).shuffle(order)  # spread the expensive (parallel) cases over the pool
    res = merge(pmap(_case, [cases[i] for i in order]))
    res["scope"] = (
        f"birds base + {n_bases} seeded S3 bases (3-4 atoms, <=5 conditionals) x 7 operator/back-end pairs x strict/extended mode "
        f"(c-inference strict only); per case 9-10 sequential history shapes of 1-5 calls on one manager with batches of <=5 queries "
        f"(repeat, permuted, re-keyed, interleaved sets, keys {ODD_KEYS}, random keys, alone-then-batch, duplicate texts), for every "
        f"{long_every}. base a 13-call history of random sub-batches with random keys and, for the "
        f"birds base and every {par_every}th base, 4 shapes mixing multi_inference=True with sequential calls"
    )
    res["rule"] = (
        "reference = answer of the query asked alone on a fresh manager; every row of every call is compared with (key, text, reference, "
        "no timeout flag), identical batches asked again on the same manager must give literally the same judged columns, /proc is scanned "
        "for children (incl. zombies) after each call; a case (base, operator, back-end, mode, shape) is distinct by these five and "
        "non-trivial when its queries have both answers (a row mix-up would be visible)"
    )
    vs = res["violations"]
    res["samples"] = [
        dict(signature=c[0], conditionals={str(k): list(v) for k, v in c[1].items()}, system=c[2], pmaxsat=c[3], weakly=c[4], pool=[list(p) for p in c[5]])
        for c in cases[:2]
    ]
    res["extra"] = {
        "cases": res["cases"],
        "bases_skipped": skipped,
        "bases_accepted_in_extended_mode_only": weak_only,
        "carved_out_duplicate_texts": sum(1 for v in vs if v.get("carve_out") == "duplicate-texts"),
        "other_violations": sum(1 for v in vs if not v.get("carve_out")),
    }
    return res


def replay(v):
    from oracle.gen import cond as mkcond

    inp = v["input"]
    conds = {}
    for k, (b, a) in inp["conditionals"].items():
        c = mkcond(b, a)
        c.index = int(k)
        conds[int(k)] = c
    history = [dict(queries=[[k, list(p)] for k, p in call["queries"]], multi=bool(call["multi"])) for call in inp["history"]]
    try:
        found, _, ref = _run_history(inp["signature"], conds, inp["system"], inp["pmaxsat"], inp["weakly"], history)
    except AssertionError as e:
        return {"violates": False, "note": f"base refused: {e}"}
    same = [f for f in found if f["call"] == inp.get("call") and f["kind"] == v.get("kind")]
    out = {
        "violates": bool(found),
        "same_kind_same_call": bool(same),
        "found": [dict(kind=f["kind"], call=f["call"], carve_out=f.get("carve_out"), discrepancies=f["discrepancies"]) for f in found],
    }
    if found and all(f.get("carve_out") for f in found):
        out["carve_out"] = "duplicate-texts"
    return out
