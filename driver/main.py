"""check driver: Engine P obligations + Engine B bounded stand-in + known findings
-> verdict lines, replay files, evidence (DESIGN §4, §8)."""
from __future__ import annotations

import argparse
import hashlib
import json
import multiprocessing as mp
import os
import re
import sys
import time
import traceback

HERE = os.path.dirname(os.path.dirname(os.path.abspath(__file__)))
REPO = os.environ.get("INFOCF_REPO", "/repo")


SHARDS = 4  # obligations of slow functions (contract fuel >= 5) are discharged by 4 processes


def _verify_one(job):
    from pyvc import logic, run

    q, shard = job
    logic.CROSS_CHECK = os.environ.get("VERIF_CROSS") == "1"
    run.load_contracts()
    try:
        return run.verify_function(q, shard=shard)
    except BaseException as e:  # noqa
        return {"function": q, "status": "undecided", "reason": f"checker error {type(e).__name__}: {e}", "obligations": [], "trace": traceback.format_exc()[-2000:]}


def engine_p(prop):
    """verify every non-trusted contract that lists `prop`"""
    from pyvc import contract as C
    from pyvc import run

    run.load_contracts()
    from driver.props import PROPS

    props = [prop] + list(PROPS.get(prop, {}).get("p_also", []))
    quals = [q for q, c in C.REGISTRY.items() if any(p in c.properties for p in props) and not c.trusted]
    if not quals:
        return [], []
    jobs = []
    for q in quals:
        if C.get(q).fuel >= 5 or C.get(q).shards:
            n = max(SHARDS, C.get(q).shards or 0)
            jobs += [(q, (k, n)) for k in range(n)]
        else:
            jobs.append((q, None))
    jobs.sort(key=lambda j: 0 if j[1] else 1)  # slow shards first
    ctx = mp.get_context("fork")
    with ctx.Pool(min(16, len(jobs))) as pool:
        parts = pool.map(_verify_one, jobs, chunksize=1)
    # merge the shards of one function
    merged: dict = {}
    for r in parts:
        q = r["function"]
        if q not in merged:
            merged[q] = r
            continue
        m = merged[q]
        m["obligations"] = m["obligations"] + r["obligations"]
        order = {"failed": 3, "undecided": 2, "proved": 1, None: 0}
        if order[r["status"]] > order[m["status"]]:
            m["status"] = r["status"]
            if r.get("reason"):
                m["reason"] = r["reason"]
        if r.get("vacuity"):
            m["vacuity"] = r["vacuity"]
        for v in r.get("vacuity_failures", []) or []:
            m.setdefault("vacuity_failures", []).append(v)
        m["seconds"] = max(m.get("seconds") or 0, r.get("seconds") or 0)
    results = [merged[q] for q in quals]
    trusted = sorted(q for q, c in C.REGISTRY.items() if c.trusted)
    return results, trusted


def load_findings():
    out = []
    p = os.path.join(HERE, "known_findings.jsonl")
    if os.path.exists(p):
        for line in open(p):
            line = line.strip()
            if line:
                out.append(json.loads(line))
    return out


def safe(s):
    return re.sub(r"[^A-Za-z0-9_.#@-]+", "_", s)[:120]


def write_replay(prop, tag, payload):
    os.makedirs(os.path.join(HERE, "replays"), exist_ok=True)
    h = hashlib.sha1(json.dumps(payload, sort_keys=True, default=str).encode()).hexdigest()[:10]
    rel = f"replays/{prop}-{safe(tag)}-{h}.json"
    with open(os.path.join(HERE, rel), "w") as f:
        json.dump(payload, f, indent=1, default=str)
    return rel


def check_property(prop, tier, seed):
    from driver.props import PROPS

    t0 = time.time()
    spec = PROPS[prop]
    if tier == "thorough":
        os.environ["VERIF_CROSS"] = "1"
    findings = [f for f in load_findings() if f.get("status") == "open" and f["property"] == prop]
    lines = []
    violations = []
    crashed = []
    # ---------------- Engine P ----------------
    p_results, trusted_contracts = engine_p(prop)
    n_obl = sum(len(r["obligations"]) for r in p_results)
    n_ok = sum(1 for r in p_results for o in r["obligations"] if o["status"] == "proved")
    solver_s = round(sum((o.get("seconds") or 0) for r in p_results for o in r["obligations"]), 3)
    undecided = [r for r in p_results if r["status"] == "undecided"]
    failed = [(r, o) for r in p_results for o in r["obligations"] if o["status"] == "failed"]
    vac = [(r["function"], v) for r in p_results for v in r.get("vacuity_failures", [])]
    for r in undecided:
        lines.append(f"UNDECIDED property={prop} function={r['function']} reason={r.get('reason','solver')}"[:400])
    # thorough tier: the executor's self-test (toy functions with known verdicts; a wrong verdict is a checker failure)
    selftest = None
    if tier == "thorough":
        import subprocess

        try:
            pr = subprocess.run([sys.executable, "-m", "tools.engine_selftest"], cwd=HERE, capture_output=True, text=True, timeout=600)
            st_lines = [l for l in pr.stdout.splitlines() if l.startswith(("ok ", "BAD"))]
            selftest = {"cases": len(st_lines), "as_expected": sum(1 for l in st_lines if l.startswith("ok ")), "exit": pr.returncode}
            if pr.returncode != 0 or not st_lines:
                crashed.append("engine self-test: " + "; ".join(l for l in st_lines if l.startswith("BAD"))[:300] + (pr.stderr[-300:] if not st_lines else ""))
        except Exception as e:  # noqa: BLE001
            crashed.append(f"engine self-test could not run: {e!r}"[:300])
    # lemmas
    lemma_results = []
    if spec.get("lemmas"):
        from lemmas import zlemmas

        lemma_results = zlemmas.run(spec["lemmas"])
        for lr in lemma_results:
            n_obl += 1
            n_ok += lr["status"] == "proved"
            if lr["status"] != "proved":
                lines.append(f"UNDECIDED property={prop} lemma={lr['name']} status={lr['status']}")
    # ---------------- Engine B ----------------
    b = None
    if spec.get("bounded"):
        try:
            b = spec["bounded"](tier, seed)
        except BaseException as e:  # noqa
            crashed.append(f"Engine B crashed: {type(e).__name__}: {e}")
            traceback.print_exc()
    b_viol = list(b["violations"]) if b else []
    # ---------------- known findings ----------------
    known_lines = []
    for f in findings:
        from driver import findings as F

        rep = F.reproduces(f)
        if rep:
            known_lines.append(f["line"])
        b_viol = [v for v in b_viol if not F.matches(f, v)]
    # ---------------- verdict ----------------
    for r, o in failed:
        payload = {
            "property": prop,
            "kind": "failed-obligation",
            "obligation": o["name"],
            "function": r["function"],
            "source_sha256_16": r.get("source_sha256_16"),
            "goal": o.get("goal"),
            "solver": "z3 " + __import__("z3").get_version_string(),
            "solver_output": {"verdict": "sat (obligation not provable from the instantiated axioms)", "model": o.get("model"), "instances": o.get("instances"), "seconds": o.get("seconds")},
            "bounded_search": {"scope": b.get("scope") if b else None, "evaluations": b.get("evaluations") if b else 0, "violations_found": len(b_viol)},
            "failing_input": b_viol[0] if b_viol else None,
        }
        rel = write_replay(prop, o["name"].split(":", 1)[-1], payload)
        suffix = "" if b_viol else " no-failing-input-found"
        lines.append(f"VIOLATION property={prop} replay={rel}{suffix}")
        violations.append(rel)
    if not failed:
        seen = set()
        for v in b_viol[:5]:
            key = json.dumps(v.get("input"), sort_keys=True, default=str)
            if key in seen:
                continue
            seen.add(key)
            payload = {"property": prop, "kind": "bounded-counterexample", "failing_input": v}
            rel = write_replay(prop, v.get("kind", "input"), payload)
            lines.append(f"VIOLATION property={prop} replay={rel}")
            violations.append(rel)
    for kl in known_lines:
        lines.append(kl)
    # ---------------- evidence ----------------
    level = spec["level"]
    all_discharged = n_obl > 0 and n_ok == n_obl and not undecided
    if level == "proof" and not all_discharged:
        level = "other"
    from pyvc import contract as _C

    assumed_contracts = sorted(
        {q for r in p_results for q in (r.get("callee_contracts") or []) if _C.get(q) is not None and _C.get(q).trusted}
    )
    trusted_base = sorted(set(t for r in p_results for t in r.get("trusted_base", [])) | set(spec.get("trusted", [])))
    trusted_base += [f"assumed contract of {q}: {(_C.get(q).note or '').strip()[:160]}" for q in assumed_contracts]
    cov = {
        "obligations": n_obl,
        "discharged": n_ok,
        "checker_cmd": f"./check {prop} --tier {tier}  (Engine P: pyvc, z3 {__import__('z3').get_version_string()} python API, ground instantiation then QF decision)",
        "trusted_base": trusted_base + [f"assumed: {a}" for a in spec.get("assumed", [])],
        "functions_under_contract": [
            {
                "function": r["function"],
                "proof_status": r["status"],
                "reason": r.get("reason"),
                "obligations": len(r["obligations"]),
                "discharged": sum(1 for o in r["obligations"] if o["status"] == "proved"),
                "paths": r.get("paths"),
                "source_sha256_16": r.get("source_sha256_16"),
                "dropped_by_extraction": r.get("dropped"),
                "callee_contracts_used": r.get("callee_contracts"),
                "contract_local_axioms": r.get("local_axioms"),
                "global_axioms_excluded": r.get("excluded_axioms"),
                "extra_postcondition_derived_by_lemmas": r.get("derived_by"),
                "vacuity": r.get("vacuity"),
            }
            for r in p_results
        ],
        "lemmas": lemma_results,
        "solver_seconds": solver_s,
        "back_end": "z3 " + __import__("z3").get_version_string() + " (python API) decides the quantifier-free instances"
        + ("; every instance re-decided by /usr/bin/z3 4.8.12 via SMT-LIB export (disagreement = undecided)" if tier == "thorough" else "; second back end (z3 4.8.12 CLI) only in the thorough tier"),
        "cross_checked": sum(1 for r in p_results for o in r["obligations"] if o.get("cross") in ("sat", "unsat")),
        "explanation": spec["explanation"],
        "engine_selftest": selftest if selftest is not None else "thorough tier only (tools/engine_selftest.py)",
        "bounded": None,
    }
    if b:
        cov["bounded"] = {
            "label": "bounded stand-in (never counted as proved)",
            "scope": b.get("scope"),
            "evaluations": b.get("evaluations"),
            "distinct_nontrivial": len(b.get("fingerprints", [])),
            "rejected_bases": b.get("rejected"),
            "extra": b.get("extra"),
        }
        cov["evaluations"] = max(1, int(b.get("evaluations") or 0))
        cov["distinct_nontrivial"] = len(b.get("fingerprints", []))
        cov["rule"] = b.get("rule") or "cases are distinct by semantic fingerprint (base as multiset of (ver,fal) world sets, query (ver,fal), configuration); non-trivial = base accepted and the query is not decided by the trivial short cuts"
        cov["samples"] = b.get("samples") or []
        cov["exhaustive"] = bool(b.get("exhaustive_s2")) and False
    else:
        cov["samples"] = [o["name"] for r in p_results for o in r["obligations"]][:5]
    ev = {
        "property_id": prop,
        "tier": tier,
        "seed": seed,
        "level": level,
        "coverage": cov,
        "assumptions": spec.get("assumptions", []) + [f"trusted library contract {t}" for t in trusted_base] + [f"assumed lemma/theorem: {a}" for a in spec.get("assumed", [])],
        "wall_s": round(time.time() - t0, 2),
        "violations": len(violations),
        "known_findings_reported": known_lines,
        "undecided": [{"function": r["function"], "reason": r.get("reason")} for r in undecided],
    }
    os.makedirs(os.path.join(HERE, "evidence"), exist_ok=True)
    with open(os.path.join(HERE, "evidence", f"{prop}.json"), "w") as f:
        json.dump(ev, f, indent=1, default=str)
    for l in lines:
        print(l)
    print(f"[{prop}] tier={tier} engineP obligations {n_ok}/{n_obl} functions {len(p_results)} (undecided {len(undecided)}, failed {len(failed)}); "
          f"engineB evaluations {b.get('evaluations') if b else 0} violations {len(b_viol)}; wall {ev['wall_s']}s")
    if vac or crashed:
        for fn, v in vac:
            print(f"CHECKER-FAILURE vacuity guard: {fn}: {v}")
        for c in crashed:
            print(f"CHECKER-FAILURE {c}")
        return 3
    if violations:
        return 1
    if n_obl == 0 and not b:
        return 2
    return 0


def replay(path):
    from driver import findings as F

    d = json.load(open(path))
    v = d.get("failing_input")
    print(f"replay of {path}: property {d.get('property')} kind {d.get('kind')}")
    if d.get("kind") == "failed-obligation":
        print(f"  failed obligation: {d['obligation']} in {d['function']}")
        print(f"  solver: {d['solver']} -> {d['solver_output']['verdict']}")
    if not v:
        print("  no concrete failing input is stored (no-failing-input-found); re-run the check to re-decide the obligation")
        return 0
    still = F.rerun_violation(v)
    print("  input:", json.dumps(v.get("input"), default=str)[:800])
    print("  stored expected:", v.get("expected"), "stored observed:", v.get("observed"))
    print("  now:", still)
    return 1 if still.get("violates") else 0


def main(argv):
    if argv and argv[0] == "replay":
        return replay(argv[1])
    ap = argparse.ArgumentParser()
    ap.add_argument("prop")
    ap.add_argument("--tier", default=os.environ.get("VERIF_TIER", "quick"), choices=["quick", "thorough"])
    a = ap.parse_args(argv)
    seed = int(os.environ.get("VERIF_SEED", "20261004"))
    if a.prop == "all":
        from driver.props import PROPS

        rc = 0
        for p in PROPS:
            rc = max(rc, check_property(p, a.tier, seed))
        return rc
    return check_property(a.prop, a.tier, seed)
