"""Contracts: inference/tseitin_transformation.py -- constant_value, expr_to_signed_id, goal2intcnf
(C15; also what C04-m1 / C05-m1 / C12-m2 / C15-m2 of the seeded changes touch).

A goal is a list of z3 expressions (pyvc/zexpr.py: syntax trees with kinds, children, pool ids).
Specification: for EVERY assignment sg of truth values to ids
        the integer CNF returned by goal2intcnf holds under sg   <=>   every expression of the goal is true under sg
where an atom is as true as its id, constants are constants (they never get the truth value of an
id), Not negates and Or is true iff some child is.  Assumed: the goal is in the tactic's output
format (every clause is a literal or an Or of literals; a literal is an atom, a constant or the
negation of one) -- TB-tac; that this goal is equisatisfiable with the formula is TB-tac as well."""
import z3

from pyvc import iterm as IT
from pyvc import logic as L
from pyvc import zexpr as ZX
from pyvc.contract import Contract, LoopSpec
from pyvc.logic import Forall, LInt, LLInt
from pyvc.values import *  # noqa
from pyvc.zexpr import LZE, TZE, VZE, ZS, AnyTv, ClauseHolds, CnfHolds, GoalHolds, is_false, is_not, is_or, is_true, kids, lt, pid, tv


class _TPool(T):
    def fresh(self, name, st):
        v = VOpaque("IDPool", st.fresh_const(name, Opq))
        v.kind = "idpool"
        return v

    def sort(self):
        return Opq


TSE = TObj("TseitinTransformation", {"epistemic_state": TRec({"pool": _TPool()})})


def k0(e):
    return LZE.at(kids(e), 0)


def is_const(e):
    return z3.Or(is_true(e), is_false(e))


def is_const_lit(e):
    return z3.Or(is_const(e), z3.And(is_not(e), is_const(k0(e))))


def is_lit(e):
    """an atom, a constant, or the negation of one"""
    return z3.If(is_not(e), z3.And(z3.Not(is_not(k0(e))), z3.Not(is_or(k0(e)))), z3.Not(is_or(e)))


AllLits, _ = IT.defpred_all("z_AllLits", [LZE.sort, L.Int], lambda x: x[1], lambda x, k: is_lit(LZE.at(x[0], k)), lambda x, k: LZE.at(x[0], k))
IsCnfGoal, _ = IT.defpred_all(
    "z_IsCnfGoal",
    [LZE.sort, L.Int],
    lambda x: x[1],
    lambda x, k: z3.If(is_or(LZE.at(x[0], k)), AllLits(kids(LZE.at(x[0], k)), LZE.len(kids(LZE.at(x[0], k)))), is_lit(LZE.at(x[0], k))),
    lambda x, k: LZE.at(x[0], k),
)

# derived (lemmas/zlemmas.py): appending a clause / a literal
_cnf = z3.Const("_ts_cnf", LLInt.sort)
_cl = z3.Const("_ts_cl", LInt.sort)
_sg = z3.Const("_ts_sg", ZS)
_n = z3.Int("_ts_n")
_li = z3.Int("_ts_li")
TS_AXIOMS = [
    Forall(
        [_cnf, _cl, _sg, _n],
        [CnfHolds(LLInt.snoc(_cnf, _cl), _sg, _n)],
        z3.Implies(_n == LLInt.len(_cnf) + 1, CnfHolds(LLInt.snoc(_cnf, _cl), _sg, _n) == z3.And(CnfHolds(_cnf, _sg, LLInt.len(_cnf)), ClauseHolds(_cl, _sg, LInt.len(_cl)))),
        "CnfHolds.snoc",
    ),
    Forall(
        [_cl, _li, _sg, _n],
        [ClauseHolds(LInt.snoc(_cl, _li), _sg, _n)],
        z3.Implies(_n == LInt.len(_cl) + 1, ClauseHolds(LInt.snoc(_cl, _li), _sg, _n) == z3.Or(ClauseHolds(_cl, _sg, LInt.len(_cl)), lt(_li, _sg))),
        "ClauseHolds.snoc",
    ),
]


# --- constant_value -------------------------------------------------------------------------
def _cv_post(c, r):
    e = c.old.expr.t
    sg = z3.Const("_cv_sg", ZS)
    return [
        r.isnone == z3.Not(is_const_lit(e)),
        Forall([sg], [tv(e, sg)], z3.Implies(z3.Not(r.isnone), r.val.t == tv(e, sg)), "constant_value.meaning"),
    ]


Contract(
    "inference.tseitin_transformation:TseitinTransformation.constant_value",
    params={"self": TSE, "expr": TZE},
    returns=TOptional(TBool),
    ensures=_cv_post,
    properties=["C15", "C03", "C04", "C05"],
    note="None unless the literal is a (possibly negated) Boolean constant; otherwise its truth value",
)


# --- expr_to_signed_id ----------------------------------------------------------------------
Contract(
    "inference.tseitin_transformation:TseitinTransformation.expr_to_signed_id",
    params={"self": TSE, "expr": TZE},
    returns=TInt,
    ensures=lambda c, r: [r.t == z3.If(is_not(c.old.expr.t), -pid(k0(c.old.expr.t)), pid(c.old.expr.t))],
    properties=["C15", "C03", "C04", "C05"],
    note="the pool id of the expression under a negation, negated; of the expression itself otherwise",
)


# --- goal2intcnf ----------------------------------------------------------------------------
def _g_inner(s, j, pre):
    sg = z3.Const("_gi_sg", ZS)
    cl = s.clause.t if isinstance(s.clause, VList) else LInt.nil
    lhs = z3.Or(s.satisfied.t, ClauseHolds(cl, sg, LInt.len(cl)))
    rhs = AnyTv(s.literals.t, sg, j)
    return IT.both([sg], ClauseHolds(cl, sg, LInt.len(cl)), rhs, "g2i.clause", rhs_trigger=rhs) if False else [
        Forall([sg], [ClauseHolds(cl, sg, LInt.len(cl))], lhs == rhs, "g2i.clause"),
        _ao(Forall([sg], [rhs], lhs == rhs, "g2i.clause.r")),
    ]


def _ao(f):
    f.assume_only = True
    return f


def _g_outer(s, j, pre):
    sg = z3.Const("_go_sg", ZS)
    cnf = s.cnf.t if isinstance(s.cnf, VList) else LLInt.nil
    lhs, rhs = CnfHolds(cnf, sg, LLInt.len(cnf)), GoalHolds(s.goal.t, sg, j)
    return [Forall([sg], [lhs], lhs == rhs, "g2i.cnf"), _ao(Forall([sg], [rhs], lhs == rhs, "g2i.cnf.r"))]


def _g_post(c, r):
    sg = z3.Const("_gp_sg", ZS)
    lhs, rhs = CnfHolds(r.t, sg, LLInt.len(r.t)), GoalHolds(c.goal.t, sg, LZE.len(c.goal.t))
    return IT.iff2([sg], lhs, rhs, "goal2intcnf.meaning")


Contract(
    "inference.tseitin_transformation:TseitinTransformation.goal2intcnf",
    params={"self": TSE, "goal": TList(TZE)},
    returns=TList(TList(TInt)),
    locals={"cnf": TList(TList(TInt)), "clause": TList(TInt)},
    requires=lambda c: [IsCnfGoal(c.goal.t, LZE.len(c.goal.t))],
    ensures=_g_post,
    abstractions={"z3.BoolVal(False)": (lambda s: VZE(ZX.ZFALSE), "TB-zexpr: the constant False")},
    axioms=TS_AXIOMS,
    loops={0: LoopSpec("for expr in goal", _g_outer), 1: LoopSpec("for literal in literals", _g_inner)},
    properties=["C15", "C03", "C04", "C05", "C12"],
    fuel=5,
    note="the integer CNF holds under an assignment of truth values to ids exactly when every clause of the goal is true under it; constants never get an id's truth value",
)
