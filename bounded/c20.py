"""Engine B for C20: saved ranking functions and metadata reload to behaviourally identical objects.

Judged against the wording of the property:
  * the reference ("what the object means") is a never-saved twin built from the same description (for
    c-representations, whose constructor is not deterministic: the definition of the induced ranking applied to the
    vector the object under test carries, by truth tables); everything a
    loaded object shows (signature, ranks known at load, ranks after lazy continuation and completion, impacts,
    metadata, acceptance verdicts) is compared with the original as it was right before the save and with the twin;
  * load happens in the same process and in a fresh interpreter (this very file run as a script with PYTHONPATH=/repo,
    one sub-process per object, all its states batched);
  * impact vectors (files json/pickle, Python lists) and JSON-representable metadata must come back literally equal
    (type-aware: 1, 1.0 and True are different);
  * a save that fails must raise and leave the in-memory object unchanged (same attributes, the identical solver
    objects restored, same ranks/metadata) and usable (lazy continuation and acceptance agree with the twin, a later
    good save round-trips).
"""
from __future__ import annotations

import hashlib
import json
import os
import pathlib
import random
import subprocess
import sys
import tempfile
import warnings

os.environ.setdefault("INFOCF_LOGLEVEL", "CRITICAL")
warnings.filterwarnings("ignore")

_AS_SCRIPT = __name__ == "__main__"
if not _AS_SCRIPT:
    from .common import REPO, pmap, split_text

MODULE = "c20"
MARK = "C20RESULT "
SOLVER_ATTRS = ("_optimizer", "_csp")


# ---------------------------------------------------------------------------
# shared between the checker and the fresh interpreter (only /repo imports)
# ---------------------------------------------------------------------------
def _mk(b, a):
    from parser.Wrappers import parse_formula

    from inference.conditional import Conditional

    return Conditional(parse_formula(b), parse_formula(a), f"({b}|{a})")


def _base(sig, triples, name="c20"):
    from inference.belief_base import BeliefBase

    cs = {}
    for k, b, a in triples:
        c = _mk(b, a)
        c.index = int(k)
        cs[int(k)] = c
    return BeliefBase(list(sig), cs, name)


def _jsonable(x):
    return json.loads(json.dumps(x, default=repr))


def _canon(x):
    """type-aware canonical text (True != 1 != 1.0)"""
    return json.dumps(x, sort_keys=True, default=repr)


def _facets(o, meta=True):
    """everything observable about a ranking object without computing anything"""
    d = o.__dict__
    return {
        "cls": type(o).__name__,
        "ranking_system": d.get("ranking_system"),
        "signature": None if o.signature is None else list(o.signature),
        "ranks": dict(o.ranks),
        "impacts": list(d["_impacts"]) if isinstance(d.get("_impacts"), list) else (repr(d["_impacts"]) if "_impacts" in d else None),
        "metadata": _jsonable(d.get("_metadata")) if meta else None,
        "state": _jsonable(d.get("_state")),
        "conditionals": None if o.conditionals is None else [[k, str(c)] for k, c in o.conditionals.items()],
        "partition": [[str(c) for c in layer] for layer in d["_z_partition"]] if isinstance(d.get("_z_partition"), list) else None,
        "attributes": sorted(d),
    }


def _continue(o, order, queries):
    """continued lazy computation, completion, verdicts"""
    lazy = [[w, o.rank_world(w)] for w in order]
    completed = o.compute_all_ranks()
    return {
        "lazy": lazy,
        "completed": dict(completed),
        "ranks_after": dict(o.ranks),
        "impacts_after": list(o.__dict__["_impacts"]) if isinstance(o.__dict__.get("_impacts"), list) else None,
        "accept": [bool(o.conditional_acceptance(_mk(b, a))) for b, a in queries],
    }


def _exc(e):
    return f"{type(e).__name__}: {str(e)[:200]}"


def _fresh_main(argv):
    from inference.preocf import PreOCF, RandomMinCRepPreOCF

    with open(argv[1]) as fd:
        jobs = json.load(fd)
    out = []
    for j in jobs:
        r = {}
        try:
            if j["type"] == "ocf":
                o = PreOCF.load_ocf(j["path"], trusted=True)
            elif j["type"] == "impacts":
                o = RandomMinCRepPreOCF.init_with_impacts(_base(j["signature"], j["conditionals"]), j["path"])
            elif j["type"] == "meta":
                o = PreOCF.init_custom({"0": 0, "1": 1}, signature=["a"])
                o.load_metadata(j["path"])
            else:
                raise SystemExit(f"unknown job {j['type']}")
            r["facets"] = _facets(o)
        except Exception as e:  # noqa
            r["exception"] = _exc(e)
            out.append(r)
            continue
        if j["type"] != "meta":
            try:
                r["cont"] = _continue(o, j["order"], j["queries"])
            except Exception as e:  # noqa
                r["cont_exception"] = _exc(e)
        out.append(r)
    sys.stdout.write(MARK + json.dumps(out) + "\n")


if _AS_SCRIPT:
    _fresh_main(sys.argv)
    sys.exit(0)


# ---------------------------------------------------------------------------
# building objects from a description
# ---------------------------------------------------------------------------
class _Boom:
    """member whose serialisation fails part-way through the dump"""

    def __reduce__(self):
        raise RuntimeError("boom: refuses to be serialised")


def _worlds(sig):
    n = len(sig)
    return [format(i, f"0{n}b") for i in range(2 ** n)]


def _build(spec):
    from parser.Wrappers import parse_formula

    from inference.preocf import PreOCF

    kind = spec["kind"]
    sig = list(spec["signature"])
    triples = spec.get("conditionals") or []
    if kind == "custom":
        bb = _base(sig, triples) if triples else None
        o = PreOCF.init_custom({w: r for w, r in spec["ranks"].items()}, bb, signature=sig)
    elif kind == "system-z":
        facts = spec.get("facts") or None
        if facts and spec.get("facts_fnode"):
            facts = [parse_formula(f) for f in facts]
        o = PreOCF.init_system_z(_base(sig, triples), facts=facts, extended=spec.get("extended"))
    elif kind == "random_min_c_rep":
        o = PreOCF.init_random_min_c_rep(_base(sig, triples))
    else:
        raise ValueError(kind)
    for k, v in (spec.get("metadata") or {}).items():
        o.save_meta(k, json.loads(json.dumps(v)))
    return o


def _rank(o, ranked):
    for w in ranked:
        o.rank_world(w)


def _ref(spec, queries):
    """what the object means.  custom / System Z: the never-saved twin, completed (the partition is a function of the
    base).  c-representation: the constructor picks one of several Pareto-minimal vectors and is NOT deterministic,
    so a twin may legitimately carry another vector; the reference is then the definition applied to the vector the
    object under test carries (see _ref_crep / _make)"""
    t = _build(spec)
    f = _facets(t)
    if spec["kind"] == "random_min_c_rep":
        return _ref_crep(spec, queries, f["impacts"], f)
    c = _continue(t, [], queries)
    return {"facets": f, "ranks": c["completed"], "accept": c["accept"], "impacts": f["impacts"]}


def _falsified(spec):
    """key -> set of worlds falsifying the conditional (truth tables)"""
    from oracle.core import ev

    sig = spec["signature"]
    out = {}
    for k, b, a in spec["conditionals"]:
        c = _mk(b, a)
        out[int(k)] = {w for w in _worlds(sig) if ev(c.antecedence, _wd(sig, w)) and not ev(c.consequence, _wd(sig, w))}
    return out


def _wd(sig, w):
    return {s: w[i] == "1" for i, s in enumerate(sig)}


def _ref_crep(spec, queries, impacts, facets):
    """definition: rank(w) = sum of the impacts of the conditionals w falsifies (impact of key k at position k-1);
    (B|A) accepted iff min rank(A and B) < min rank(A and not B), min over no world = infinity"""
    from oracle.core import ev

    sig = spec["signature"]
    fal = _falsified(spec)
    ranks = {w: sum(impacts[k - 1] for k in fal if w in fal[k]) for w in _worlds(sig)}
    accept = []
    for b, a in queries:
        q = _mk(b, a)
        v = [ranks[w] for w in ranks if ev(q.antecedence, _wd(sig, w)) and ev(q.consequence, _wd(sig, w))]
        n = [ranks[w] for w in ranks if ev(q.antecedence, _wd(sig, w)) and not ev(q.consequence, _wd(sig, w))]
        accept.append(False if not v else (True if not n else min(v) < min(n)))
    return {"facets": facets, "ranks": ranks, "accept": accept, "impacts": list(impacts)}


def _make(spec, ranked, queries, ref):
    """build the object under test, rank the subset; -> (object, the reference that applies to THIS object)"""
    o = _build(spec)
    _rank(o, ranked)
    if spec["kind"] == "random_min_c_rep" and list(o._impacts) != ref["impacts"]:
        ref = _ref_crep(spec, queries, list(o._impacts), ref["facets"])
    return o, ref


def _order(spec, ranked, salt=0):
    ws = [w for w in _worlds(spec["signature"]) if w not in set(ranked)]
    random.Random(f"{sorted(ranked)}|{salt}").shuffle(ws)
    return ws


def _solver_objs(o):
    return {a: o.__dict__[a] for a in SOLVER_ATTRS if a in o.__dict__}


def _check_same_object(o, f0, solvers0, viol, what):
    """o must look exactly as before (facets incl. attribute names; identical solver objects)"""
    f1 = _facets(o, meta=f0["metadata"] is not None)
    for k in f0:
        if _canon(f0[k]) != _canon(f1[k]):
            viol.append((f"{what}:{k}-changed", f0[k], f1[k]))
    for a, v in solvers0.items():
        cur = o.__dict__.get(a, "ABSENT")
        if cur is not v:
            viol.append((f"{what}:{a}-not-restored", "the identical object as before the save", "None" if cur is None else ("ABSENT" if isinstance(cur, str) else "a different object")))


def _check_continue(o, order, queries, ref, viol, what, nq=None):
    """nq: judge only the first nq queries (cheaper channels); ranks are always judged completely"""
    if nq is not None:
        queries = queries[:nq]
        ref = dict(ref, accept=ref["accept"][:nq])
    try:
        c = _continue(o, order, queries)
    except Exception as e:  # noqa
        viol.append((f"{what}:continue-exception", "lazy continuation and queries work", _exc(e)))
        return
    _judge_cont(c, order, ref, viol, what)


def _judge_cont(c, order, ref, viol, what):
    want_lazy = [[w, ref["ranks"][w]] for w in order]
    if _canon(c["lazy"]) != _canon(want_lazy):
        viol.append((f"{what}:lazy-ranks-differ", want_lazy, c["lazy"]))
    if _canon(c["completed"]) != _canon(ref["ranks"]):
        viol.append((f"{what}:completed-ranks-differ", ref["ranks"], c["completed"]))
    if _canon(c["ranks_after"]) != _canon(ref["ranks"]):
        viol.append((f"{what}:stored-ranks-differ", ref["ranks"], c["ranks_after"]))
    if _canon(c["impacts_after"]) != _canon(ref["impacts"]):
        viol.append((f"{what}:impacts-differ", ref["impacts"], c["impacts_after"]))
    if c["accept"] != ref["accept"]:
        viol.append((f"{what}:acceptance-differs", ref["accept"], c["accept"]))


LOADED_KEYS = ("cls", "ranking_system", "signature", "ranks", "impacts", "metadata", "state", "conditionals", "partition")


def _judge_loaded(fl, f0, viol, what, keys=LOADED_KEYS):
    for k in keys:
        if _canon(fl[k]) != _canon(f0[k]):
            viol.append((f"{what}:{k}-differs", f0[k], fl[k]))


# ---------------------------------------------------------------------------
# channels (each returns a list of (kind, expected, observed); fresh ones return a job + expectation)
# ---------------------------------------------------------------------------
def _prepare_saved(spec, ranked, queries, params, tmp, ref, viol, what, fname):
    """build, rank the subset, save; check the original is undisturbed.  -> (object, facets before, path, ref) or None"""
    o, ref = _make(spec, ranked, queries, ref)
    f0 = _facets(o)
    solvers0 = _solver_objs(o)
    path = os.path.join(tmp, fname)
    target = pathlib.Path(path) if params.get("pathlib") else path
    kw = {} if params.get("protocol") is None else {"protocol": params["protocol"]}
    try:
        o.save_ocf(target, **kw)
    except Exception as e:  # noqa
        viol.append((f"{what}:save-exception", "save_ocf succeeds", _exc(e)))
        return None
    _check_same_object(o, f0, solvers0, viol, f"{what}:original-after-save")
    return o, f0, path, ref


def chan_ocf_same(spec, ranked, queries, params, tmp, ref):
    from inference.preocf import PreOCF

    viol = []
    got = _prepare_saved(spec, ranked, queries, params, tmp, ref, viol, "same", "same.ocf")
    if got is None:
        return viol
    o, f0, path, ref = got
    order = params["order"]
    try:
        l = PreOCF.load_ocf(pathlib.Path(path) if params.get("pathlib") else path, trusted=True)
    except Exception as e:  # noqa
        viol.append(("same:load-exception", "load_ocf succeeds", _exc(e)))
        return viol
    _judge_loaded(_facets(l), f0, viol, "same:loaded")
    _check_continue(l, order, queries, ref, viol, "same:loaded")
    # the original, completed after the save, agrees with the never-saved twin
    _check_continue(o, order, queries, ref, viol, "same:original-after-save")
    return viol


def chan_ocf_resave(spec, ranked, queries, params, tmp, ref):
    """save, load, rank a few more worlds on the loaded object, save that, load again"""
    from inference.preocf import PreOCF

    viol = []
    got = _prepare_saved(spec, ranked, queries, params, tmp, ref, viol, "resave", "r1.ocf")
    if got is None:
        return viol
    o, f0, path, ref = got
    order = params["order"]
    try:
        l1 = PreOCF.load_ocf(path, trusted=True)
        more = order[: max(1, len(order) // 2)] if order else []
        for w in more:
            l1.rank_world(w)
        f1 = _facets(l1)
        p2 = os.path.join(tmp, "r2.ocf")
        l1.save_ocf(p2)
        l2 = PreOCF.load_ocf(p2, trusted=True)
    except Exception as e:  # noqa
        viol.append(("resave:exception", "save/load/save/load succeeds", _exc(e)))
        return viol
    want = dict(f0["ranks"])
    for w in more:
        want[w] = ref["ranks"][w]
    if _canon(f1["ranks"]) != _canon(want):
        viol.append(("resave:ranks-after-partial-continuation-differ", want, f1["ranks"]))
    _judge_loaded(_facets(l2), f1, viol, "resave:second-load")
    _judge_loaded(_facets(l2), f0, viol, "resave:second-load-vs-original", keys=("cls", "ranking_system", "signature", "impacts", "metadata", "state", "conditionals", "partition"))
    _check_continue(l2, [w for w in order if w not in more], queries, ref, viol, "resave:second-load")
    return viol


def prep_ocf_fresh(spec, ranked, queries, params, tmp, ref, tag):
    viol = []
    got = _prepare_saved(spec, ranked, queries, params, tmp, ref, viol, "fresh", f"fresh_{tag}.ocf")
    if got is None:
        return viol, None, None
    o, f0, path, ref = got
    job = {"type": "ocf", "path": path, "order": params["order"], "queries": queries}
    return viol, job, {"f0": _jsonable(f0), "keys": LOADED_KEYS, "ref": ref}


def judge_fresh(job, expect, result, ref):
    viol = []
    if "exception" in result:
        viol.append(("fresh:load-exception", "loading in a fresh interpreter succeeds", result["exception"]))
        return viol
    _judge_loaded(result["facets"], expect["f0"], viol, "fresh:loaded", keys=expect["keys"])
    if job["type"] == "meta":
        return viol
    if "cont_exception" in result:
        viol.append(("fresh:loaded:continue-exception", "lazy continuation and queries work", result["cont_exception"]))
        return viol
    _judge_cont(result["cont"], job["order"], expect.get("ref") or ref, viol, "fresh:loaded")
    return viol


def run_fresh(jobs, tmp):
    """one fresh interpreter (PYTHONPATH=/repo only) for a batch of jobs"""
    jf = os.path.join(tmp, f"jobs_{len(os.listdir(tmp))}.json")
    with open(jf, "w") as fd:
        json.dump(jobs, fd)
    env = {k: v for k, v in os.environ.items() if k not in ("PYTHONPATH", "PYTHONSTARTUP")}
    env["PYTHONPATH"] = REPO
    env["INFOCF_LOGLEVEL"] = "CRITICAL"
    py = "/venv/bin/python" if os.path.exists("/venv/bin/python") else sys.executable
    p = subprocess.run([py, os.path.abspath(__file__), jf], env=env, cwd=tmp, capture_output=True, text=True, timeout=1800)
    lines = [ln for ln in p.stdout.splitlines() if ln.startswith(MARK)]
    if p.returncode != 0 or not lines:
        raise RuntimeError(f"c20: fresh interpreter failed rc={p.returncode}: {p.stderr[-800:]}")
    res = json.loads(lines[-1][len(MARK):])
    if len(res) != len(jobs):
        raise RuntimeError("c20: fresh interpreter returned a wrong number of results")
    return res


# ----- impacts ---------------------------------------------------------------
def _crep_parts(spec, ranked, queries, ref):
    o, ref = _make(spec, ranked, queries, ref)
    return o, _base(spec["signature"], spec["conditionals"]), ref


def _second_object(spec, ranked_target, X):
    """another object of the same base to read a vector into; it is pre-ranked only when its own vector is the one
    being read (ranks cached under a different vector are outside this property) -> (object, worlds already ranked)"""
    n = _build(spec)
    if list(n._impacts) != list(X):
        return n, set()
    _rank(n, ranked_target or [])
    return n, set(ranked_target or [])


def chan_impacts_file(spec, ranked, queries, params, tmp, ref):
    """export_impacts -> init_with_impacts (fresh object) or import_impacts (into an existing, partially ranked object)"""
    from inference.preocf import RandomMinCRepPreOCF

    viol = []
    o, bb, ref = _crep_parts(spec, ranked, queries, ref)
    f0 = _facets(o)
    solvers0 = _solver_objs(o)
    X = list(o._impacts)
    path = os.path.join(tmp, "impacts" + params["suffix"])
    target = pathlib.Path(path) if params.get("pathlib") else path
    try:
        if params.get("fmt") is None:
            o.export_impacts(target)
        else:
            o.export_impacts(target, fmt=params["fmt"])
    except Exception as e:  # noqa
        viol.append(("impacts:export-exception", "export_impacts succeeds", _exc(e)))
        return viol
    _check_same_object(o, f0, solvers0, viol, "impacts:exporter-after-export")
    known = set()
    try:
        if params["mode"] == "init":
            n = RandomMinCRepPreOCF.init_with_impacts(bb, target)
        else:
            n, known = _second_object(spec, params.get("ranked_target"), X)
            n.import_impacts(target)
    except Exception as e:  # noqa
        viol.append(("impacts:import-exception", "the exported file can be read back", _exc(e)))
        return viol
    if _canon(n._impacts) != _canon(X):
        viol.append(("impacts:vector-differs", X, _jsonable(n._impacts)))
    _check_continue(n, [w for w in _order(spec, [], 1) if w not in known], queries, ref, viol, "impacts:reader")
    return viol


def chan_impacts_list(spec, ranked, queries, params, tmp, ref):
    from inference.preocf import RandomMinCRepPreOCF

    viol = []
    o, bb, ref = _crep_parts(spec, ranked, queries, ref)
    f0 = _facets(o)
    solvers0 = _solver_objs(o)
    try:
        X = o.save_impacts()
    except Exception as e:  # noqa
        viol.append(("impacts-list:save-exception", "save_impacts succeeds", _exc(e)))
        return viol
    if _canon(X) != _canon(ref["impacts"]):
        viol.append(("impacts-list:vector-differs", ref["impacts"], _jsonable(X)))
    keep = list(X)
    known = set()
    try:
        if params["mode"] == "init":
            n = RandomMinCRepPreOCF.init_with_impacts_list(bb, X)
        else:
            n, known = _second_object(spec, params.get("ranked_target"), X)
            n.load_impacts(X)
    except Exception as e:  # noqa
        viol.append(("impacts-list:load-exception", "the saved vector can be loaded", _exc(e)))
        return viol
    # the transported list is a value, not a shared cell
    X[0] = X[0] + 17
    if _canon(n._impacts) != _canon(keep) or _canon(o._impacts) != _canon(keep):
        viol.append(("impacts-list:vector-aliased", keep, [_jsonable(o._impacts), _jsonable(n._impacts)]))
    _check_same_object(o, f0, solvers0, viol, "impacts-list:source-after-save")
    _check_continue(n, [w for w in _order(spec, [], 2) if w not in known], queries, ref, viol, "impacts-list:reader")
    return viol


BAD_VECTORS = ("len+1", "len-1", "empty", "negative", "negative-last", "float", "float-integral", "str-elem", "none-elem", "tuple", "dict", "none", "str", "int")


def _bad_vector(name, X):
    n = len(X)
    return {
        "len+1": X + [1],
        "len-1": X[:-1],
        "empty": [],
        "negative": [-1] + X[1:],
        "negative-last": X[:-1] + [-(X[-1] + 1)],
        "float": [X[0] + 0.5] + X[1:],
        "float-integral": [float(x) for x in X],
        "str-elem": [str(x) for x in X],
        "none-elem": [None] * n,
        "tuple": tuple(X),
        "dict": {i: x for i, x in enumerate(X)},
        "none": None,
        "str": "".join(str(x) for x in X),
        "int": n,
    }[name]


def chan_impacts_invalid(spec, ranked, queries, params, tmp, ref):
    """invalid vectors are refused with an error and change nothing"""
    from inference.preocf import RandomMinCRepPreOCF

    viol = []
    o, bb, ref = _crep_parts(spec, ranked, queries, ref)
    f0 = _facets(o)
    solvers0 = _solver_objs(o)
    bad = _bad_vector(params["bad"], list(o._impacts))
    shown = repr(bad)
    if params["mode"] == "load":
        try:
            o.load_impacts(bad)
            viol.append(("impacts-invalid:accepted", f"load_impacts({shown}) raises", "accepted"))
        except Exception:  # noqa
            pass
        _check_same_object(o, f0, solvers0, viol, "impacts-invalid:object-after-refusal")
        _check_continue(o, params["order"], queries, ref, viol, "impacts-invalid:object-after-refusal", nq=1)
    elif params["mode"] == "init":
        try:
            n = RandomMinCRepPreOCF.init_with_impacts_list(bb, bad)
            viol.append(("impacts-invalid:accepted", f"init_with_impacts_list(bb, {shown}) raises", _jsonable(n.__dict__.get("_impacts"))))
        except Exception:  # noqa
            pass
    else:  # a file exported for a base with a different number of conditionals
        X = list(o._impacts)
        data = {"impacts": X + [1] if params["bad"] == "len+1" else X[:-1], "ranking_system": "random_min_c_rep", "signature": list(spec["signature"])}
        data["conditionals_count"] = len(data["impacts"])
        path = os.path.join(tmp, "other.json")
        with open(path, "w") as fd:
            json.dump(data, fd)
        try:
            o.import_impacts(path)
            viol.append(("impacts-invalid:accepted", f"import_impacts of a vector of length {len(data['impacts'])} raises", _jsonable(o._impacts)))
        except Exception:  # noqa
            pass
        _check_same_object(o, f0, solvers0, viol, "impacts-invalid:object-after-refusal")
        _check_continue(o, params["order"], queries, ref, viol, "impacts-invalid:object-after-refusal", nq=1)
    return viol


def prep_impacts_fresh(spec, ranked, queries, params, tmp, ref, tag):
    viol = []
    o, bb, ref = _crep_parts(spec, ranked, queries, ref)
    path = os.path.join(tmp, f"impacts_fresh_{tag}" + params["suffix"])
    try:
        o.export_impacts(path, fmt=params["fmt"])
    except Exception as e:  # noqa
        viol.append(("impacts:export-exception", "export_impacts succeeds", _exc(e)))
        return viol, None, None
    job = {"type": "impacts", "path": path, "signature": spec["signature"], "conditionals": spec["conditionals"], "order": _order(spec, [], 3), "queries": queries}
    f0 = {"impacts": list(ref["impacts"]), "signature": list(spec["signature"]), "cls": "RandomMinCRepPreOCF", "ranks": {w: None for w in _worlds(spec["signature"])}}
    return viol, job, {"f0": f0, "keys": ("cls", "signature", "ranks", "impacts"), "ref": ref}


# ----- metadata --------------------------------------------------------------
def _json_representable(x):
    if x is None or isinstance(x, (bool, int, str)):
        return True
    if isinstance(x, float):
        return x == x and x not in (float("inf"), float("-inf"))
    if isinstance(x, list):
        return all(_json_representable(v) for v in x)
    if isinstance(x, dict):
        return all(isinstance(k, str) and _json_representable(v) for k, v in x.items())
    return False


def _meta_save(o, path, params):
    target = pathlib.Path(path) if params.get("pathlib") else path
    if params.get("fmt") is None:
        o.save_metadata(target)
    else:
        o.save_metadata(target, fmt=params["fmt"])
    return target


def chan_meta_file(spec, ranked, queries, params, tmp, ref):
    from inference.preocf import PreOCF

    viol = []
    o, ref = _make(spec, ranked, queries, ref)
    for k, v in (params.get("extra_meta") or {}).items():
        o.save_meta(k, json.loads(json.dumps(v)))
    if not _json_representable(o.metadata):
        raise RuntimeError("c20: generated metadata is not JSON-representable")
    f0 = _facets(o)
    solvers0 = _solver_objs(o)
    path = os.path.join(tmp, "meta" + params["suffix"])
    try:
        target = _meta_save(o, path, params)
    except Exception as e:  # noqa
        viol.append(("meta:save-exception", "save_metadata succeeds", _exc(e)))
        return viol
    _check_same_object(o, f0, solvers0, viol, "meta:source-after-save")
    n = PreOCF.init_custom({"0": 0, "1": 1}, signature=["a"])
    try:
        with warnings.catch_warnings():
            warnings.simplefilter("error")
            n.load_metadata(target)
    except Exception as e:  # noqa
        viol.append(("meta:load-exception", "the saved metadata file can be loaded", _exc(e)))
        return viol
    if _canon(n.metadata) != _canon(f0["metadata"]):
        viol.append(("meta:metadata-differs", f0["metadata"], _jsonable(n.metadata)))
    return viol


def prep_meta_fresh(spec, ranked, queries, params, tmp, ref, tag):
    viol = []
    o = _build(spec)
    for k, v in (params.get("extra_meta") or {}).items():
        o.save_meta(k, json.loads(json.dumps(v)))
    path = os.path.join(tmp, f"meta_fresh_{tag}" + params["suffix"])
    try:
        _meta_save(o, path, params)
    except Exception as e:  # noqa
        viol.append(("meta:save-exception", "save_metadata succeeds", _exc(e)))
        return viol, None, None
    return viol, {"type": "meta", "path": path}, {"f0": {"metadata": _jsonable(o.metadata)}, "keys": ("metadata",)}


# ----- failing saves ---------------------------------------------------------
FAIL_SAVE = ("nodir", "isdir", "lambda-meta", "filehandle", "boom-member", "boom-after-good", "protocol99", "protocol0", "protocol1")


def chan_fail_save(spec, ranked, queries, params, tmp, ref):
    from inference.preocf import PreOCF

    viol = []
    how = params["how"]
    o, ref = _make(spec, ranked, queries, ref)
    fh = None
    kw = {}
    target = os.path.join(tmp, "fail.ocf")
    cleanup = lambda: None  # noqa
    if how == "nodir":
        target = os.path.join(tmp, "no", "such", "dir", "x.ocf")
    elif how == "isdir":
        target = tmp
    elif how == "lambda-meta":
        o.save_meta("f", lambda x: x)
        cleanup = lambda: o.metadata.pop("f")  # noqa
    elif how == "filehandle":
        fh = open(os.path.join(tmp, "fh.txt"), "w")
        o._fh = fh
        cleanup = lambda: o.__dict__.pop("_fh")  # noqa
    elif how == "boom-member":
        o.save_meta("boom", _Boom())
        cleanup = lambda: o.metadata.pop("boom")  # noqa
    elif how == "boom-after-good":
        # a good file exists first; the failing save happens over it
        o.save_ocf(target)
        o.save_meta("zz_boom", [1, 2, _Boom()])
        cleanup = lambda: o.metadata.pop("zz_boom")  # noqa
    elif how == "protocol99":
        kw = {"protocol": 99}
    elif how == "protocol0":
        kw = {"protocol": 0}
    elif how == "protocol1":
        kw = {"protocol": 1}
    else:
        raise ValueError(how)
    f0 = _facets(o)
    solvers0 = _solver_objs(o)
    meta_cells0 = [(k, id(v)) for k, v in o._metadata.items()]
    containers0 = (o.ranks, o._metadata, o._state)
    try:
        o.save_ocf(pathlib.Path(target) if params.get("pathlib") else target, **kw)
        raised = None
    except Exception as e:  # noqa
        raised = _exc(e)
    try:
        if raised is None and how in ("protocol0", "protocol1"):
            # the save claimed success: then it must round-trip
            try:
                l = PreOCF.load_ocf(target, trusted=True)
                _judge_loaded(_facets(l), f0, viol, f"fail-save[{how}]:loaded")
                _check_continue(l, params["order"], queries, ref, viol, f"fail-save[{how}]:loaded")
            except Exception as e:  # noqa
                viol.append((f"fail-save[{how}]:load-exception", "a save that reported success can be loaded", _exc(e)))
        elif raised is None:
            viol.append(("fail-save:not-reported", f"save_ocf raises ({how})", "returned normally"))
        # unchanged
        _check_same_object(o, f0, solvers0, viol, "fail-save:object-after-failure")
        if [(k, id(v)) for k, v in o._metadata.items()] != meta_cells0:
            viol.append(("fail-save:object-after-failure:metadata-cells-changed", "same keys bound to the identical values", sorted(o._metadata)))
        if not (o.ranks is containers0[0] and o._metadata is containers0[1] and o._state is containers0[2]):
            viol.append(("fail-save:object-after-failure:containers-replaced", "ranks/_metadata/_state are the identical dicts", "replaced"))
        # usable
        _check_continue(o, params["order"], queries, ref, viol, "fail-save:object-after-failure")
        # and a later good save works
        cleanup()
        good = os.path.join(tmp, "good_after_fail.ocf")
        try:
            o.save_ocf(good)
            l = PreOCF.load_ocf(good, trusted=True)
            fl = _facets(l)
            if _canon(fl["ranks"]) != _canon(ref["ranks"]) or _canon(fl["impacts"]) != _canon(ref["impacts"]) or fl["signature"] != f0["signature"]:
                viol.append(("fail-save:later-save-differs", [f0["signature"], ref["ranks"], ref["impacts"]], [fl["signature"], fl["ranks"], fl["impacts"]]))
        except Exception as e:  # noqa
            viol.append(("fail-save:later-save-exception", "a good save after the failed one works", _exc(e)))
    finally:
        if fh is not None:
            fh.close()
    return viol, raised


PROBES = ("negative", "float", "str-elem", "len+1", "bool", "other-vector-after-ranking", "twin-vector")


def chan_probe_impacts(spec, ranked, queries, params, tmp, ref):
    """NOT judged and not counted (hand-made inputs that no export produces are outside the property's wording);
    the outcome is only tallied in extra["failure_points"]: does import_impacts look at the vector inside the file,
    does the list interface take bools"""
    from inference.preocf import RandomMinCRepPreOCF

    twin_vector = list(ref["impacts"])
    o, bb, ref = _crep_parts(spec, ranked, queries, ref)
    X = list(o._impacts)
    how = params["how"]
    if how == "twin-vector":
        return [], "same vector as the twin" if X == twin_vector else "constructor chose another vector than the twin"
    if how == "other-vector-after-ranking":
        before = dict(o.compute_all_ranks())
        if not any(before.values()):
            return [], "n/a (all ranks 0)"
        o.load_impacts([2 * x for x in X])
        return [], "ranks kept from the previous vector" if dict(o.compute_all_ranks()) == before else "ranks follow the new vector"
    try:
        if how == "bool":
            RandomMinCRepPreOCF.init_with_impacts_list(bb, [bool(x) for x in X])
        else:
            data = {"impacts": _bad_vector(how, X), "conditionals_count": len(X), "ranking_system": "random_min_c_rep", "signature": list(spec["signature"])}
            path = os.path.join(tmp, "handmade.json")
            with open(path, "w") as fd:
                json.dump(data, fd)
            o.import_impacts(path)
        return [], "accepted"
    except Exception as e:  # noqa
        return [], "refused"


FAIL_META = ("tuple-key", "circular", "lambda-json", "set-json", "lambda-pickle", "nodir", "isdir", "bad-fmt")


def chan_fail_meta(spec, ranked, queries, params, tmp, ref):
    viol = []
    how = params["how"]
    o, ref = _make(spec, ranked, queries, ref)
    path = os.path.join(tmp, "failmeta.json")
    fmt = None
    must_raise = True
    if how == "tuple-key":
        o.save_meta("bad", {"ok": 1, (1, 2): "x"})
    elif how == "circular":
        cyc = [1]
        cyc.append(cyc)
        o.save_meta("bad", cyc)
    elif how == "lambda-json":
        o.save_meta("bad", lambda x: x)
        must_raise = False  # stringified or refused: either way the object must stay as it is
    elif how == "set-json":
        o.save_meta("bad", {1, 2})
        must_raise = False
    elif how == "lambda-pickle":
        o.save_meta("bad", lambda x: x)
        path = os.path.join(tmp, "failmeta.pkl")
    elif how == "nodir":
        path = os.path.join(tmp, "no", "dir", "m.json")
    elif how == "isdir":
        path = tmp
    elif how == "bad-fmt":
        path, fmt = os.path.join(tmp, "failmeta.meta"), "yaml"
    else:
        raise ValueError(how)
    f0 = _facets(o, meta=False)
    solvers0 = _solver_objs(o)
    meta_obj = o._metadata
    cells0 = [(k, id(v)) for k, v in o._metadata.items()]
    try:
        if fmt is None:
            o.save_metadata(path)
        else:
            o.save_metadata(path, fmt=fmt)
        raised = None
    except Exception as e:  # noqa
        raised = _exc(e)
    if must_raise and raised is None:
        viol.append(("fail-meta:not-reported", f"save_metadata raises ({how})", "returned normally"))
    _check_same_object(o, f0, solvers0, viol, "fail-meta:object-after-failure")
    if o._metadata is not meta_obj or [(k, id(v)) for k, v in o._metadata.items()] != cells0:
        viol.append(("fail-meta:object-after-failure:metadata-changed", "same keys bound to the identical values", sorted(map(str, o._metadata))))
    _check_continue(o, params["order"], queries, ref, viol, "fail-meta:object-after-failure", nq=2)
    return viol, raised


# ---------------------------------------------------------------------------
# generators
# ---------------------------------------------------------------------------
def _rnd_json(rng, depth):
    r = rng.random()
    if depth <= 0 or r < 0.45:
        return rng.choice([None, True, False, 0, 1, -3, 2 ** 70, 1.5, -0.25, 1e-9, 1.0, 0.1 + 0.2, 1 / 3, 1e300, "", "x", "1", "été ✓", "line\nbreak \"q\" \\"])
    if r < 0.72:
        return [_rnd_json(rng, depth - 1) for _ in range(rng.randint(0, 3))]
    return {rng.choice(["k", "key two", "", "ä", "0", "None"]) + ("" if i == 0 else str(i)): _rnd_json(rng, depth - 1) for i in range(rng.randint(0, 3))}


def _rnd_payload(rng):
    return {rng.choice(["author", "run", "note", "cfg"]) + str(i): _rnd_json(rng, 3) for i in range(rng.randint(1, 3))}


def _triples(bb):
    return [[int(k)] + list(split_text(str(c))) for k, c in bb.conditionals.items()]


def _gen_spec(kind, variant, rng):
    """-> (spec, number of rejected candidates)"""
    from oracle.gen import rnd_base, rnd_formula

    from inference.consistency_sat import consistency

    rejected = 0
    for _ in range(2000):
        payload = _rnd_payload(rng) if rng.random() < 0.6 else {}
        if kind == "custom":
            sig = ["a", "b", "c"][: rng.choice([2, 2, 3])]
            ranks = {w: rng.randint(0, 4) for w in _worlds(sig)}
            if rng.random() < 0.5:
                m = min(ranks.values())
                ranks = {w: r - m for w, r in ranks.items()}
            triples = _triples(rnd_base(rng, sig, rng.randint(1, 3))) if variant == "with-base" else []
            return {"kind": kind, "signature": sig, "ranks": ranks, "conditionals": triples, "metadata": payload or _rnd_payload(rng)}, rejected
        n_atoms = rng.choice([2, 2, 3, 3, 4])
        sig = ["a", "b", "c", "d"][:n_atoms]
        n = rng.randint(1, 4)
        if kind == "random_min_c_rep":
            bb = rnd_base(rng, sig, n, 2, consts=0.05)
            if consistency(bb, weakly=False)[0] is False:
                rejected += 1
                continue
            spec = {"kind": kind, "signature": sig, "conditionals": _triples(bb), "metadata": payload}
        else:
            keys = sorted(rng.sample(range(1, 10), n)) if rng.random() < 0.4 else None
            consts = 0.08 if variant in ("strict", "strict-ext") else 0.3
            bb = rnd_base(rng, sig, n, 2, consts=consts, keys=keys)
            strict = consistency(bb, weakly=False)[0] is not False
            spec = {"kind": kind, "signature": sig, "conditionals": _triples(bb), "metadata": payload, "facts": None, "extended": None, "facts_fnode": False}
            if variant in ("strict", "strict-ext"):
                if not strict:
                    rejected += 1
                    continue
                spec["extended"] = True if variant == "strict-ext" else rng.choice([None, False])
            else:
                weak = consistency(bb, weakly=True)[0] is not False
                if not weak or (variant == "weak-ext" and strict):
                    rejected += 1
                    continue
                spec["extended"] = True
                if variant == "facts":
                    spec["facts"] = [rnd_formula(rng, sig, 1, 0.0)[1] for _ in range(rng.randint(1, 2))]
                    spec["extended"] = rng.choice([None, True])
                    spec["facts_fnode"] = rng.random() < 0.3
        try:
            o = _build(spec)
            if spec["kind"] == "system-z" and not isinstance(o.__dict__.get("_z_partition"), list):
                raise ValueError("no partition")
        except (ValueError, AssertionError):
            rejected += 1
            continue
        return spec, rejected
    raise RuntimeError(f"c20: no acceptable {kind}/{variant} object found")


def _gen_queries(rng, sig, n=6):
    from oracle.gen import rnd_conditional

    qs, seen = [], set()
    while len(qs) < n:
        t = str(rnd_conditional(rng, sig, 2, 0.05))
        if t not in seen:
            seen.add(t)
            qs.append(list(split_text(t)))
    return qs


def _gen_states(rng, spec, tier):
    ws = _worlds(spec["signature"])
    if spec["kind"] == "custom":
        return [[]]
    if len(ws) == 4:
        return [[w for i, w in enumerate(ws) if m >> i & 1] for m in range(16)]
    k = (3 if len(ws) == 8 else 2) * (2 if tier == "thorough" else 1)
    states = [[], list(ws), [rng.choice(ws)]]
    for _ in range(k):
        s = [w for w in ws if rng.random() < 0.5]
        rng.shuffle(s)
        states.append(s)
    return states


# ---------------------------------------------------------------------------
# one object: all its states and channels
# ---------------------------------------------------------------------------
def _content(spec, ref):
    if spec["kind"] == "random_min_c_rep":
        # the vector is the constructor's (non-deterministic) choice: the content is the base up to semantics
        fal = _falsified(spec)
        sem = [[k, sorted(fal[k])] for k in sorted(fal)]
        s = _canon([spec["kind"], spec["signature"], sem, spec.get("metadata") or {}])
        return hashlib.sha1(s.encode()).hexdigest()[:12]
    s = _canon([spec["kind"], spec["signature"], ref["ranks"], ref["impacts"], ref["accept"], spec.get("metadata") or {}, ref["facets"]["partition"]])
    return hashlib.sha1(s.encode()).hexdigest()[:12]


def _viol(kind, spec, ranked, channel, queries, params, expected, observed):
    return {
        "module": MODULE,
        "kind": kind,
        "input": {"object": spec, "ranked": list(ranked), "channel": channel, "queries": queries, "params": params},
        "expected": _jsonable(expected),
        "observed": _jsonable(observed),
    }


SIMPLE = {
    "ocf-same": chan_ocf_same,
    "ocf-resave": chan_ocf_resave,
    "impacts-file": chan_impacts_file,
    "impacts-list": chan_impacts_list,
    "impacts-invalid": chan_impacts_invalid,
    "meta-file": chan_meta_file,
}
FAILING = {"fail-save": chan_fail_save, "fail-meta": chan_fail_meta, "probe-impacts": chan_probe_impacts}
FRESH = {"ocf-fresh": prep_ocf_fresh, "impacts-fresh": prep_impacts_fresh, "meta-fresh": prep_meta_fresh}

META_VARIANTS = [
    {"suffix": ".json", "fmt": None},
    {"suffix": ".pkl", "fmt": None},
    {"suffix": ".pickle", "fmt": None},
    {"suffix": ".json", "fmt": "pickle"},  # the suffix decides
    {"suffix": ".pkl", "fmt": "json"},  # the suffix decides
    {"suffix": ".meta", "fmt": "pickle"},
    {"suffix": ".meta", "fmt": "json"},
    {"suffix": ".meta", "fmt": None},  # documented default: JSON
    {"suffix": "", "fmt": "json"},
    {"suffix": ".JSON", "fmt": None},
    {"suffix": ".PKL", "fmt": None},
]
IMPACT_VARIANTS = [
    {"suffix": ".json", "fmt": "json"},
    {"suffix": ".json", "fmt": None},
    {"suffix": ".pkl", "fmt": "pickle"},
    {"suffix": ".pickle", "fmt": "pickle"},
    {"suffix": ".dat", "fmt": "pickle"},
    {"suffix": ".imp", "fmt": "json"},
    {"suffix": ".imp", "fmt": None},  # documented default: JSON
]


def _plan(spec, states, rng, tier):
    """list of (channel, ranked, params)"""
    plan = []
    protos = [None, 2, 3, 4, 5]
    for i, st in enumerate(states):
        plan.append(("ocf-same", st, {"protocol": protos[i % 5], "pathlib": bool(i % 2), "order": _order(spec, st)}))
        plan.append(("ocf-fresh", st, {"protocol": protos[(i + 2) % 5], "pathlib": False, "order": _order(spec, st, 5)}))
    for st in rng.sample(states, min(len(states), 3)):
        plan.append(("ocf-resave", st, {"order": _order(spec, st, 7)}))
    some = lambda: rng.choice(states)  # noqa
    if spec["kind"] == "random_min_c_rep":
        for v in IMPACT_VARIANTS:
            plan.append(("impacts-file", some(), dict(v, mode="init", pathlib=rng.random() < 0.5)))
            plan.append(("impacts-file", some(), dict(v, mode="import", ranked_target=some(), pathlib=rng.random() < 0.5)))
        for v in IMPACT_VARIANTS[:1] + IMPACT_VARIANTS[2:3] + IMPACT_VARIANTS[5:6]:
            plan.append(("impacts-fresh", some(), dict(v)))
        plan.append(("impacts-list", some(), {"mode": "init"}))
        plan.append(("impacts-list", some(), {"mode": "load", "ranked_target": some()}))
        n = len(spec["conditionals"])
        for b in BAD_VECTORS:
            st = some()
            plan.append(("impacts-invalid", st, {"bad": b, "mode": "load", "order": _order(spec, st, 11)}))
            plan.append(("impacts-invalid", st, {"bad": b, "mode": "init"}))
        for b in ("len+1", "len-1"):
            st = some()
            plan.append(("impacts-invalid", st, {"bad": b, "mode": "file", "order": _order(spec, st, 12)}))
        for how in PROBES:
            plan.append(("probe-impacts", [], {"how": how}))
    extra = lambda: dict(_rnd_payload(rng), precise=rng.random() * 10 ** rng.randint(-5, 5), nested={"l": [1, [2.5, {"d": None}]], "t": True})  # noqa
    for v in META_VARIANTS:
        plan.append(("meta-file", some(), dict(v, pathlib=rng.random() < 0.5, extra_meta=extra())))
    for v in (META_VARIANTS[0], META_VARIANTS[1], META_VARIANTS[6]):
        plan.append(("meta-fresh", [], dict(v, extra_meta=extra())))
    for how in FAIL_SAVE:
        st = some()
        plan.append(("fail-save", st, {"how": how, "pathlib": rng.random() < 0.5, "order": _order(spec, st, 13)}))
    for how in FAIL_META:
        st = some()
        plan.append(("fail-meta", st, {"how": how, "order": _order(spec, st, 14)}))
    return plan


def _nontrivial(spec, ranked, channel, params):
    lazy_kind = spec["kind"] != "custom"
    pending = lazy_kind and len(set(ranked)) < 2 ** len(spec["signature"])
    payload = bool(spec.get("metadata")) or spec["kind"] == "random_min_c_rep"
    if channel.startswith("meta"):
        return bool(spec.get("metadata")) or bool(params.get("extra_meta"))
    if channel.startswith("impacts"):
        return True
    return pending or payload


def _execute(spec, queries, plan, tmp, ref):
    """run a plan; -> list of (channel, ranked, params, [(kind, expected, observed)], note)"""
    done = []
    pending = []
    for i, (channel, ranked, params) in enumerate(plan):
        sub = os.path.join(tmp, f"c{i}")
        os.mkdir(sub)
        if channel in SIMPLE:
            done.append((channel, ranked, params, SIMPLE[channel](spec, ranked, queries, params, sub, ref), None))
        elif channel in FAILING:
            v, raised = FAILING[channel](spec, ranked, queries, params, sub, ref)
            done.append((channel, ranked, params, v, raised))
        elif channel in FRESH:
            v, job, expect = FRESH[channel](spec, ranked, queries, params, sub, ref, str(i))
            if job is None:
                done.append((channel, ranked, params, v, None))
            else:
                pending.append((channel, ranked, params, v, job, expect))
        else:
            raise ValueError(channel)
    if pending:
        results = run_fresh([p[4] for p in pending], tmp)
        for (channel, ranked, params, v, job, expect), res in zip(pending, results):
            done.append((channel, ranked, params, v + judge_fresh(job, expect, res, ref), None))
    return done


def _obj_case(item):
    kind, variant, seed, tier = item
    rng = random.Random(f"{seed}|{kind}|{variant}")
    spec, rejected = _gen_spec(kind, variant, rng)
    queries = _gen_queries(rng, spec["signature"], 6)
    states = _gen_states(rng, spec, tier)
    out = {"evaluations": 0, "fingerprints": [], "violations": [], "rejected": rejected, "spec": spec, "queries": queries, "states": len(states), "notes": {}}
    ref = _ref(spec, queries)
    content = _content(spec, ref)
    with tempfile.TemporaryDirectory(prefix="c20_") as tmp:
        for channel, ranked, params, viols, note in _execute(spec, queries, _plan(spec, states, rng, tier), tmp, ref):
            if channel in FAILING:
                key = f"{channel}[{params['how']}]:" + (note if channel.startswith("probe-") else ("raised" if note else "no error"))
                out["notes"][key] = out["notes"].get(key, 0) + 1
            if channel.startswith("probe-"):
                continue  # tallied only, neither judged nor counted
            out["evaluations"] += 1
            if _nontrivial(spec, ranked, channel, params):
                pkey = _canon({k: v for k, v in params.items() if k not in ("order",)})
                out["fingerprints"].append(hashlib.sha1(_canon([spec["kind"], content, sorted(ranked), channel, pkey]).encode()).hexdigest()[:16])
            for k, e, ob in viols:
                out["violations"].append(_viol(k, spec, ranked, channel, queries, params, e, ob))
    return out


# ---------------------------------------------------------------------------
# interface
# ---------------------------------------------------------------------------
QUICK = [("custom", "plain", 6), ("custom", "with-base", 3), ("system-z", "strict", 14), ("system-z", "strict-ext", 4), ("system-z", "weak-ext", 6), ("system-z", "facts", 8), ("random_min_c_rep", "plain", 14)]


def run(tier, seed):
    rng = random.Random(seed)
    mult = 8 if tier == "thorough" else 1
    items = []
    for kind, variant, n in QUICK:
        for _ in range(n * mult):
            items.append((kind, variant, rng.randrange(10 ** 9), tier))
    results = pmap(_obj_case, items)
    tot = {"evaluations": 0, "fingerprints": set(), "violations": [], "rejected": 0}
    notes, kinds, by_kind = {}, {}, {}
    states = 0
    for r in results:
        tot["evaluations"] += r["evaluations"]
        tot["fingerprints"].update(r["fingerprints"])
        tot["violations"].extend(r["violations"])
        tot["rejected"] += r["rejected"]
        states += r["states"]
        kinds[r["spec"]["kind"]] = kinds.get(r["spec"]["kind"], 0) + 1
        for k, v in r["notes"].items():
            notes[k] = notes.get(k, 0) + v
    for v in tot["violations"]:
        by_kind[v["kind"]] = by_kind.get(v["kind"], 0) + 1
    tot["samples"] = [dict(object=r["spec"], queries=r["queries"], states=r["states"]) for r in (results[0], results[len(results) // 2], results[-1])]
    tot["scope"] = (
        f"{len(items)} ranking objects ({kinds}): custom total rankings over 2-3 atoms (with/without a base), System Z over seeded random bases "
        "(2-4 atoms, 1-4 conditionals; strict, strict with extended=True, weakly consistent with extended=True, with facts as text or formula), "
        "random-min-c-representations of strongly consistent bases keyed 1..n; partial states: ALL 16 subsets of ranked worlds for 2 atoms, "
        "empty/full/singleton/random subsets otherwise; channels: save_ocf/load_ocf same process (protocols default,2..5, str/Path), fresh interpreter, "
        "save-load-continue-save-load; impacts files (json/pickle x 5 suffixes, init_with_impacts/import_impacts, fresh interpreter), impacts lists, "
        f"{len(BAD_VECTORS)} kinds of invalid vectors; metadata files ({len(META_VARIANTS)} suffix/fmt combinations, fresh interpreter); "
        f"{len(FAIL_SAVE)} failure points of save_ocf and {len(FAIL_META)} of save_metadata"
    )
    tot["rule"] = (
        "objects from random.Random(seed); a case is (kind, hash of completed ranks+impacts+verdicts+partition+user metadata [c-representations: "
        "the base up to semantics, since the constructor's choice of vector is not deterministic], set of worlds ranked "
        "before the save, channel with its parameters); counted as non-trivial only if at least one rank is not yet computed at save time or "
        "the impacts / user metadata payload is non-empty"
    )
    tot["extra"] = {"objects": len(items), "states": states, "failure_points": notes, "violations_by_kind": by_kind}
    return tot


def replay(v):
    i = v["input"]
    spec, ranked, channel, queries, params = i["object"], i["ranked"], i["channel"], [list(q) for q in i["queries"]], i["params"]
    ref = _ref(spec, queries)
    with tempfile.TemporaryDirectory(prefix="c20r_") as tmp:
        done = _execute(spec, queries, [(channel, ranked, params)], tmp, ref)
    found = [dict(kind=k, expected=_jsonable(e), observed=_jsonable(o)) for (_, _, _, viols, _) in done for (k, e, o) in viols]
    same = [f for f in found if f["kind"] == v.get("kind")]
    return {"violates": bool(same) if v.get("kind") else bool(found), "same_kind": bool(same), "found": found}
