"""Engine B for C15: CNF encodings are faithful, correction-set enumeration is exact.

Part 1 (encodings)   every conditional of the scope is pushed through the real
    TseitinTransformation (belief_base_to_cnf(True,True,True) on a one-conditional base and
    query_to_cnf on the same epistemic state).  For EVERY complete assignment of the
    conditional's atoms the integer CNF plus the unit literals of the assignment is handed to a
    SAT solver (pysat 'g3'; Tseitin auxiliaries stay free = existentially quantified) and the
    verdict is compared with the truth table (verifies / falsifies / does not falsify).
    Additionally no clause may mention a variable whose pool object is the constant True/False
    unless a unit clause of the same CNF pins it to its value.

Part 2 (MCS)   for bases of S2/S3 the WCNFs are built exactly like the real callers do
    (c-inference compile_and_encode_query / compile_constraint, system-w / lex_inf recursion),
    the real Optimizer.minimal_correction_subsets is called for several SAT engines and the
    result is compared with the inclusion-minimal members of
        { {k not ignored : w falsifies k} : w a world satisfying the hard part SEMANTICALLY }
    computed over explicit worlds; each exactly once; [] iff no world satisfies the hard part.
"""
from __future__ import annotations

import collections
import hashlib
import itertools
import json
import multiprocessing as mp
import os
import pickle
import random
import traceback

from .common import (
    ATOMS2,
    SEM_CONDS2,
    BeliefBase,
    merge,
    pmap,
    realise,
    s3_base,
    sem_conditional,
    split_text,
    texts_of,
)

MODULE = "c15"
QUICK_ENGINES = ["rc2", "rc2-g4", "rc2-cd", "rc2-m22"]
ENC_KINDS = ("v", "f", "nf", "qv", "qf")


# ---------------------------------------------------------------------------
# helpers shared by both parts
# ---------------------------------------------------------------------------
def _mk_conds(cond_texts):
    from oracle.gen import cond as mkcond

    conds = {}
    for k, (b, a) in cond_texts.items():
        c = mkcond(b, a)
        c.index = k
        conds[k] = c
    return conds


def _pool_tables(pool):
    """(name -> id of every uninterpreted Boolean constant in the pool, id -> value of the
    Boolean constants True/False that were given an id)"""
    import z3

    names, consts = {}, {}
    for vid, obj in pool.id2obj.items():
        if not isinstance(obj, z3.ExprRef):
            continue  # helper variables of the optimizer are keyed by conditional keys
        if z3.is_true(obj):
            consts[vid] = True
        elif z3.is_false(obj):
            consts[vid] = False
        elif z3.is_const(obj) and obj.decl().kind() == z3.Z3_OP_UNINTERPRETED:
            assert str(obj) not in names, f"two pool ids for {obj}"
            names[str(obj)] = vid
    return names, consts


def _atom_ids(pool, atoms):
    """variable id of each atom that has one; found through the id2obj table by name and
    cross-checked against the obj2id table keyed by z3.Bool(name)"""
    import z3

    names, consts = _pool_tables(pool)
    ids = {}
    for a in atoms:
        via_obj = pool.obj2id.get(z3.Bool(a)) if z3.Bool(a) in pool.obj2id else None
        via_name = names.get(a)
        assert via_obj == via_name, f"harness: atom {a} id by object {via_obj} != id by name {via_name}"
        if via_name is not None:
            ids[a] = via_name
    assert len(set(ids.values())) == len(ids)
    return ids, consts


def _sha(obj):
    return hashlib.sha1(json.dumps(obj, default=str, sort_keys=True).encode()).hexdigest()[:16]


# ---------------------------------------------------------------------------
# Part 1: encodings
# ---------------------------------------------------------------------------
def _enc_case(args):
    sig, (tb, ta) = args
    from oracle.core import all_worlds, atoms_of, ev
    from oracle.gen import cond as mkcond
    from pysat.solvers import Solver

    from inference.inference_manager import create_epistemic_state
    from inference.tseitin_transformation import TseitinTransformation

    out = {"evaluations": 0, "fingerprints": [], "violations": [], "rejected": False, "stats": collections.Counter()}
    c = mkcond(tb, ta)
    c.index = 1
    text = f"({tb}|{ta})"
    atoms = atoms_of([c.antecedence, c.consequence])
    worlds = all_worlds(atoms)
    truth = {
        "v": [ev(c.antecedence, w) and ev(c.consequence, w) for w in worlds],
        "f": [ev(c.antecedence, w) and not ev(c.consequence, w) for w in worlds],
    }
    truth["nf"] = [not x for x in truth["f"]]
    truth["qv"], truth["qf"] = truth["v"], truth["f"]

    inp = dict(part="encoding", signature=list(sig), conditional=[tb, ta])

    def bad(kind, **kw):
        out["violations"].append(dict(module=MODULE, kind=kind, input=dict(inp, **kw.pop("inp", {})), **kw))

    bb = BeliefBase(list(sig), {1: c}, "c15")
    es = create_epistemic_state(bb, "system-w", "z3", "rc2", False)
    cnfs = {}
    try:
        tt = TseitinTransformation(es)
        tt.belief_base_to_cnf(True, True, True)
        cnfs["v"], cnfs["f"], cnfs["nf"] = es["v_cnf_dict"][1], es["f_cnf_dict"][1], es["nf_cnf_dict"][1]
        cnfs["qv"], cnfs["qf"] = tt.query_to_cnf(c)
    except BaseException as ex:  # noqa
        out["evaluations"] += 1
        bad("exception", expected="CNFs", observed=f"{type(ex).__name__}: {ex}")
        return out
    ids, consts = _atom_ids(es["pool"], atoms)
    for kind in ENC_KINDS:
        cnf = cnfs[kind]
        out["evaluations"] += 1
        out["fingerprints"].append(_sha([text, kind]))
        assert isinstance(cnf, list) and all(isinstance(cl, list) and all(isinstance(l, int) and l for l in cl) for cl in cnf), cnf
        used = {abs(l) for cl in cnf for l in cl}
        st = out["stats"]
        st["cnf_empty"] += not cnf
        st["cnf_with_auxiliaries"] += bool(used - set(ids.values()) - set(consts))
        st["cnf_with_pinned_constant"] += bool(used & set(consts))
        st["cnf_unsat_for_every_world"] += not any(truth[kind])
        st["cnf_sat_for_every_world"] += all(truth[kind])
        # constants must not be free variables
        for vid in sorted(used & set(consts)):
            pin = [vid] if consts[vid] else [-vid]
            if pin not in cnf:
                bad(
                    "constant-as-variable",
                    inp=dict(cnf_kind=kind),
                    expected=f"variable {vid} stands for the constant {consts[vid]}: absent or pinned by the unit clause {pin}",
                    observed=dict(cnf=cnf, ids=ids, constants={str(k): v for k, v in consts.items()}),
                )
        # satisfiability under every complete assignment of the atoms
        got = []
        with Solver(name="g3", bootstrap_with=cnf) as s:
            for w in worlds:
                assum = [(vid if w[a] else -vid) for a, vid in ids.items() if vid in used]
                got.append(bool(s.solve(assumptions=assum)))
        if got != truth[kind]:
            diff = [i for i in range(len(worlds)) if got[i] != truth[kind][i]]
            bad(
                "cnf-unfaithful",
                inp=dict(cnf_kind=kind),
                expected={json.dumps(worlds[i]): truth[kind][i] for i in diff[:4]},
                observed=dict(
                    satisfiable={json.dumps(worlds[i]): got[i] for i in diff[:4]},
                    wrong_worlds=len(diff),
                    cnf=cnf,
                    ids=ids,
                    constants={str(k): v for k, v in consts.items()},
                ),
            )
    return out


def _s2_realisations():
    """every (consequent text, antecedent text) that bounded.common can produce for the 81
    semantic conditionals over {a,b}: all choices of the consequent outside the antecedent
    x styles 0-3 for both sides"""
    seen = set()
    U = frozenset(range(4))
    for ver, fal in SEM_CONDS2:
        A = ver | fal
        rest = sorted(U - A)
        for r in range(len(rest) + 1):
            for extra in itertools.combinations(rest, r):
                for sb in range(4):
                    tb = realise(ver | frozenset(extra), None, sb)[1]
                    for sa in range(4):
                        ta = realise(A, None, sa)[1]
                        seen.add((tb, ta))
    return sorted(seen)


def _wrap(rng, t, atoms):
    """decorate formula text t with a tautology / contradiction / repetition"""
    x = rng.choice(atoms)
    y = rng.choice(atoms)
    return rng.choice(
        [
            f"({t},({x};!{x}))",
            f"({t};({x},!{x}))",
            f"({t};({x};!{x}))",
            f"({t},({x},!{x}))",
            f"({t};!({t}))",
            f"({t},!({t}))",
            f"({t},{t})",
            f"({t};{t})",
            f"(({x};!{x}),{t})",
            f"(({x},!{x});{t})",
            f"!(({t},!({y})))",
            f"(({t},Top);Bottom)",
            f"(({t};Bottom),Top)",
            f"!(!({t}))",
            f"(({x},{y});(!{x};!{y}))",
            f"(({x};{y}),(!{x},!{y}))",
        ]
    )


def _rnd_texts(rng, n):
    from oracle.gen import rnd_formula

    cases = []
    for _ in range(n):
        atoms = ["a", "b", "c", "d"][: rng.choice([3, 4])]
        mode = rng.random()
        pick = atoms if mode < 0.7 else rng.sample(atoms, 2)  # few atoms -> repeated atoms
        consts = rng.choice([0.0, 0.1, 0.25])
        tb = rnd_formula(rng, pick, rng.choice([1, 2, 3, 3]), consts)[1]
        ta = rnd_formula(rng, pick, rng.choice([1, 2, 3, 3]), consts)[1]
        r = rng.random()
        if r < 0.15:
            tb = _wrap(rng, tb, atoms)
        elif r < 0.30:
            ta = _wrap(rng, ta, atoms)
        elif r < 0.36:
            tb, ta = _wrap(rng, tb, atoms), _wrap(rng, ta, atoms)
        elif r < 0.40:
            ta = tb  # (B|B)
        elif r < 0.44:
            ta = f"!({tb})"  # (B|!B)
        cases.append((atoms, (tb, ta)))
    return cases


# ---------------------------------------------------------------------------
# Part 2: minimal correction subsets
# ---------------------------------------------------------------------------
def _constructions(rng, keys, nq, n_rec):
    """hard / soft / ignore combinations of the kinds the operators use; purely in terms of keys
    and query indices.  hard items: ["qv"|"qf", query index] or ["v"|"f"|"nf", key]"""
    keys = list(keys)
    out = []
    # (i) c-inference compile_and_encode_query: query CNF hard, every conditional soft, no ignore
    for qi in range(nq):
        for kind in ("qv", "qf"):
            out.append(dict(style="query", hard=[[kind, qi]], soft=list(keys), ignore=[]))
    # (ii) c-inference compile_constraint: v/f CNF of conditional i hard, the others soft, ignore=[i]
    for i in keys:
        for kind in ("v", "f"):
            out.append(dict(style="compile_constraint", hard=[[kind, i]], soft=[k for k in keys if k != i], ignore=[i]))
    # (iii) system-w / lex_inf recursion: f CNFs of xi, nf CNFs of the rest of the higher layers,
    # soft = the current layer, ignore = every other key, query CNF appended last
    for _ in range(n_rec):
        qi = rng.randrange(nq)
        kind = rng.choice(["qv", "qf"])
        soft = [k for k in keys if rng.random() < 0.5] or [rng.choice(keys)]
        rest = [k for k in keys if k not in soft]
        upper = [k for k in rest if rng.random() < 0.7]
        xi = [k for k in upper if rng.random() < 0.4]
        hard = [["f", k] for k in xi] + [["nf", k] for k in upper if k not in xi] + [[kind, qi]]
        # lex_inf keeps the soft clauses of the higher layers in the WCNF (their keys are ignored)
        style = rng.choice(["recursion", "recursion", "recursion-lex"])
        out.append(dict(style=style, hard=hard, soft=soft, ignore=rest))
    # (iv) system-w, extended mode, base without a finite layer: nf CNFs of every conditional and the
    # falsification CNF of the query hard, no soft clause, every key ignored
    for qi in range(nq):
        out.append(dict(style="no-finite-layer", hard=[["nf", k] for k in keys] + [["qf", qi]], soft=[], ignore=list(keys)))
    return out


def _build_wcnf(es, con, qcnfs):
    """exactly the append sequences of the real callers"""
    from pysat.formula import WCNF

    def cnf_of(item):
        kind, ref = item
        if kind == "qv":
            return qcnfs[ref][0]
        if kind == "qf":
            return qcnfs[ref][1]
        return es[{"v": "v_cnf_dict", "f": "f_cnf_dict", "nf": "nf_cnf_dict"}[kind]][ref]

    if con["style"] in ("query", "compile_constraint"):
        # c_inference.compile_constraint / compile_and_encode_query
        (item,) = con["hard"]
        conditional = cnf_of(item)
        ignored = set(con["ignore"])
        wcnf = WCNF()
        [wcnf.append(c) for c in conditional]
        [wcnf.append(s, weight=1) for j, softc in es["nf_cnf_dict"].items() if j not in ignored for s in softc]
        assert [j for j in es["nf_cnf_dict"] if j not in ignored] == con["soft"]
        return wcnf
    if con["style"] == "recursion-lex":
        # lex_inf._inference / _rec_inference: query first, the soft clauses of a layer stay in the
        # formula when its f / nf CNFs are added as hard clauses for the next layer
        w = WCNF()
        [w.append(c) for c in cnf_of(con["hard"][-1])]
        upper = [ref for _, ref in con["hard"][:-1]]
        if upper:
            for index in sorted(upper):
                softc = es["nf_cnf_dict"][index]
                [w.append(s, weight=1) for s in softc]
            w = w.copy()
            kinds = {ref: kind for kind, ref in con["hard"][:-1]}
            for i in sorted(upper):
                [w.append(c) for c in cnf_of([kinds[i], i])]
        for index in con["soft"]:
            softc = es["nf_cnf_dict"][index]
            [w.append(s, weight=1) for s in softc]
        return w
    if con["style"] == "no-finite-layer":
        # system_w._inference, weakly, len(partition) < 2
        wcnf = WCNF()
        for index in con["ignore"]:
            [wcnf.append(c) for c in es["nf_cnf_dict"][index]]
        [wcnf.append(c) for c in cnf_of(con["hard"][-1])]
        return wcnf
    # system_w._rec_inference
    hard_constraints = WCNF()
    for item in con["hard"][:-1]:
        [hard_constraints.append(c) for c in cnf_of(item)]
    wcnf = hard_constraints.copy()
    for index in con["soft"]:
        softc = es["nf_cnf_dict"][index]
        [wcnf.append(s, weight=1) for s in softc]
    [wcnf.append(c) for c in cnf_of(con["hard"][-1])]
    return wcnf


def _expected_mcs(sem, qsem, con):
    sat = set(sem.U)
    for kind, ref in con["hard"]:
        if kind == "qv":
            sat &= qsem[ref][1]
        elif kind == "qf":
            sat &= qsem[ref][2]
        elif kind == "v":
            sat &= sem.ver[ref]
        elif kind == "f":
            sat &= sem.fal[ref]
        elif kind == "nf":
            sat -= sem.fal[ref]
        else:
            raise ValueError(kind)
    fam = {frozenset(k for k in con["soft"] if w in sem.fal[k]) for w in sat}
    return {s for s in fam if not any(t < s for t in fam)}, len(sat)


def _run_engine(sig, conds, queries, cons, engine):
    """fresh epistemic state, real Tseitin, the constructions in order -> list of results
    (list of lists, or 'EXC ...')"""
    from inference.inference_manager import create_epistemic_state
    from inference.optimizer import create_optimizer
    from inference.tseitin_transformation import TseitinTransformation

    bb = BeliefBase(list(sig), dict(conds), "c15")
    es = create_epistemic_state(bb, "system-w", "z3", engine, False)
    tt = TseitinTransformation(es)
    tt.belief_base_to_cnf(True, True, True)
    qcnfs = [tt.query_to_cnf(q) for q in queries]
    results = []
    for con in cons:
        wcnf = _build_wcnf(es, con, qcnfs)
        try:
            optimizer = create_optimizer(es)
            got = optimizer.minimal_correction_subsets(wcnf, ignore=list(con["ignore"]), deadline=None)
        except BaseException as ex:  # noqa
            got = f"EXC {type(ex).__name__}: {ex}"
        results.append(got)
    return results


def _fork_run(sig, conds, queries, cons, engine):
    """_run_engine in a forked child: a SAT engine that takes the interpreter down (SIGSEGV,
    abort) must not take the pool worker with it.  -> results, or the number of the fatal signal"""
    rfd, wfd = os.pipe()
    pid = os.fork()
    if pid == 0:
        code = 0
        try:
            os.close(rfd)
            try:
                payload = ("ok", _run_engine(sig, conds, queries, cons, engine))
            except BaseException:  # noqa  (a failure of the checker: re-raised in the parent)
                payload = ("err", traceback.format_exc())
            with os.fdopen(wfd, "wb") as f:
                f.write(pickle.dumps(payload))
        except BaseException:  # noqa
            code = 3
        finally:
            os._exit(code)
    os.close(wfd)
    with os.fdopen(rfd, "rb") as f:
        data = f.read()
    _, status = os.waitpid(pid, 0)
    if os.WIFSIGNALED(status):
        return os.WTERMSIG(status)
    if not data or os.WEXITSTATUS(status) != 0:
        raise RuntimeError(f"c15: engine child exited with status {status} without a result")
    tag, val = pickle.loads(data)
    if tag == "err":
        raise RuntimeError("c15: checker failure in the engine child\n" + val)
    return val


def _run_engine_safe(sig, conds, queries, cons, engine):
    res = _fork_run(sig, conds, queries, cons, engine)
    if not isinstance(res, int):
        return res, False
    # the interpreter died: find out for which constructions (each on a fresh state)
    out = []
    for con in cons:
        r = _fork_run(sig, conds, queries, [con], engine)
        out.append(f"EXC interpreter killed by signal {r} inside minimal_correction_subsets" if isinstance(r, int) else r[0])
    return out, True


def _judge(got, want):
    """-> list of (kind, observed)"""
    if isinstance(got, str):
        return [("exception", got)]
    ok_shape = isinstance(got, list) and all(isinstance(x, list) for x in got)
    if not ok_shape:
        return [("mcs-wrong", repr(got))]
    res = []
    as_sets = [frozenset(x) for x in got]
    if len(set(as_sets)) != len(as_sets) or any(len(set(x)) != len(x) for x in got):
        res.append(("mcs-duplicates", [sorted(x) for x in got]))
    if set(as_sets) != want:
        res.append(("mcs-wrong", sorted(sorted(x) for x in set(as_sets))))
    return res


def _mcs_case(args):
    sig, cond_texts, query_texts, cons, engines = args
    from oracle.core import Sem
    from oracle.gen import cond as mkcond

    out = {"evaluations": 0, "fingerprints": [], "violations": [], "rejected": False, "stats": collections.Counter()}
    conds = _mk_conds(cond_texts)
    queries = [mkcond(b, a) for (b, a) in query_texts]
    sem = Sem(conds, [f for q in queries for f in (q.antecedence, q.consequence)], sig)
    qsem = [sem.q(q) for q in queries]
    base_fp = [len(sem.sig)] + [[k, sorted(sem.ver[k]), sorted(sem.fal[k])] for k in sem.keys]
    wants = [_expected_mcs(sem, qsem, con) for con in cons]
    for engine in engines:
        results, died = _run_engine_safe(sig, conds, queries, cons, engine)
        for ci, (con, got, (want, nsat)) in enumerate(zip(cons, results, wants)):
            out["evaluations"] += 1
            st = out["stats"]
            st["mcs_hard_unsatisfiable"] += nsat == 0
            st["mcs_two_or_more_minimal_sets"] += len(want) >= 2
            st["mcs_three_or_more_minimal_sets"] += len(want) >= 3
            st["mcs_nonempty_minimal_set"] += any(want_set for want_set in want)
            st["mcs_style_" + con["style"]] += 1
            if nsat >= 2:
                hard_fp = [[k, sorted(qsem[r][1] if k == "qv" else qsem[r][2])] if k in ("qv", "qf") else [k, r] for k, r in con["hard"]]
                out["fingerprints"].append(_sha([base_fp, con["style"], hard_fp, con["soft"], engine]))
            for kind, observed in _judge(got, want):
                # does the single construction reproduce on a fresh state?  (reporting aid)
                single = got if died else _run_engine_safe(sig, conds, queries, [con], engine)[0][0]
                alone = any(k == kind for k, _ in _judge(single, want))
                out["violations"].append(
                    dict(
                        module=MODULE,
                        kind=kind,
                        input=dict(
                            part="mcs",
                            signature=list(sig),
                            conditionals={str(k): list(v) for k, v in cond_texts.items()},
                            queries=[list(q) for q in query_texts],
                            constructions=[con] if alone else cons[: ci + 1],
                            index=0 if alone else ci,
                            engine=engine,
                        ),
                        expected=sorted(sorted(x) for x in want),
                        observed=observed,
                        worlds_satisfying_hard=nsat,
                    )
                )
    return out


# ---------------------------------------------------------------------------
# engines
# ---------------------------------------------------------------------------
def _probe_engine(name, conn):
    """pure pysat: can RC2 drive this SAT engine incrementally at all?  (child process: some
    engines abort the interpreter)"""
    try:
        devnull = os.open(os.devnull, os.O_WRONLY)
        os.dup2(devnull, 1)
        os.dup2(devnull, 2)
        import warnings

        warnings.filterwarnings("ignore")
        from pysat.examples.rc2 import RC2
        from pysat.formula import WCNF

        w = WCNF()
        w.append([1, 2])
        w.append([-1, -2])
        for cl in ([-1], [-2, 3], [-3], [4], [-4]):
            w.append(cl, weight=1)
        seq = []
        with RC2(w, solver=name) as r:
            m = r.compute()
            seq.append((m is not None, r.cost))
            r.add_clause([1, 9])
            r.add_clause([-9, -1])
            m = r.compute()
            seq.append((m is not None, r.cost))
            r.add_clause([5])
            r.add_clause([-5])
            m = r.compute()
            seq.append((m is not None, r.cost))
        good = seq == [(True, 2), (True, 2), (False, 2)]
        # degenerate formulas every caller can produce: no clause at all, hard only, soft only
        for hard, soft in (([], []), ([[1, -2], [2]], []), ([], [[1], [-1]])):
            w = WCNF()
            for cl in hard:
                w.append(cl)
            for cl in soft:
                w.append(cl, weight=1)
            with RC2(w, solver=name) as r:
                m = r.compute()
                good = good and m is not None and r.cost == (1 if soft else 0)
                r.add_clause([3, -4])
                r.add_clause([4])
                m = r.compute()
                good = good and m is not None and 3 in m and 4 in m
        conn.send(good)
    except BaseException:  # noqa
        conn.send(False)
    finally:
        os._exit(0)


def usable_engines():
    """every pysat SAT engine name (first alias) that RC2 can drive, as 'rc2-<name>'"""
    return [e for e, good in probe_engines().items() if good]


def probe_engines():
    from pysat.solvers import SolverNames

    ctx = mp.get_context("fork")
    ok = {}
    for attr in sorted(k for k in vars(SolverNames) if not k.startswith("_")):
        short = getattr(SolverNames, attr)[0]
        parent, child = ctx.Pipe(duplex=False)
        p = ctx.Process(target=_probe_engine, args=(short, child))
        p.start()
        child.close()
        good = False
        if parent.poll(20):
            try:
                good = bool(parent.recv())
            except EOFError:
                good = False
        p.join(5)
        if p.is_alive():
            p.kill()
        ok["rc2-" + short] = good
    return ok


# ---------------------------------------------------------------------------
# run / replay
# ---------------------------------------------------------------------------
def _mcs_cases(rng, tier, engines):
    from oracle.gen import rnd_base, rnd_conditional

    thorough = tier == "thorough"
    cases = []

    core = [e for e in QUICK_ENGINES if e in engines]
    others = [e for e in engines if e not in core]

    def add(sig, conds, queries, n_rec):
        qtexts = [split_text(str(q)) for q in queries] + [("Top", "Top")]  # verified by every world
        cons = _constructions(rng, list(conds.keys()), len(qtexts), n_rec)
        # quick: the four core engines; thorough: the core engines on every base and every other
        # usable engine on a rotating third of the bases
        mine = core + (rng.sample(others, min(len(others), max(1, len(others) // 3))) if others else [])
        cases.append((list(sig), texts_of(conds), qtexts, cons, mine))

    # S2
    singles = [(c,) for c in SEM_CONDS2]
    pairs = list(itertools.combinations_with_replacement(SEM_CONDS2, 2))
    if thorough:
        space = singles + rng.sample(pairs, 1500)
    else:
        space = rng.sample(singles, 30) + rng.sample(pairs, 120)
    for combo in space:
        conds = {i + 1: sem_conditional(v, f, rng, i + 1) for i, (v, f) in enumerate(combo)}
        queries = [sem_conditional(v, f, rng) for (v, f) in rng.sample(SEM_CONDS2, 2)]
        add(ATOMS2, conds, queries, 3)
    # S3 (depth 2) and a deeper variant whose CNFs carry Tseitin auxiliaries
    n3 = 800 if thorough else 80
    for i in range(n3):
        if i % 4 == 3:
            atoms = ["a", "b", "c", "d"]
            conds = rnd_base(rng, atoms, rng.randint(2, 4), 3, consts=0.08).conditionals
            queries = [rnd_conditional(rng, atoms, 3, 0.08) for _ in range(2)]
            sig = atoms
        elif i % 4 == 1:
            # literal-like conditionals conflict often: several minimal correction sets
            sig = ["a", "b", "c", "d"][: rng.choice([3, 4])]
            conds = rnd_base(rng, sig, rng.randint(3, 5), 1, consts=0.05).conditionals
            queries = [rnd_conditional(rng, sig, 1, 0.05) for _ in range(2)]
        else:
            sig, conds = s3_base(rng, consts=0.1)
            queries = [rnd_conditional(rng, sig, 2, 0.1) for _ in range(2)]
        add(sig, conds, queries, 5)
    return cases


def run(tier, seed):
    rng = random.Random(seed)
    thorough = tier == "thorough"
    engines = list(QUICK_ENGINES)
    if thorough:
        # 'rc2' is the default spelling of rc2-g3; keep both spellings
        probed = probe_engines()
        engines = list(QUICK_ENGINES) + [e for e, good in probed.items() if good and e not in QUICK_ENGINES]

    # Part 1
    s2 = [(ATOMS2, t) for t in _s2_realisations()]
    rnd = _rnd_texts(rng, 5000 if thorough else 300)
    enc_cases = s2 + rnd
    raw1 = pmap(_enc_case, enc_cases)
    r1 = merge(raw1)

    # Part 2
    mcs_cases = _mcs_cases(rng, tier, engines)
    raw2 = pmap(_mcs_case, mcs_cases)
    r2 = merge(raw2)
    stats = collections.Counter()
    for r in raw1 + raw2:
        stats.update(r["stats"])
    per_engine = collections.Counter(e for c in mcs_cases for e in c[4])

    res = {
        "evaluations": r1["evaluations"] + r2["evaluations"],
        "fingerprints": r1["fingerprints"] | r2["fingerprints"],
        "violations": r1["violations"] + r2["violations"],
        "rejected": 0,
    }
    res["scope"] = (
        f"Part 1: the 81 semantic conditionals over {{a,b}} in all {len(s2)} realisations of bounded.common.realise "
        f"(styles 0-3 x 0-3, every consequent choice outside the antecedent) + {len(rnd)} seeded random conditionals "
        "(3-4 atoms, depth <= 3, Top/Bottom, repeated atoms, tautologies, contradictions) x 5 CNFs (v, f, nf of "
        "belief_base_to_cnf; v, f of query_to_cnf) x every complete assignment of the atoms; "
        f"Part 2: {len(mcs_cases)} bases (S2 {'81 singles + 1500 sampled pairs' if thorough else '30 singles + 120 pairs sampled'}; "
        f"S3 {'800' if thorough else '80'} random bases of <= 5 conditionals over 3-4 atoms: half depth 2, a quarter depth 3, a quarter depth 1) x 2 random queries + (Top|Top) x "
        "hard/soft/ignore constructions (query v/f with all soft as in c-inference compile_and_encode_query; v/f of conditional i "
        "with ignore=[i] as in compile_constraint; f/nf of higher layers + query with soft = a layer as in the system-w and "
        "lex_inf recursions; nf of every key + query f without soft clauses as in extended system-w) x engines: "
        f"{[e for e in engines if e in QUICK_ENGINES]} on every base"
        + (f", each of {[e for e in engines if e not in QUICK_ENGINES]} on a seeded third of the bases" if thorough else "")
    )
    res["rule"] = (
        "Part 1: distinct (conditional text, CNF kind); Part 2: distinct (semantic base, semantic hard set, soft keys, engine) "
        "with at least two worlds satisfying the hard part; the expected family is computed from explicit worlds"
    )
    res["samples"] = [
        dict(part="encoding", signature=enc_cases[0][0], conditional=list(enc_cases[0][1])),
        dict(part="encoding", signature=rnd[0][0], conditional=list(rnd[0][1])),
        dict(
            part="mcs",
            signature=mcs_cases[-1][0],
            conditionals={str(k): list(v) for k, v in mcs_cases[-1][1].items()},
            queries=[list(q) for q in mcs_cases[-1][2]],
            constructions=mcs_cases[-1][3][-2:],
        ),
    ]
    res["extra"] = {
        "engines": engines,
        "part1_evaluations": r1["evaluations"],
        "part1_fingerprints": len(r1["fingerprints"]),
        "part2_evaluations": r2["evaluations"],
        "part2_fingerprints": len(r2["fingerprints"]),
        "bases_per_engine": dict(per_engine),
        "engines_unusable_in_plain_pysat_rc2": [e for e, good in probed.items() if not good] if thorough else "not probed",
        "stats": dict(stats),
    }
    return res


def replay(v):
    inp = v["input"]
    if inp.get("part") == "encoding":
        r = _enc_case((inp["signature"], tuple(inp["conditional"])))
        hits = [x for x in r["violations"] if x["kind"] == v["kind"] and x["input"].get("cnf_kind") == inp.get("cnf_kind")]
        return {"violates": bool(hits), "observed": [x["observed"] for x in hits][:1]}
    if inp.get("part") == "mcs":
        cond_texts = {int(k): tuple(t) for k, t in inp["conditionals"].items()}
        query_texts = [tuple(q) for q in inp["queries"]]
        cons = inp["constructions"]
        from oracle.core import Sem
        from oracle.gen import cond as mkcond

        conds = _mk_conds(cond_texts)
        queries = [mkcond(b, a) for (b, a) in query_texts]
        sem = Sem(conds, [f for q in queries for f in (q.antecedence, q.consequence)], inp["signature"])
        qsem = [sem.q(q) for q in queries]
        con = cons[inp["index"]]
        want, nsat = _expected_mcs(sem, qsem, con)
        got = _run_engine_safe(inp["signature"], conds, queries, cons, inp["engine"])[0][inp["index"]]
        verdicts = _judge(got, want)
        hit = [o for k, o in verdicts if k == v["kind"]]
        return {
            "violates": bool(hit),
            "expected": sorted(sorted(x) for x in want),
            "observed": hit[0] if hit else (got if isinstance(got, str) else sorted(sorted(x) for x in got)),
        }
    return {"violates": False, "note": "unknown input shape"}
