"""Contracts: inference/consistency_sat.py  (C06; used by C01, C02, C07, C16)"""
import z3

from contracts.spec import PS, PSK
from pyvc import logic as L
from pyvc.contract import Contract, LoopSpec
from pyvc.logic import Forall, LCnd, LForm, LInt, LLCnd, LLInt
from pyvc.values import *  # noqa

BeliefBaseT = TObj("BeliefBase", {"conditionals": TDict(TCnd), "signature": TOpaque, "name": TStr})


def _i(name="_ci"):
    return z3.Int(name)


Contract(
    "inference.consistency_sat:toImplicit",
    params={"conditionals": TList(TCnd)},
    returns=TList(TForm),
    ensures=lambda c, r: [
        r.len() == c.conditionals.len(),
        Forall(
            [_i()],
            [LForm.at(r.t, _i())],
            z3.Implies(
                z3.And(0 <= _i(), _i() < c.conditionals.len()),
                L.M(LForm.at(r.t, _i())) == L.nf(LCnd.at(c.conditionals.t, _i())),
            ),
            "toImplicit.pointwise",
        ),
    ],
    properties=["C06"],
)


def values_term(ckb_view, c):
    d = c.field(ckb_view, "conditionals")
    return d, L.values_of(L.Cnd)(d.keys, d.val)


def result_false_or(r0):
    """(isfalse, list term or None) of the first component of consistency's result"""
    if isinstance(r0, VBool):
        return z3.Not(r0.t), None  # `False` literal: isfalse  <=>  not value
    if isinstance(r0, VFalseOr):
        return r0.isfalse, r0.val.t
    if isinstance(r0, VList):
        return z3.BoolVal(False), r0.t
    raise Unsupported("result shape of consistency")


def _consistency_contract(qual, spec, items_of, elem_t, LT, LLT):
    """shared by consistency (items = conditionals) and consistency_indices (items = keys)"""

    def cs_of(c):
        d = c.field(c.ckb, "conditionals")
        return items_of(d)

    def x_of(c):
        d = c.field(c.ckb, "conditionals")
        return (d.val,) if spec is PSK else ()

    def inv_outer(s, j, pre):
        cs, x = cs_of(s), x_of(s)
        n = LLT.len(s.partition.t)
        k = z3.Int("_k_ne")
        return [
            s.partition.t == spec.GLs(*x, cs, n),
            s.conditionals.t == spec.GR(*x, cs, n),
            Forall(
                [k],
                [spec.GR(*x, cs, k)],
                z3.Implies(z3.And(0 <= k, k < n), LT.len(spec.GL(x, cs, k)) > 0),
                "layers.nonempty",
            ),
        ]

    def inv_add(s, j, pre):
        x = x_of(s)
        return [s.A(s.s) == L.inter(pre.A(pre.s), spec.K(*x, s.conditionals.t, j))]

    def inv_inner(s, j, pre):
        x = x_of(s)
        return [
            s.R.t == spec.FT(*x, s.conditionals.t, j),
            s.C.t == spec.FN(*x, s.conditionals.t, j),
            s.A(s.s) == pre.A(pre.s),
        ]

    def ensures(c, r):
        cs, x = cs_of(c), x_of(c)
        isfalse, lst = result_false_or(r.items[0])
        st = spec.stop(*x, cs)
        rest = spec.GR(*x, cs, st)
        strict_incons = LT.len(rest) > 0
        ext_incons = L.isempty(spec.KL(x, rest))
        out = [
            z3.Implies(z3.Not(c.weakly.t), isfalse == strict_incons),
            z3.Implies(c.weakly.t, isfalse == ext_incons),
        ]
        if lst is not None:
            out += [
                z3.Implies(z3.And(z3.Not(c.weakly.t), z3.Not(isfalse)), lst == spec.GLs(*x, cs, st)),
                z3.Implies(
                    z3.And(c.weakly.t, z3.Not(isfalse)),
                    lst == LLT.snoc(spec.GLs(*x, cs, st), spec.GR(*x, cs, st + 1)),
                ),
            ]
        return out

    return dict(inv_outer=inv_outer, inv_add=inv_add, inv_inner=inv_inner, ensures=ensures)


_c = _consistency_contract(
    "consistency", PS, lambda d: L.values_of(L.Cnd)(d.keys, d.val), TCnd, LCnd, LLCnd
)
Contract(
    "inference.consistency_sat:consistency",
    params={"ckb": BeliefBaseT, "solver": TStr, "weakly": TBool},
    defaults={"solver": lambda ex: VStr(const="z3"), "weakly": lambda ex: VBool(False)},
    returns=TTuple([TFalseOr(TList(TList(TCnd))), TOpaque]),
    locals={"partition": TList(TList(TCnd)), "R": TList(TCnd), "C": TList(TCnd)},
    ensures=_c["ensures"],
    loops={
        0: LoopSpec("while True", _c["inv_outer"]),
        1: LoopSpec("[... for k in knowledge]", _c["inv_add"]),
        2: LoopSpec("for c in conditionals", _c["inv_inner"]),
    },
    properties=["C06", "C01", "C02", "C07", "C16"],
)


# ---------------------------------------------------------------------------
# consistency_indices: the same algorithm over integer keys
# ---------------------------------------------------------------------------
def _mem(keys, k):
    return z3.Function("mem_Int", LInt.sort, L.Int, L.Bool)(keys, k)


def _all_in(lst, keys, name):
    i = z3.Int("_ai_" + name)
    return Forall(
        [i],
        [LInt.at(lst, i)],
        z3.Implies(z3.And(0 <= i, i < LInt.len(lst)), _mem(keys, LInt.at(lst, i))),
        "allin." + name,
    )


_k = _consistency_contract("consistency_indices", PSK, lambda d: d.keys, TInt, LInt, LLInt)


def _inv_outer_k(s, j, pre):
    d = s.field(s.ckb, "conditionals")
    return _k["inv_outer"](s, j, pre) + [_all_in(s.conditionals.t, d.keys, "conds")]


def _inv_inner_k(s, j, pre):
    d = s.field(s.ckb, "conditionals")
    return _k["inv_inner"](s, j, pre) + [_all_in(s.C.t, d.keys, "C")]


Contract(
    "inference.consistency_sat:consistency_indices",
    params={"ckb": BeliefBaseT, "solver": TStr, "weakly": TBool},
    defaults={"weakly": lambda ex: VBool(False)},
    returns=TTuple([TFalseOr(TList(TList(TInt))), TOpaque]),
    locals={"partition": TList(TList(TInt)), "R": TList(TInt), "C": TList(TInt)},
    ensures=_k["ensures"],
    loops={
        0: LoopSpec("while True", _inv_outer_k),
        1: LoopSpec("[... for k in knowledge]", _k["inv_add"]),
        2: LoopSpec("for i in conditionals", _inv_inner_k),
    },
    properties=["C06", "C03", "C04", "C07"],
)


# the library model of `BeliefBase(signature, conditionals, name)` (pyvc/lib.py: a new object holding exactly these three
# values) is what this contract proves of the real constructor
Contract(
    "inference.belief_base:BeliefBase.__init__",
    params={"self": BeliefBaseT, "signature": TOpaque, "conditionals": TDict(TCnd), "name": TStr},
    returns=TNone,
    ensures=lambda c, r: [
        c.field(c.self, "conditionals").keys == c.conditionals.keys,
        c.field(c.self, "conditionals").val == c.conditionals.val,
        c.field(c.self, "signature").t == c.signature.t,
        c.field(c.self, "name").t == c.name.t,
    ],
    modifies=["self.signature", "self.conditionals", "self.name"],
    properties=["C01", "C10"],
    note="the constructor stores signature, conditionals and name unchanged (backs the library model of BeliefBase(...))",
)
