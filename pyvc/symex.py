"""Engine P: symbolic executor over the real source (DESIGN §2.1, §2.2).

Path enumeration by re-execution under a decision trace (every branch / raise / loop
case is a `choose`); loops are cut by the invariants of the contract; calls to
contracted functions are replaced by their contract.  Anything outside the supported
subset raises `Unsupported` (the function is then UNDECIDED for Engine P, never a
violation).  The generator fails closed: an AST node it does not know is never skipped.
"""
from __future__ import annotations

import ast
import copy
import hashlib

import z3

from . import contract as C
from . import logic as L
from .values import *  # noqa: F401,F403


# ----------------------------------------------------------------------------
# control-flow signals
# ----------------------------------------------------------------------------
class PathEnd(Exception):
    pass


class ReturnExc(Exception):
    def __init__(self, value):
        self.value = value


class BreakExc(Exception):
    pass


class ContinueExc(Exception):
    pass


class RaiseExc(Exception):
    def __init__(self, name):
        self.name = name


EXC_PARENTS = {
    "TimeoutError": ["OSError", "Exception", "BaseException"],
    "AssertionError": ["Exception", "BaseException"],
    "ValueError": ["Exception", "BaseException"],
    "TypeError": ["Exception", "BaseException"],
    "KeyError": ["LookupError", "Exception", "BaseException"],
    "IndexError": ["LookupError", "Exception", "BaseException"],
    "Exception": ["BaseException"],
    "Z3Exception": ["Exception", "BaseException"],
    "AttributeError": ["Exception", "BaseException"],
    "FileNotFoundError": ["OSError", "Exception", "BaseException"],
    "OSError": ["Exception", "BaseException"],
}


# ----------------------------------------------------------------------------
# state
# ----------------------------------------------------------------------------
class State:
    def __init__(self):
        self.env: dict = {}
        self.heap: dict = {}
        self.pc: list = []
        self.n = 0
        self.nref = 0
        self.fresh_consts: list = []

    def fresh_const(self, name, sort):
        self.n += 1
        c = z3.Const(f"{name}#{self.n}", sort)
        self.fresh_consts.append(c)
        return c

    def alloc(self, rec):
        self.nref += 1
        self.heap[self.nref] = rec
        return self.nref

    def assume(self, f):
        if isinstance(f, (list, tuple)):
            for g in f:
                self.assume(g)
            return
        self.pc.append(f)

    def obj(self, ref):
        return self.heap[ref]

    def update(self, ref, **kw):
        rec = dict(self.heap[ref])
        rec.update(kw)
        self.heap[ref] = rec

    def set_field(self, ref, name, v):
        rec = dict(self.heap[ref])
        rec["fields"] = dict(rec["fields"])
        rec["fields"][name] = v
        self.heap[ref] = rec

    def snapshot(self):
        s = State()
        s.env = dict(self.env)
        s.heap = dict(self.heap)
        s.pc = list(self.pc)
        s.n = self.n
        s.nref = self.nref
        s.fresh_consts = self.fresh_consts
        return s


class View:
    """what contract functions see: variables by name, heap access helpers"""

    def __init__(self, ex, st, old=None):
        self._ex = ex
        self._st = st
        self.old = old

    def __getattr__(self, name):
        if name.startswith("_"):
            raise AttributeError(name)
        if name not in self._st.env:
            raise Unsupported(f"contract refers to variable '{name}' which is not bound here")
        return self._st.env[name]

    def has(self, name):
        return name in self._st.env

    def A(self, v):
        """current assertion set of a solver value"""
        return self._st.obj(v.ref)["A"]

    def I(self, v):
        """integer constraints asserted on a solver value (list term)"""
        from . import iterm as IT

        return self._st.obj(v.ref).get("I", IT.LIForm.nil)

    def soft(self, v):
        """soft clauses of a WCNF value (set term)"""
        return self._st.obj(v.ref)["soft"]

    def S(self, v):
        """soft constraints of a z3 Optimize value (list term)"""
        return self._st.obj(v.ref).get("S", L.LForm.nil)

    def depth(self, v):
        return len(self._st.obj(v.ref)["pushed"])

    def saved(self, v, k):
        return self._st.obj(v.ref)["pushed"][k]

    def field(self, v, *path):
        for p in path:
            if not isinstance(v, VRef):
                raise Unsupported(f"field access on {v}")
            v = self._st.obj(v.ref)["fields"][p]
        return v

    def es(self, key, selfname="self"):
        return self.field(self._st.env[selfname], "epistemic_state", key)


# ----------------------------------------------------------------------------
# module information
# ----------------------------------------------------------------------------
class ModuleInfo:
    def __init__(self, modname, path):
        self.modname = modname
        self.path = path
        self.src = open(path).read()
        self.tree = ast.parse(self.src)
        self.imports: dict = {}
        self.funcs: dict = {}
        self.classes: dict = {}
        for node in self.tree.body:
            self._top(node)

    def _top(self, node):
        if isinstance(node, ast.ImportFrom):
            mod = node.module or ""
            if node.level:
                pkg = self.modname.rsplit(".", 1)[0]
                mod = f"{pkg}.{mod}" if mod else pkg
            for a in node.names:
                self.imports[a.asname or a.name] = f"{mod}.{a.name}"
        elif isinstance(node, ast.Import):
            for a in node.names:
                self.imports[a.asname or a.name.split(".")[0]] = a.name if a.asname else a.name.split(".")[0]
        elif isinstance(node, (ast.FunctionDef,)):
            self.funcs[node.name] = node
            self.imports.setdefault(node.name, f"{self.modname}:{node.name}")
        elif isinstance(node, ast.ClassDef):
            self.classes[node.name] = node
            self.imports.setdefault(node.name, f"{self.modname}:{node.name}")
            for b in node.body:
                if isinstance(b, ast.FunctionDef):
                    self.funcs[f"{node.name}.{b.name}"] = b
        elif isinstance(node, (ast.If, ast.Try)):
            for b in node.body:
                self._top(b)

    def bases(self, cls):
        node = self.classes.get(cls)
        return [ast.unparse(b) for b in node.bases] if node else []


REPO_MODULES = ("inference", "parser", "infocf")


def norm_qual(q):
    """'inference.consistency_sat.consistency' -> 'inference.consistency_sat:consistency'"""
    if ":" in q:
        return q
    parts = q.split(".")
    if parts[0] in REPO_MODULES and len(parts) >= 3:
        return ".".join(parts[:2]) + ":" + ".".join(parts[2:])
    return q


# class hierarchy of the repository (for method resolution through contracts)
CLASS_PARENTS = {
    "SystemZ": "Inference",
    "PEntailment": "Inference",
    "SystemW": "Inference",
    "SystemWZ3": "Inference",
    "LexInf": "Inference",
    "LexInfZ3": "Inference",
    "CInference": "Inference",
    "Conditional_z3": "Conditional",
    "OptimizerRC2": "Optimizer",
    "SystemZPreOCF": "PreOCF",
    "RandomMinCRepPreOCF": "PreOCF",
    "CustomPreOCF": "PreOCF",
    "Queries": "BeliefBase",
}
CLASS_MODULE = {
    "Inference": "inference.inference",
    "SystemZ": "inference.system_z",
    "PEntailment": "inference.p_entailment",
    "SystemW": "inference.system_w",
    "SystemWZ3": "inference.system_w_z3",
    "LexInf": "inference.lex_inf",
    "LexInfZ3": "inference.lex_inf_z3",
    "CInference": "inference.c_inference",
    "Conditional": "inference.conditional",
    "Conditional_z3": "inference.conditional_z3",
    "Optimizer": "inference.optimizer",
    "OptimizerRC2": "inference.optimizer",
    "PreOCF": "inference.preocf",
    "SystemZPreOCF": "inference.preocf",
    "RandomMinCRepPreOCF": "inference.preocf",
    "CustomPreOCF": "inference.preocf",
    "BeliefBase": "inference.belief_base",
    "TseitinTransformation": "inference.tseitin_transformation",
    "CRevisionModel": "inference.c_revision_model",
}


def resolve_method(cls, name):
    """contract of cls.name following the repository's class hierarchy"""
    c = cls
    while c:
        q = f"{CLASS_MODULE.get(c, '?')}:{c}.{name}"
        if C.get(q) and not getattr(C.get(q), "impl_only", False):
            return C.get(q)
        c = CLASS_PARENTS.get(c)
    return None


# ----------------------------------------------------------------------------
# what the extraction drops (DESIGN §2.1 item 3)
# ----------------------------------------------------------------------------
def is_dropped_stmt(node):
    if isinstance(node, ast.Expr):
        v = node.value
        if isinstance(v, ast.Constant) and isinstance(v.value, str):
            return "docstring/string statement"
        if isinstance(v, ast.Call):
            f = v.func
            if isinstance(f, ast.Attribute) and isinstance(f.value, ast.Name) and f.value.id == "logger":
                return "logger call"
            if isinstance(f, ast.Name) and f.id == "warn":
                return "warn() call"
            if isinstance(f, ast.Attribute) and ast.unparse(f) in ("warnings.warn",):
                return "warnings.warn() call"
    if isinstance(node, ast.If):
        t = node.test
        if (
            isinstance(t, ast.Call)
            and isinstance(t.func, ast.Attribute)
            and isinstance(t.func.value, ast.Name)
            and t.func.value.id == "logger"
            and t.func.attr == "isEnabledFor"
            and not node.orelse
        ):
            return "if logger.isEnabledFor(...) block"
    return None


# ----------------------------------------------------------------------------
# the executor
# ----------------------------------------------------------------------------
class Obligation:
    def __init__(self, name, kind, hyps, goal, lineno, note=""):
        self.name = name
        self.kind = kind
        self.hyps = hyps
        self.goal = goal
        self.lineno = lineno
        self.note = note


class Executor:
    def __init__(self, mod: ModuleInfo, fname: str, contract: C.Contract, lib):
        self.mod = mod
        self.fname = fname
        self.fn: ast.FunctionDef = mod.funcs[fname]
        self.contract = contract
        self.lib = lib
        self.obligations: dict = {}
        self.dropped: list = []
        self.covers: dict = {}
        self.loop_nodes = self._number_loops()
        self.src_segment = ast.get_source_segment(mod.src, self.fn)
        self.src_hash = hashlib.sha256(self.src_segment.encode()).hexdigest()[:16]
        self.cls = fname.split(".")[0] if "." in fname else None
        self._ints_stack: list = []
        self._soft_mods: set = set()

    # ---- loops are numbered in source order; effectful comprehension statements count
    def _number_loops(self):
        nodes = []

        class Vis(ast.NodeVisitor):
            def visit_For(s, n):
                nodes.append(n)
                s.generic_visit(n)

            def visit_While(s, n):
                nodes.append(n)
                s.generic_visit(n)

            def visit_Expr(s, n):
                if isinstance(n.value, ast.ListComp) and isinstance(n.value.elt, ast.Call):
                    nodes.append(n)
                s.generic_visit(n)

            def visit_DictComp(s, n):
                nodes.append(n)
                s.generic_visit(n)

            def visit_FunctionDef(s, n):
                if n is self.fn:
                    s.generic_visit(n)

        Vis().visit(self.fn)
        out = {id(n): k for k, n in enumerate(nodes)}
        # list comprehensions used as VALUES are numbered separately ("lc0", "lc1", ... in source order): a contract may
        # give such a comprehension a loop invariant (LoopSpec under that key, accumulator local `_lc<k>`); without one it
        # is handled by map_comprehension / filter_list_comprehension
        stmts = {id(n.value) for n in nodes if isinstance(n, ast.Expr)}
        lcs = [n for n in ast.walk(self.fn) if isinstance(n, ast.ListComp) and id(n) not in stmts]
        lcs.sort(key=lambda n: (n.lineno, n.col_offset))
        for k, n in enumerate(lcs):
            out[id(n)] = f"lc{k}"
        return out

    def loop_head(self, node):
        if isinstance(node, ast.For):
            return f"for {ast.unparse(node.target)} in {ast.unparse(node.iter)}"
        if isinstance(node, ast.While):
            return f"while {ast.unparse(node.test)}"
        if isinstance(node, ast.DictComp):
            g = node.generators[0]
            return f"{{... for {ast.unparse(g.target)} in {ast.unparse(g.iter)}}}"
        g = (node if isinstance(node, ast.ListComp) else node.value).generators[0]
        return f"[... for {ast.unparse(g.target)} in {ast.unparse(g.iter)}]"

    # ---- exploration --------------------------------------------------------
    def run(self):
        pending = [[]]
        self.paths = 0
        while pending:
            trace = pending.pop()
            self.trace = list(trace)
            self.pos = 0
            self.new_alternatives = []
            self.st = State()
            try:
                self._run_once()
            except PathEnd:
                pass
            self.paths += 1
            if self.paths > 3000:
                raise Unsupported("path explosion")
            pending.extend(self.new_alternatives)
        return self.obligations

    def choose(self, term=None, exit_fork=False):
        if term is not None:
            s = z3.simplify(term)
            if z3.is_true(s):
                return True
            if z3.is_false(s):
                return False
        loc = getattr(self, "_local", None)
        if loc is not None and term is not None and not exit_fork:
            # a value-level fork inside a comprehension element: the decision concerns ONE (generic) element, so it is
            # explored locally by map_comprehension (all alternatives, combined per element), not as a path of the function
            if loc["pos"] < len(loc["trace"]):
                d = loc["trace"][loc["pos"]]
            else:
                d = True
                loc["trace"].append(True)
                loc["new"].append(loc["trace"][: loc["pos"]] + [False])
            loc["pos"] += 1
            self.st.assume(term if d else z3.Not(term))
            return d
        if self.pos < len(self.trace):
            d = self.trace[self.pos]
        else:
            d = True
            self.trace.append(True)
            self.new_alternatives.append(self.trace[: self.pos] + [False])
        self.pos += 1
        if term is not None:
            self.st.assume(term if d else z3.Not(term))
        return d

    def rel(self, node):
        return getattr(node, "lineno", self.fn.lineno) - self.fn.lineno

    def oblige(self, kind, node, goal, note=""):
        if isinstance(goal, (list, tuple)):
            for k, g in enumerate(goal):
                self.oblige(f"{kind}.{k}", node, g, note)
            return
        if isinstance(goal, L.Forall) and getattr(goal, "assume_only", False):
            return  # the same fact as another clause of the contract, stated with a different trigger
        if not isinstance(goal, L.Forall):
            s = z3.simplify(goal)
            if z3.is_true(s):
                # still count it: a trivially true obligation is discharged by simplification
                pass
        base = f"{self.contract.qual}/{kind}@L{self.rel(node)}"
        loc = getattr(self, "_local", None)
        key = (base, tuple(self.trace[: self.pos]) + ((("local",) + tuple(loc["trace"][: loc["pos"]])) if loc is not None else ()))
        if key in self.obligations:
            return
        n = sum(1 for (b, _t) in self.obligations if b == base)
        self.obligations[key] = Obligation(f"{base}#{n}", kind, list(self.st.pc), goal, self.rel(node), note)

    def cover(self, label, node):
        base = f"{self.contract.qual}/cover.{label}@L{self.rel(node)}"
        self.covers.setdefault(base, []).append(list(self.st.pc))

    # ---- one path -------------------------------------------------------------
    def _run_once(self):
        st = self.st
        ct = self.contract
        args = self.fn.args
        names = [a.arg for a in args.posonlyargs + args.args + args.kwonlyargs]
        for n in names:
            if n not in ct.params:
                raise Unsupported(f"parameter '{n}' has no type in the contract")
            st.env[n] = ct.params[n].fresh(n, st)
        for gname, gty in (getattr(ct, "globals", None) or {}).items():
            self._check_global(gname)
            st.env[gname] = gty.fresh(gname, st)
        self.entry = st.snapshot()
        self.entry_view = View(self, self.entry)
        pre = ct.requires(View(self, st))
        st.assume(pre)
        if getattr(ct, "module_inv", None):
            st.assume(ct.module_inv(View(self, st)))
        self.cover("pre", self.fn)
        try:
            self.exec_block(self.fn.body)
            result = VNone()
        except ReturnExc as r:
            result = r.value
        except RaiseExc as e:
            self._check_raise(e)
            return
        except (BreakExc, ContinueExc):
            raise Unsupported("break/continue outside loop")
        if ct.returns is not None and (not isinstance(result, VNone) or isinstance(ct.returns, TOptional)):
            result = self.coerce(result, ct.returns, "return")
        v = View(self, st, old=self.entry_view)
        if getattr(ct, "ghost_out", None):
            # ghost outputs: the contract names the witnesses (existential introduction)
            v.ghost = ct.ghost_wit(v, result)
        self.cover("return", self.fn)
        hints = ct.hints(v, result) if getattr(ct, "hints", None) else []
        self.st.assume(hints)
        self.oblige("post", self.fn, ct.ensures(v, result))
        if getattr(ct, "module_inv", None):
            self.oblige("post.module_inv", self.fn, ct.module_inv(v))

    def _check_global(self, name):
        """a module-level variable under a module invariant: initialised to an empty literal at module level and
        assigned / mutated by no other function of the module (else the invariant could be broken behind our back)"""
        init_ok = False
        for node in self.mod.tree.body:
            tgt = None
            if isinstance(node, ast.AnnAssign) and isinstance(node.target, ast.Name):
                tgt, val = node.target.id, node.value
            elif isinstance(node, ast.Assign) and len(node.targets) == 1 and isinstance(node.targets[0], ast.Name):
                tgt, val = node.targets[0].id, node.value
            if tgt == name:
                if init_ok or not (isinstance(val, (ast.Dict, ast.List)) and not (getattr(val, "keys", None) or getattr(val, "elts", None))):
                    raise Unsupported(f"global {name} is not initialised exactly once to an empty literal")
                init_ok = True
        if not init_ok:
            raise Unsupported(f"global {name} has no module-level initialisation")
        for fname, fnode in self.mod.funcs.items():
            if fnode is self.fn:
                continue
            for n in ast.walk(fnode):
                if isinstance(n, ast.Name) and n.id == name:
                    raise Unsupported(f"global {name} is also used by {fname}: a module invariant needs every user under contract")

    def _check_raise(self, e):
        ct = self.contract
        allowed = None
        for name in [e.name] + EXC_PARENTS.get(e.name, []):
            if name in ct.raises:
                allowed = ct.raises[name]
                break
        if allowed is None:
            self.oblige(f"noraise.{e.name}", getattr(e, "node", self.fn), z3.BoolVal(False), "this raise must be unreachable")
        else:
            cond = allowed(View(self, self.st, old=self.entry_view))
            self.oblige(f"post.exc.{e.name}", getattr(e, "node", self.fn), cond)
            self.cover(f"raise.{e.name}", self.fn)

    # ---- statements -------------------------------------------------------------
    def exec_block(self, stmts):
        for s in stmts:
            self.exec_stmt(s)

    def exec_stmt(self, node):
        why = is_dropped_stmt(node)
        if why:
            self.dropped.append((self.rel(node), why))
            return
        m = getattr(self, "stmt_" + node.__class__.__name__, None)
        if m is None:
            raise Unsupported(f"statement {node.__class__.__name__} at +{self.rel(node)}")
        m(node)

    def stmt_Pass(self, node):
        pass

    def stmt_Expr(self, node):
        if self.contract.abstractions and ast.unparse(node.value) in self.contract.abstractions:
            self.eval(node.value)  # an effectful comprehension whose joint effect the contract states
            return
        if id(node) in self.loop_nodes:
            return self.exec_loop(node)
        self.eval(node.value)

    def stmt_Return(self, node):
        raise ReturnExc(self.eval(node.value) if node.value is not None else VNone())

    def stmt_Assert(self, node):
        c = self.truth(self.eval(node.test))
        if not self.choose(c):
            e = RaiseExc("AssertionError")
            e.node = node
            raise e
        self._narrow_none(node.test, True)  # past `assert x is not None` the name denotes the inner value

    def stmt_Raise(self, node):
        if node.exc is None:
            cur = getattr(self, "_handling", None)
            if not cur:
                raise Unsupported("bare raise outside an except block")
            e = RaiseExc(cur[-1])  # re-raise the exception being handled
            e.node = node
            raise e
        x = node.exc
        if isinstance(x, ast.Call):
            x = x.func
        if isinstance(x, ast.Name) and x.id in self.st.env and getattr(self.st.env[x.id], "exc_name", None):
            name = self.st.env[x.id].exc_name
        else:
            name = ast.unparse(x).split(".")[-1]
        e = RaiseExc(name)
        e.node = node
        raise e

    def stmt_If(self, node):
        c = self.truth(self.eval(node.test))
        taken = self.choose(c)
        self._narrow_none(node.test, taken)
        if taken:
            self.exec_block(node.body)
        else:
            self.exec_block(node.orelse)

    def _narrow_none(self, test, taken):
        """`if x is not None:` / `if x is None:` on a local Optional: in the branch where x is known not to
        be None the name denotes the inner value (flow typing; the path condition already says so)"""
        if isinstance(test, ast.BoolOp) and isinstance(test.op, ast.And) and taken:
            for t in test.values:
                self._narrow_none(t, True)
            return
        if not (isinstance(test, ast.Compare) and len(test.ops) == 1 and isinstance(test.left, ast.Name)):
            return
        cmp = test.comparators[0]
        if not (isinstance(cmp, ast.Constant) and cmp.value is None):
            return
        op = test.ops[0]
        notnone = (isinstance(op, (ast.IsNot, ast.NotEq)) and taken) or (isinstance(op, (ast.Is, ast.Eq)) and not taken)
        v = self.st.env.get(test.left.id)
        if notnone and isinstance(v, VOptional):
            self.st.env[test.left.id] = v.val

    def stmt_Assign(self, node):
        v = self.eval(node.value)
        for t in node.targets:
            self.assign(t, v)

    def stmt_AnnAssign(self, node):
        if node.value is not None:
            self.assign(node.target, self.eval(node.value))

    def stmt_AugAssign(self, node):
        cur = self.eval(node.target)
        rhs = self.eval(node.value)
        self.assign(node.target, self.binop(node.op, cur, rhs, node))

    def stmt_With(self, node):
        for item in node.items:
            v = self.eval(item.context_expr)
            if item.optional_vars is not None:
                self.assign(item.optional_vars, v)
        self.exec_block(node.body)

    def stmt_Try(self, node):
        try:
            try:
                self.exec_block(node.body)
            except RaiseExc as e:
                handled = False
                for h in node.handlers:
                    hn = None if h.type is None else ast.unparse(h.type).split(".")[-1]
                    if hn is None or hn == e.name or hn in EXC_PARENTS.get(e.name, []):
                        if h.name:
                            ev = VOpaque("exception")
                            ev.exc_name = e.name
                            self.st.env[h.name] = ev
                        handled = True
                        self._handling = getattr(self, "_handling", []) + [e.name]
                        try:
                            self.exec_block(h.body)
                        finally:
                            self._handling = self._handling[:-1]
                        break
                if not handled:
                    raise
            else:
                self.exec_block(node.orelse)
        except (RaiseExc, ReturnExc, BreakExc, ContinueExc):
            if node.finalbody:
                self.exec_block(node.finalbody)
            raise
        else:
            if node.finalbody:
                self.exec_block(node.finalbody)

    def stmt_For(self, node):
        self.exec_loop(node)

    def stmt_While(self, node):
        self.exec_loop(node)

    def stmt_Delete(self, node):
        """del d[k] for a typed dict: the key leaves the key list, the map is left as it is"""
        for t in node.targets:
            if not isinstance(t, ast.Subscript):
                raise Unsupported("del of something other than d[k]")
            d = self.eval(t.value)
            k = self.eval(t.slice)
            if not (isinstance(d, VDict) and hasattr(k, "t") and k.t.sort() == d.kt.sort()):
                raise Unsupported("del d[k] on this container")
            self.oblige("noraise.key", node, self.mem_keys(d.keys, k.t))
            new = VDict(L.remove_key(d.kt.sort())(d.keys, k.t), d.val, d.et, d.kt)
            self.st.assume(distinct_keys(new.keys, new.KL))
            self.rebind(t.value, d, new)

    def stmt_Break(self, node):
        raise BreakExc()

    def stmt_Continue(self, node):
        raise ContinueExc()

    def stmt_Import(self, node):
        self.dropped.append((self.rel(node), "local import"))

    stmt_ImportFrom = stmt_Import

    # ---- assignment targets ----------------------------------------------------
    def assign(self, target, v):
        st = self.st
        if isinstance(target, ast.Name):
            lt = self.contract.locals.get(target.id)
            if lt is not None:
                v = self.coerce(v, lt, target.id)
            st.env[target.id] = v
        elif isinstance(target, (ast.Tuple, ast.List)):
            if isinstance(v, VOptional) and isinstance(v.val, VTuple):
                self.oblige("noraise.unpack_none", target, z3.Not(v.isnone))  # unpacking None raises TypeError
                v = v.val
            if isinstance(v, VTuple):
                if len(v.items) != len(target.elts):
                    raise Unsupported("tuple arity")
                for t, x in zip(target.elts, v.items):
                    self.assign(t, x)
            else:
                raise Unsupported(f"unpacking of {v.ty}")
        elif isinstance(target, ast.Attribute):
            o = self.eval(target.value)
            if isinstance(o, VCnd) and target.attr == "index":
                # the key is also recorded on the conditional object: metadata, not modelled
                self.dropped.append((self.rel(target), "store of Conditional.index (metadata)"))
                return
            if isinstance(o, VRef) and st.obj(o.ref)["kind"] == "obj":
                self.mark_escaped(v)
                fty = o.ty.fields.get(target.attr) if isinstance(getattr(o, "ty", None), TObj) else None
                if isinstance(fty, TOptional) and not isinstance(v, VOptional):
                    v = self.coerce(v, fty, target.attr)  # a plain value / None stored in a field declared Optional
                elif fty is not None and isinstance(v, (VEmptyList, VEmptySet, VEmptyDict)):
                    v = self.coerce(v, fty, target.attr)  # an empty literal takes the declared type of the field
                st.set_field(o.ref, target.attr, v)
            else:
                raise Unsupported(f"attribute store on {o.ty}")
        elif isinstance(target, ast.Subscript):
            self.store_subscript(target, v)
        else:
            raise Unsupported(f"assignment target {target.__class__.__name__}")

    def store_subscript(self, target, v):
        st = self.st
        if isinstance(target.value, ast.Attribute) and target.value.attr == "at" and isinstance(target.slice, ast.Tuple) and len(target.slice.elts) == 2:
            df = self.eval(target.value.value)
            if isinstance(df, VRef) and st.obj(df.ref)["kind"] == "df":
                row, col = self.eval(target.slice.elts[0]), self.eval(target.slice.elts[1])
                self.lib.df_store(self, df, row, col, v, target)
                return
        o = self.eval(target.value)
        if isinstance(o, VRef) and st.obj(o.ref)["kind"] == "rec":
            k = self.eval(target.slice)
            if not (isinstance(k, VStr) and k.const is not None):
                raise Unsupported("record key must be a string literal")
            cur = st.obj(o.ref)["fields"].get(k.const)
            if cur is not None and isinstance(v, (VEmptyList, VEmptyDict, VEmptySet)):
                v = self.coerce(v, cur.ty, k.const)  # the literal takes the declared type of the field
            self.mark_escaped(v)
            st.set_field(o.ref, k.const, v)
            return
        if isinstance(o, (VEmptyDict, VConcDict)):
            k = self.eval(target.slice)
            items = list(getattr(o, "items", []))
            items = [(kk, vv) for kk, vv in items if not self._same_const(kk, k)] + [(k, v)]
            if not all(isinstance(kk, VStr) and kk.const is not None or self._is_uconst_str(kk) for kk, _ in items):
                raise Unsupported("concrete dict with non-constant keys")
            self.rebind(target.value, o, VConcDict(items))
            return
        if isinstance(o, VDict):
            k = self.eval(target.slice)
            if k.ty.sort() != o.kt.sort():
                raise Unsupported("dict key type")
            new = self.dict_store(o, k, v)
            self.rebind(target.value, o, new)
            return
        raise Unsupported(f"subscript store on {o.ty}")

    def dict_store(self, d: VDict, k, v):
        inside = self.mem_keys(d.keys, k.t)
        # case split instead of an if-then-else term: the instantiator matches syntactically
        newkeys = d.keys if self.choose(inside) else d.KL.snoc(d.keys, k.t)
        if isinstance(v, (VEmptyList, VEmptySet, VEmptyDict)):
            v = self.coerce(v, d.et, "dict value")
        vt = value_term(v, d.et)
        newval = z3.Store(d.val, k.t, vt)
        nd = VDict(newkeys, newval, d.et, d.kt)
        return nd

    def _same_const(self, a, b):
        return isinstance(a, VStr) and isinstance(b, VStr) and a.t.eq(b.t)

    def _is_uconst_str(self, k):
        return isinstance(k, VStr)

    def mem_keys(self, keys, k):
        """k in keys, as a defined predicate with skolem witness"""
        mem, _w = L.mem_theory(k.sort())
        return mem(keys, k)

    def owner_of(self, v):
        """heap object (ref, field) whose field IS this container value (aliasing by identity)"""
        for ref, rec in self.st.heap.items():
            for name, fv in (rec.get("fields") or {}).items():
                if fv is v:
                    return ref, name
        return None

    def rebind(self, expr, old, new):
        """in-place mutation of the container denoted by `expr` modelled as rebinding"""
        own = self.owner_of(old)
        if own is not None and isinstance(expr, ast.Name):
            # the mutated container is (an alias of) a field of a heap object: the mutation is
            # visible through that object.  If the object came in as a parameter and the contract
            # does not list the field under `modifies`, this is a frame violation.
            ref, name = own
            for pname, pv in self.entry.env.items():
                if isinstance(pv, VRef) and self._reaches(pv.ref, ref):
                    declared = any(m.split(".")[0] == pname and m.split(".")[-1] == name for m in self.contract.modifies)
                    if not declared:
                        self.oblige(f"frame.modifies:{pname}.{name}", expr, z3.BoolVal(False), "in-place mutation of a container reachable from a parameter that the contract does not allow to change")
                        raise PathEnd()
        if getattr(old, "escaped", False):
            raise Unsupported(f"in-place mutation of a container that escaped: {ast.unparse(expr)}")
        if isinstance(expr, ast.Name):
            for n, v in self.st.env.items():
                if v is old and n != expr.id and not n.startswith("__"):  # (ghost names are not program aliases)
                    raise Unsupported(f"in-place mutation of aliased container {expr.id}/{n}")
            if expr.id in getattr(self, "param_names", ()):  # pragma: no cover
                pass
            self.st.env[expr.id] = new
            if own is not None:
                # the local name is an alias of a field's container (`d = rec["k"]; d[i] = v`): the
                # mutation is visible through the field as well
                self.st.set_field(own[0], own[1], new)
        elif isinstance(expr, (ast.Attribute, ast.Subscript)):
            self.assign(expr, new)
        else:
            raise Unsupported("mutation through a complex expression")

    def _reaches(self, a, b, seen=None):
        if a == b:
            return True
        seen = seen or set()
        if a in seen:
            return False
        seen.add(a)
        for fv in (self.st.heap.get(a, {}).get("fields") or {}).values():
            if isinstance(fv, VRef) and self._reaches(fv.ref, b, seen):
                return True
        return False

    def mark_escaped(self, v):
        if isinstance(v, (VList, VDict)):
            v.escaped = True

    # ---- loops --------------------------------------------------------------------
    def exec_loop(self, node):
        st = self.st
        k = self.loop_nodes[id(node)]
        spec = self.contract.loops.get(k)
        head = self.loop_head(node)
        is_for = not isinstance(node, ast.While)
        if isinstance(node, ast.DictComp):
            # {k: v for t in xs}  ==  acc = {}; for t in xs: acc[k] = v   (accumulator `_dc`)
            if len(node.generators) != 1 or node.generators[0].ifs:
                raise Unsupported("dict comprehension shape")
            gen = node.generators[0]
            target, iter_node = gen.target, gen.iter
            store = ast.Assign(targets=[ast.Subscript(value=ast.Name(id="_dc", ctx=ast.Load()), slice=node.key, ctx=ast.Store())], value=node.value)
            ast.copy_location(store, node)
            ast.fix_missing_locations(store)
            body = [store]
            orelse = []
        elif isinstance(node, ast.ListComp):
            # [e for t in xs if c]  ==  acc = []; for t in xs: if c: acc.append(e)   (accumulator `_lc<k>`)
            if len(node.generators) != 1:
                raise Unsupported("list comprehension shape")
            gen = node.generators[0]
            target, iter_node = gen.target, gen.iter
            app = ast.Expr(value=ast.Call(func=ast.Attribute(value=ast.Name(id=f"_{k}", ctx=ast.Load()), attr="append", ctx=ast.Load()), args=[node.elt], keywords=[]))
            body = [app]
            for cond in reversed(gen.ifs):
                body = [ast.If(test=cond, body=body, orelse=[])]
            for b in body:
                ast.copy_location(b, node)
                ast.fix_missing_locations(b)
            orelse = []
        elif isinstance(node, ast.Expr):
            comp = node.value
            if any(g.is_async for g in comp.generators):
                raise Unsupported("async comprehension")
            gen = comp.generators[0]
            target, iter_node = gen.target, gen.iter
            if len(comp.generators) > 1:
                # [e for x in xs (if c) for y in ys ...]: the remaining generators form an inner
                # effectful comprehension, loop "<k>.1" of the contract
                inner = getattr(node, "_inner", None)
                if inner is None:
                    inner = ast.Expr(value=ast.ListComp(elt=comp.elt, generators=comp.generators[1:]))
                    ast.copy_location(inner, node)
                    ast.fix_missing_locations(inner)
                    node._inner = inner
                self.loop_nodes[id(inner)] = f"{k}.1"
                body = [inner]
            else:
                body = [ast.Expr(value=comp.elt)]
                ast.copy_location(body[0], node)
            for cond in reversed(gen.ifs):
                body = [ast.If(test=cond, body=body, orelse=[])]
                ast.copy_location(body[0], node)
            orelse = []
        elif is_for:
            target, iter_node, body, orelse = node.target, node.iter, node.body, node.orelse
        else:
            body, orelse = node.body, node.orelse
        if orelse:
            raise Unsupported("loop else")
        seq = None
        if is_for:
            itv = self.eval(iter_node)
            conc = getattr(itv, "concrete", None)
            if conc is not None and not isinstance(node, ast.DictComp):
                # iteration over a container of concrete structure: unroll (complete, no invariant)
                for item in conc:
                    self.assign(target, item)
                    try:
                        self.exec_block(body)
                    except ContinueExc:
                        continue
                    except BreakExc:
                        break
                return
            seq = self.as_sequence(itv, node)
            if isinstance(seq, VList):
                st.env[f"__seq{k}"] = seq  # ghost name: the sequence loop #k iterates over
        if spec is None:
            raise Unsupported(f"loop #{k} ({head}) has no invariant in the contract")
        if spec.head != head and not (spec.head.endswith("*") and head.startswith(spec.head[:-1])):
            raise Unsupported(f"shape mismatch: loop #{k} is '{head}', contract expects '{spec.head}'")
        pre_state = st.snapshot()
        pre_view = View(self, pre_state)
        self._ints_stack.append(bool(getattr(spec, "ints", False)))
        try:
            return self._exec_loop_cut(node, k, spec, st, is_for, seq, target if is_for else None, body, pre_view)
        finally:
            self._ints_stack.pop()

    def _exec_loop_cut(self, node, k, spec, st, is_for, seq, target, body, pre_view):
        mods, heap_mods = self.mod_set(body, target if is_for else None)
        j0 = VInt(0) if is_for else None
        # 1. invariant holds on entry
        self.oblige(f"inv.init#{k}", node, spec.inv(View(self, st), j0.t if is_for else None, pre_view))
        # 2. havoc
        for name in mods:
            if name in st.env:
                st.env[name] = same_type_fresh(st.env[name], name, st)
        for ref in heap_mods:
            self.havoc_heap(ref, soft=(ref in self._soft_mods))
            if spec.stack == "grows" and not isinstance(ref, tuple):
                # the body only pushes: below an unknown segment nothing can be popped
                o = st.obj(ref)
                st.update(ref, pushed=o["pushed"] + [None])
                if "S" in o:
                    st.update(ref, pushedS=o.get("pushedS", []) + [st.fresh_const("S", L.LForm.sort)])
        case = self.choose()  # True: arbitrary iteration, False: exit
        if case:
            if is_for:
                j = st.fresh_const("j", L.Int)
                st.assume([0 <= j, j < seq.len()])
                st.assume(spec.inv(View(self, st), j, pre_view))
                elem = seq.at(j)
                if hasattr(elem, "t"):
                    st.assume(elem.t == elem.t)  # seed term for the matcher: the current element
                self.assign(target, elem)
            else:
                st.assume(spec.inv(View(self, st), None, pre_view))
                c = self.truth(self.eval(node.test))
                if not self.choose(c):
                    return  # loop exits here
            self.cover(f"loopbody#{k}", node)
            stacks_before = self.stacks()
            try:
                self.exec_block(body)
            except ContinueExc:
                pass
            except BreakExc:
                return  # continue after the loop with the current state
            # back edge
            self.check_stacks(stacks_before, node, k, grows=(spec.stack == "grows"))
            jn = (j + 1) if is_for else None
            self.oblige(f"inv.preserve#{k}", node, spec.inv(View(self, st), jn, pre_view))
            if spec.decreases is not None:
                pass
            raise PathEnd()
        else:
            if is_for:
                st.assume(seq.len() >= 0)  # (also a seed term: the iterated sequence)
                st.assume(spec.inv(View(self, st), seq.len(), pre_view))
            else:
                # exit of a while loop by its condition is handled in the iteration case
                if isinstance(node.test, ast.Constant) and node.test.value is True:
                    raise PathEnd()  # `while True` has no normal exit
                st.assume(spec.inv(View(self, st), None, pre_view))
                c = self.truth(self.eval(node.test))
                st.assume(z3.Not(c))
            return

    def stacks(self):
        return {r: list(o["pushed"]) for r, o in self.st.heap.items() if o["kind"] == "solver"}

    def check_stacks(self, before, node, k, grows=False):
        for r, pushed in before.items():
            now = self.st.heap[r]["pushed"]
            if grows and len(now) >= len(pushed):
                now = now[: len(pushed)]
            if len(now) != len(pushed):
                self.oblige(f"inv.frame.stack#{k}", node, z3.BoolVal(False), "push/pop not balanced in loop body")
            else:
                for a, b in zip(now, pushed):
                    if a is None or b is None:
                        if a is not b:
                            self.oblige(f"inv.frame.stack#{k}", node, z3.BoolVal(False), "unknown stack segment changed")
                    elif not a.eq(b):
                        self.oblige(f"inv.frame.stack#{k}", node, a == b)

    def havoc_heap(self, ref, soft=True):
        if isinstance(ref, tuple):
            _tag, r, name = ref
            cur = self.st.obj(r)["fields"][name]
            self.st.set_field(r, name, same_type_fresh(cur, name, self.st))
            return
        o = self.st.heap[ref]
        if o["kind"] == "df":
            self.st.update(ref, cols={c: self.st.fresh_const(f"df!{c}", t.sort()) for c, t in o["cols"].items()})
            return
        if o["kind"] == "solver":
            self.st.update(ref, A=self.st.fresh_const("A", L.WSet))
            if "soft" in o:
                self.st.update(ref, soft=self.st.fresh_const("soft", o["soft"].sort()))  # soft clauses of a WCNF
            if soft and "S" in o:
                self.st.update(ref, S=self.st.fresh_const("S", L.LForm.sort))  # soft constraints of an Optimize
            if self._ints_stack and self._ints_stack[-1]:
                # only a loop whose LoopSpec says ints=True may assert integer constraints
                from . import iterm as IT

                self.st.update(ref, I=self.st.fresh_const("I", IT.LIForm.sort))
        else:
            raise Unsupported("loop modifies a record/object; not supported yet")

    def mod_set(self, body, target):
        names = set()
        heap = set()
        soft = self._soft_mods = set()  # solvers whose SOFT constraints the body may change
        aliases: dict = {}  # local name -> field it was bound to inside the body
        ex = self

        class Vis(ast.NodeVisitor):
            def visit_Assign(s, n):
                for t in n.targets:
                    s.tgt(t)
                # `x = rec["k"]` / `x = cast(T, rec["k"])` inside the body: x aliases that field
                val = n.value
                if isinstance(val, ast.Call) and isinstance(val.func, ast.Name) and val.func.id == "cast" and len(val.args) == 2:
                    val = val.args[1]
                if (
                    len(n.targets) == 1
                    and isinstance(n.targets[0], ast.Name)
                    and isinstance(val, ast.Subscript)
                    and isinstance(val.slice, ast.Constant)
                    and isinstance(val.slice.value, str)
                ):
                    try:
                        o = ex.eval(val.value)
                    except Exception:
                        o = None
                    if isinstance(o, VRef) and ex.st.obj(o.ref)["kind"] == "rec":
                        aliases[n.targets[0].id] = ("field", o.ref, val.slice.value)
                s.generic_visit(n)

            def visit_AugAssign(s, n):
                s.tgt(n.target)
                s.generic_visit(n)

            def visit_AnnAssign(s, n):
                s.tgt(n.target)
                s.generic_visit(n)

            def visit_For(s, n):
                s.tgt(n.target)
                s.generic_visit(n)

            def visit_With(s, n):
                for it in n.items:
                    if it.optional_vars is not None:
                        s.tgt(it.optional_vars)
                s.generic_visit(n)

            def tgt(s, t):
                if isinstance(t, ast.Name):
                    names.add(t.id)
                elif isinstance(t, (ast.Tuple, ast.List)):
                    for e in t.elts:
                        s.tgt(e)
                elif (
                    isinstance(t, ast.Subscript)
                    and isinstance(t.value, ast.Subscript)
                    and isinstance(t.value.slice, ast.Constant)
                    and isinstance(t.value.slice.value, str)
                ):
                    # rec["field"][k] = v : the container held in that record field changes
                    try:
                        o = ex.eval(t.value.value)
                    except Exception:
                        o = None
                    if isinstance(o, VRef) and ex.st.obj(o.ref)["kind"] == "rec":
                        heap.add(("field", o.ref, t.value.slice.value))
                    else:
                        raise Unsupported("loop body stores through an unsupported path")
                elif isinstance(t, (ast.Subscript, ast.Attribute)):
                    root = t
                    while isinstance(root, (ast.Subscript, ast.Attribute)):
                        root = root.value
                    if isinstance(root, ast.Name) and root.id in aliases:
                        heap.add(aliases[root.id])
                    if isinstance(root, ast.Name):
                        v = ex.st.env.get(root.id)
                        if isinstance(v, VRef) and ex.st.obj(v.ref)["kind"] == "df":
                            heap.add(v.ref)
                            return
                        if isinstance(v, VRef):
                            raise Unsupported("loop body stores into an object/record")
                        names.add(root.id)

            def visit_Call(s, n):
                f = n.func
                MUT = ("append", "extend", "add", "update", "pop", "remove", "clear", "insert", "discard")
                if isinstance(f, ast.Attribute) and f.attr in MUT and not isinstance(f.value, ast.Name):
                    # in-place mutation of a container reached through an object: havoc that field
                    recv = f.value
                    if isinstance(recv, ast.Subscript) and isinstance(recv.value, ast.Name) and isinstance(ex.st.env.get(recv.value.id), (VDict, VList)):
                        names.add(recv.value.id)  # d[k].append(x) on a local container: d changes
                    elif isinstance(recv, ast.Subscript) and isinstance(recv.value, ast.Attribute) and not (isinstance(recv.slice, ast.Constant) and isinstance(recv.slice.value, str)):
                        # obj.field[k].add(x): the container held in that field changes
                        try:
                            o = ex.eval(recv.value.value)
                        except Exception:
                            o = None
                        if isinstance(o, VRef) and ex.st.obj(o.ref)["kind"] == "obj":
                            heap.add(("field", o.ref, recv.value.attr))
                        else:
                            raise Unsupported("loop body mutates a container through an unsupported path")
                    elif isinstance(recv, ast.Subscript) and isinstance(recv.slice, ast.Constant) and isinstance(recv.slice.value, str):
                        try:
                            o = ex.eval(recv.value)
                        except Exception:
                            o = None
                        if isinstance(o, VRef) and ex.st.obj(o.ref)["kind"] == "rec":
                            heap.add(("field", o.ref, recv.slice.value))
                        else:
                            raise Unsupported("loop body mutates a container through an unsupported path")
                    elif isinstance(recv, ast.Attribute):
                        try:
                            o = ex.eval(recv.value)
                        except Exception:
                            o = None
                        if isinstance(o, VRef) and ex.st.obj(o.ref)["kind"] == "obj":
                            heap.add(("field", o.ref, recv.attr))
                        else:
                            raise Unsupported("loop body mutates a container through an unsupported path")
                    else:
                        raise Unsupported("loop body mutates a container through an unsupported path")
                if isinstance(f, ast.Attribute):
                    root = f.value
                    if isinstance(root, ast.Name):
                        v = ex.st.env.get(root.id)
                        if isinstance(v, VRef) and ex.st.obj(v.ref)["kind"] == "solver":
                            heap.add(v.ref)
                            if f.attr == "add_soft":
                                soft.add(v.ref)
                        elif isinstance(v, VRef) and ex.st.obj(v.ref)["kind"] == "obj" and (ex.st.obj(v.ref)["cls"], f.attr) in getattr(ex.lib, "STREAM_MODS", {}):
                            for fld in ex.lib.STREAM_MODS[(ex.st.obj(v.ref)["cls"], f.attr)]:
                                heap.add(("field", v.ref, fld))  # a library model that updates fields of its receiver
                        elif isinstance(v, VRef) and ex.st.obj(v.ref)["kind"] == "obj":
                            ct = resolve_method(ex.st.obj(v.ref)["cls"], f.attr)
                            if ct is not None:
                                first = list(ct.params.keys())[0]
                                for m in ct.modifies:
                                    path = m.split(".")
                                    if path[0] != first:
                                        continue  # other parameters: handled below if they are solvers
                                    o = v
                                    for pth in path[1:-1]:
                                        o = ex.st.obj(o.ref)["fields"][pth]
                                    if len(path) > 1:
                                        heap.add(("field", o.ref, path[-1]))
                        elif f.attr in MUT and root.id in aliases:
                            heap.add(aliases[root.id])
                            names.add(root.id)
                        elif f.attr in MUT and not isinstance(v, VRef) and root.id in ex.st.env:
                            # in-place mutation of a local container, whatever its current value is (an
                            # untyped empty literal becomes opaque after the havoc: the contract must type it)
                            names.add(root.id)
                    # calls that receive a solver as argument may modify it
                for a in list(n.args) + [kw.value for kw in n.keywords]:
                    if isinstance(a, ast.Name):
                        v = ex.st.env.get(a.id)
                        if isinstance(v, VRef) and ex.st.obj(v.ref)["kind"] == "solver":
                            heap.add(v.ref)
                            soft.add(v.ref)  # a callee may add soft constraints
                s.generic_visit(n)

        for b in body:
            Vis().visit(b)
        if target is not None:
            tn = [n.id for n in ast.walk(target) if isinstance(n, ast.Name)]
            names |= set(tn)
        return names, heap

    def as_sequence(self, v, node):
        if isinstance(v, VList):
            return v
        if isinstance(v, VDict):
            return v.keylist()
        if isinstance(v, VSeq):
            return v
        if isinstance(v, VSet):
            return v.enum()
        if isinstance(v, VStr):
            # iterating a string: its one-character strings in order (TB-py)
            self.st.assume(strlen(v.t) >= 0)
            return VSeq(strlen(v.t), lambda i: VStr(chr_at(v.t, i)))
        if isinstance(v, VFalseOr):
            self.oblige("noraise.iterate_False", node, z3.Not(v.isfalse))
            return self.as_sequence(v.val, node)
        if isinstance(v, VOptional):
            self.oblige("noraise.iterate_None", node, z3.Not(v.isnone))
            return self.as_sequence(v.val, node)
        raise Unsupported(f"iteration over {v.ty}")

    def dyn_keys_distinct(self, items):
        """a concrete dict keeps one entry per key only if the key terms are pairwise
        distinct on this path: fork on equality of symbolic keys"""
        return items

    # ---- expressions ---------------------------------------------------------------
    def eval(self, node) -> V:
        if self.contract.abstractions and isinstance(node, (ast.ListComp, ast.Call, ast.GeneratorExp, ast.SetComp, ast.DictComp, ast.Subscript, ast.BoolOp)):
            src = ast.unparse(node)
            if src in self.contract.abstractions:
                fn, note = self.contract.abstractions[src]
                self.dropped.append((self.rel(node), f"ABSTRACTED expression `{src}`: {note}"))
                return fn(View(self, self.st))
        m = getattr(self, "expr_" + node.__class__.__name__, None)
        if m is None:
            raise Unsupported(f"expression {node.__class__.__name__} at +{self.rel(node)}")
        return m(node)

    def expr_Constant(self, node):
        c = node.value
        if c is None:
            return VNone()
        if isinstance(c, bool):
            return VBool(c)
        if isinstance(c, int):
            return VInt(c)
        if isinstance(c, str):
            return VStr(const=c)
        if isinstance(c, float):
            return VFloat()
        raise Unsupported(f"constant {c!r}")

    def expr_Name(self, node):
        if node.id in self.st.env:
            return self.st.env[node.id]
        if node.id in self.mod.imports:
            q = norm_qual(self.mod.imports[node.id])
            if q in self.lib.constants:
                return self.lib.constants[q]
            return VCallable(q)
        if node.id in ("len", "max", "min", "sorted", "str", "int", "bool", "float", "list", "dict", "set", "frozenset", "type", "isinstance", "enumerate", "range", "any", "all", "sum", "cast", "round", "tuple", "hasattr", "getattr", "setattr", "zip", "abs", "super"):
            return VCallable("builtins." + node.id)
        if node.id in EXC_PARENTS:
            return VCallable("builtins." + node.id)
        raise Unsupported(f"unbound name {node.id}")

    def expr_Tuple(self, node):
        return VTuple([self.eval(e) for e in node.elts])

    def expr_List(self, node):
        if node.elts:
            vs = [self.eval(e) for e in node.elts]
            if any(isinstance(v, (VDict, VRef, VTuple)) for v in vs):
                r = VOpaque("list literal of objects")  # only iterated (unrolled) or indexed by a literal
                r.concrete = vs
                return r
            et = vs[0].ty
            t = et.list_theory().nil
            for v in vs:
                t = et.list_theory().snoc(t, v.t)
            r = VList(t, et)
            r.concrete = vs  # literal: loops over it are unrolled
            return r
        return VEmptyList()

    def expr_Dict(self, node):
        if node.keys:
            if any(k is None for k in node.keys):
                raise Unsupported("dict literal with ** unpacking")
            ks = [self.eval(k) for k in node.keys]
            vs = [self.eval(v) for v in node.values]
            if all(isinstance(k, VStr) and k.const is not None for k in ks) and len({k.const for k in ks}) == len(ks):
                return VConcDict(list(zip(ks, vs)))
            if not all(isinstance(k, VInt) for k in ks) or any(not hasattr(v, "t") for v in vs):
                raise Unsupported("dict literal of this shape")
            if len(ks) > 1:
                self.st.assume(z3.Distinct(*[k.t for k in ks])) if all(z3.is_int_value(z3.simplify(k.t)) for k in ks) else None
                if not all(z3.is_int_value(z3.simplify(k.t)) for k in ks):
                    raise Unsupported("dict literal with several symbolic keys")
            et = vs[0].ty
            keys = L.LInt.nil
            val = self.st.fresh_const("dictlit", z3.ArraySort(L.Int, et.sort()))
            for k, v in zip(ks, vs):
                if v.t.sort() != et.sort():
                    raise Unsupported("dict literal with values of different types")
                keys = L.LInt.snoc(keys, k.t)
                self.st.assume(z3.Select(val, k.t) == v.t)  # (an equation the matcher can use, unlike a Store term)
            return VDict(keys, val, et, TInt)
        return VEmptyDict()

    def expr_JoinedStr(self, node):
        """an f-string whose placeholders are plain `{int}` / `{str}` values denotes
        fstr<template>(values): the same template and values give the same string (TB-py);
        any other f-string (messages) is an opaque string"""
        from . import iterm as IT

        parts, vals, plain = [], [], True
        for v in node.values:
            if isinstance(v, ast.FormattedValue):
                x = self.eval(v.value)
                if v.conversion != -1 or v.format_spec is not None or not isinstance(x, (VInt, VStr)):
                    plain = False
                else:
                    vals.append(x.t)
                parts.append("{}")
            else:
                parts.append(str(v.value).replace("{", "{{").replace("}", "}}"))
        if not plain:
            return VStr(self.st.fresh_const("fstr", StrSort))
        if not vals:
            return VStr(const="".join(p for p in parts))
        return VStr(IT.fstr_fun("".join(parts), [t.sort() for t in vals])(*vals))

    def expr_Attribute(self, node):
        # module attribute such as z3.And / pathlib.Path
        if isinstance(node.value, ast.Name) and node.value.id not in self.st.env and node.value.id in self.mod.imports:
            q = norm_qual(self.mod.imports[node.value.id] + "." + node.attr)
            if q in self.lib.constants:
                return self.lib.constants[q]
            return VCallable(q)
        o = self.eval(node.value)
        r = self.getattr(o, node.attr, node)
        if isinstance(r, VCallable) and r.qual in self.lib.constants:
            return self.lib.constants[r.qual]
        return r

    def getattr(self, o, attr, node):
        st = self.st
        if isinstance(o, VCallable) and o.qual == "super:":
            return VCallable("super:" + attr, bound=o.bound)
        if isinstance(o, VCallable):
            return VCallable(o.qual + "." + attr, bound=o.bound)
        if isinstance(o, VCnd):
            if attr == "antecedence":
                return VForm(L.ant(o.t))
            if attr == "consequence":
                return VForm(L.cons(o.t))
            if attr in ("textRepresentation",):
                return VStr(self.st.fresh_const("text", StrSort))
            if attr == "weak":
                return VBool(self.st.fresh_const("weak", L.Bool))
            if attr == "index":
                from . import lib as _lib

                self.oblige("noraise.attr_index", node, _lib.has_index(o.t))  # AttributeError if never set
                return VInt(_lib.cidx(o.t))
            return VCallable(f"method:Conditional.{attr}", bound=o)
        if isinstance(o, VRef):
            rec = st.obj(o.ref)
            if rec["kind"] == "obj":
                if attr in rec["fields"]:
                    return rec["fields"][attr]
                return VCallable(f"method:{rec['cls']}.{attr}", bound=o)
            if rec["kind"] == "solver":
                if attr == "cost" and rec.get("rc2"):
                    return VInt(st.fresh_const("rc2_cost", L.Int))  # (its meaning is the assumed contract of get_violated_conditional)
                return VCallable(f"method:Solver.{attr}", bound=o)
            if rec["kind"] == "rec":
                return VCallable(f"method:rec.{attr}", bound=o)
        if isinstance(o, VITerm):
            return VCallable(f"method:ITerm.{attr}", bound=o)
        if isinstance(o, VList):
            return VCallable(f"method:list.{attr}", bound=o)
        if isinstance(o, VDict):
            return VCallable(f"method:dict.{attr}", bound=o)
        if isinstance(o, VStr):
            return VCallable(f"method:str.{attr}", bound=o)
        if isinstance(o, (VSet, VEmptySet)):
            return VCallable(f"method:set.{attr}", bound=o)
        if isinstance(o, VEmptyDict):
            o = VConcDict([])
        if isinstance(o, VConcDict):
            return VCallable(f"method:concdict.{attr}", bound=o)
        if isinstance(o, VOpaque) and getattr(o, "kind", None) == "path":
            return VCallable(f"method:path.{attr}", bound=o)
        if isinstance(o, VOpaque) and getattr(o, "kind", None) == "z3model":
            return VCallable(f"method:z3model.{attr}", bound=o)
        if isinstance(o, VOpaque) and getattr(o, "kind", None) == "idpool":
            return VCallable(f"method:idpool.{attr}", bound=o)
        if o.__class__.__name__ == "VZE":
            return VCallable(f"method:ZExpr.{attr}", bound=o)
        if o.__class__.__name__ == "VCtx":
            from . import lib as _lib

            if attr in _lib.child and attr not in ("formula", "condition", "myid"):
                return _lib.VCtx(_lib.child[attr](o.t))
            if attr == "text":
                return VStr(_lib.tok_text(o.t))
            return VCallable(f"method:Ctx.{attr}", bound=o)
        if isinstance(o, VOptional):
            # attribute access on Optional: must not be None
            self.oblige("noraise.attr_on_none", node, z3.Not(o.isnone))
            return self.getattr(o.val, attr, node)
        if isinstance(o, VForm):
            return VCallable(f"method:Form.{attr}", bound=o)
        raise Unsupported(f"attribute .{attr} on {o.ty}")

    def expr_Subscript(self, node):
        if isinstance(node.value, ast.Name) and node.value.id in ("frozenset", "set", "list", "dict") and node.value.id not in self.st.env:
            return VCallable("builtins." + node.value.id)  # generic alias such as frozenset[T]
        o = self.eval(node.value)
        st = self.st
        if isinstance(node.slice, ast.Slice) and node.slice.lower is None and node.slice.upper is None and node.slice.step is None and isinstance(o, VList):
            return VList(o.t, o.et)  # xs[:] : a new list object with the same elements
        if isinstance(o, VRef) and st.obj(o.ref)["kind"] == "rec":
            k = self.eval(node.slice)
            if not (isinstance(k, VStr) and k.const is not None):
                raise Unsupported("record key must be a string literal")
            f = st.obj(o.ref)["fields"]
            if k.const not in f:
                raise Unsupported(f"record key '{k.const}' not declared in the contract's type")
            return f[k.const]
        k = self.eval(node.slice)
        if isinstance(o, VConcDict) and isinstance(k, VStr) and k.const is not None:
            for kk, vv in o.items:
                if isinstance(kk, VStr) and kk.const == k.const:
                    return vv
            self.oblige("noraise.key", node, z3.BoolVal(False), f"key {k.const!r} is not in the dict on this path")
            raise PathEnd()
        if isinstance(o, VOptional):
            # subscripting None raises TypeError
            self.oblige("noraise.subscript_on_None", node, z3.Not(o.isnone))
            o = o.val
        if isinstance(o, VFalseOr):
            # subscripting `False` raises TypeError
            self.oblige("noraise.subscript_on_False", node, z3.Not(o.isfalse))
            o = o.val
        if isinstance(o, VList) and isinstance(k, VInt) and getattr(o, "concrete", None) is not None and z3.is_int_value(z3.simplify(k.t)):
            kk = z3.simplify(k.t).as_long()
            if -len(o.concrete) <= kk < len(o.concrete):
                return o.concrete[kk]
        if isinstance(o, VList) and isinstance(k, VInt):
            n = o.len()
            self.oblige("noraise.index", node, z3.And(-n <= k.t, k.t < n))
            # Python's negative indices; a case split (not an if-then-else term) keeps the
            # index syntactically simple for the matcher
            if self.choose(k.t < 0):
                return o.at(z3.simplify(n + k.t))
            return o.at(k.t)
        if isinstance(o, VTuple) and isinstance(k, VInt):
            kk = z3.simplify(k.t)
            if z3.is_int_value(kk):
                return o.items[kk.as_long()]
        if isinstance(o, VStr) and isinstance(k, VInt):
            # s[k]: the one-character string at position k (TB-py: strings as a length and a character function)
            n = strlen(o.t)
            self.oblige("noraise.str_index", node, z3.And(-n <= k.t, k.t < n))
            if self.choose(k.t < 0):
                return VStr(chr_at(o.t, z3.simplify(n + k.t)))
            return VStr(chr_at(o.t, k.t))
        if isinstance(o, VDict) and hasattr(k, "t") and k.t.sort() == o.kt.sort():
            self.oblige("noraise.key", node, self.mem_keys(o.keys, k.t))
            self.st.assume(self.mem_keys(o.keys, k.t))  # holds on every path that continues (else KeyError)
            return o.et.wrap(z3.Select(o.val, k.t))
        raise Unsupported(f"subscript {o.ty}[{k.ty}]")

    def truth(self, v) -> z3.BoolRef:
        if isinstance(v, VBool):
            return v.t
        if isinstance(v, VInt):
            return v.t != 0
        if isinstance(v, VNone):
            return z3.BoolVal(False)
        if isinstance(v, VList):
            return v.len() > 0
        if isinstance(v, VEmptyList):
            return z3.BoolVal(False)
        if isinstance(v, VDict):
            return v.KL.len(v.keys) > 0
        if isinstance(v, VSet):
            return v.t != z3.EmptySet(v.et.sort())
        if isinstance(v, VFalseOr):
            return z3.And(z3.Not(v.isfalse), self.truth(v.val))
        if isinstance(v, VOptional):
            return z3.And(z3.Not(v.isnone), self.truth(v.val))
        if isinstance(v, VRef):
            return z3.BoolVal(True)
        if isinstance(v, VStr):
            if v.const is not None:
                return z3.BoolVal(bool(v.const))
            return v.t != VStr(const="").t
        raise Unsupported(f"truth value of {v.ty}")

    def expr_UnaryOp(self, node):
        v = self.eval(node.operand)
        if isinstance(node.op, ast.Not):
            return VBool(z3.Not(self.truth(v)))
        if isinstance(node.op, ast.USub) and isinstance(v, VInt):
            return VInt(-v.t)
        raise Unsupported("unary op")

    def expr_BoolOp(self, node):
        # short-circuit evaluation matters only for side effects / partial operations:
        # evaluate operands left to right under the proper path condition
        is_and = isinstance(node.op, ast.And)
        vals = []
        for i, e in enumerate(node.values):
            v = self.eval(e)
            if i == len(node.values) - 1:
                vals.append(v)
                break
            c = self.truth(v)
            if self.choose(c) != is_and:
                # short circuit: result is this operand
                return v if not isinstance(v, VBool) else VBool(not is_and)
            vals.append(v)
        return vals[-1]

    def expr_IfExp(self, node):
        c = self.truth(self.eval(node.test))
        if self.choose(c):
            return self.eval(node.body)
        return self.eval(node.orelse)

    def expr_BinOp(self, node):
        return self.binop(node.op, self.eval(node.left), self.eval(node.right), node)

    def binop(self, op, a, b, node):
        if isinstance(a, VInt) and isinstance(b, VInt):
            if isinstance(op, ast.Add):
                return VInt(a.t + b.t)
            if isinstance(op, ast.Sub):
                return VInt(a.t - b.t)
            if isinstance(op, ast.Mult):
                return VInt(a.t * b.t)
        if isinstance(a, (VFloat, VInt)) and isinstance(b, (VFloat, VInt)):
            return VFloat()
        if isinstance(a, VSet) and isinstance(b, VSet) and a.t.sort() == b.t.sort():
            if isinstance(op, ast.BitAnd):
                return VSet(z3.SetIntersect(a.t, b.t), a.et)
            if isinstance(op, ast.BitOr):
                return VSet(z3.SetUnion(a.t, b.t), a.et)
            if isinstance(op, ast.Sub):
                return VSet(z3.SetDifference(a.t, b.t), a.et)
        if isinstance(a, VITerm) and isinstance(b, VITerm) and isinstance(op, ast.Sub):
            from . import iterm as IT

            return VITerm(IT.i_sub(a.t, b.t))
        if isinstance(op, ast.Add) and isinstance(a, (VList, VEmptyList)) and isinstance(b, (VList, VEmptyList)):
            if isinstance(a, VEmptyList):
                return b if isinstance(b, VEmptyList) else VList(b.t, b.et)
            if isinstance(b, VEmptyList):
                return VList(a.t, a.et)
            if a.t.sort() != b.t.sort():
                raise Unsupported("concatenation of lists of different element types")
            return VList(a.LT.concat(a.t, b.t), a.et)
        raise Unsupported(f"binary op {op.__class__.__name__} on {a.ty},{b.ty}")

    def expr_Compare(self, node):
        if len(node.ops) != 1:
            raise Unsupported("chained comparison")
        op = node.ops[0]
        # type(x) == list
        if (
            isinstance(node.left, ast.Call)
            and isinstance(node.left.func, ast.Name)
            and node.left.func.id == "type"
            and isinstance(node.comparators[0], ast.Name)
            and node.comparators[0].id == "list"
            and isinstance(op, ast.Eq)
        ):
            v = self.eval(node.left.args[0])
            if isinstance(v, VFalseOr) and isinstance(v.val, VList):
                return VBool(z3.Not(v.isfalse))
            if isinstance(v, (VList, VEmptyList)):
                return VBool(True)
            raise Unsupported("type(x) == list on " + str(v.ty))
        a = self.eval(node.left)
        b = self.eval(node.comparators[0])
        if isinstance(a, VForm) and isinstance(b, VBool) and isinstance(op, ast.Eq):
            # z3 API: `expr == False` builds the formula Not(expr) (`== True`: expr itself)
            bv = z3.simplify(b.t)
            if z3.is_false(bv):
                return VForm(L.f_not(a.t))
            if z3.is_true(bv):
                return a
        return VBool(self.compare(op, a, b, node))

    def compare(self, op, a, b, node):
        if isinstance(op, (ast.Is, ast.IsNot)):
            r = self.identical(a, b)
            return r if isinstance(op, ast.Is) else z3.Not(r)
        if isinstance(op, (ast.Eq, ast.NotEq)):
            r = self.equal(a, b)
            return r if isinstance(op, ast.Eq) else z3.Not(r)
        if isinstance(op, (ast.Lt, ast.LtE, ast.Gt, ast.GtE)):
            if isinstance(a, VOptional):
                self.oblige("noraise.compare_none", node, z3.Not(a.isnone))
                a = a.val
            if isinstance(b, VOptional):
                self.oblige("noraise.compare_none", node, z3.Not(b.isnone))
                b = b.val
        if isinstance(a, VInt) and isinstance(b, VInt):
            if isinstance(op, ast.Lt):
                return a.t < b.t
            if isinstance(op, ast.LtE):
                return a.t <= b.t
            if isinstance(op, ast.Gt):
                return a.t > b.t
            if isinstance(op, ast.GtE):
                return a.t >= b.t
        if isinstance(op, (ast.In, ast.NotIn)) and isinstance(b, (VConcDict, VEmptyDict)) and isinstance(a, VStr) and a.const is not None:
            items = getattr(b, "items", [])
            if not all(isinstance(k, VStr) and k.const is not None for k, _v in items):
                raise Unsupported("membership in a concrete dict with non-literal keys")
            r = z3.BoolVal(any(k.const == a.const for k, _v in items))
            return r if isinstance(op, ast.In) else z3.Not(r)
        if isinstance(op, (ast.In, ast.NotIn)):
            if isinstance(b, VOptional):
                # `x in None` raises TypeError
                self.oblige("noraise.in_none", node, z3.Not(b.isnone))
                b = b.val
            if isinstance(b, VRef) and self.st.obj(b.ref)["kind"] == "rec" and isinstance(a, VStr) and a.const is not None:
                rec = self.st.obj(b.ref)
                present = rec.get("present", {}).get(a.const)
                if present is None:
                    present = z3.BoolVal(a.const in rec["fields"])
                return present if isinstance(op, ast.In) else z3.Not(present)
            if isinstance(b, VList) and hasattr(a, "t") and a.t.sort() == b.et.sort():
                mem, _w = L.mem_theory(b.et.sort())
                L.set_of_list(b.et.sort())  # (registers the link between list membership and setof)
                r = mem(b.t, a.t)
                return r if isinstance(op, ast.In) else z3.Not(r)
            if isinstance(b, VSet) and hasattr(a, "t") and a.t.sort() == b.et.sort():
                r = z3.IsMember(a.t, b.t)
                return r if isinstance(op, ast.In) else z3.Not(r)
            if isinstance(b, VDict) and hasattr(a, "t") and a.t.sort() == b.kt.sort():
                r = self.mem_keys(b.keys, a.t)
                return r if isinstance(op, ast.In) else z3.Not(r)
            if isinstance(b, VTuple) and isinstance(a, (VInt, VStr)) and all(type(x) is type(a) for x in b.items):
                # x in (c1, .., cn) for scalars of one type: a disjunction of equalities
                r = z3.Or([a.t == x.t for x in b.items]) if b.items else z3.BoolVal(False)
                return r if isinstance(op, ast.In) else z3.Not(r)
        raise Unsupported(f"comparison {op.__class__.__name__} on {a.ty},{b.ty}")

    def identical(self, a, b):
        # `x is False` / `x is None`
        if isinstance(b, VBool) and z3.is_false(z3.simplify(b.t)):
            if isinstance(a, VFalseOr):
                return a.isfalse
            if isinstance(a, (VList, VEmptyList, VRef, VNone)):
                return z3.BoolVal(False)
            if isinstance(a, VBool):
                return z3.Not(a.t)
        if isinstance(b, VNone):
            if isinstance(a, VOptional):
                return a.isnone
            if isinstance(a, VNone):
                return z3.BoolVal(True)
            if isinstance(a, (VList, VRef, VInt, VBool, VCnd, VForm, VStr, VDict, VFloat, VTuple, VSet)):
                return z3.BoolVal(False)
            if isinstance(a, VOpaque) and getattr(a, "kind", None) is None:
                return a.t == OPQ_NONE  # an untyped value: None is one of the values it may be
        if isinstance(a, (VList, VDict, VSet)) and isinstance(b, (VList, VDict, VSet)):
            # the engine binds one value object per container object it creates or reads from a
            # field; containers created by one builder carry distinct object ids
            if a is b:
                return z3.BoolVal(True)
            oa, ob = getattr(a, "oid", None), getattr(b, "oid", None)
            if oa is not None and ob is not None and oa != ob:
                return z3.BoolVal(False)
        raise Unsupported(f"'is' on {a.ty},{b.ty}")

    def equal(self, a, b):
        if isinstance(a, VEmptyList):
            a, b = b, a
        if isinstance(b, VEmptyList):
            if isinstance(a, VList):
                return a.len() == 0
            if isinstance(a, VEmptyList):
                return z3.BoolVal(True)
        # `x == False` / `x != False`
        if isinstance(b, VBool) and isinstance(a, VFalseOr):
            bf = z3.simplify(b.t)
            if z3.is_false(bf):
                return a.isfalse
        if isinstance(a, VBool) and isinstance(b, VBool):
            return a.t == b.t
        if isinstance(a, VInt) and isinstance(b, VInt):
            return a.t == b.t
        if isinstance(a, VStr) and isinstance(b, VStr):
            return a.t == b.t
        if isinstance(a, VList) and isinstance(b, VList) and a.t.sort() == b.t.sort():
            return a.t == b.t
        if isinstance(a, VSet) and isinstance(b, VSet) and a.t.sort() == b.t.sort():
            return a.t == b.t
        if isinstance(a, VSet) and isinstance(b, VEmptySet):
            return a.t == z3.EmptySet(a.et.sort())
        if isinstance(b, VSet) and isinstance(a, VEmptySet):
            return b.t == z3.EmptySet(b.et.sort())
        # `x == None` / `x != None` (identity for None: objects of the modelled kinds do not override ==)
        if isinstance(b, VNone):
            if isinstance(a, VOptional):
                return a.isnone
            if isinstance(a, VNone):
                return z3.BoolVal(True)
            if isinstance(a, (VRef, VList, VDict, VCnd, VInt, VStr)) or a.__class__.__name__ == "VCtx":
                return z3.BoolVal(False)
        raise Unsupported(f"== on {a.ty},{b.ty}")

    # ---- comprehensions ------------------------------------------------------------------
    def expr_DictComp(self, node):
        ty = self.contract.locals.get(f"_dc{self.loop_nodes.get(id(node))}", self.contract.locals.get("_dc"))  # per comprehension (`_dc<k>`) or common
        if ty is None:
            raise Unsupported("dict comprehension needs the type of its accumulator `_dc` in the contract's locals")
        saved = self.st.env.get("_dc")
        KL = ty.kt.list_theory()
        self.st.env["_dc"] = VDict(KL.nil, self.st.fresh_const("dc0", z3.ArraySort(ty.kt.sort(), ty.et.sort())), ty.et, ty.kt)
        self.exec_loop(node)
        r = self.st.env.pop("_dc")
        if saved is not None:
            self.st.env["_dc"] = saved
        return r

    def expr_GeneratorExp(self, node):
        raise Unsupported("generator expression outside a modelled builtin")

    def expr_ListComp(self, node):
        if len(node.generators) != 1:
            raise Unsupported("nested comprehension")
        k = self.loop_nodes.get(id(node))
        if isinstance(k, str) and k in self.contract.loops:
            # the contract gives this comprehension a loop invariant: run it as the loop it abbreviates
            ty = self.contract.locals.get(f"_{k}")
            if not isinstance(ty, TList):
                raise Unsupported(f"list comprehension {k} needs the type of its accumulator `_{k}` in the contract's locals")
            saved = self.st.env.get(f"_{k}")
            self.st.env[f"_{k}"] = VList(ty.et.list_theory().nil, ty.et)
            self.exec_loop(node)
            r = self.st.env.pop(f"_{k}")
            if saved is not None:
                self.st.env[f"_{k}"] = saved
            return r
        gen = node.generators[0]
        src = self.eval(gen.iter)
        seq = self.as_sequence(src, node)
        # identity copy  [x for x in xs]
        if not gen.ifs and isinstance(node.elt, ast.Name) and isinstance(gen.target, ast.Name) and node.elt.id == gen.target.id:
            return VList(seq.t, seq.et)
        if gen.ifs:
            if (
                isinstance(src, VSet)
                and len(gen.ifs) == 1
                and isinstance(node.elt, ast.Name)
                and isinstance(gen.target, ast.Name)
                and node.elt.id == gen.target.id
            ):
                return self.filter_set_comprehension(node, gen, src)
            if (
                isinstance(seq, VList)
                and len(gen.ifs) == 1
                and isinstance(node.elt, ast.Name)
                and isinstance(gen.target, ast.Name)
                and node.elt.id == gen.target.id
            ):
                return self.filter_list_comprehension(node, gen, seq)
            raise Unsupported("filtering comprehension of this shape")
        return self.map_comprehension(node, gen, seq)

    def filter_list_comprehension(self, node, gen, seq):
        """[x for x in xs if c(x)] over a list: first the list B of the condition's values (a map
        comprehension, so callee postconditions inside c are handled as there), then the result R as
        THE subsequence of xs at the positions where B holds: index maps fi (R -> xs, strictly
        increasing, B holds there) and ri (positions of xs where B holds -> R), inverse to each other."""
        st = self.st
        cond_node = ast.ListComp(elt=gen.ifs[0], generators=[ast.comprehension(target=gen.target, iter=gen.iter, ifs=[], is_async=0)])
        ast.copy_location(cond_node, node)
        ast.fix_missing_locations(cond_node)
        saved = dict(st.env)
        gen2 = cond_node.generators[0]
        # evaluate the condition as truth values, element by element
        B = self.map_comprehension(ast.ListComp(elt=ast.Call(func=ast.Name(id="bool", ctx=ast.Load()), args=[gen.ifs[0]], keywords=[]), generators=[gen2]), gen2, seq)
        st.env = saved
        LT = seq.LT
        LB = B.LT
        R = st.fresh_const("filtered", LT.sort)
        n = self.st.n
        fi = z3.Function(f"flt{n}!fi", L.Int, L.Int)
        ri = z3.Function(f"flt{n}!ri", L.Int, L.Int)
        i, i2, j = z3.Ints(f"_fl{n}_i _fl{n}_i2 _fl{n}_j")
        st.assume(LT.len(R) <= seq.len())
        st.assume(L.Forall([i], [LT.at(R, i)], z3.Implies(z3.And(0 <= i, i < LT.len(R)), z3.And(0 <= fi(i), fi(i) < seq.len(), LT.at(R, i) == LT.at(seq.t, fi(i)), LB.at(B.t, fi(i)), ri(fi(i)) == i)), "filter.list.sound"))
        st.assume(L.Forall([j], [LT.at(seq.t, j)], z3.Implies(z3.And(0 <= j, j < seq.len(), LB.at(B.t, j)), z3.And(0 <= ri(j), ri(j) < LT.len(R), LT.at(R, ri(j)) == LT.at(seq.t, j), fi(ri(j)) == j)), "filter.list.complete"))
        st.assume(L.Forall([i, i2], [LT.at(R, i), LT.at(R, i2)], z3.Implies(z3.And(0 <= i, i < i2, i2 < LT.len(R)), fi(i) < fi(i2)), "filter.list.order"))
        # ghost: the list of the source positions kept (a name for fi, usable as a ghost output of the contract)
        POS = st.fresh_const("filtered_pos", L.LInt.sort)
        st.assume(L.LInt.len(POS) == LT.len(R))
        st.assume(L.Forall([i], [L.LInt.at(POS, i)], z3.Implies(z3.And(0 <= i, i < LT.len(R)), z3.And(L.LInt.at(POS, i) == fi(i), 0 <= fi(i), fi(i) < seq.len(), LT.at(R, i) == LT.at(seq.t, fi(i)), LB.at(B.t, fi(i)), ri(fi(i)) == i)), "filter.list.pos"))
        st.assume(L.Forall([i], [LT.at(R, i)], L.LInt.at(POS, i) == fi(i), "filter.list.pos.r"))
        st.env["__filter_pos_last"] = VList(POS, TInt)
        return VList(R, seq.et)

    def filter_set_comprehension(self, node, gen, src):
        """[x for x in S if c(x)]  ->  an enumeration of the set { x in S | c(x) }; c must be a
        pure condition (no calls through contracts): it is evaluated once for a generic x"""
        st = self.st
        x = z3.Const(f"_flt_x_{self.rel(node)}", src.et.sort())
        saved_env = dict(st.env)
        pc_before = len(st.pc)
        consts_before = len(st.fresh_consts)
        st.env[gen.target.id] = src.et.wrap(x)
        cv = self.truth(self.eval(gen.ifs[0]))
        if len(st.pc) != pc_before or len(st.fresh_consts) != consts_before:
            raise Unsupported("filter condition is not a pure expression")
        st.env = saved_env
        fs = st.fresh_const("filtered", src.t.sort())
        st.assume(L.Forall([x], [z3.IsMember(x, fs)], z3.IsMember(x, fs) == z3.And(z3.IsMember(x, src.t), cv), "filter.def"))
        st.assume(L.Forall([x], [z3.IsMember(x, src.t)], z3.IsMember(x, fs) == z3.And(z3.IsMember(x, src.t), cv), "filter.def2"))
        return VSet(fs, src.et).enum()

    def map_comprehension(self, node, gen, seq):
        """[e(x) for x in xs]  ->  fresh list r with len(r) = len(xs) and, for every valid
        index i, at(r,i) = e(at(xs,i)); facts assumed while evaluating e (callee
        postconditions) are quantified over i with skolem functions."""
        st = self.st
        i = st.fresh_const("ci", L.Int)
        saved_env = dict(st.env)
        pc_before = len(st.pc)
        consts_before = len(st.fresh_consts)
        st.assume([0 <= i, i < seq.len()])
        guard_pos = len(st.pc)
        # the element expression is evaluated for a generic index i.  Where it forks on a value (x if c else y, and /
        # or, an inlined helper's if) the decision differs from element to element: every alternative is evaluated
        # here (local exploration) and the element's defining fact is the DISJUNCTION of the alternatives.
        saved_heap = dict(st.heap)
        outer_local = getattr(self, "_local", None)
        branches = []
        pending = [[]]
        while pending:
            prefix = pending.pop()
            st.env = dict(saved_env)
            st.heap = dict(saved_heap)
            del st.pc[guard_pos:]
            self._local = {"trace": list(prefix), "pos": 0, "new": []}
            try:
                self.assign(gen.target, seq.at(i))
                ev = self.eval(node.elt)
            except (RaiseExc, PathEnd):
                if self._local["trace"] or pending or branches:
                    raise Unsupported("exception inside a comprehension element that forks on a value")
                raise
            finally:
                loc = self._local
                self._local = outer_local
            pending.extend(loc["new"])
            if any(st.heap.get(k) is not v for k, v in saved_heap.items()) or len(st.heap) != len(saved_heap):
                if loc["trace"] or pending or branches:
                    raise Unsupported("heap effect inside a comprehension element that forks on a value")
            branches.append((list(st.pc[guard_pos:]), ev))
        new_consts = st.fresh_consts[consts_before:]  # everything created while evaluating the element (i itself was created before)
        st.env = saved_env
        del st.pc[pc_before:]
        ev = branches[0][1]
        if isinstance(ev, (VRef, VTuple, VFalseOr, VOptional, VDict)):
            raise Unsupported("comprehension element type")
        et = ev.ty
        if any(b[1].ty is not et and repr(b[1].ty) != repr(et) for b in branches):
            raise Unsupported("comprehension element of different types on different branches")
        LT = et.list_theory()
        r = st.fresh_const("comp", LT.sort)
        sub = []
        for c in new_consts:
            f = z3.Function(f"sk_{c.decl().name()}", L.Int, c.sort())
            sub.append((c, f(i)))
        alts = []
        for facts, bev in branches:
            body = [LT.at(r, i) == bev.t]
            for f in facts:
                if isinstance(f, L.Forall):
                    raise Unsupported("quantified fact inside comprehension element")
                body.append(f)
            alts.append(z3.And(*body))
        body = alts[0] if len(alts) == 1 else z3.Or(*alts)
        if sub:
            body = z3.substitute(body, sub)
        st.assume(LT.len(r) == seq.len())
        fa = L.Forall([i], [LT.at(r, i)], z3.Implies(z3.And(0 <= i, i < seq.len()), body), "comprehension")
        fa.liberal = True
        st.assume(fa)
        src_i = seq.at(i)
        if hasattr(src_i, "t") and z3.is_app(src_i.t) and src_i.t.num_args() == 2:
            # the same fact, triggered by the source element (so that a witness found in the
            # source yields its image)
            fa = L.Forall([i], [src_i.t], z3.Implies(z3.And(0 <= i, i < seq.len()), body), "comprehension.by.source")
            fa.liberal = True
            st.assume(fa)
        return VList(r, et)

    # ---- calls ---------------------------------------------------------------------------
    def expr_Call(self, node):
        f = self.eval(node.func)
        if isinstance(f, VOpaque) and getattr(f, "kind", None) == "tactic" and len(node.args) == 1 and not node.keywords:
            # t(F) for a z3 tactic: an opaque goal that remembers the formula it was made from (TB-tac)
            fv = self.eval(node.args[0])
            if not isinstance(fv, VForm):
                raise Unsupported("tactic applied to a non-formula")
            g = VOpaque("z3 goal")
            g.kind = "goal"
            g.formula = fv
            return g
        if isinstance(f, VOpaque) and getattr(f, "kind", None) == "pyfun" and not node.keywords:
            # a callable passed in as an argument, modelled as a mathematical function of its int arguments (TB-py)
            av = [self.eval(a) for a in node.args]
            if not all(isinstance(a, VInt) for a in av) or len(av) != f.fn.arity():
                raise Unsupported("call of a function parameter with these arguments")
            return VInt(f.fn(*[a.t for a in av]))
        if isinstance(f, VCallable) and f.qual == "builtins.super" and not node.args and not node.keywords:
            me = self.st.env.get("self")
            if not isinstance(me, VRef):
                raise Unsupported("super() outside a method with an object `self`")
            return VCallable("super:", bound=me)
        if not isinstance(f, VCallable):
            raise Unsupported(f"call of {f.ty}")
        if any(isinstance(a, ast.Starred) for a in node.args) or any(k.arg is None for k in node.keywords):
            raise Unsupported("star-args")
        # lazily evaluated builtins get the AST
        h = self.lib.lazy.get(f.qual)
        if h:
            return h(self, node, f)
        args = [self.eval(a) for a in node.args]
        kwargs = {k.arg: self.eval(k.value) for k in node.keywords}
        return self.call(f, args, kwargs, node)

    def call(self, f: VCallable, args, kwargs, node):
        q = f.qual
        # 1. methods on values
        if q.startswith("method:"):
            cls, name = q[len("method:"):].rsplit(".", 1)
            h = self.lib.methods.get((cls, name))
            if h:
                return h(self, f.bound, args, kwargs, node)
            ct = resolve_method(cls, name)
            if ct:
                return self.call_contract(ct, [f.bound] + args, kwargs, node)
            raise Unsupported(f"method {cls}.{name} has no model/contract")
        # 2. library functions
        h = self.lib.functions.get(q)
        if h:
            return h(self, args, kwargs, node)
        # 2b. super().method(...): the parent class's contract, on the same object
        if q.startswith("super:"):
            name = q[len("super:"):]
            own = self.contract.qual.split(":")[1].rsplit(".", 1)[0]
            parent = CLASS_PARENTS.get(own)
            pct = resolve_method(parent, name) if parent else None
            if pct is None:
                raise Unsupported(f"super().{name}: no contract in the parents of {own}")
            from . import run as _run

            owner = pct.qual.split(":")[1].split("#")[0].rsplit(".", 1)[0]
            cc = parent
            while cc and cc != owner:
                if f"{cc}.{name}" in _run.module_info(CLASS_MODULE[cc]).funcs:
                    raise Unsupported(f"super().{name}: {cc}.{name} has no contract")
                cc = CLASS_PARENTS.get(cc)
            return self.call_contract(pct, [f.bound] + args, kwargs, node)
        # 2c. Cls(...): a new object of that class, initialised by the contract of its (possibly inherited) __init__
        cname = q.split(":")[1] if ":" in q else None
        if cname and "." not in cname and cname in CLASS_MODULE and f"{CLASS_MODULE[cname]}:{cname}" == q and C.get(q) is None:
            ict = resolve_method(cname, "__init__")
            if ict is not None:
                # the contract found may belong to a parent class: only right if no class in between defines its own __init__
                from . import run as _run

                owner = ict.qual.split(":")[1].split("#")[0].rsplit(".", 1)[0]
                cc = cname
                while cc and cc != owner:
                    if f"{cc}.__init__" in _run.module_info(CLASS_MODULE[cc]).funcs:
                        raise Unsupported(f"constructor of {cname}: {cc}.__init__ has no contract")
                    cc = CLASS_PARENTS.get(cc)
                selfT = list(ict.params.values())[0]
                if not isinstance(selfT, TObj):
                    raise Unsupported(f"constructor of {cname}: __init__ contract without an object type")
                obj = selfT.fresh(f"new_{cname}", self.st)
                self.st.obj(obj.ref)["cls"] = cname
                self.call_contract(ict, [obj] + args, kwargs, node)
                return obj
        # 3. repository functions through their contract
        ct = C.get(q)
        if ct and getattr(ct, "inline", False):
            return self.inline_call(ct, args, kwargs, node)
        if ct:
            if list(ct.params.keys())[:1] == ["cls"]:
                args = [VCallable(q.rsplit(".", 1)[0])] + args  # classmethod called on the class
            return self.call_contract(ct, args, kwargs, node)
        raise Unsupported(f"call of {q}: no model and no contract")

    def inline_call(self, ct, args, kwargs, node):
        """a loop-free helper marked `inline`: its REAL body is executed symbolically on the
        actual arguments at the call site (the helper keeps its own contract, verified on its
        own); used where the argument types vary between call sites"""
        from . import run as _run

        modname, fname = ct.qual.split(":")
        mod = _run.module_info(modname)
        fnode = mod.funcs.get(fname)
        if fnode is None:
            raise Unsupported(f"shape mismatch: inlined function {fname} not found")
        for n in ast.walk(fnode):
            if isinstance(n, (ast.For, ast.While, ast.ListComp, ast.DictComp, ast.Try, ast.With)):
                raise Unsupported(f"inlined function {fname} is not straight-line code")
        a = fnode.args
        names = [x.arg for x in a.posonlyargs + a.args + a.kwonlyargs]
        if len(args) > len(names) or a.vararg or a.kwarg or a.defaults or a.kw_defaults:
            raise Unsupported(f"inlined call of {fname}: argument shape")
        env = dict(zip(names, args))
        for k, v in kwargs.items():
            if k not in names or k in env:
                raise Unsupported(f"inlined call of {fname}: keyword {k}")
            env[k] = v
        if set(env) != set(names):
            raise Unsupported(f"inlined call of {fname}: missing argument")
        self.called = getattr(self, "called", set())
        self.called.add(ct.qual + " (inlined)")
        saved_env, saved_mod, saved_fn = self.st.env, self.mod, self.fn
        self.st.env, self.mod = env, mod
        try:
            try:
                self.exec_block(fnode.body)
                res = VNone()
            except ReturnExc as r:
                res = r.value
        finally:
            self.st.env, self.mod, self.fn = saved_env, saved_mod, saved_fn
        return res

    def call_contract(self, ct: C.Contract, args, kwargs, node):
        """replace the callee by its contract (never its body)"""
        st = self.st
        names = list(ct.params.keys())
        bound = {}
        for n, a in zip(names, args):
            bound[n] = a
        for k, v in kwargs.items():
            if k not in ct.params:
                raise Unsupported(f"unknown keyword {k} for {ct.qual}")
            bound[k] = v
        defaults = getattr(ct, "defaults", {})
        for n in names:
            if n not in bound:
                if n in defaults:
                    bound[n] = defaults[n](self)
                else:
                    raise Unsupported(f"missing argument {n} for {ct.qual}")
        for n in names:
            bound[n] = self.coerce(bound[n], ct.params[n], f"{ct.qual}.{n}")
        cst = st.snapshot()
        cst.env = bound
        cview = View(self, cst)
        cview.old = cview  # at a call site the callee's entry state is the current state
        pre = ct.requires(cview)
        self.oblige(f"pre@call:{ct.qual.split(':')[1]}", node, pre)
        self.called = getattr(self, "called", set())
        self.called.add(ct.qual)
        # exceptional outcomes the callee is allowed to have
        for exc, cond in ct.raises.items():
            c = cond(cview)
            if self.choose(c if getattr(ct, "raise_exact", False) else None, exit_fork=True):
                if not getattr(ct, "raise_exact", False):
                    st.assume(c)
                # heap effects of a raising callee: havoc what it may modify
                self.havoc_modified(ct, bound)
                e = RaiseExc(exc)
                e.node = node
                raise e
        old_view = View(self, cst)
        self.havoc_modified(ct, bound)
        if ct.result_builder is not None:
            res = ct.result_builder(self, bound)
        else:
            res = ct.returns.fresh(f"res_{ct.qual.split(':')[1]}", st) if ct.returns is not None else VNone()
        nst = View(self, _with_env(st, bound), old=old_view)
        if getattr(ct, "ghost_out", None):
            # ghost outputs of the callee: SOME values satisfy its postcondition (fresh constants);
            # they stay addressable in the caller as __ghost.<name>
            nst.ghost = {n: t.fresh(f"ghost_{n}", st) for n, t in ct.ghost_out.items()}
            for n, gv in nst.ghost.items():
                st.env[f"__ghost.{n}"] = gv
        st.assume(ct.ensures(nst, res))
        if getattr(ct, "derived_ensures", None):
            st.assume(ct.derived_ensures(nst, res))
        return res

    def havoc_modified(self, ct, bound):
        for m in ct.modifies:
            path = m.split(".")
            v = bound[path[0]]
            for p in path[1:-1]:
                v = self.st.obj(v.ref)["fields"][p]
            if len(path) == 1:
                if isinstance(v, VRef):
                    self.havoc_heap(v.ref)
                else:
                    raise Unsupported(f"modifies on non-heap parameter {m}")
            else:
                cur = self.st.obj(v.ref)["fields"][path[-1]]
                self.st.set_field(v.ref, path[-1], same_type_fresh(cur, m, self.st))

    def coerce(self, v, ty, what):
        """argument passing: adapt a value to the declared parameter type where the
        adaptation is the identity on the Python value"""
        if isinstance(ty, TOptional) and not isinstance(v, VOptional):
            if isinstance(v, VNone):
                return VOptional(z3.BoolVal(True), ty.inner.fresh("none", self.st), ty.inner)
            return VOptional(z3.BoolVal(False), self.coerce(v, ty.inner, what), ty.inner)
        if isinstance(ty, TFalseOr) and not isinstance(v, VFalseOr):
            if isinstance(v, VBool) and z3.is_false(z3.simplify(v.t)):
                return VFalseOr(z3.BoolVal(True), ty.inner.fresh("false", self.st), ty.inner)
            return VFalseOr(z3.BoolVal(False), self.coerce(v, ty.inner, what), ty.inner)
        if isinstance(v, VEmptyList) and isinstance(ty, TList):
            return VList(ty.et.list_theory().nil, ty.et)
        if isinstance(v, VEmptySet) and isinstance(ty, TSet):
            return VSet(z3.EmptySet(ty.et.sort()), ty.et)
        if isinstance(v, VEmptyDict) and isinstance(ty, TDict):
            return VDict(ty.kt.list_theory().nil, self.st.fresh_const("emptydict", z3.ArraySort(ty.kt.sort(), ty.et.sort())), ty.et, ty.kt)
        if ty is TOpaque:
            return v
        scalar = (ty is TBool or ty is TInt or ty is TStr or ty is TFloat)
        if scalar and isinstance(v, (VRef, VCnd, VForm, VList, VDict, VSet, VTuple)):
            # an object where the callee's contract (and its annotation) wants a scalar
            self.oblige(f"pre@call.type:{what}", self.fn, z3.BoolVal(False), f"argument of type {v.ty} passed for parameter of type {ty}")
            return ty.fresh("mistyped", self.st)
        if isinstance(v, VOptional) and not isinstance(ty, TOptional):
            # passing an Optional where the callee's contract wants the inner type
            self.oblige(f"pre@call.notnone:{what}", self.fn, z3.Not(v.isnone))
            return self.coerce(v.val, ty, what)
        return v


def _with_env(st, env):
    s = st.snapshot()
    s.env = env
    s.heap = st.heap
    return s


class VEmptySet(V):
    """set() / frozenset() / frozenset[T]() before the element type is known"""

    def __init__(self):
        self.ty = TOpaque


class VEmptyDict(V):
    """the literal {} before its type is known"""

    def __init__(self):
        self.ty = TOpaque


class VEmptyList(V):
    """the literal [] before its element type is known"""

    def __init__(self):
        self.ty = TOpaque
