"""Executable definitions (Engine B oracle).

Everything here is written from the *wording of the properties* (explicit worlds,
truth tables, literal definitions), never from the algorithms in /repo.  It is
exponential in the signature and only meant for the bounded scopes of DESIGN §2.7.

Worlds are tuples of bools over a fixed atom order.  A "semantic conditional" is a
pair (ver, fal) of frozensets of world indices.
"""
from __future__ import annotations

import itertools
from functools import lru_cache

from pysmt.shortcuts import get_free_variables

INF = 10 ** 9


# --------------------------------------------------------------------------
# truth-table evaluation of pysmt formulas
# --------------------------------------------------------------------------
def ev(f, w: dict) -> bool:
    """Evaluate pysmt Boolean formula f in world w (dict atom-name -> bool)."""
    if f.is_true():
        return True
    if f.is_false():
        return False
    if f.is_symbol():
        return w[f.symbol_name()]
    if f.is_not():
        return not ev(f.arg(0), w)
    if f.is_and():
        return all(ev(a, w) for a in f.args())
    if f.is_or():
        return any(ev(a, w) for a in f.args())
    if f.is_implies():
        return (not ev(f.arg(0), w)) or ev(f.arg(1), w)
    if f.is_iff():
        return ev(f.arg(0), w) == ev(f.arg(1), w)
    raise ValueError(f"oracle: unsupported node {f}")


def atoms_of(formulas) -> list[str]:
    s = set()
    for f in formulas:
        s |= {v.symbol_name() for v in get_free_variables(f)}
    return sorted(s)


def all_worlds(sig: list[str]) -> list[dict]:
    return [dict(zip(sig, bits)) for bits in itertools.product([False, True], repeat=len(sig))]


def models(f, worlds) -> frozenset:
    return frozenset(i for i, w in enumerate(worlds) if ev(f, w))


class Sem:
    """Semantic view of a belief base + the universe of worlds it is judged in."""

    def __init__(self, conditionals: dict, extra_formulas=(), signature=None):
        fs = []
        for c in conditionals.values():
            fs += [c.antecedence, c.consequence]
        fs += list(extra_formulas)
        sig = set(atoms_of(fs)) | set(signature or [])
        self.sig = sorted(sig)
        self.worlds = all_worlds(self.sig)
        self.n = len(self.worlds)
        self.U = frozenset(range(self.n))
        self.keys = list(conditionals.keys())
        self.ver = {k: self.mod(c.antecedence) & self.mod(c.consequence) for k, c in conditionals.items()}
        self.fal = {k: self.mod(c.antecedence) - self.mod(c.consequence) for k, c in conditionals.items()}

    def mod(self, f) -> frozenset:
        return models(f, self.worlds)

    def q(self, query):
        A = self.mod(query.antecedence)
        B = self.mod(query.consequence)
        return A, A & B, A - B


# --------------------------------------------------------------------------
# tolerance partitions (C06)
# --------------------------------------------------------------------------
def tolerated(k, rest_keys, ver, fal, feas):
    """k tolerated by rest: some feasible world verifies k and falsifies none of rest."""
    ok = set(ver[k]) & feas
    for d in rest_keys:
        ok -= fal[d]
    return bool(ok)


def partition_strict(keys, ver, fal, universe):
    """The unique ordered partition whose layers each consist of all remaining
    conditionals tolerated by the remaining ones (over the worlds in `universe`);
    None if none exists."""
    U = set(universe)
    rest = list(keys)
    part = []
    while rest:
        layer = [k for k in rest if tolerated(k, rest, ver, fal, U)]
        if not layer:
            return None
        part.append(layer)
        rest = [k for k in rest if k not in layer]
    return part


def partition_extended(keys, ver, fal, universe):
    """Extended mode: finite layers followed by the (possibly empty) layer of
    never-tolerated conditionals; None iff every world falsifies one of those."""
    rest = list(keys)
    part = []
    while rest:
        layer = [k for k in rest if tolerated(k, rest, ver, fal, set(universe))]
        if not layer:
            break
        part.append(layer)
        rest = [k for k in rest if k not in layer]
    feas = set(universe)
    for k in rest:
        feas -= fal[k]
    if rest and not feas:
        return None
    part.append(rest)
    return part


def exists_tolerance_partition(keys, ver, fal, universe):
    """Brute force over *all* ordered partitions (tiny bases only): is there an
    ordered partition in which every conditional is tolerated by its own and all
    later layers?  Used to cross-check the greedy definition (lemma L1)."""
    keys = list(keys)
    if not keys:
        return True
    U = set(universe)
    for r in range(1, len(keys) + 1):
        for first in itertools.combinations(keys, r):
            if all(tolerated(k, keys, ver, fal, U) for k in first):
                rest = [k for k in keys if k not in first]
                if exists_tolerance_partition(rest, ver, fal, universe):
                    return True
    return False


# --------------------------------------------------------------------------
# rankings and the five operators, written from C01..C05 / C07
# --------------------------------------------------------------------------
def kz_of(part_finite, fal, feas, universe):
    """kz(w) = 0 if w falsifies nothing, else 1 + largest layer index with a
    falsified conditional; infeasible worlds get INF."""
    kz = {}
    for w in universe:
        if w not in feas:
            kz[w] = INF
            continue
        r = 0
        for i, layer in enumerate(part_finite):
            if any(w in fal[k] for k in layer):
                r = i + 1
        kz[w] = r
    return kz


def rank_set(kz, S):
    vals = [kz[w] for w in S if kz[w] < INF]
    return min(vals) if vals else INF


def falsified_per_layer(part_finite, fal, w):
    return [frozenset(k for k in layer if w in fal[k]) for layer in part_finite]


def w_less(part_finite, fal, w1, w2):
    """w1 <_w w2: from the highest layer downwards the falsified sets agree until a
    layer where w1's set is a proper subset of w2's."""
    f1 = falsified_per_layer(part_finite, fal, w1)
    f2 = falsified_per_layer(part_finite, fal, w2)
    for i in range(len(part_finite) - 1, -1, -1):
        if f1[i] == f2[i]:
            continue
        return f1[i] < f2[i]
    return False


def lexvec(part_finite, fal, w):
    return tuple(len(s) for s in reversed(falsified_per_layer(part_finite, fal, w)))


class Answers:
    """Definitions of all operators for one base (strict or extended)."""

    def __init__(self, sem: Sem, weakly: bool):
        self.sem = sem
        self.weakly = weakly
        keys, ver, fal, U = sem.keys, sem.ver, sem.fal, sem.U
        if weakly:
            part = partition_extended(keys, ver, fal, U)
            self.accepted = part is not None
            if part is None:
                return
            self.partition = part
            self.finite = part[:-1]
            self.inf_layer = part[-1]
            feas = set(U)
            for k in self.inf_layer:
                feas -= fal[k]
            self.feas = frozenset(feas)
        else:
            part = partition_strict(keys, ver, fal, U)
            self.accepted = part is not None and len(keys) > 0
            if part is None:
                return
            self.partition = part
            self.finite = part
            self.inf_layer = []
            self.feas = U
        self.kz = kz_of(self.finite, fal, self.feas, U)

    # -- common trivial cases of C07 / strict short cuts ---------------------
    def _trivial(self, A, AB, AnB):
        F = self.feas
        if not (A & F) or not (AnB & F):
            return True
        if not (AB & F):
            return False
        return None

    def system_z(self, query):
        A, AB, AnB = self.sem.q(query)
        t = self._trivial(A, AB, AnB)
        if t is not None:
            return t
        return rank_set(self.kz, AB) < rank_set(self.kz, AnB)

    def system_w(self, query):
        A, AB, AnB = self.sem.q(query)
        t = self._trivial(A, AB, AnB)
        if t is not None:
            return t
        F = self.feas
        return all(
            any(w_less(self.finite, self.sem.fal, w, w2) for w in AB & F) for w2 in AnB & F
        )

    def lex_inf(self, query):
        A, AB, AnB = self.sem.q(query)
        t = self._trivial(A, AB, AnB)
        if t is not None:
            return t
        F = self.feas
        mv = min(lexvec(self.finite, self.sem.fal, w) for w in AB & F)
        mf = min(lexvec(self.finite, self.sem.fal, w) for w in AnB & F)
        return mv < mf

    def p_entailment(self, query):
        A, AB, AnB = self.sem.q(query)
        if self._trivial(A, AB, AnB) is True:
            return True
        F = self.feas
        # D_fin together with (not B | A): admits no tolerance partition over the
        # feasible worlds
        ver = dict(self.sem.ver)
        fal = dict(self.sem.fal)
        ver["q"] = AnB
        fal["q"] = AB
        keys = [k for layer in self.finite for k in layer] + ["q"]
        return partition_strict(keys, ver, fal, F) is None

    def c_inference(self, query):
        """k(AB) < k(A not B) in every c-representation (strict mode only)."""
        import z3

        A, AB, AnB = self.sem.q(query)
        if not AnB:
            return True
        if not AB:
            return False
        keys = self.sem.keys
        eta = {k: z3.Int(f"eta_{j}") for j, k in enumerate(keys)}
        s = z3.Solver()
        for k in keys:
            s.add(eta[k] >= 0)

        def kappa(w):
            terms = [eta[k] for k in keys if w in self.sem.fal[k]]
            return z3.Sum(terms) if terms else z3.IntVal(0)

        def kmin(S, name):
            m = z3.Int(name)
            S = list(S)
            s.add(z3.And([m <= kappa(w) for w in S]))
            s.add(z3.Or([m == kappa(w) for w in S]))
            return m

        # c-representation: every conditional accepted: k(ver) < k(fal) (fal empty -> accepted
        # iff ver non-empty, which strong consistency guarantees)
        for j, k in enumerate(keys):
            V, Fs = self.sem.ver[k], self.sem.fal[k]
            if not Fs:
                continue
            if not V:
                return None  # base not strongly consistent: caller should not ask
            s.add(kmin(V, f"mv_{j}") < kmin(Fs, f"mf_{j}"))
        s.add(kmin(AB, "qv") >= kmin(AnB, "qf"))
        r = s.check()
        assert r != z3.unknown
        return r == z3.unsat

    def answer(self, system, query):
        return {
            "p-entailment": self.p_entailment,
            "system-z": self.system_z,
            "system-w": self.system_w,
            "lex_inf": self.lex_inf,
            "c-inference": self.c_inference,
        }[system](query)
