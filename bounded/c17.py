"""Engine B for C17: the c-representation ranking object (RandomMinCRepPreOCF) and the Pareto front.

Checked per strongly consistent base keyed 1..n (explicit worlds / truth tables only):
  object    PreOCF.init_random_min_c_rep(bb) constructs; impacts are n ints >= 0; every world's rank is
            the sum of the impacts of the conditionals it falsifies; every base conditional is accepted
            (by the object and by the definition k(AB) < k(A!B)); no other impact vector that is
            component-wise <= and somewhere < yields a ranking accepting all base conditionals
            (brute force over the down-box prod [0..impact_i])
  queries   every query with satisfiable antecedent that the real c-inference operator answers True is
            accepted by the object (also: every query the DEFINITION of skeptical c-inference makes True)
  front     c_inference_pareto_front(bb) terminates (forked child under a CPU/wall watchdog) and returns
            exactly the Pareto-minimal accepting vectors: each returned vector is accepting and minimal
            (own down-box), no duplicates, and every Pareto-minimal accepting vector of the box
            [0..n+2]^n is returned

Every check is re-executable from its `input` dict alone (see `judge` / `replay`).
"""
from __future__ import annotations

import hashlib
import itertools
import json
import os
import random
import select
import signal
import time

import numpy as np

from .common import (
    ATOMS2,
    SEM_CONDS2,
    BeliefBase,
    Queries,
    distinct_queries,
    merge,
    pmap,
    rnd_conditional,
    s2_queries,
    s3_base,
    sem_conditional,
    split_text,
)

MODULE = "c17"
FRONT_CPU_S = 20.0  # watchdog: CPU seconds of the child (wall limit 8x, the box is shared)
DOWNBOX_CAP = 400_000


# ---------------------------------------------------------------------------
# definitions (explicit worlds)
# ---------------------------------------------------------------------------
def _build(inp):
    from oracle.gen import cond as mkcond

    conds = {}
    for k, t in inp["conditionals"].items():
        b, a = split_text(t)
        c = mkcond(b, a)
        c.index = int(k)
        conds[int(k)] = c
    order = list(inp.get("bb_signature") or inp["signature"])
    bb = BeliefBase(order, dict(conds), "c17")
    return conds, bb, order


class Table:
    """truth tables of a base keyed 1..n over explicit worlds"""

    def __init__(self, sem):
        self.sem = sem
        self.keys = sorted(sem.keys)
        assert self.keys == list(range(1, len(self.keys) + 1)), "checker: base must be keyed 1..n"
        self.n = len(self.keys)
        self.W = sem.n
        self.F = np.zeros((self.n, self.W), dtype=np.int64)
        for i, k in enumerate(self.keys):
            for w in sem.fal[k]:
                self.F[i, w] = 1
        self.ver = [sorted(sem.ver[k]) for k in self.keys]
        self.fal = [sorted(sem.fal[k]) for k in self.keys]

    def ranks(self, V):
        """V: (N,n) impact vectors -> (N,W) ranks: sum of the impacts of the falsified conditionals"""
        return np.asarray(V, dtype=np.int64) @ self.F

    def accepting(self, V):
        """mask of the vectors whose ranking accepts every conditional: k(AB) < k(A!B)
        (no falsifying world: accepted iff a verifying world exists)"""
        V = np.asarray(V, dtype=np.int64).reshape(-1, self.n)
        R = self.ranks(V)
        ok = np.ones(len(V), dtype=bool)
        for i in range(self.n):
            if not self.ver[i]:
                return np.zeros(len(V), dtype=bool)
            if not self.fal[i]:
                continue
            ok &= R[:, self.ver[i]].min(axis=1) < R[:, self.fal[i]].min(axis=1)
        return ok

    def box(self, upper):
        """all vectors of prod [0..upper_i]"""
        grids = np.meshgrid(*[np.arange(u + 1) for u in upper], indexing="ij")
        return np.stack([g.ravel() for g in grids], axis=1) if upper else np.zeros((1, 0), dtype=np.int64)

    def dominators(self, v):
        """accepting vectors u != v with u <= v component-wise; None if the down-box is too large"""
        size = 1
        for x in v:
            size *= x + 1
        if size > DOWNBOX_CAP:
            return None
        B = self.box(list(v))
        B = B[(B != np.asarray(v)).any(axis=1)]
        if not len(B):
            return []
        return [tuple(int(x) for x in u) for u in B[self.accepting(B)]]

    def front(self, bound):
        """Pareto-minimal accepting vectors inside [0..bound]^n (minimal in the box == minimal at all)"""
        B = self.box([bound] * self.n)
        A = B[self.accepting(B)]
        A = A[np.argsort(A.sum(axis=1), kind="stable")]
        mins = []
        for v in A:
            if not any((m <= v).all() for m in mins):
                mins.append(v)
        return sorted(tuple(int(x) for x in m) for m in mins)


def _oracle(inp, conds, extra=()):
    from oracle.core import Answers, Sem

    sem = Sem(conds, list(extra), inp["signature"])
    ans = Answers(sem, False)
    assert ans.accepted, "checker: base not strongly consistent"
    return sem, ans


def _bits(sem, order):
    return {wi: "".join("1" if w[a] else "0" for a in order) for wi, w in enumerate(sem.worlds)}


def _exc(e):
    return f"EXC {type(e).__name__}: {str(e)[:300]}"


# ---------------------------------------------------------------------------
# watchdog for the front enumeration
# ---------------------------------------------------------------------------
def _cpu_of(pid):
    try:
        with open(f"/proc/{pid}/stat") as fd:
            parts = fd.read().rsplit(")", 1)[1].split()
        return (int(parts[11]) + int(parts[12])) / os.sysconf("SC_CLK_TCK")
    except Exception:  # noqa
        return None


def front_with_watchdog(bb, cpu_limit=FRONT_CPU_S):
    """('ok', [vectors]) | ('exc', text) | ('timeout', seconds) | ('crash', status)"""
    r, w = os.pipe()
    pid = os.fork()
    if pid == 0:  # child: run the real enumeration, ship the answer through the pipe
        try:
            os.close(r)
            try:
                from inference.c_revision import c_inference_pareto_front

                res = c_inference_pareto_front(bb)
                msg = ("ok", [[int(x) if isinstance(x, int) and not isinstance(x, bool) else repr(x) for x in t] for t in res])
            except BaseException as e:  # noqa
                msg = ("exc", f"{type(e).__name__}: {str(e)[:300]}")
            data = json.dumps(msg).encode()
            while data:
                data = data[os.write(w, data) :]
        finally:
            os._exit(0)
    os.close(w)
    start = time.time()
    buf = b""
    eof = False
    while not eof:
        ready, _, _ = select.select([r], [], [], 0.25)
        if ready:
            chunk = os.read(r, 1 << 16)
            if not chunk:
                eof = True
            buf += chunk
            continue
        cpu = _cpu_of(pid)
        wall = time.time() - start
        if (cpu is not None and cpu >= cpu_limit) or wall >= 8 * cpu_limit:
            os.kill(pid, signal.SIGKILL)
            os.waitpid(pid, 0)
            os.close(r)
            return ("timeout", f"{cpu if cpu is not None else -1:.1f} CPU s / {wall:.1f} wall s")
    os.close(r)
    _, status = os.waitpid(pid, 0)
    if not buf:
        return ("crash", status)
    kind, val = json.loads(buf.decode())
    return (kind, val)


# ---------------------------------------------------------------------------
# the judge: one explicit input -> (evaluations, [(kind, expected, observed)], info)
# ---------------------------------------------------------------------------
def judge(inp):
    check = inp["check"]
    conds, bb, order = _build(inp)
    bad = []
    ev = 0
    info = {}

    if check == "object":
        from inference.preocf import PreOCF

        sem, ans = _oracle(inp, conds)
        T = Table(sem)
        bits = _bits(sem, order)
        try:
            obj = PreOCF.init_random_min_c_rep(bb)
        except Exception as e:  # noqa
            return 1, [("construction-failed", "ranking object", _exc(e))], info
        ev += 1
        try:
            imp = obj.save_impacts()
        except Exception as e:  # noqa
            return ev, [("construction-failed", "impact vector", _exc(e))], info
        if not (isinstance(imp, list) and len(imp) == T.n and all(type(x) is int and x >= 0 for x in imp)):
            return ev, [("impacts-not-nonnegative-ints", f"{T.n} ints >= 0", repr(imp))], info
        info["impacts"] = list(imp)
        # ranks
        want = {bits[w]: int(r) for w, r in enumerate(T.ranks([imp])[0])}
        try:
            if inp.get("order"):
                got = {w: obj.rank_world(w) for w in inp["order"]}
                forced = {w: obj.rank_world(w, force_calculation=True) for w in inp["order"]}
            else:
                got = obj.compute_all_ranks()
                forced = got
            table = dict(obj.ranks)
        except Exception as e:  # noqa
            return ev + 1, [("exception", want, _exc(e))], info
        ev += len(got)
        if set(got) != set(want):
            bad.append(("world-set", sorted(want), sorted(got)))
        elif got != want or forced != want or table != want:
            bad.append(("rank-not-sum-of-impacts", {"impacts": imp, "ranks": want}, got if got != want else (forced if forced != want else table)))
        # acceptance of the base
        try:
            acc = {str(k): bool(obj.conditional_acceptance(c)) for k, c in conds.items()}
        except Exception as e:  # noqa
            return ev + 1, bad + [("exception", None, _exc(e))], info
        ev += len(acc)
        wrong = {k: v for k, v in acc.items() if v is not True}
        if wrong:
            bad.append(("base-conditional-not-accepted", {k: True for k in wrong}, wrong))
        if not bool(T.accepting([imp])[0]):
            bad.append(("impacts-not-a-model", "ranking sum-of-impacts accepts every base conditional", {"impacts": imp, "ranks": want}))
        else:
            dom = T.dominators(imp)
            ev += 1
            if dom is None:
                info["minimality_unchecked"] = 1
            elif dom:
                bad.append(("not-pareto-minimal", {"impacts": imp, "no accepting vector below": True}, {"dominated_by": [list(u) for u in dom[:5]]}))
        return ev, bad, info

    if check == "queries":
        from inference.inference_manager import InferenceManager
        from inference.preocf import PreOCF
        from oracle.gen import cond as mkcond

        queries = [mkcond(*split_text(t)) for t in inp["queries"]]
        sem, ans = _oracle(inp, conds, [f for q in queries for f in (q.antecedence, q.consequence)])
        assert all(sem.q(q)[0] for q in queries), "checker: query with unsatisfiable antecedent"
        try:
            obj = PreOCF.init_random_min_c_rep(bb)
        except Exception as e:  # noqa
            return 1, [("construction-failed", "ranking object", _exc(e))], info
        try:
            m = InferenceManager(bb, "c-inference")
            df = m.inference(Queries({i + 1: q for i, q in enumerate(queries)}))
            op = [bool(x) for x in df["result"].tolist()]
        except Exception as e:  # noqa
            return 1, [("operator-exception", "answers", _exc(e))], info
        try:
            acc = [bool(obj.conditional_acceptance(q)) for q in queries]
        except Exception as e:  # noqa
            return 1, [("exception", None, _exc(e))], info
        ev += len(queries)
        info["op_true_nontrivial"] = sum(1 for q, o in zip(queries, op) if o and sem.q(q)[2])
        miss = [str(q) for q, o, a in zip(queries, op, acc) if o and not a]
        if miss:
            bad.append(("cinference-true-not-accepted", {"operator": op, "accepted must be True where operator is True": True}, {"accepted": acc, "queries": miss}))
        if inp.get("definition", True):
            sk = [bool(ans.c_inference(q)) for q in queries]
            miss = [str(q) for q, o, a in zip(queries, sk, acc) if o and not a]
            if miss:
                bad.append(("skeptical-true-not-accepted", {"definition": sk}, {"accepted": acc, "queries": miss}))
        return ev, bad, info

    if check == "front":
        sem, ans = _oracle(inp, conds)
        T = Table(sem)
        kind, val = front_with_watchdog(bb, inp.get("cpu_limit", FRONT_CPU_S))
        ev += 1
        if kind == "timeout":
            return ev, [("front-nontermination", f"returns within {inp.get('cpu_limit', FRONT_CPU_S)} CPU s", f"killed after {val}")], info
        if kind in ("exc", "crash"):
            return ev, [("front-exception", "list of impact vectors", f"{kind}: {val}")], info
        got = [tuple(v) for v in val]
        info["front_size"] = len(got)
        if any(len(v) != T.n or any(type(x) is not int or x < 0 for x in v) for v in got):
            return ev, [("front-malformed", f"tuples of {T.n} ints >= 0", [list(v) for v in got])], info
        B = inp.get("bound", T.n + 2)
        want = T.front(B)
        if len(set(got)) != len(got):
            bad.append(("front-duplicates", [list(v) for v in want], [list(v) for v in got]))
        notacc = [v for v in set(got) if not bool(T.accepting([list(v)])[0])]
        if notacc:
            bad.append(("front-vector-not-accepting", "every vector accepts the base", [list(v) for v in sorted(notacc)]))
        notmin = {}
        for v in sorted(set(got) - set(notacc)):
            if all(x <= B for x in v):
                if v not in set(want):
                    notmin[str(list(v))] = [list(u) for u in want if all(a <= b for a, b in zip(u, v))][:3]
            else:
                dom = T.dominators(v)
                if dom is None:
                    info["minimality_unchecked"] = info.get("minimality_unchecked", 0) + 1
                elif dom:
                    notmin[str(list(v))] = [list(u) for u in dom[:3]]
        if notmin:
            bad.append(("front-vector-not-minimal", "every vector Pareto-minimal", notmin))
        missing = sorted(set(want) - set(got))
        if missing:
            bad.append(("front-incomplete", [list(v) for v in want], {"returned": [list(v) for v in got], "missing": [list(v) for v in missing]}))
        return ev, bad, info

    raise ValueError(f"checker: unknown check {check}")


def replay(v):
    ev, bad, info = judge(v["input"])
    same = [b for b in bad if b[0] == v["kind"]]
    return {
        "violates": bool(same),
        "kinds": [b[0] for b in bad],
        "expected": same[0][1] if same else None,
        "observed": same[0][2] if same else None,
    }


# ---------------------------------------------------------------------------
# worker
# ---------------------------------------------------------------------------
def _fp(*parts):
    return hashlib.sha1(json.dumps(parts, default=str, sort_keys=True).encode()).hexdigest()[:16]


def _case(args):
    sig, bb_sig, cond_texts, query_texts, seed = args
    from oracle.core import Sem
    from oracle.gen import cond as mkcond

    rng = random.Random(seed)
    out = {"evaluations": 0, "fingerprints": [], "violations": [], "rejected": False, "stats": {}}
    base = {"signature": list(sig), "bb_signature": list(bb_sig), "conditionals": {str(k): f"({b}|{a})" for k, (b, a) in cond_texts.items()}}
    conds, bb, order = _build(base)
    queries = [mkcond(b, a) for (b, a) in query_texts]
    sem = Sem(conds, [f for q in queries for f in (q.antecedence, q.consequence)], sig)
    fp_base = tuple(sorted((tuple(sorted(sem.ver[k])), tuple(sorted(sem.fal[k]))) for k in sem.keys))
    bits = _bits(sem, order)
    worlds = [bits[w] for w in sorted(sem.U)]
    st = out["stats"]
    st["bases"] = 1
    st["single"] = int(len(conds) == 1)
    st["with_unfalsifiable"] = int(any(not sem.fal[k] for k in sem.keys))
    st["all_unfalsifiable"] = int(all(not sem.fal[k] for k in sem.keys))

    def do(inp, fp, nontrivial=lambda info: True):
        ev, bad, info = judge(inp)
        out["evaluations"] += ev
        if ev and nontrivial(info):
            out["fingerprints"].append(fp)
        for kind, exp, obs in bad:
            out["violations"].append({"module": MODULE, "kind": kind, "input": inp, "expected": exp, "observed": obs})
        for k, v in info.items():
            if isinstance(v, int):
                st[k] = st.get(k, 0) + v
        return info

    inp = dict(base, check="object")
    if rng.random() < 0.5:
        inp["order"] = rng.sample(worlds, len(worlds))
    do(inp, _fp(fp_base, "object"))
    qs = [q for q in queries if sem.q(q)[0]][:6]
    if qs:
        do(
            dict(base, check="queries", queries=[str(q) for q in qs]),
            _fp(fp_base, "queries", sorted((tuple(sorted(sem.q(q)[1])), tuple(sorted(sem.q(q)[2]))) for q in qs)),
            lambda info: info.get("op_true_nontrivial", 0) > 0,
        )
    do(dict(base, check="front", bound=len(conds) + 2), _fp(fp_base, "front"))
    return out


# ---------------------------------------------------------------------------
# scopes
# ---------------------------------------------------------------------------
def _strongly_consistent_sem(combo):
    from oracle.core import partition_strict

    keys = list(range(len(combo)))
    ver = {i: c[0] for i, c in enumerate(combo)}
    fal = {i: c[1] for i, c in enumerate(combo)}
    return partition_strict(keys, ver, fal, range(4)) is not None


def _s2_space():
    singles = [(c,) for c in SEM_CONDS2]
    pairs = list(itertools.combinations_with_replacement(SEM_CONDS2, 2))
    return [c for c in singles if _strongly_consistent_sem(c)], [c for c in pairs if _strongly_consistent_sem(c)]


def _s3_consistent(rng):
    """a strongly consistent S3 base keyed 1..n; now and then a conditional no world falsifies is planted"""
    from oracle.core import Sem, partition_strict
    from oracle.gen import cond as mkcond

    while True:
        sig, conds = s3_base(rng, consts=0.06)
        conds = dict(conds)
        if rng.random() < 0.3:
            x, y = rng.choice(sig), rng.choice(sig)
            b, a = rng.choice([(x, x), ("Top", x), (f"({x};!{x})", y), (f"({x};{y})", f"({x},{y})"), (x, f"({x},{y})")])
            k = rng.choice(sorted(conds))
            c = mkcond(b, a)
            c.index = k
            conds[k] = c
        sem = Sem(conds, [], sig)
        if partition_strict(sem.keys, sem.ver, sem.fal, sem.U) is not None:
            return sig, conds


SIZES = {"quick": (25, 175, 100), "thorough": (None, None, 1000)}


def build_cases(tier, seed):
    rng = random.Random(seed)
    n1, n2, n3 = SIZES[tier]
    singles, pairs = _s2_space()
    if n1 is not None:
        singles = rng.sample(singles, min(n1, len(singles)))
        pairs = rng.sample(pairs, min(n2, len(pairs)))
    cases = []
    for combo in singles + pairs:
        conds = {i + 1: sem_conditional(v, f, rng, i + 1) for i, (v, f) in enumerate(combo)}
        qs = distinct_queries(s2_queries(rng, False, 12))
        bb_sig = list(ATOMS2) if rng.random() < 0.5 else list(reversed(ATOMS2))
        cases.append((list(ATOMS2), bb_sig, {k: split_text(str(c)) for k, c in conds.items()}, [split_text(str(q)) for q in qs], rng.randrange(10**9)))
    for _ in range(n3):
        sig, conds = _s3_consistent(rng)
        qs = distinct_queries([rnd_conditional(rng, sig, 2, 0.08) for _ in range(10)])
        bb_sig = list(sig)
        if rng.random() < 0.5:
            rng.shuffle(bb_sig)
        cases.append((list(sig), bb_sig, {k: split_text(str(c)) for k, c in conds.items()}, [split_text(str(q)) for q in qs], rng.randrange(10**9)))
    return cases, (len(singles), len(pairs), n3)


def run(tier, seed):
    cases, (k1, k2, k3) = build_cases(tier, seed)
    results = pmap(_case, cases)
    res = merge(results)
    stats = {}
    for r in results:
        for k, v in r["stats"].items():
            stats[k] = stats.get(k, 0) + v
    res["extra"] = {"stats": stats}
    exhaustive = SIZES[tier][0] is None
    res["scope"] = (
        f"strongly consistent bases keyed 1..n: S2 (atoms a,b, up to semantics) {'all' if exhaustive else 'seeded sample of'} {k1} single-conditional + {k2} two-conditional bases; "
        f"S3 {k3} seeded bases (3-4 atoms, 1-5 conditionals, 30% with a planted unfalsifiable conditional); all worlds; <=6 queries with satisfiable antecedent; "
        f"minimality by brute force over the down-box of the impact vector; front compared with the brute-force front of [0..n+2]^n under a {FRONT_CPU_S:.0f} CPU-s watchdog"
    )
    res["rule"] = (
        "one case = (semantic base, object | query set | front); the object and front cases are always non-trivial (impacts, every rank and the whole front are compared literally); "
        "a query case counts only if the operator answered True for a falsifiable query"
    )
    res["samples"] = [dict(signature=c[0], bb_signature=c[1], conditionals={str(k): f"({b}|{a})" for k, (b, a) in c[2].items()}, queries=[f"({b}|{a})" for b, a in c[3][:3]]) for c in (cases[0], cases[k1], cases[-1])]
    return res
