"""Engine B, C04: generator biased to the hard case of lexicographic inference - a layer
in which the verifying and the falsifying side tie on the minimum cardinality and at least
one side has several different minimum-cardinality falsification sets (so the decision
depends on which sets are paired on the lower layers).  Candidates are filtered with the
oracle only (cheap); only the interesting ones are run through the real operators."""
from __future__ import annotations

import random

from .common import distinct_queries, judge_case, merge, pmap, rnd_conditional, split_text, texts_of
from oracle.core import Answers, Sem, falsified_per_layer
from oracle.gen import rnd_base


def _interesting(ans: Answers, q):
    sem = ans.sem
    A, AB, AnB = sem.q(q)
    if not AB or not AnB or len(ans.finite) < 2:
        return False
    top = len(ans.finite) - 1

    def mins(S):
        sets = {falsified_per_layer(ans.finite, sem.fal, w)[top] for w in S}
        m = min(len(s) for s in sets)
        return m, {s for s in sets if len(s) == m}

    mv, sv = mins(AB)
    mf, sf = mins(AnB)
    return mv == mf and (len(sv) > 1 or len(sf) > 1)


def _lit(rng, atoms):
    a = rng.choice(atoms)
    return a if rng.random() < 0.6 else f"!{a}"


def _lits(rng, atoms, k, op):
    xs = []
    while len(xs) < k:
        l = _lit(rng, atoms)
        if l.lstrip("!") not in [x.lstrip("!") for x in xs]:
            xs.append(l)
    return xs[0] if k == 1 else "(" + op.join(xs) + ")"


def _literal_base(rng, atoms, n):
    """rule-like conditionals (defaults and exceptions): they produce several layers"""
    from oracle.gen import base_from_strings

    pairs = []
    for _ in range(n):
        ant = _lits(rng, atoms, rng.choice([1, 1, 2]), ",")
        cons = _lits(rng, atoms, rng.choice([1, 1, 2]), ";")
        pairs.append((cons, ant))
    return base_from_strings(atoms, pairs)


def _literal_query(rng, atoms):
    from oracle.gen import cond

    ant = _lits(rng, atoms, rng.choice([1, 2]), rng.choice([",", ";"]))
    cons = _lits(rng, atoms, rng.choice([1, 2]), rng.choice([",", ";"]))
    return cond(cons, ant)


def _filter(args):
    seed, n = args
    rng = random.Random(seed)
    out = []
    for _ in range(n):
        atoms = ["a", "b", "c", "d", "e"][: rng.choice([4, 5])]
        bb = _literal_base(rng, atoms, rng.randint(4, 8))
        sem0 = Sem(bb.conditionals, [], atoms)
        ans = Answers(sem0, False)
        if not ans.accepted or len(ans.finite) < 2:
            continue
        qs = [_literal_query(rng, atoms) for _ in range(4)]
        # queries whose antecedent forces the falsification of one of two conditionals of a
        # layer: every A-world then has a non-empty falsification set in that layer
        from oracle.gen import cond as _cond

        texts = texts_of(bb.conditionals)
        for layer in reversed(ans.finite):
            if len(layer) >= 2:
                for _k in range(4):
                    k1, k2 = rng.sample(layer, 2)
                    (b1, a1), (b2, a2) = texts[k1], texts[k2]
                    ant = f"(({a1},!({b1}));({a2},!({b2})))"
                    qs.append(_cond(_lits(rng, atoms, rng.choice([1, 2]), rng.choice([",", ";"])), ant))
        qs = distinct_queries(qs)
        good = [q for q in qs if _interesting(ans, q)]
        if good:
            out.append((atoms, texts_of(bb.conditionals), [split_text(str(q)) for q in good]))
    return out


def run(tier, seed):
    n_chunks, per = (32, 75) if tier == "quick" else (64, 1200)
    found = []
    for r in pmap(_filter, [(seed * 1000 + i, per) for i in range(n_chunks)]):
        found.extend(r)
    cap = 400 if tier == "quick" else 6000
    found = found[:cap]
    cfgs = [("lex_inf", "rc2"), ("lex_inf", "z3")]
    cases = [(sig, conds, qs, cfgs, False) for sig, conds, qs in found]
    res = merge(pmap(judge_case, cases))
    res["scope"] = (
        f"lexbias: {n_chunks * per} random rule-like bases (4-5 atoms, 4-8 conditionals of literal/2-literal form, 10 queries) filtered by the oracle to "
        f"{len(found)} bases having a query with a top-layer cardinality tie and several minimum-cardinality sets; both back-ends"
    )
    res["samples"] = [dict(signature=c[0], conditionals=c[1], queries=c[2][:2]) for c in cases[:2]]
    return res
