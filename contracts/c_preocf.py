"""Contracts: inference/preocf.py  (C16: Z-rank object; C18: formula_rank, acceptance)"""
import z3

from contracts.spec import PS
from pyvc import lib, logic as L
from pyvc.contract import Contract, LoopSpec
from pyvc.logic import Forall, LCnd, LForm, LLCnd
from pyvc.values import *  # noqa

LStr = L.list_theory(StrSort, "Str")
mem_Str, _ = L.mem_theory(StrSort)

# the set of assignments denoted by a world bitstring under the object's signature
Wof = z3.Function("Wof", StrSort, L.WSet)
# the total ranking an object denotes (abstract base class; for System Z it is KZ below)
RKf = z3.Function("RKf", StrSort, L.Int)

# --- System Z rank of a world: RZ(P, H, i) (the same descent as EZ, DESIGN §5 C16) -----------
RZ = z3.Function("RZ", LLCnd.sort, L.WSet, L.Int, L.Int)
_P = z3.Const("_rz_P", LLCnd.sort)
_H = z3.Const("_rz_H", L.WSet)
_i = z3.Int("_rz_i")
_Hi = L.inter(_H, PS.KL((), LLCnd.at(_P, _i)))
L.TH.axiom(
    [_P, _H, _i],
    RZ(_P, _H, _i),
    RZ(_P, _H, _i) == z3.If(L.nonempty(_Hi), z3.If(_i == 0, 0, RZ(_P, _Hi, _i - 1)), _i + 1),
    "unfold.RZ",
)


def KZ(P, w):
    """Z-rank of world w; 0 for the empty partition (empty base: nothing can be falsified)"""
    return z3.If(LLCnd.len(P) == 0, 0, RZ(P, Wof(w), LLCnd.len(P) - 1))


RanksT = TDict(TOptional(TInt), TStr)
ZOCF = TObj(
    "SystemZPreOCF",
    {"ranks": RanksT, "signature": TOpaque, "_z_partition": TList(TList(TCnd)), "conditionals": TOpaque},
)
OCF = TObj("PreOCF", {"ranks": RanksT, "signature": TOpaque, "conditionals": TOpaque})

for cls, selfT in (("PreOCF", OCF), ("SystemZPreOCF", ZOCF)):
    Contract(
        f"inference.preocf:{cls}.symbolize_bitvec" if cls == "PreOCF" else f"inference.preocf:{cls}.symbolize_bitvec_",
        params={"self": selfT, "bitvec": TStr},
        returns=TList(TForm),
        ensures=lambda c, r: [L.MAll(r.t, r.len()) == Wof(c.bitvec.t)],
        trusted=True,
        note="interface view of symbolize_bitvec: the literals returned jointly denote Wof(bitvec). The computation is proved at "
        "implementation level (PreOCF.symbolize_bitvec#impl: per position the atom or its negation, jointly WofN(bitvec, signature); "
        "lemma WofN.map); what remains ASSUMED here is the reading Wof(b) := WofN(b, signature of the ranking) and that worlds handed "
        "to a ranking are well-formed bitstrings of its signature; exercised by Engine B (C16, C18)",
    )


def _P_of(c):
    return c.field(c.self, "_z_partition").t


Contract(
    "inference.preocf:SystemZPreOCF._rec_z_rank",
    params={"self": ZOCF, "solver": TSolverT, "partition_index": TInt},
    returns=TInt,
    requires=lambda c: [0 <= c.partition_index.t, c.partition_index.t < LLCnd.len(_P_of(c))],
    ensures=lambda c, r: [r.t == RZ(_P_of(c), c.old.A(c.old.solver), c.partition_index.t)],
    modifies=["solver"],
    loops={
        0: LoopSpec(
            "[... for c in part]",
            lambda s, j, pre: [s.A(s.solver) == L.inter(pre.A(pre.solver), PS.K(s.part.t, j))],
        )
    },
    properties=["C16"],
)

Contract(
    "inference.preocf:SystemZPreOCF.z_part2ocf",
    params={"self": ZOCF, "world": TStr},
    returns=TInt,
    ensures=lambda c, r: [r.t == KZ(_P_of(c), c.world.t)],
    loops={
        0: LoopSpec(
            "[... for s in signature_symbols]",
            lambda s, j, pre: [s.A(s.solver) == L.inter(pre.A(pre.solver), L.MAll(s.signature_symbols.t, j))],
        )
    },
    properties=["C16"],
)


def cache_inv(c, P, rank_of):
    """every cached rank is the object's rank of that world (lazy / forced / bulk agree)"""
    d = c.field(c.self, "ranks")
    w = z3.Const("_ci_w", StrSort)
    e = z3.Select(d.val, w)
    return Forall(
        [w],
        [mem_Str(d.keys, w)],
        z3.Implies(mem_Str(d.keys, w), z3.Or(OptInt.is_none(e), OptInt.val(e) == rank_of(w))),
        "cache.invariant",
    )


def _keys(c):
    return c.field(c.self, "ranks").keys


Contract(
    "inference.preocf:SystemZPreOCF.rank_world",
    params={"self": ZOCF, "world": TStr, "force_calculation": TBool},
    defaults={"force_calculation": lambda ex: VBool(False)},
    returns=TInt,
    requires=lambda c: [
        mem_Str(_keys(c), c.world.t),
        cache_inv(c, _P_of(c), lambda w: KZ(_P_of(c), w)),
    ],
    ensures=lambda c, r: [
        r.t == KZ(_P_of(c), c.world.t),
        _keys(c) == _keys(c.old),
        cache_inv(c, _P_of(c), lambda w: KZ(_P_of(c), w)),
    ],
    properties=["C16"],
)

# --- abstract rank_world of the base class (what formula_rank relies on) ------------------------
Contract(
    "inference.preocf:PreOCF.rank_world",
    params={"self": OCF, "world": TStr, "force_calculation": TBool},
    defaults={"force_calculation": lambda ex: VBool(False)},
    returns=TInt,
    requires=lambda c: [mem_Str(_keys(c), c.world.t)],
    ensures=lambda c, r: [r.t == RKf(c.world.t), _keys(c) == _keys(c.old)],
    modifies=["self.ranks"],
    raises={"ValueError": lambda c: z3.BoolVal(True)},
    trusted=True,
    note="abstract method; SystemZPreOCF.rank_world is proved against RKf := KZ, CustomPreOCF/RandomMinCRep are bounded",
)

# --- formula_rank: least rank of the models of a formula (prefix minimum over the world list) ----
S_ = z3.Const("_fr_S", L.WSet)
K_ = z3.Const("_fr_K", LStr.sort)


def _sat(K, S, i):
    return L.nonempty(L.inter(Wof(LStr.at(K, i)), S))


FRn = L.prefix_fun("FRn", [LStr.sort, L.WSet], L.Bool, lambda K, S: z3.BoolVal(True), lambda K, S, i, prev: z3.And(prev, z3.Not(_sat(K, S, i))))
FRv = z3.Function("FRv", LStr.sort, L.WSet, L.Int, L.Int)
_n = z3.Int("_fr_n")
L.TH.axiom(
    [K_, S_, _n],
    FRv(K_, S_, _n),
    FRv(K_, S_, _n)
    == z3.If(
        _n <= 0,
        0,
        z3.If(
            _sat(K_, S_, _n - 1),
            z3.If(
                z3.Or(FRn(K_, S_, _n - 1), RKf(LStr.at(K_, _n - 1)) < FRv(K_, S_, _n - 1)),
                RKf(LStr.at(K_, _n - 1)),
                FRv(K_, S_, _n - 1),
            ),
            FRv(K_, S_, _n - 1),
        ),
    ),
    "unfold.FRv",
)


def _fr_post(c, r):
    K = _keys(c.old)
    S = L.M(c.formula.t)
    n = LStr.len(K)
    if isinstance(r, VNone):
        isnone, val = z3.BoolVal(True), None
    elif isinstance(r, VOptional):
        isnone, val = r.isnone, r.val.t
    else:
        isnone, val = z3.BoolVal(False), r.t
    out = [isnone == FRn(K, S, n), _keys(c) == K]
    if val is not None:
        out.append(z3.Implies(z3.Not(isnone), val == FRv(K, S, n)))
    return out


def _fr_inv(s, j, pre):
    K = _keys(pre)
    S = L.M(s.formula.t)
    mr = s.min_rank
    return [
        mr.isnone == FRn(K, S, j),
        z3.Implies(z3.Not(mr.isnone), mr.val.t == FRv(K, S, j)),
        _keys(s) == K,
        s.A(s.solver) == L.FULL,
    ]


Contract(
    "inference.preocf:PreOCF.formula_rank",
    params={"self": OCF, "formula": TForm},
    returns=TOptional(TInt),
    locals={"min_rank": TOptional(TInt)},
    ensures=_fr_post,
    modifies=["self.ranks"],
    raises={"ValueError": lambda c: z3.BoolVal(True)},
    loops={
        0: LoopSpec("for world in self.ranks.keys()", _fr_inv),
        1: LoopSpec(
            "[... for s in world_symbols]",
            lambda s, j, pre: [s.A(s.solver) == L.inter(pre.A(pre.solver), L.MAll(s.world_symbols.t, j))],
        ),
    },
    properties=["C18", "C16"],
)


def _acc_post(c, r):
    K = _keys(c.old)
    n = LStr.len(K)
    q = c.conditional.t
    V, N = L.ver(q), L.fal(q)
    return [
        r.t
        == z3.If(FRn(K, V, n), False, z3.If(FRn(K, N, n), True, FRv(K, V, n) < FRv(K, N, n))),
        _keys(c) == K,
    ]


Contract(
    "inference.preocf:PreOCF.conditional_acceptance",
    params={"self": OCF, "conditional": TCnd},
    returns=TBool,
    ensures=_acc_post,
    modifies=["self.ranks"],
    raises={"ValueError": lambda c: z3.BoolVal(True)},
    properties=["C18", "C16"],
)


# ---------------------------------------------------------------------------
# C18 / C19: small world-level helpers
# ---------------------------------------------------------------------------
Contract(
    "inference.preocf:PreOCF.world_satisfies_conditionalization",
    params={"self": OCF, "world": TStr, "conditionalization": TForm},
    returns=TBool,
    ensures=lambda c, r: [r.t == L.nonempty(L.inter(Wof(c.world.t), L.M(c.conditionalization.t)))],
    loops={0: LoopSpec("[... for s in world_symbols]", lambda s, j, pre: [s.A(s.solver) == L.inter(pre.A(pre.solver), L.MAll(s.world_symbols.t, j))])},
    properties=["C18", "C19"],
    note="a world satisfies a formula iff its assignments meet the formula's models (relative to the assumed symbolize_bitvec)",
)


from pyvc import iterm as _IT  # noqa: E402

_OI = TOptional(TInt)
RanksOK, _ = _IT.defpred_all(
    "RanksOK",
    [LStr.sort, z3.ArraySort(StrSort, _OI.sort()), L.Int],
    lambda x: x[2],
    lambda x, k: (lambda v: z3.And(z3.Not(v.isnone), v.val.t >= 0))(_OI.wrap(z3.Select(x[1], LStr.at(x[0], k)))),
    lambda x, k: LStr.at(x[0], k),
)


def _isocf_inv(s, j, pre):
    r = s.field(s.self, "ranks")
    return [RanksOK(r.keys, r.val, j)]


def _isocf_post(c, r):
    rk = c.field(c.self, "ranks")
    return [r.t == RanksOK(rk.keys, rk.val, LStr.len(rk.keys))]


Contract(
    "inference.preocf:PreOCF.is_ocf",
    params={"self": OCF},
    returns=TBool,
    ensures=_isocf_post,
    loops={0: LoopSpec("for world in self.ranks.keys()", _isocf_inv)},
    properties=["C18"],
    note="True iff every world has a rank and it is non-negative",
)


# ---------------------------------------------------------------------------
# C18: tpo2ranks -- a total preorder (list of disjoint layers) becomes a ranking
# ---------------------------------------------------------------------------
SStr = z3.SetSort(StrSort)
LSS = L.list_theory(SStr)
RF = z3.Function("rank_function", L.Int, L.Int)  # the callable passed in: a function of the layer number (TB-py)
InLayers, _ = _IT.defpred_some("InLayers", [LSS.sort, StrSort, L.Int], lambda x: x[2], lambda x, i: z3.IsMember(x[1], LSS.at(x[0], i)), lambda x, i: LSS.at(x[0], i))
enumS = L.enum_theory(StrSort)[0]


def _tpo_disjoint(tpo):
    i, j = z3.Ints("_td_i _td_j")
    w = z3.Const("_td_w", StrSort)
    return Forall(
        [i, j, w],
        [z3.IsMember(w, LSS.at(tpo, i)), LSS.at(tpo, j)],
        z3.Implies(z3.And(0 <= i, i < LSS.len(tpo), 0 <= j, j < LSS.len(tpo), i != j, z3.IsMember(w, LSS.at(tpo, i))), z3.Not(z3.IsMember(w, LSS.at(tpo, j)))),
        "tpo.layers.disjoint",
    )


def _ranked(r, tpo, upto, name, inner=None):
    """every world of the first `upto` layers (and, of layer `upto`, the worlds in `inner`) has the rank of its layer"""
    i = z3.Int("_tr_i_" + name)
    w = z3.Const("_tr_w_" + name, StrSort)
    v = _OI.wrap(z3.Select(r.val, w))
    ok = z3.And(mem_Str(r.keys, w), z3.Not(v.isnone), v.val.t == RF(i))
    out = [Forall([i, w], [z3.IsMember(w, LSS.at(tpo, i))], z3.Implies(z3.And(0 <= i, i < upto, z3.IsMember(w, LSS.at(tpo, i))), ok), "tpo.ranked." + name)]
    return out


def _tpo_outer(s, j, pre):
    tpo = s.tpo.t
    r = s.ranks
    w = z3.Const("_to_w", StrSort)
    if not isinstance(r, VDict):
        return [j == 0]
    return _ranked(r, tpo, j, "outer") + [Forall([w], [mem_Str(r.keys, w)], z3.Implies(mem_Str(r.keys, w), InLayers(tpo, w, j)), "tpo.keys.from.layers")]


def _tpo_inner(s, j, pre):
    tpo = s.tpo.t
    r = s.ranks
    ln = s.layer_num.t
    lst = enumS(s.layer.t)
    k = z3.Int("_ti_k")
    w = z3.Const("_ti_w", StrSort)
    v = lambda x: _OI.wrap(z3.Select(r.val, x))
    cur = LStr.at(lst, k)
    return _ranked(r, tpo, ln, "inner") + [
        Forall([k], [LStr.at(lst, k)], z3.Implies(z3.And(0 <= k, k < j), z3.And(mem_Str(r.keys, cur), z3.Not(v(cur).isnone), v(cur).val.t == RF(ln))), "tpo.layer.so.far"),
        Forall([w], [mem_Str(r.keys, w)], z3.Implies(mem_Str(r.keys, w), InLayers(tpo, w, ln + 1)), "tpo.keys.from.layers"),
    ]


def _tpo_post(c, r):
    tpo = c.tpo.t
    w = z3.Const("_tp_w", StrSort)
    n = LSS.len(tpo)
    return _ranked(r, tpo, n, "post") + [Forall([w], [mem_Str(r.keys, w)], z3.Implies(mem_Str(r.keys, w), InLayers(tpo, w, n)), "tpo2ranks.keys")]


Contract(
    "inference.preocf:tpo2ranks",
    params={"tpo": TList(TSet(TStr)), "rank_function": TFunInt(RF)},
    returns=RanksT,
    locals={"ranks": RanksT},
    requires=lambda c: [_tpo_disjoint(c.tpo.t)],
    ensures=_tpo_post,
    loops={0: LoopSpec("for (layer_num, layer) in enumerate(tpo*", _tpo_outer), 1: LoopSpec("for world in layer", _tpo_inner)},
    properties=["C18"],
    fuel=6,
    note="every world of layer i gets rank_function(i), and only worlds of some layer are ranked (layers pairwise disjoint)",
)


# ---------------------------------------------------------------------------
# C18: ranks2tpo -- a ranking becomes the list of its rank classes, lowest rank first
# ---------------------------------------------------------------------------
GroupsT = TDict(TSet(TStr), TInt)
LIntL = L.LInt
mem_I = L.mem_Int


def _has_rank(ranks, w, k):
    v = _OI.wrap(z3.Select(ranks.val, w))
    return z3.And(mem_Str(ranks.keys, w), z3.Not(v.isnone), v.val.t == k)


# SeenRank(keys, val, w, k, n): w is one of the first n worlds of the ranking and has rank k
SeenRank, _ = _IT.defpred_some(
    "SeenRank",
    [LStr.sort, z3.ArraySort(StrSort, _OI.sort()), StrSort, L.Int, L.Int],
    lambda x: x[4],
    lambda x, p: z3.And(LStr.at(x[0], p) == x[2], z3.Not(_OI.wrap(z3.Select(x[1], x[2])).isnone), _OI.wrap(z3.Select(x[1], x[2])).val.t == x[3]),
    lambda x, p: LStr.at(x[0], p),
    step=True,
)


def _r2t_inv(s, j, pre):
    rk = s.ranks
    g = s.rank_groups
    if not isinstance(g, VDict):
        return [j == 0]
    k = z3.Int("_r2_k")
    w = z3.Const("_r2_w", StrSort)
    grp = z3.Select(g.val, k)
    return [
        Forall([k, w], [z3.IsMember(w, grp)], z3.Implies(mem_I(g.keys, k), z3.IsMember(w, grp) == SeenRank(rk.keys, rk.val, w, k, j)), "r2t.groups"),
        Forall([k, w], [SeenRank(rk.keys, rk.val, w, k, j)], z3.Implies(SeenRank(rk.keys, rk.val, w, k, j), z3.And(mem_I(g.keys, k), z3.IsMember(w, grp))), "r2t.groups.complete"),
    ]


def _r2t_post(c, r):
    rk = c.ranks
    S = c.ghost["levels"].t
    p, q = z3.Ints("_r2p_p _r2p_q")
    w = z3.Const("_r2p_w", StrSort)
    n = LStr.len(rk.keys)
    layer = LSS.at(r.t, p)
    return [
        LSS.len(r.t) == LIntL.len(S),
        Forall([p, q], [LIntL.at(S, p), LIntL.at(S, q)], z3.Implies(z3.And(0 <= p, p <= q, q < LIntL.len(S)), LIntL.at(S, p) <= LIntL.at(S, q)), "ranks2tpo.levels.ascending"),
        Forall([p, w], [z3.IsMember(w, layer)], z3.Implies(z3.And(0 <= p, p < LSS.len(r.t)), z3.IsMember(w, layer) == SeenRank(rk.keys, rk.val, w, LIntL.at(S, p), n)), "ranks2tpo.layers"),
        Forall([w, q], [SeenRank(rk.keys, rk.val, w, q, n)], z3.Implies(SeenRank(rk.keys, rk.val, w, q, n), mem_I(S, q)), "ranks2tpo.every.rank.has.a.level"),
    ]


Contract(
    "inference.preocf:ranks2tpo",
    params={"ranks": RanksT},
    returns=TList(TSet(TStr)),
    locals={"rank_groups": GroupsT},
    ensures=_r2t_post,
    ghost_out={"levels": TList(TInt)},
    ghost_wit=lambda c, r: {"levels": c._st.env["__sorted_last"]} if "__sorted_last" in c._st.env else {"levels": VList(LIntL.nil, TInt)},
    loops={0: LoopSpec("for (world, rank) in ranks.items()", _r2t_inv)},
    properties=["C18"],
    fuel=7,
    note="layer p is the set of worlds of rank levels[p]; the levels (ghost output) ascend and contain every rank that occurs; unranked worlds are in no layer",
)


# ---------------------------------------------------------------------------
# C18: conditionalisation = the ranks of the worlds that satisfy the condition
# ---------------------------------------------------------------------------
def _sat(w, F):
    return L.nonempty(L.inter(Wof(w), L.M(F)))


def _fw_post(c, r):
    ks = _keys(c)
    w = z3.Const("_fw_w", StrSort)
    i, i2 = z3.Ints("_fw_i _fw_i2")
    F = c.conditionalization.t
    return [
        Forall([w], [mem_Str(r.t, w)], mem_Str(r.t, w) == z3.And(mem_Str(ks, w), _sat(w, F)), "filter_worlds.members"),
        Forall([w], [mem_Str(ks, w)], mem_Str(r.t, w) == z3.And(mem_Str(ks, w), _sat(w, F)), "filter_worlds.members.r"),
        Forall([i, i2], [LStr.at(r.t, i), LStr.at(r.t, i2)], z3.Implies(z3.And(0 <= i, i < i2, i2 < LStr.len(r.t)), LStr.at(r.t, i) != LStr.at(r.t, i2)), "filter_worlds.distinct"),
    ]


Contract(
    "inference.preocf:PreOCF.filter_worlds_by_conditionalization",
    params={"self": OCF, "conditionalization": TForm},
    returns=TList(TStr),
    ensures=_fw_post,
    properties=["C18"],
    fuel=4,
    note="exactly the worlds of the ranking that satisfy the formula, each once",
)


def _cc_inv(s, j, pre):
    d = s._st.env.get("_dc")
    if not isinstance(d, VDict):
        return [j == 0]
    ws = s.worlds.t
    p = z3.Int("_cc_p")
    v = lambda k: _OI.wrap(z3.Select(d.val, k))
    return [
        LStr.len(d.keys) == j,
        L.LForall([p], [LStr.at(d.keys, p)], z3.Implies(z3.And(0 <= p, p < j), LStr.at(d.keys, p) == LStr.at(ws, p)), "cc.keys"),
        L.LForall([p], [LStr.at(ws, p)], z3.Implies(z3.And(0 <= p, p < j), z3.And(LStr.at(d.keys, p) == LStr.at(ws, p), z3.Not(v(LStr.at(ws, p)).isnone), v(LStr.at(ws, p)).val.t == RKf(LStr.at(ws, p)))), "cc.vals"),
        _keys(s) == _keys(pre),
    ]


def _cc_post(c, r):
    ks = _keys(c.old)
    w = z3.Const("_ccp_w", StrSort)
    F = c.conditionalization.t
    v = _OI.wrap(z3.Select(r.val, w))
    return [
        Forall([w], [mem_Str(r.keys, w)], mem_Str(r.keys, w) == z3.And(mem_Str(ks, w), _sat(w, F)), "conditionalization.keys"),
        Forall([w], [mem_Str(ks, w)], mem_Str(r.keys, w) == z3.And(mem_Str(ks, w), _sat(w, F)), "conditionalization.keys.r"),
        Forall([w], [mem_Str(r.keys, w)], z3.Implies(mem_Str(r.keys, w), z3.And(z3.Not(v.isnone), v.val.t == RKf(w))), "conditionalization.ranks"),
    ]


Contract(
    "inference.preocf:PreOCF.compute_conditionalization",
    params={"self": OCF, "conditionalization": TForm},
    returns=RanksT,
    locals={"_dc": RanksT},
    ensures=_cc_post,
    raises={"ValueError": lambda c: z3.BoolVal(True)},
    modifies=["self.ranks"],
    loops={0: LoopSpec("{... for w in worlds}", _cc_inv)},
    properties=["C18"],
    fuel=5,
    note="the conditionalised ranking has exactly the worlds satisfying the formula, each with its rank",
)


def _ce_inv(s, j, pre):
    d = s._st.env.get("_dc")
    if not isinstance(d, VDict):
        return [j == 0]
    ws = s.worlds.t
    p = z3.Int("_ce_p")
    return [
        LStr.len(d.keys) == j,
        L.LForall([p], [LStr.at(d.keys, p)], z3.Implies(z3.And(0 <= p, p < j), LStr.at(d.keys, p) == LStr.at(ws, p)), "ce.keys"),
        L.LForall([p], [LStr.at(ws, p)], z3.Implies(z3.And(0 <= p, p < j), z3.And(LStr.at(d.keys, p) == LStr.at(ws, p), z3.Select(d.val, LStr.at(ws, p)) == z3.Select(s.field(s.self, "ranks").val, LStr.at(ws, p)))), "ce.vals"),
    ]


def _ce_post(c, r):
    d0 = c.field(c.self, "ranks")
    w = z3.Const("_cep_w", StrSort)
    F = c.conditionalization.t
    return [
        Forall([w], [mem_Str(r.keys, w)], mem_Str(r.keys, w) == z3.And(mem_Str(d0.keys, w), _sat(w, F)), "conditionalize_existing.keys"),
        Forall([w], [mem_Str(d0.keys, w)], mem_Str(r.keys, w) == z3.And(mem_Str(d0.keys, w), _sat(w, F)), "conditionalize_existing.keys.r"),
        Forall([w], [mem_Str(r.keys, w)], z3.Implies(mem_Str(r.keys, w), z3.Select(r.val, w) == z3.Select(d0.val, w)), "conditionalize_existing.ranks"),
    ]


Contract(
    "inference.preocf:PreOCF.conditionalize_existing_ranks",
    params={"self": OCF, "conditionalization": TForm},
    returns=RanksT,
    locals={"_dc": RanksT},
    ensures=_ce_post,
    loops={0: LoopSpec("{... for w in worlds}", _ce_inv)},
    properties=["C18"],
    fuel=5,
    note="the stored ranks (None where not yet computed) of exactly the worlds satisfying the formula",
)


# ---------------------------------------------------------------------------
# C18: marginalisation -- for each remaining world the least rank of its extensions
# ---------------------------------------------------------------------------
# the bit deletion is proved against KeptChars (loop invariant of the string comprehension); PJ(world) is the string joined
# from those characters
# KeptChars(w, sig, marg, n): the characters of w at the positions i < n whose atom sig[i] is not marginalised away, in order
KeptChars = L.prefix_fun(
    "KeptChars",
    [StrSort, LStr.sort, LStr.sort],
    LStr.sort,
    lambda w, sig, marg: LStr.nil,
    lambda w, sig, marg, i, prev: z3.If(mem_Str(marg, LStr.at(sig, i)), prev, LStr.snoc(prev, chr_at(w, i))),
    max_chain=1,
)


def PJ(w, sig, marg):
    """the projection of a world: the string made of its bits at the positions of the atoms that are kept"""
    return lib.join_chars(KeptChars(w, sig, marg, strlen(w)))


_ValS = z3.ArraySort(StrSort, _OI.sort())
_MSORTS = [LStr.sort, _ValS, LStr.sort, LStr.sort, StrSort, L.Int, L.Int]  # keys, val, sig, marg, new world, rank, bound


def _m_hit(x, p):
    w = LStr.at(x[0], p)
    return z3.And(PJ(w, x[2], x[3]) == x[4], z3.Not(_OI.wrap(z3.Select(x[1], w)).isnone))


# MargAtt(.., nw, v, n): one of the first n worlds projects to nw, is ranked, and has rank v
MargAtt, _ = _IT.defpred_some("MargAtt", _MSORTS, lambda x: x[6], lambda x, p: z3.And(_m_hit(x, p), _OI.wrap(z3.Select(x[1], LStr.at(x[0], p))).val.t == x[5]), lambda x, p: LStr.at(x[0], p), step=True)
# MargLB(.., nw, v, n): v is a lower bound of the ranks of the ranked worlds among the first n that project to nw
MargLB, _ = _IT.defpred_all("MargLB", _MSORTS, lambda x: x[6], lambda x, p: z3.Implies(_m_hit(x, p), x[5] <= _OI.wrap(z3.Select(x[1], LStr.at(x[0], p))).val.t), lambda x, p: LStr.at(x[0], p), step=True)

# MargAny(.., nw, n): one of the first n worlds projects to nw and is ranked
MargAny, _ = _IT.defpred_some("MargAny", _MSORTS[:5] + [L.Int], lambda x: x[5], _m_hit, lambda x, p: LStr.at(x[0], p), step=True)

MOCF = TObj("PreOCF", {"ranks": RanksT, "signature": TOptional(TList(TStr)), "_metadata": TOpaque, "conditionals": TOpaque})


def _marg_facts(d0, sig, marg, r, n, tag):
    """the dict r holds, for every projected world, the least rank among the first n worlds projecting to it"""
    nw = z3.Const("_mg_nw", StrSort)
    e = _OI.wrap(z3.Select(r.val, nw))
    a = lambda x, val: (d0.keys, d0.val, sig, marg, x, val, n)
    any_ = MargAny(d0.keys, d0.val, sig, marg, nw, n)
    return [
        Forall([nw], [mem_Str(r.keys, nw)], z3.Implies(mem_Str(r.keys, nw), z3.And(z3.Not(e.isnone), MargAtt(*a(nw, e.val.t)), MargLB(*a(nw, e.val.t)))), tag + ".least"),
    ] + _IT.both([nw], mem_Str(r.keys, nw), any_, tag + ".keys")


def _marg_inv(s, j, pre):
    r = s._st.env.get("ranks")
    if not isinstance(r, VDict):
        return [j == 0]
    d0 = s.field(s.self, "ranks")
    sig = s.field(s.self, "signature")
    return _marg_facts(d0, sig.val.t, s.marginalization.t, r, j, "marg.inv") + [z3.Not(sig.isnone)]


def _marg_post(c, r):
    d0 = c.field(c.old.self, "ranks")
    sig = c.field(c.old.self, "signature").val.t
    marg = c.marginalization.t
    rr = c.field(r, "ranks")
    rs = c.field(r, "signature")
    POS = c.ghost["kept"].t
    ns = rs.val.t
    a, b = z3.Ints("_mgp_a _mgp_b")
    n_ns = LIntL.len(POS)
    return _marg_facts(d0, sig, marg, rr, LStr.len(d0.keys), "marginalize") + [
        z3.Implies(n_ns > 0, z3.And(z3.Not(rs.isnone), LStr.len(ns) == n_ns)),
        Forall([a], [LIntL.at(POS, a)], z3.Implies(z3.And(0 <= a, a < n_ns), z3.And(0 <= LIntL.at(POS, a), LIntL.at(POS, a) < LStr.len(sig), z3.Not(mem_Str(marg, LStr.at(sig, LIntL.at(POS, a)))))), "marginalize.signature.kept"),
        Forall([a], [LStr.at(ns, a)], z3.Implies(z3.And(n_ns > 0, 0 <= a, a < n_ns), LStr.at(ns, a) == LStr.at(sig, LIntL.at(POS, a))), "marginalize.signature.atoms"),
        Forall([a, b], [LIntL.at(POS, a), LIntL.at(POS, b)], z3.Implies(z3.And(0 <= a, a < b, b < n_ns), LIntL.at(POS, a) < LIntL.at(POS, b)), "marginalize.signature.order"),
        Forall([a], [LStr.at(sig, a)], z3.Implies(z3.And(0 <= a, a < LStr.len(sig), z3.Not(mem_Str(marg, LStr.at(sig, a)))), mem_I(POS, a)), "marginalize.signature.complete"),
    ]


# --- constructors: PreOCF.__init__ <- CustomPreOCF.__init__ <- PreOCF.init_custom (each caller uses the callee's contract) ---
_SIGT = TOptional(TList(TStr))
_PFIELDS = {"ranks": RanksT, "signature": _SIGT, "conditionals": TOpaque, "ranking_system": TStr, "_state": TOpaque, "_metadata": TOpaque}
POBJ = TObj("PreOCF", _PFIELDS)
COCF = TObj("CustomPreOCF", _PFIELDS)
BBOBJ = TObj("BeliefBase", {"signature": TList(TStr), "conditionals": TOpaque})


def _same_sig(a, b):
    return z3.And(a.isnone == b.isnone, z3.Implies(z3.Not(a.isnone), a.val.t == b.val.t))


def _stored(c, o, ranks):
    return [c.field(o, "ranks").keys == ranks.keys, c.field(o, "ranks").val == ranks.val]


Contract(
    "inference.preocf:PreOCF.__init__",
    params={"self": POBJ, "ranks": RanksT, "signature": _SIGT, "conditionals": TOpaque, "ranking_system": TStr, "metadata": TOpaque},
    defaults={"metadata": lambda ex: VNone()},
    returns=TNone,
    ensures=lambda c, r: _stored(c, c.self, c.ranks) + [_same_sig(c.field(c.self, "signature"), c.signature)],
    raises={"TypeError": lambda c: z3.BoolVal(True)},
    modifies=["self." + k for k in _PFIELDS],
    properties=["C18"],
    note="the new object holds the ranks and the signature it was given",
)

Contract(
    "inference.preocf:CustomPreOCF.__init__",
    params={"self": COCF, "ranks": RanksT, "belief_base": TOptional(BBOBJ), "signature": _SIGT, "metadata": TOpaque},
    defaults={"belief_base": lambda ex: VNone(), "signature": lambda ex: VNone(), "metadata": lambda ex: VNone()},
    returns=TNone,
    ensures=lambda c, r: _stored(c, c.self, c.ranks)
    + [z3.Implies(z3.And(z3.Not(c.signature.isnone), LStr.len(c.signature.val.t) > 0), _same_sig(c.field(c.self, "signature"), c.signature))],
    raises={"TypeError": lambda c: z3.BoolVal(True)},
    modifies=["self." + k for k in _PFIELDS],
    properties=["C18"],
    note="a custom ranking holds the ranks it was given and a non-empty signature it was given (an empty one falls back to the belief base's)",
)

Contract(
    "inference.preocf:PreOCF.init_custom",
    params={"cls": TOpaque, "ranks": RanksT, "belief_base": TOptional(BBOBJ), "signature": _SIGT, "metadata": TOpaque},
    defaults={"belief_base": lambda ex: VNone(), "signature": lambda ex: VNone(), "metadata": lambda ex: VNone()},
    returns=COCF,
    ensures=lambda c, r: _stored(c, r, c.ranks)
    + [z3.Implies(z3.And(z3.Not(c.signature.isnone), LStr.len(c.signature.val.t) > 0), _same_sig(c.field(r, "signature"), c.signature))],
    raises={"TypeError": lambda c: z3.BoolVal(True)},
    properties=["C18"],
    note="the factory returns an object holding the ranks and a non-empty signature unchanged",
)

def _worlds_fit(c):
    """every world of the ranking has one character per atom of the signature"""
    p = z3.Int("_wf_p")
    sig = c.field(c.self, "signature")
    ks = _keys(c)
    return Forall([p], [LStr.at(ks, p)], z3.Implies(z3.And(0 <= p, p < LStr.len(ks), z3.Not(sig.isnone)), strlen(LStr.at(ks, p)) == LStr.len(sig.val.t)), "worlds.fit.signature")


Contract(
    "inference.preocf:PreOCF.marginalize",
    params={"self": MOCF, "marginalization": TList(TStr)},
    returns=COCF,
    locals={"ranks": RanksT, "_lc0": TList(TStr)},
    ensures=_marg_post,
    ghost_out={"kept": TList(TInt)},
    ghost_wit=lambda c, r: {"kept": c._st.env.get("__filter_pos_last", VList(LIntL.nil, TInt))},
    raises={"ValueError": lambda c: c.field(c.self, "signature").isnone, "TypeError": lambda c: z3.BoolVal(True)},
    requires=lambda c: [_worlds_fit(c)],
    loops={
        0: LoopSpec("for world in self.ranks.keys()", _marg_inv),
        "lc0": LoopSpec("[... for i in range(len(world))]", lambda s, j, pre: [s._st.env["_lc0"].t == KeptChars(s.world.t, s.field(s.self, "signature").val.t, s.marginalization.t, j)]),
    },
    properties=["C18"],
    fuel=4,
    note="every projected world that has a ranked extension gets the least rank of its ranked extensions (attained and a lower "
    "bound); no other key; the projection of a world is the string of its bits at the positions of the kept atoms (KeptChars, loop "
    "invariant of the string comprehension); the new signature is the subsequence of the atoms not marginalised away (ghost output: "
    "kept positions)",
)


def _crw_stored(c):
    return _OI.wrap(z3.Select(c.field(c.self, "ranks").val, c.world.t))


Contract(
    "inference.preocf:CustomPreOCF.rank_world",
    params={"self": COCF, "world": TStr, "force_calculation": TBool},
    defaults={"force_calculation": lambda ex: VBool(False)},
    returns=TInt,
    ensures=lambda c, r: [mem_Str(_keys(c), c.world.t), z3.Not(_crw_stored(c).isnone), r.t == _crw_stored(c).val.t],
    raises={"ValueError": lambda c: z3.Or(z3.Not(mem_Str(_keys(c), c.world.t)), _crw_stored(c).isnone)},
    properties=["C18"],
    note="a custom ranking answers with the stored rank and refuses (ValueError) exactly the worlds it has no rank for",
)


# ---------------------------------------------------------------------------
# symbolize_bitvec, implementation level: for a well-formed bitstring the literals returned are, position by position,
# the atom of the signature (bit != 0) or its negation (bit == 0).  WofN(bv, sig, n) is the set of assignments that agree
# with the first n bits; the interface contract above (callers' view, Wof(bv)) is this one read with
#   Wof(bv) := WofN(bv, signature, len(signature))  and  "worlds handed to a ranking are well-formed bitstrings".
# ---------------------------------------------------------------------------
def BitOn(bv, i):
    return int_of_str(chr_at(bv, i)) != 0


def LitAt(bv, sig, i):
    m = L.M(lib.f_sym(LStr.at(sig, i)))
    return z3.If(BitOn(bv, i), m, L.compl(m))


WofN = L.prefix_fun("WofN", [StrSort, LStr.sort], L.WSet, lambda bv, sig: L.FULL, lambda bv, sig, i, prev: L.inter(prev, LitAt(bv, sig, i)))
# LitsOK(r, bv, sig, n): each of the first n formulas of r denotes the literal of its position
LitsOK, _ = _IT.defpred_all("LitsOK", [L.LForm.sort, StrSort, LStr.sort, L.Int], lambda x: x[3], lambda x, k: L.M(L.LForm.at(x[0], k)) == LitAt(x[1], x[2], k), lambda x, k: L.LForm.at(x[0], k), step=True)
_wr = z3.Const("_wn_r", L.LForm.sort)
_wb = z3.Const("_wn_b", StrSort)
_ws = z3.Const("_wn_s", LStr.sort)
_wn = z3.Int("_wn_n")
# lemma WofN.map (lemmas/zlemmas.py, induction on n)
WOFN_MAP = Forall([_wr, _wb, _ws, _wn], [L.MAll(_wr, _wn), WofN(_wb, _ws, _wn)], z3.Implies(z3.And(_wn >= 0, LitsOK(_wr, _wb, _ws, _wn)), L.MAll(_wr, _wn) == WofN(_wb, _ws, _wn)), "lemma.WofN.map")


def wf_bits(bv, n):
    """a well-formed bitstring for a signature of n atoms: at least n characters, each of the first n an integer literal"""
    k = z3.Int("_wfb_k")
    return [strlen(bv) >= n, Forall([k], [chr_at(bv, k)], z3.Implies(z3.And(0 <= k, k < n), is_int_literal(chr_at(bv, k))), "wf.bits")]


SOCF = TObj("PreOCF", {"ranks": RanksT, "signature": TOptional(TList(TStr)), "conditionals": TOpaque})

Contract(
    "inference.preocf:PreOCF.symbolize_bitvec#impl",
    params={"self": SOCF, "bitvec": TStr},
    returns=TList(TForm),
    requires=lambda c: [z3.Implies(z3.Not(c.field(c.self, "signature").isnone), z3.And(*[f if not isinstance(f, L.Forall) else z3.BoolVal(True) for f in wf_bits(c.bitvec.t, LStr.len(c.field(c.self, "signature").val.t))]))]
    + [f for f in wf_bits(c.bitvec.t, LStr.len(c.field(c.self, "signature").val.t)) if isinstance(f, L.Forall)],
    ensures=lambda c, r: [
        r.len() == LStr.len(c.field(c.self, "signature").val.t),
        L.MAll(r.t, r.len()) == WofN(c.bitvec.t, c.field(c.self, "signature").val.t, LStr.len(c.field(c.self, "signature").val.t)),
    ],
    raises={"ValueError": lambda c: c.field(c.self, "signature").isnone},
    hints=lambda c, r: [
        LitsOK(r.t, c.bitvec.t, c.field(c.self, "signature").val.t, n) == LitsOK(r.t, c.bitvec.t, c.field(c.self, "signature").val.t, n)
        for n in (r.len(), LStr.len(c.field(c.self, "signature").val.t))
    ]
    + [L.MAll(r.t, LStr.len(c.field(c.self, "signature").val.t)) == L.MAll(r.t, LStr.len(c.field(c.self, "signature").val.t))],
    axioms=[WOFN_MAP],
    properties=["C16", "C18"],
    fuel=4,
    note="for a well-formed bitstring: one literal per atom of the signature, in order, positive exactly where the bit is not 0; "
    "jointly they denote WofN(bitvec, signature) (lemma WofN.map)",
)


def _car_inv(s, j, pre):
    d = s._st.env.get("_dc")
    ws = _keys(pre)
    if not isinstance(d, VDict):
        return [j == 0, _keys(s) == ws]
    p = z3.Int("_ca_p")
    v = lambda k: _OI.wrap(z3.Select(d.val, k))
    return [
        LStr.len(d.keys) == j,
        L.LForall([p], [LStr.at(d.keys, p)], z3.Implies(z3.And(0 <= p, p < j), LStr.at(d.keys, p) == LStr.at(ws, p)), "car.keys"),
        L.LForall([p], [LStr.at(ws, p)], z3.Implies(z3.And(0 <= p, p < j), z3.And(LStr.at(d.keys, p) == LStr.at(ws, p), z3.Not(v(LStr.at(ws, p)).isnone), v(LStr.at(ws, p)).val.t == RKf(LStr.at(ws, p)))), "car.vals"),
        _keys(s) == ws,
    ]


def _car_post(c, r):
    ks = _keys(c.old)
    w = z3.Const("_cap_w", StrSort)
    v = _OI.wrap(z3.Select(r.val, w))
    p = z3.Int("_cap_p")
    return [
        LStr.len(r.keys) == LStr.len(ks),
        Forall([p], [LStr.at(r.keys, p)], z3.Implies(z3.And(0 <= p, p < LStr.len(ks)), LStr.at(r.keys, p) == LStr.at(ks, p)), "compute_all_ranks.keys"),
        Forall([p], [LStr.at(ks, p)], z3.Implies(z3.And(0 <= p, p < LStr.len(ks)), z3.And(z3.Not(_OI.wrap(z3.Select(r.val, LStr.at(ks, p))).isnone), _OI.wrap(z3.Select(r.val, LStr.at(ks, p))).val.t == RKf(LStr.at(ks, p)))), "compute_all_ranks.ranks"),
    ]


Contract(
    "inference.preocf:PreOCF.compute_all_ranks",
    params={"self": OCF},
    returns=RanksT,
    locals={"_dc": RanksT},
    ensures=_car_post,
    raises={"ValueError": lambda c: z3.BoolVal(True)},
    modifies=["self.ranks"],
    loops={0: LoopSpec("{... for w in self.ranks.keys()}", _car_inv)},
    properties=["C16", "C18"],
    fuel=4,
    note="every world of the ranking, in order, with its rank (rank_world of the concrete class)",
)
