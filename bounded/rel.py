"""Engine B for the oracle-free RELATIONAL properties C08, C09, C11, C12.

Every check is a relation between answers of the REAL InferenceManager to related inputs
(other operator / other query / other back-end / other presentation of the same input);
no oracle for the operators is involved.  Classical side conditions (A entails B, A equivalent
A', same verification / falsification sets, A unsatisfiable) are established by construction
and re-checked by truth table (<= TT_ATOMS atoms) or by pysmt validity (independent of InfOCF).

Entry points: run_c08, run_c09, run_c11, run_c12 (tier, seed) and replay(v).

Bases: the shipped corpora under /repo/examples (birds, AO_*, gen, the 484 representatives, random_large
with their query files, plus base-derived random queries), seeded S3 bases, generated literal bases of
10-25 atoms / 10-30 conditionals.  Sizes per property and tier: SIZES.  Measured on 16 cores (seed 1,
CPU seconds in brackets): quick c08 63 s [780], c09 ~115 s [1750], c11 ~110 s [1730], c12 ~75 s [1130];
thorough c08 13 min [8900], c09 15-19 min [14400], c11 15-24 min [14000], c12 16-19 min [15400]
(the longer wall times were taken while other jobs shared the machine).  Largest corpus bases:
randomTest_100_100 / 120_120 under every operator with total_timeout 150 s and a hard wall limit of
HARD_LIMIT per operator run (a c-inference CSP of such a base can keep z3 busy for > 20 min; such a run is
"skipped", never judged); the 60_120, 100_200, 120_200 families (system-w/z3 > 2 min per 10 queries) are left out.

C11 runs every configuration in a forked child (`forked`): some pysat engines kill the interpreter
(rc2-mpl: SIGSEGV on an empty WCNF; kissat aborts), which would otherwise hang the worker pool.
"""
from __future__ import annotations

import glob
import hashlib
import itertools
import json
import os
import random
import re
import subprocess
import sys

from .common import REPO, VERIF, BeliefBase, Queries, pmap, s3_base, split_text

EXAMPLES = os.path.join(REPO, "examples")
TT_ATOMS = 10  # truth tables up to this many atoms, pysmt validity above

STRICT_CFGS = [
    ("p-entailment", "rc2"),
    ("system-z", "rc2"),
    ("system-w", "rc2"),
    ("system-w", "z3"),
    ("lex_inf", "rc2"),
    ("lex_inf", "z3"),
    ("c-inference", "rc2"),
]
WEAKLY_CFGS = [c for c in STRICT_CFGS if c[0] != "c-inference"]


def all_cfgs():
    return [(s, pm, False) for s, pm in STRICT_CFGS] + [(s, pm, True) for s, pm in WEAKLY_CFGS]


def _h(*parts):
    return hashlib.sha1(json.dumps(parts, default=str, sort_keys=True).encode()).hexdigest()[:16]


# ---------------------------------------------------------------------------
# CL text <-> small AST (only used to BUILD equivalent formulas; every rewrite is
# re-checked semantically on what InfOCF's own parser makes of the text)
# ---------------------------------------------------------------------------
_TOK = re.compile(r"\s*([A-Za-z][0-9A-Za-z_\-]*|[(),;!])")
_ID = re.compile(r"[A-Za-z][0-9A-Za-z_\-]*")


def _tokens(text):
    out, pos = [], 0
    text = text.strip()
    while pos < len(text):
        m = _TOK.match(text, pos)
        if not m:
            raise ValueError(f"rel: cannot tokenise {text!r} at {pos}")
        out.append(m.group(1))
        pos = m.end()
    return out


def cl_parse(text):
    """grammar of parser/CKB.g4: '!' binds tightest, then ',' (and), then ';' (or), left assoc."""
    toks = _tokens(text)
    pos = [0]

    def peek():
        return toks[pos[0]] if pos[0] < len(toks) else None

    def eat(t=None):
        tok = peek()
        if tok is None or (t is not None and tok != t):
            raise ValueError(f"rel: parse error in {text!r} at token {pos[0]}")
        pos[0] += 1
        return tok

    def unary():
        tok = peek()
        if tok == "!":
            eat()
            return ("not", unary())
        if tok == "(":
            eat()
            f = disj()
            eat(")")
            return f
        tok = eat()
        if tok in "),;":
            raise ValueError(f"rel: parse error in {text!r}")
        if tok == "Top":
            return ("top",)
        if tok == "Bottom":
            return ("bot",)
        return ("var", tok)

    def conj():
        f = unary()
        while peek() == ",":
            eat()
            f = ("and", f, unary())
        return f

    def disj():
        f = conj()
        while peek() == ";":
            eat()
            f = ("or", f, conj())
        return f

    f = disj()
    if pos[0] != len(toks):
        raise ValueError(f"rel: trailing input in {text!r}")
    return f


def cl_text(f):
    k = f[0]
    if k == "var":
        return f[1]
    if k == "top":
        return "Top"
    if k == "bot":
        return "Bottom"
    if k == "not":
        return "!" + cl_text(f[1])
    return "(" + cl_text(f[1]) + ("," if k == "and" else ";") + cl_text(f[2]) + ")"


def neg_text(t):
    return "!(" + t + ")"


def conj_text(*ts):
    return "(" + ",".join("(" + t + ")" for t in ts) + ")"


def disj_text(*ts):
    return "(" + ";".join("(" + t + ")" for t in ts) + ")"


def atoms_in(*texts):
    s = []
    for t in texts:
        for m in _ID.findall(t):
            if m not in ("Top", "Bottom") and m not in s:
                s.append(m)
    return s


def rename_text(t, mapping):
    return _ID.sub(lambda m: mapping.get(m.group(0), m.group(0)), t)


# ---------------------------------------------------------------------------
# classical checks (independent of InfOCF's inference code)
# ---------------------------------------------------------------------------
_FML_CACHE = {}


def _fml(text):
    """InfOCF's own parser (ANTLR, slow): parsed formulas are immutable pysmt nodes and are shared"""
    from parser.Wrappers import parse_formula

    f = _FML_CACHE.get(text)
    if f is None:
        if len(_FML_CACHE) > 50000:
            _FML_CACHE.clear()
        f = _FML_CACHE[text] = parse_formula(text)
    return f


def _valid(f):
    """classical validity of a pysmt formula: truth table if few atoms else pysmt"""
    from oracle.core import all_worlds, atoms_of, ev

    ats = atoms_of([f])
    if len(ats) <= TT_ATOMS:
        return all(ev(f, w) for w in all_worlds(ats))
    from pysmt.shortcuts import is_valid

    return bool(is_valid(f))


_CHK_CACHE = {}


def _cached(kind, key, fn):
    k = (kind,) + key
    if k not in _CHK_CACHE:
        if len(_CHK_CACHE) > 100000:
            _CHK_CACHE.clear()
        _CHK_CACHE[k] = fn()
    return _CHK_CACHE[k]


def entails(t1, t2):
    from pysmt.shortcuts import Implies

    return _cached("ent", (t1, t2), lambda: _valid(Implies(_fml(t1), _fml(t2))))


def equivalent(t1, t2):
    from pysmt.shortcuts import Iff

    return _cached("eqv", (t1, t2), lambda: _valid(Iff(_fml(t1), _fml(t2))))


def unsat(t):
    from pysmt.shortcuts import Not

    return _cached("uns", (t,), lambda: _valid(Not(_fml(t))))


def same_ver_fal(c1, c2):
    """conditionals (b,a) texts: same verification and falsification sets"""
    from pysmt.shortcuts import And, Iff, Not

    b1, a1, b2, a2 = _fml(c1[0]), _fml(c1[1]), _fml(c2[0]), _fml(c2[1])
    return _valid(And(Iff(And(a1, b1), And(a2, b2)), Iff(And(a1, Not(b1)), And(a2, Not(b2)))))


# ---------------------------------------------------------------------------
# running the real code
# ---------------------------------------------------------------------------
def mkcond(b, a):
    """a fresh Conditional object per call (operators may set attributes on it); formulas from the parse cache"""
    from inference.conditional import Conditional

    return Conditional(_fml(b), _fml(a), f"({b}|{a})")


def load_base(base):
    """base = ("file", path) | ("text", signature, ((key, b, a), ...)) -> (signature, {key: Conditional})"""
    if base[0] == "file":
        from parser.Wrappers import parse_belief_base

        bb = parse_belief_base(base[1])
        return list(bb.signature), dict(bb.conditionals)
    _, sig, triples = base
    conds = {}
    for k, b, a in triples:
        c = mkcond(b, a)
        c.index = k
        conds[k] = c
    return list(sig), conds


def triples_of(conds):
    return [(k,) + tuple(split_text(str(c))) for k, c in conds.items()]


REFUSALS = ("belief base inconsistent", "belief base empty")
HARD_LIMIT = 420  # seconds of wall time for one operator run on a big base; overrun = not judged ("skipped")


def run_cfg(sig, conds, queries, system, pm, weakly, timeout=0):
    """-> {"ans": [...], "to": [...]} | {"refused": msg} | {"exc": msg}; `to` marks undecided rows"""
    from inference.inference_manager import InferenceManager

    bb = BeliefBase(list(sig), dict(conds), "rel")
    try:
        m = InferenceManager(bb, system, pmaxsat_solver=pm, weakly=weakly)
        df = m.inference(Queries({i + 1: q for i, q in enumerate(queries)}), total_timeout=timeout)
    except AssertionError as e:
        if any(r in str(e) for r in REFUSALS):
            return {"refused": str(e)}
        return {"exc": f"AssertionError: {e}"}
    except Exception as e:  # noqa: the real code raised
        return {"exc": f"{type(e).__name__}: {str(e)[:300]}"}
    ans = [bool(x) for x in df["result"].tolist()]
    to = [bool(x) or bool(y) for x, y in zip(df["inference_timed_out"].tolist(), df["preprocessing_timed_out"].tolist())]
    return {"ans": ans, "to": to}


def _eval_item(item):
    """item = (tag, base, qtexts, cfgs, timeout) -> (tag, {cfg: result})"""
    tag, base, qtexts, cfgs, timeout = item
    sig, conds = load_base(base)
    queries = [mkcond(b, a) for b, a in qtexts]
    out = {}
    for system, pm, weakly in cfgs:
        if timeout:
            # big bases: InfOCF's own timeouts do not interrupt a single z3 / RC2 call (a c-inference CSP over a
            # 100-atom base can keep z3 busy for tens of minutes), so the run gets a hard wall limit as well
            r = forked(_run_cfg_args, (sig, conds, queries, system, pm, weakly, timeout), limit=HARD_LIMIT)
            if "died" in r:
                r = {"skipped": r["died"]} if r.get("limit") else {"exc": "DIED " + r["died"]}
        else:
            r = run_cfg(sig, conds, queries, system, pm, weakly, timeout)
        out[(system, pm, weakly)] = r
    return tag, out


def forked(fn, arg, limit=600):
    """fn(arg) in a forked child; a child killed by a signal (native abort / segfault of a SAT engine)
    or overrunning `limit` seconds yields {"died": ...} instead of taking the worker pool down"""
    import pickle
    import select
    import signal
    import time

    r, w = os.pipe()
    pid = os.fork()
    if pid == 0:
        code = 0
        try:
            os.close(r)
            devnull = os.open(os.devnull, os.O_WRONLY)
            os.dup2(devnull, 1)
            os.dup2(devnull, 2)
            data = pickle.dumps(("ok", fn(arg)))
            with os.fdopen(w, "wb") as f:
                f.write(data)
        except BaseException as e:  # noqa: report checker errors to the parent, which re-raises
            try:
                with os.fdopen(w, "wb") as f:
                    f.write(pickle.dumps(("err", f"{type(e).__name__}: {e}")))
            except Exception:
                code = 1
        finally:
            os._exit(code)
    os.close(w)
    chunks, end = [], time.time() + limit
    with os.fdopen(r, "rb") as f:
        while True:
            left = end - time.time()
            if left <= 0:
                os.kill(pid, signal.SIGKILL)
                os.waitpid(pid, 0)
                return {"died": f"no result after {limit} s (killed)", "limit": True}
            if select.select([f], [], [], min(left, 5.0))[0]:
                b = os.read(f.fileno(), 1 << 20)
                if not b:
                    break
                chunks.append(b)
    _, status = os.waitpid(pid, 0)
    if os.WIFSIGNALED(status) or not chunks:
        sig = os.WTERMSIG(status) if os.WIFSIGNALED(status) else None
        return {"died": f"process killed by signal {sig}" if sig else f"process exited with status {status} without a result"}
    kind, val = pickle.loads(b"".join(chunks))
    if kind == "err":
        raise RuntimeError(f"rel: checker error in forked child: {val}")
    return val


def _run_cfg_args(a):
    return run_cfg(*a)


def _eval_item_guarded(item):
    """as _eval_item, every configuration in its own forked child: {"exc": "DIED ..."} when the interpreter dies"""
    tag, base, qtexts, cfgs, timeout = item
    sig, conds = load_base(base)
    queries = [mkcond(b, a) for b, a in qtexts]
    out = {}
    for system, pm, weakly in cfgs:
        r = forked(_run_cfg_args, (sig, conds, queries, system, pm, weakly, timeout), limit=max(300, 4 * timeout))
        if "died" in r:
            r = {"skipped": r["died"]} if r.get("limit") else {"exc": "DIED " + r["died"]}
        out[(system, pm, weakly)] = r
    return tag, out


def base_input(base):
    if base[0] == "file":
        return {"base_file": base[1]}
    return {"signature": list(base[1]), "conditionals": {str(k): f"({b}|{a})" for k, b, a in base[2]}}


def input_base(d):
    if "base_file" in d:
        return ("file", d["base_file"])
    return ("text", tuple(d["signature"]), tuple((int(k),) + tuple(split_text(t)) for k, t in d["conditionals"].items()))


def qtext(q):
    return f"({q[0]}|{q[1]})"


def dedupe(qtexts):
    seen, out = set(), []
    for q in qtexts:
        q = (q[0], q[1])
        if q not in seen:
            seen.add(q)
            out.append(q)
    return out


# ---------------------------------------------------------------------------
# corpus
# ---------------------------------------------------------------------------
def _file_queries(path):
    from parser.Wrappers import parse_queries

    return [tuple(split_text(str(q))) for q in parse_queries(path).conditionals.values()]


def _lit(rng, atoms, p_neg=0.35):
    a = rng.choice(atoms)
    return "!" + a if rng.random() < p_neg else a


def _neglit(l):
    return l[1:] if l.startswith("!") else "!" + l


def gen_queries(rng, triples, n):
    """queries related to a base given as (key, b, a) texts"""
    from oracle.gen import rnd_formula

    atoms = atoms_in(*[t for _, b, a in triples for t in (b, a)]) or ["a"]
    out = []
    for _ in range(n * 3):
        r = rng.random()
        _, b, a = rng.choice(triples)
        if r < 0.2:
            out.append((b, conj_text(a, _lit(rng, atoms))))
        elif r < 0.3:
            out.append((neg_text(b), a))
        elif r < 0.45:
            _, b2, a2 = rng.choice(triples)
            out.append((b2, a))
        elif r < 0.55:
            _, b2, a2 = rng.choice(triples)
            out.append((b, conj_text(a, a2)))
        elif r < 0.75:
            sub = rng.sample(atoms, min(len(atoms), 4))
            out.append((rnd_formula(rng, sub, 2, 0.05)[1], rnd_formula(rng, sub, 2, 0.05)[1]))
        elif r < 0.9:
            out.append((_lit(rng, atoms), _lit(rng, atoms)))
        else:
            out.append((_lit(rng, atoms), conj_text(_lit(rng, atoms), _lit(rng, atoms))))
    return dedupe(out)[:n]


def gen_literal_base(rng):
    """10-25 atoms, 10-30 conditionals (l1|l2) / (l1|l2,l3), with default/exception triangles"""
    n = rng.randint(10, 25)
    atoms = [f"v{i}" for i in range(n)]
    m = rng.randint(10, 30)
    conds = []
    while len(conds) < m:
        r = rng.random()
        if r < 0.3 and conds:
            b, a = rng.choice(conds)
            cls = a.split(",")[0]
            sub = _lit(rng, atoms, 0.1)
            if atoms_in(sub)[0] in atoms_in(b, a):
                continue
            conds.append((cls, sub))
            conds.append((_neglit(b), sub))
            if rng.random() < 0.4:
                conds.append((_neglit(b), f"{sub},{cls}"))
        elif r < 0.7:
            l1, l2 = _lit(rng, atoms), _lit(rng, atoms, 0.15)
            if atoms_in(l1) != atoms_in(l2):
                conds.append((l1, l2))
        else:
            ls = [_lit(rng, atoms, 0.25) for _ in range(3)]
            if len(set(atoms_in(*ls))) == 3:
                conds.append((ls[0], f"{ls[1]},{ls[2]}"))
    conds = dedupe(conds)[:m]
    return tuple(atoms), tuple((i + 1, b, a) for i, (b, a) in enumerate(conds))


def _strongly_consistent(sig, triples):
    from inference.consistency_sat import consistency

    _, conds = load_base(("text", sig, triples))
    return consistency(BeliefBase(list(sig), conds, "gen"), "z3", False)[0] is not False


SIZES = {
    # n484, random_large [(a, b, instances, timeout)], S3 bases, S3 queries, generated bases, queries per generated/corpus base
    "c08": {
        "quick": dict(n484=80, rl=[(a, a, 2) for a in (6, 8, 10, 12, 14, 16, 18, 20)] + [(30, 30, 1), (40, 40, 1), (50, 50, 1)], s3=500, s3q=8, gen=40, gq=12),
        "thorough": dict(
            n484=484,
            rl=[(a, a, 10) for a in (6, 8, 10, 12, 14, 16, 18, 20, 30, 40)]
            + [(50, 50, 6), (60, 60, 6), (80, 80, 4), (80, 60, 2), (100, 60, 2), (120, 60, 2), (60, 80, 2), (100, 100, 2), (120, 120, 2)],
            s3=6000,
            s3q=8,
            gen=600,
            gq=14,
        ),
    },
    "c09": {
        "quick": dict(fixed=26, n484=5, rl=[(6, 6, 1), (10, 10, 1), (14, 14, 1)], s3=24, s3q=0, gen=4, gq=0),
        "thorough": dict(n484=100, rl=[(a, a, 2) for a in (6, 8, 10, 12, 14, 16, 18, 20)] + [(30, 30, 1), (40, 40, 1)], s3=600, s3q=0, gen=50, gq=0),
    },
    "c11": {
        "quick": dict(n484=10, rl=[(6, 6, 1), (10, 10, 1), (14, 14, 1), (20, 20, 1)], s3=55, s3q=6, gen=8, gq=8),
        "thorough": dict(n484=120, rl=[(a, a, 2) for a in (6, 8, 10, 12, 14, 16, 18, 20, 30)] + [(40, 40, 1), (50, 50, 1)], s3=700, s3q=6, gen=80, gq=10),
    },
    "c12": {
        "quick": dict(n484=10, rl=[(6, 6, 1), (10, 10, 1), (14, 14, 1)], s3=50, s3q=6, gen=6, gq=8),
        "thorough": dict(n484=60, rl=[(a, a, 2) for a in (6, 8, 10, 12, 14, 16, 18, 20)] + [(30, 30, 1), (40, 40, 1)], s3=400, s3q=6, gen=40, gq=10),
    },
}


EDGE_BASES = [
    (("a", "b"), [("Top", "Top")]),
    (("a", "b"), [("b", "b")]),
    (("a", "b"), [("b", "a"), ("a", "a")]),
    (("a", "b", "c"), [("a;!a", "b;!b"), ("c", "b")]),
    (("a", "b"), [("b", "a"), ("Top", "a")]),
    (("a", "b"), [("Bottom", "a"), ("b", "Top")]),
    (("a", "b", "c"), [("b", "a"), ("!b", "a,c"), ("Bottom", "c,b")]),
]


def corpus(prop, tier, seed):
    """-> list of cases {"id", "group", "base", "sig", "triples", "qtexts", "size", "timeout"}"""
    from oracle.gen import rnd_conditional
    from parser.Wrappers import parse_belief_base

    rng = random.Random(f"{prop}/{tier}/{seed}")
    sz = SIZES[prop][tier]
    cases = []

    def add_file(group, path, qfiles, nq_gen, timeout=0):
        bb = parse_belief_base(path)
        triples = triples_of(bb.conditionals)
        if not triples:
            return
        qs = []
        for qf in qfiles:
            qs += _file_queries(qf)
        qs += gen_queries(rng, triples, nq_gen)
        cases.append(
            dict(
                id=os.path.relpath(path, EXAMPLES),
                group=group,
                base=("file", path),
                sig=tuple(bb.signature),
                triples=tuple(triples),
                qtexts=dedupe(qs),
                qfiles=list(qfiles),
                size=len(bb.signature) + len(triples),
                timeout=timeout,
            )
        )

    gq = sz["gq"]
    # birds
    bdir = os.path.join(EXAMPLES, "birds")
    named = {"example1.cl": "query_example1.cl", "example2.cl": "query_example2.cl", "kb_birds001.cl": "query_birds001.cl", "kb_birds003.cl": "query_birds003.cl"}
    bq = sorted(glob.glob(os.path.join(bdir, "query_*.cl")))
    for p in sorted(glob.glob(os.path.join(bdir, "*.cl"))):
        n = os.path.basename(p)
        if n.startswith("query_"):
            continue
        sig = parse_belief_base(p).signature
        qfs = [os.path.join(bdir, named[n])] if n in named else []
        for qf in bq:
            if qf not in qfs and all(a in sig for q in _file_queries(qf) for a in atoms_in(*q)):
                qfs.append(qf)
        add_file("birds", p, qfs, gq // 2)
    # AO
    for d in sorted(glob.glob(os.path.join(EXAMPLES, "AO_Beispiele_Konditionale_KBs", "*", ""))):
        kbs = sorted(glob.glob(os.path.join(d, "KB_*", "*.cl")))
        qfs = sorted(glob.glob(os.path.join(d, "Queries_*", "*.cl")))
        for kb in kbs:
            add_file("AO", kb, qfs, gq // 2 if qfs else gq)
    # gen/ (tiny hand-made bases shipped with the repo)
    gdir = os.path.join(EXAMPLES, "gen")
    for p in sorted(glob.glob(os.path.join(gdir, "kb_*.cl"))):
        if "empty" in p:
            continue
        qf = os.path.join(gdir, "query_selffulfilling.cl")
        add_file("gen", p, [qf] if "selffulfilling" in p else [], gq // 2)
    if sz.get("fixed") and len(cases) > sz["fixed"]:  # quick tiers of the costlier checks: a seeded sample of birds/AO/gen
        keep = set(rng.sample(range(len(cases)), sz["fixed"]))
        cases[:] = [c for i, c in enumerate(cases) if i in keep]
    # 484 representatives
    d484 = os.path.join(EXAMPLES, "484_inference_relations_representatives")
    kbs = sorted(glob.glob(os.path.join(d484, "kb*.cl")), key=lambda p: int(re.findall(r"kb(\d+)", p)[-1]))
    q484 = [os.path.join(d484, "484_inference_relations_representatives_query.cl"), os.path.join(d484, "484_kb100_query.cl")]
    if sz["n484"] < len(kbs):
        kbs = sorted(rng.sample(kbs, sz["n484"]))
    for p in kbs:
        add_file("484", p, q484, 3 if gq else 0)
    # random_large
    rdir = os.path.join(EXAMPLES, "random_large")
    for a, b, inst in sz["rl"]:
        for i in sorted(rng.sample(range(100), inst)):
            kb = os.path.join(rdir, f"randomTest_{a}_{b}_{i}.cl")
            qf = os.path.join(rdir, f"randomQueries_{a}_{b}_{i}.clq")
            if os.path.isfile(kb) and os.path.isfile(qf):
                add_file("random_large", kb, [qf], 4 if gq else 0, timeout=0 if a + b <= 80 else 150)
    # hand-written degenerate bases: unfalsifiable / tautological conditionals, an infinity layer (extended mode only)
    edge_q = [("Bottom", "Top"), ("a", "Top"), ("b", "a"), ("Bottom", "a"), ("a,!a", "Top"), ("b", "b"), ("Top", "Top"), ("a", "b"), ("!a", "b"), ("b", "a,!c")]
    for i, (sig, cs) in enumerate(EDGE_BASES):
        triples = tuple((k + 1, b, a) for k, (b, a) in enumerate(cs))
        cases.append(dict(id=f"EDGE#{i}", group="edge", base=("text", tuple(sig), triples), sig=tuple(sig), triples=triples, qtexts=list(edge_q) if (gq or sz["s3q"]) else [], qfiles=[], size=len(sig) + len(triples), timeout=0))
    # seeded S3 bases
    for i in range(sz["s3"]):
        sig, conds = s3_base(rng, consts=0.07)
        triples = tuple(triples_of(conds))
        qs = [tuple(split_text(str(rnd_conditional(rng, sig, 2, 0.08)))) for _ in range(sz["s3q"])]
        cases.append(dict(id=f"S3#{i}", group="S3", base=("text", tuple(sig), triples), sig=tuple(sig), triples=triples, qtexts=dedupe(qs), qfiles=[], size=len(sig) + len(triples), timeout=0))
    # generated literal bases of 10-25 atoms
    made = tries = 0
    while made < sz["gen"] and tries < 20 * sz["gen"] + 20:
        tries += 1
        sig, triples = gen_literal_base(rng)
        if not _strongly_consistent(sig, triples):
            continue
        cases.append(dict(id=f"GEN#{made}", group="generated", base=("text", sig, triples), sig=sig, triples=triples, qtexts=gen_queries(rng, triples, gq), qfiles=[], size=len(sig) + len(triples), timeout=0))
        made += 1
    return cases


def _scope_text(cases):
    groups = {}
    for c in cases:
        groups[c["group"]] = groups.get(c["group"], 0) + 1
    big = max((c["size"] for c in cases), default=0)
    return "bases: " + ", ".join(f"{g}={n}" for g, n in sorted(groups.items())) + f"; largest |signature|+|conditionals| = {big}"


def _heavy_first(items, key):
    return sorted(items, key=key, reverse=True)


def _plan(cases, cfgs, heavy_size=45):
    """work items: one per small base (all cfgs), one per cfg for large bases"""
    items = []
    for ci, c in enumerate(cases):
        if not c["qtexts"]:
            continue
        if c["size"] >= heavy_size:
            for cfg in cfgs:
                items.append(((ci, 1), c["base"], c["qtexts"], [cfg], c["timeout"]))
        else:
            items.append(((ci, 0), c["base"], c["qtexts"], list(cfgs), c["timeout"]))
    order = {id(it): (cases[it[0][0]]["size"] if it[0][1] else 0) for it in items}
    return sorted(items, key=lambda it: order[id(it)], reverse=True)


def _collect(results):
    per_case = {}
    for (ci, _), out in results:
        per_case.setdefault(ci, {}).update(out)
    return per_case


# ---------------------------------------------------------------------------
# C08  inclusion chain
# ---------------------------------------------------------------------------
def c08_pairs(weakly):
    P, Z, C = ("p-entailment", "rc2"), ("system-z", "rc2"), ("c-inference", "rc2")
    W = [("system-w", "rc2"), ("system-w", "z3")]
    L = [("lex_inf", "rc2"), ("lex_inf", "z3")]
    pairs = [(P, Z)] + [(Z, w) for w in W] + [(w, l) for w in W for l in L]
    if not weakly:
        pairs += [(P, C)] + [(C, w) for w in W]
    return pairs


def run_c08(tier, seed):
    cases = corpus("c08", tier, seed)
    cfgs = all_cfgs()
    per_case = _collect(pmap(_eval_item, _plan(cases, cfgs)))
    evaluations, fps, violations, rejected = 0, set(), [], 0
    extra = {"exceptions": 0, "mixed_refusal": 0, "undecided_rows": 0, "skipped_runs": 0, "violations_total": 0, "true_by_system": {}}
    samples = []
    for ci, res in sorted(per_case.items()):
        c = cases[ci]
        for weakly in (False, True):
            cur = {(s, pm): r for (s, pm, w), r in res.items() if w == weakly}
            extra["skipped_runs"] += sum("skipped" in r for r in cur.values())
            cur = {k: r for k, r in cur.items() if "skipped" not in r}
            refused = [k for k, r in cur.items() if "refused" in r]
            if refused:
                if len(refused) != len(cur):
                    extra["mixed_refusal"] += 1
                rejected += 1
                continue
            for k, r in cur.items():
                if "exc" in r:
                    extra["exceptions"] += 1
                    violations.append(dict(module="rel", kind="c08-exception", input=dict(base_input(c["base"]), base_id=c["id"], queries=[qtext(q) for q in c["qtexts"]], system=k[0], pmaxsat=k[1], weakly=weakly), expected="an answer", observed=r["exc"]))
            ok = {k: r for k, r in cur.items() if "ans" in r}
            for k, r in ok.items():
                evaluations += sum(1 for t in r["to"] if not t)
                extra["undecided_rows"] += sum(r["to"])
                extra["true_by_system"][f"{k[0]}/{k[1]}/{'weakly' if weakly else 'strict'}"] = extra["true_by_system"].get(f"{k[0]}/{k[1]}/{'weakly' if weakly else 'strict'}", 0) + sum(a and not t for a, t in zip(r["ans"], r["to"]))
            for qi, q in enumerate(c["qtexts"]):
                vals = [r["ans"][qi] for r in ok.values() if not r["to"][qi]]
                if True in vals and False in vals:
                    fps.add((c["id"], qtext(q), weakly))
            per_pair = {}
            for lo, up in c08_pairs(weakly):
                if lo not in ok or up not in ok:
                    continue
                for qi, q in enumerate(c["qtexts"]):
                    if ok[lo]["to"][qi] or ok[up]["to"][qi]:
                        continue
                    if ok[lo]["ans"][qi] and not ok[up]["ans"][qi]:
                        extra["violations_total"] += 1
                        per_pair[(lo, up)] = per_pair.get((lo, up), 0) + 1
                        if per_pair[(lo, up)] <= 2:
                            violations.append(
                                dict(
                                    module="rel",
                                    kind="c08-inclusion",
                                    input=dict(base_input(c["base"]), base_id=c["id"], queries=[qtext(q)], weakly=weakly, lower=list(lo), upper=list(up)),
                                    expected=f"{lo[0]} infers => {up[0]} infers",
                                    observed={f"{lo[0]}/{lo[1]}": True, f"{up[0]}/{up[1]}": False},
                                )
                            )
        if len(samples) < 3 and any("ans" in r for r in res.values()):
            samples.append(dict(base_id=c["id"], queries=[qtext(q) for q in c["qtexts"][:4]], answers={f"{s}/{pm}/{'weakly' if w else 'strict'}": r["ans"][:4] for (s, pm, w), r in sorted(res.items()) if "ans" in r}))
    return dict(
        evaluations=evaluations,
        fingerprints=fps,
        violations=violations,
        samples=samples,
        rejected=rejected,
        scope=_scope_text(cases) + "; every base x query batch under p-entailment, system-z, system-w (rc2, z3), lex_inf (rc2, z3) in strict and extended mode, c-inference (rc2) in strict mode",
        rule="shipped corpora (birds, AO, gen, 484 representatives, random_large) with their query files plus base-derived random queries, seeded S3 bases with random queries, generated literal bases of 10-25 atoms; a case (base, query, mode) is non-trivial when one operator answers True and another False; judged row-wise: p<=Z<=W<=lex (all back-end combinations) and strict p<=c<=W",
        extra=extra,
    )


def _replay_c08(v):
    i = v["input"]
    base = input_base(i)
    q = [tuple(split_text(t)) for t in i["queries"]]
    lo, up = tuple(i["lower"]), tuple(i["upper"])
    _, out = _eval_item((0, base, q, [(lo[0], lo[1], i["weakly"]), (up[0], up[1], i["weakly"])], 0))
    a, b = out[(lo[0], lo[1], i["weakly"])], out[(up[0], up[1], i["weakly"])]
    bad = "ans" in a and "ans" in b and any(x and not y for x, y in zip(a["ans"], b["ans"]))
    return {"violates": bool(bad), "lower": a, "upper": b}


# ---------------------------------------------------------------------------
# C09  direct inference + System P (+ rational monotony for system-z / lex_inf)
# ---------------------------------------------------------------------------
C09_CAPS = dict(ref=5, sc=6, di=16, lle=10, rw=8, and_=8, or_=8, cm=8, cut=10, rm=10, bottom=6)
RATIONAL = ("system-z", "lex_inf")


def _equiv_variants(rng, a, atoms):
    x = rng.choice(atoms) if atoms else "a"
    out = [conj_text(a, "Top"), "!(!(" + a + "))", disj_text(a, "Bottom"), conj_text(a, a), conj_text(a, f"{x};!{x}")]
    f = cl_parse(a)
    if f[0] in ("and", "or"):
        out.append(cl_text((f[0], f[2], f[1])))
    return out


def c09_pool(rng, triples, atoms):
    from oracle.gen import rnd_formula

    focus_conds = rng.sample(list(triples), min(4, len(triples)))
    focus = atoms_in(*[t for _, b, a in focus_conds for t in (b, a)])
    rng.shuffle(focus)
    focus = (focus or list(atoms))[:4] or ["a"]
    As = ["Top"] + [a for _, _, a in focus_conds]
    _, b0, a0 = focus_conds[0]
    As.append(conj_text(a0, _lit(rng, focus)))
    As.append(conj_text(a0, b0))
    As += [rnd_formula(rng, focus, 2, 0.04)[1] for _ in range(2)]
    As += [rng.choice(focus)]
    Cs = [l for a in focus[:3] for l in (a, "!" + a)] + [b for _, b, _ in focus_conds] + [rnd_formula(rng, focus, 2, 0.04)[1] for _ in range(2)]
    As = list(dict.fromkeys(As))
    Cs = list(dict.fromkeys(Cs))
    return As, Cs, focus


def c09_instances(rng, triples, As, Cs, focus, facts, system, weakly, di_ok):
    """instances {"post", "pos", "neg", "concl", "expect"}; facts: {(b,a): bool} answers of round 1"""
    from oracle.gen import rnd_formula

    T = [q for q, v in facts.items() if v]
    F = [q for q, v in facts.items() if not v]
    inst = []

    def add(post, concl, pos=(), neg=(), expect=True, **kw):
        inst.append(dict(post=post, pos=[tuple(p) for p in pos], neg=[tuple(n) for n in neg], concl=tuple(concl), expect=expect, **kw))

    def pick(xs, n):
        xs = list(xs)
        return rng.sample(xs, min(n, len(xs)))

    X = lambda: rnd_formula(rng, focus, 1, 0.04)[1]  # noqa: E731
    for a in pick(As, C09_CAPS["ref"]):
        add("reflexivity", (a, a))
    for a in pick(As, C09_CAPS["sc"] // 3 + 1):
        x = X()
        add("supraclassicality", (disj_text(a, x), a), side=("entails", a, disj_text(a, x)))
        add("supraclassicality", (a, conj_text(a, x)), side=("entails", conj_text(a, x), a))
        add("supraclassicality", ("Top", a), side=("entails", a, "Top"))
    if di_ok:
        for _, b, a in pick(triples, C09_CAPS["di"]):
            add("direct-inference", (b, a))
    for b, a in pick(T, C09_CAPS["lle"] - 3) + pick(F, 3):
        a2 = rng.choice(_equiv_variants(rng, a, focus))
        add("left-logical-equivalence", (b, a2), pos=[(b, a)], side=("equivalent", a, a2))
        add("left-logical-equivalence", (b, a), pos=[(b, a2)], side=("equivalent", a2, a))
    for b, a in pick(T, C09_CAPS["rw"]):
        f = cl_parse(b)
        c = cl_text(f[rng.choice([1, 2])]) if f[0] == "and" and rng.random() < 0.5 else disj_text(b, X())
        add("right-weakening", (c, a), pos=[(b, a)], side=("entails", b, c))
    by_a, by_b = {}, {}
    for b, a in T:
        by_a.setdefault(a, []).append(b)
        by_b.setdefault(b, []).append(a)
    pairs_a = [(a, b, c) for a, bs in by_a.items() for b, c in itertools.permutations(bs, 2)]
    pairs_b = [(c, a1, a2) for c, as_ in by_b.items() for a1, a2 in itertools.combinations(as_, 2)]
    for a, b, c in pick(pairs_a, C09_CAPS["and_"]):
        add("and", (conj_text(b, c), a), pos=[(b, a), (c, a)])
    for c, a1, a2 in pick(pairs_b, C09_CAPS["or_"]):
        add("or", (c, disj_text(a1, a2)), pos=[(c, a1), (c, a2)])
    for a, b, c in pick(pairs_a, C09_CAPS["cm"]):
        add("cautious-monotony", (c, conj_text(a, b)), pos=[(b, a), (c, a)])
    # cut: C both among the consequents known to follow from A and among the others
    cut = [(a, b, c) for a, b, c in pairs_a]
    cut_f = [(a, b, c) for (b, a) in T for (c, a2) in F if a2 == a]
    for a, b, c in pick(cut, C09_CAPS["cut"] // 2) + pick(cut_f, C09_CAPS["cut"] // 2):
        add("cut", (c, a), pos=[(b, a), (c, conj_text(a, b))])
    # purely random triples as well
    for _ in range(3):
        a, b, c = X(), X(), X()
        add("and", (conj_text(b, c), a), pos=[(b, a), (c, a)])
        add("or", (c, disj_text(a, b)), pos=[(c, a), (c, b)])
        add("cautious-monotony", (c, conj_text(a, b)), pos=[(b, a), (c, a)])
        add("cut", (c, a), pos=[(b, a), (c, conj_text(a, b))])
    if system in RATIONAL:
        cand = [(c, a, b) for (c, a) in T for b in Cs + [X()] if b != c]
        for c, a, b in pick(cand, C09_CAPS["rm"]):
            add("rational-monotony", (c, conj_text(a, b)), pos=[(c, a)], neg=[(neg_text(b), a)])
    if not weakly:
        x = rng.choice(focus)
        for a in pick(As, C09_CAPS["bottom"] - 2) + [conj_text(x, "!" + x), conj_text(rng.choice(As), "Bottom")]:
            add("bottom", ("Bottom", a), expect=None, side=("unsat?", a))
    return inst


def c09_check_side(i):
    side = i.get("side")
    if not side:
        return True
    if side[0] == "entails":
        return entails(side[1], side[2])
    if side[0] == "equivalent":
        return equivalent(side[1], side[2])
    return True


def _c09_worker(item):
    cid, base, cfg, seed, timeout = item
    system, pm, weakly = cfg
    sig, conds = load_base(base)
    triples = triples_of(conds)
    out = {"evaluations": 0, "fingerprints": [], "violations": [], "rejected": False, "by_post": {}, "exceptions": 0}
    rng = random.Random(f"c09/{seed}/{cid}")  # same pool for every operator of a base
    As, Cs, focus = c09_pool(rng, triples, sig)
    pool = dedupe([(c, a) for a in As for c in Cs])
    if len(pool) > 56:
        pool = rng.sample(pool, 56)
    r1 = run_cfg(sig, conds, [mkcond(b, a) for b, a in pool], system, pm, weakly, timeout)
    if "refused" in r1:
        out["rejected"] = True
        return out
    inp = dict(base_input(base), base_id=cid, system=system, pmaxsat=pm, weakly=weakly)
    if "exc" in r1:
        out["exceptions"] += 1
        out["violations"].append(dict(module="rel", kind="c09-exception", input=dict(inp, queries=[qtext(q) for q in pool]), expected="an answer", observed=r1["exc"]))
        return out
    facts = {q: a for q, a, t in zip(pool, r1["ans"], r1["to"]) if not t}
    di_ok = True
    if weakly:
        from inference.consistency_sat import consistency

        di_ok = consistency(BeliefBase(list(sig), dict(conds), "rel"), "z3", False)[0] is not False
    inst = c09_instances(rng, triples, As, Cs, focus, facts, system, weakly, di_ok)
    qs = dedupe([q for i in inst for q in i["pos"] + i["neg"] + [i["concl"]]])
    r2 = run_cfg(sig, conds, [mkcond(b, a) for b, a in qs], system, pm, weakly, timeout)
    if "exc" in r2 or "refused" in r2:
        out["exceptions"] += 1
        out["violations"].append(dict(module="rel", kind="c09-exception", input=dict(inp, queries=[qtext(q) for q in qs]), expected="an answer", observed=r2.get("exc", r2.get("refused"))))
        return out
    ans = {q: a for q, a, t in zip(qs, r2["ans"], r2["to"]) if not t}
    small = len(atoms_in(*[t for q in qs for t in q])) <= TT_ATOMS
    for i in inst:
        need = i["pos"] + i["neg"] + [i["concl"]]
        if any(q not in ans for q in need):
            continue
        holds = all(ans[q] for q in i["pos"]) and not any(ans[q] for q in i["neg"])
        out["evaluations"] += 1
        bp = out["by_post"].setdefault(i["post"], [0, 0])
        bp[0] += 1
        if not holds:
            continue
        bp[1] += 1
        out["fingerprints"].append(_h(cid, system, pm, weakly, i["post"], i["pos"], i["neg"], i["concl"]))
        expect = i["expect"]
        if i["post"] == "bottom":
            expect = unsat(i["concl"][1])
        if small and not c09_check_side(i):
            raise RuntimeError(f"rel: C09 side condition does not hold for generated instance {i}")
        if ans[i["concl"]] != expect:
            if not c09_check_side(i):
                raise RuntimeError(f"rel: C09 side condition does not hold for generated instance {i}")
            out["violations"].append(
                dict(
                    module="rel",
                    kind="c09-" + i["post"],
                    input=dict(inp, premises=[qtext(q) for q in i["pos"]], negative_premises=[qtext(q) for q in i["neg"]], conclusion=qtext(i["concl"]), side_condition=list(i.get("side", []))),
                    expected={"conclusion": expect},
                    observed={"premises": [ans[q] for q in i["pos"]], "negative_premises": [ans[q] for q in i["neg"]], "conclusion": ans[i["concl"]]},
                )
            )
    return out


def run_c09(tier, seed):
    cases = corpus("c09", tier, seed)
    items = []
    for c in cases:
        for cfg in all_cfgs():
            items.append((c["id"], c["base"], cfg, seed, c["timeout"]))
    size = {c["id"]: c["size"] for c in cases}
    items.sort(key=lambda it: size[it[0]], reverse=True)
    results = pmap(_c09_worker, items)
    tot = dict(evaluations=0, fingerprints=set(), violations=[], rejected=0)
    by_post, exceptions, per_kind = {}, 0, {}
    for r in results:
        tot["evaluations"] += r["evaluations"]
        tot["fingerprints"].update(r["fingerprints"])
        tot["rejected"] += bool(r["rejected"])
        exceptions += r["exceptions"]
        for v in r["violations"]:
            per_kind[v["kind"]] = per_kind.get(v["kind"], 0) + 1
            if per_kind[v["kind"]] <= 40:
                tot["violations"].append(v)
        for p, (n, h) in r["by_post"].items():
            e = by_post.setdefault(p, [0, 0])
            e[0] += n
            e[1] += h
    tot["samples"] = [dict(base_id=c["id"], conditionals=[f"({b}|{a})" for _, b, a in c["triples"][:5]]) for c in cases[:1] + cases[-2:]]
    tot["scope"] = _scope_text(cases) + "; per base x operator x mode: a pool of <= 56 conditionals (antecedents/consequents taken from the base and random formulas over <= 4 of its atoms) is asked first, then <= ~110 postulate instances built from the inferred ones are asked in one batch"
    tot["rule"] = "an instance is a postulate with concrete formulas; judged: all its queries decided; non-trivial (fingerprint): all premises hold (negative premise of RM: not inferred); side conditions of SC/RW/LLE hold by construction and are re-checked by truth table; RM only for system-z and lex_inf; Bottom only in strict mode; direct inference in extended mode only for strongly consistent bases; c-inference strict only"
    tot["extra"] = {"instances_by_postulate[judged, premises_hold]": by_post, "exceptions": exceptions, "violations_by_kind": per_kind}
    return tot


def _replay_c09(v):
    i = v["input"]
    base = input_base(i)
    if v["kind"] == "c09-exception":
        q = [tuple(split_text(t)) for t in i["queries"]]
        _, out = _eval_item((0, base, q, [(i["system"], i["pmaxsat"], i["weakly"])], 0))
        r = out[(i["system"], i["pmaxsat"], i["weakly"])]
        return {"violates": "exc" in r, "observed": r}
    pos = [tuple(split_text(t)) for t in i["premises"]]
    neg = [tuple(split_text(t)) for t in i["negative_premises"]]
    concl = tuple(split_text(i["conclusion"]))
    qs = dedupe(pos + neg + [concl])
    _, out = _eval_item((0, base, qs, [(i["system"], i["pmaxsat"], i["weakly"])], 0))
    r = out[(i["system"], i["pmaxsat"], i["weakly"])]
    if "ans" not in r:
        return {"violates": False, "observed": r}
    ans = dict(zip(qs, r["ans"]))
    expect = v["expected"]["conclusion"]
    if v["kind"] == "c09-bottom":
        expect = unsat(concl[1])
    side = i.get("side_condition") or []
    side_ok = c09_check_side({"side": tuple(side)}) if side else True
    holds = all(ans[q] for q in pos) and not any(ans[q] for q in neg)
    return {"violates": bool(side_ok and holds and ans[concl] != expect), "answers": {qtext(q): a for q, a in ans.items()}, "side_condition_holds": side_ok}


# ---------------------------------------------------------------------------
# C11  back-end independence
# ---------------------------------------------------------------------------
_PROBE = r"""
import sys, json, warnings
warnings.filterwarnings("ignore")
from pysat.examples.rc2 import RC2
from pysat.formula import WCNF
n = sys.argv[1]
w = WCNF(); w.append([1, 2]); w.append([3, 1]); w.append([-1], weight=1); w.append([-2], weight=1); w.append([-3], weight=1)
try:
    r = RC2(w, solver=n)
except BaseException as e:
    print("STAGE construct-failed " + type(e).__name__ + ": " + str(e)[:120], flush=True); sys.exit(0)
print("STAGE constructed", flush=True)
try:
    m = r.compute(); c1 = r.cost
    r.add_clause([-1]); m2 = r.compute(); c2 = r.cost
    print("STAGE done " + json.dumps([c1, c2]), flush=True)
except BaseException as e:
    print("STAGE compute-failed " + type(e).__name__ + ": " + str(e)[:120], flush=True)
"""


def _probe_engine(name):
    try:
        p = subprocess.run([sys.executable, "-W", "ignore", "-c", _PROBE, name], capture_output=True, text=True, timeout=120)
    except subprocess.TimeoutExpired:
        return name, "defective", "probe timed out"
    stages = [l[6:] for l in p.stdout.splitlines() if l.startswith("STAGE ")]
    if not stages or stages[0].startswith("construct-failed"):
        return name, "unavailable", (stages[0] if stages else f"exit {p.returncode}")
    last = stages[-1]
    if last.startswith("done") and json.loads(last[5:]) == [1, 2]:
        return name, "usable", "ok"
    return name, "defective", (last if last != "constructed" else f"process died (exit {p.returncode}) after construction")


def probe_engines():
    """every pysat SAT engine name -> usable (RC2 constructs and optimises a 3-variable instance correctly),
    defective (RC2 constructs, then wrong optimum / exception / abort), unavailable (RC2 does not construct)"""
    from pysat.solvers import SolverNames

    names = sorted(getattr(SolverNames, a)[0] for a in dir(SolverNames) if not a.startswith("_") and isinstance(getattr(SolverNames, a), tuple))
    res = pmap(_probe_engine, names)
    return {k: [(n, why) for n, cls, why in res if cls == k] for k in ("usable", "defective", "unavailable")}


def _nontrivial_queries(qtexts):
    """indices of queries for which both A,B and A,!B are classically satisfiable"""
    out = set()
    for i, (b, a) in enumerate(qtexts):
        if not unsat(conj_text(a, b)) and not unsat(conj_text(a, neg_text(b))):
            out.add(i)
    return out


def _c11_nontrivial(item):
    ci, qtexts = item
    return ci, sorted(_nontrivial_queries(qtexts))


def c11_cfgs(engines):
    pms = ["rc2", "z3"] + [f"rc2-{e}" for e in engines]
    cfgs = [(s, pm, w) for s in ("system-w", "lex_inf") for w in (False, True) for pm in pms]
    cfgs += [("c-inference", pm, False) for pm in pms if pm != "z3"]
    return cfgs


def run_c11(tier, seed):
    probe = probe_engines()
    usable = [n for n, _ in probe["usable"]]
    defective = [n for n, _ in probe["defective"]]
    cases = [c for c in corpus("c11", tier, seed) if c["qtexts"]]
    rng = random.Random(f"c11/{seed}")
    items = []
    for ci, c in enumerate(cases):
        engines = usable if c["size"] < 45 else sorted(rng.sample(usable, min(5, len(usable))))
        cfgs = c11_cfgs(engines)
        step = 12 if c["size"] < 45 else 2
        for k in range(0, len(cfgs), step):
            items.append(((ci, k), c["base"], c["qtexts"], cfgs[k : k + step], c["timeout"]))
    items.sort(key=lambda it: cases[it[0][0]]["size"], reverse=True)
    per_case = {}
    for (ci, _), out in pmap(_eval_item_guarded, items):
        per_case.setdefault(ci, {}).update(out)
    nontriv = dict(pmap(_c11_nontrivial, [(ci, c["qtexts"]) for ci, c in enumerate(cases)]))
    evaluations, fps, violations, rejected = 0, set(), [], 0
    extra = {"usable_engines": usable, "engines_constructing_but_defective": probe["defective"], "engines_unavailable": probe["unavailable"], "violations_total": 0, "exceptions": 0, "skipped_runs": 0, "disagreeing_backends": {}}
    samples = []
    for ci, res in sorted(per_case.items()):
        c = cases[ci]
        groups = {}
        for (s, pm, w), r in res.items():
            groups.setdefault((s, w), {})[pm] = r
        accepted = False
        for (s, w), g in sorted(groups.items()):
            if all("refused" in r or "skipped" in r for r in g.values()):
                rejected += 1
                continue
            accepted = True
            ref_pm = "rc2"
            ref = g[ref_pm]
            for pm, r in sorted(g.items()):
                if "skipped" in r or "skipped" in ref:
                    extra["skipped_runs"] += 1
                    continue
                evaluations += 1
                if pm == ref_pm:
                    continue
                same = ("ans" in ref and "ans" in r and all(x == y for x, y, t1, t2 in zip(ref["ans"], r["ans"], ref["to"], r["to"]) if not (t1 or t2))) or ("refused" in ref and "refused" in r)
                if same:
                    continue
                extra["violations_total"] += 1
                extra["exceptions"] += "exc" in r or "exc" in ref
                key = f"{s}/{'weakly' if w else 'strict'}: rc2 vs {pm}"
                extra["disagreeing_backends"][key] = extra["disagreeing_backends"].get(key, 0) + 1
                if extra["disagreeing_backends"][key] <= 3:
                    qs, obs = c["qtexts"], {ref_pm: ref, pm: r}
                    if "ans" in ref and "ans" in r:
                        idx = [j for j in range(len(qs)) if ref["ans"][j] != r["ans"][j] and not (ref["to"][j] or r["to"][j])][:3]
                        qs = [qs[j] for j in idx]
                        obs = {ref_pm: [ref["ans"][j] for j in idx], pm: [r["ans"][j] for j in idx]}
                    violations.append(
                        dict(
                            module="rel",
                            kind="c11-backend",
                            input=dict(base_input(c["base"]), base_id=c["id"], queries=[qtext(q) for q in qs], system=s, weakly=w, backends=[ref_pm, pm], engine_class="usable" if pm != "z3" else "z3"),
                            expected="equal answers",
                            observed=obs,
                        )
                    )
        if accepted:
            for qi in nontriv[ci]:
                fps.add((c["id"], qtext(c["qtexts"][qi])))
            if len(samples) < 2:
                samples.append(dict(base_id=c["id"], queries=[qtext(q) for q in c["qtexts"][:4]], answers={f"{s}/{pm}/{'weakly' if w else 'strict'}": r["ans"][:4] for (s, pm, w), r in sorted(res.items())[:8] if "ans" in r}))
    # engines with which RC2 constructs but does not work: a few small bases (strict mode)
    if defective:
        small = [c for c in cases if c["group"] in ("birds", "AO")][:4] or cases[:2]
        ditems = [((si, s, e), c["base"], c["qtexts"], [(s, "rc2", False), (s, f"rc2-{e}", False)], 60) for si, c in enumerate(small) for e in defective for s in ("system-w", "lex_inf", "c-inference")]
        for (si, s, e), out in pmap(_eval_item_guarded, ditems):
            c = small[si]
            ref, r = out[(s, "rc2", False)], out[(s, f"rc2-{e}", False)]
            if "refused" in ref or "skipped" in ref or "skipped" in r:
                continue
            evaluations += 1
            if "ans" in ref and "ans" in r and ref["ans"] == r["ans"]:
                continue
            extra["violations_total"] += 1
            key = f"{s}/strict: rc2 vs rc2-{e} (RC2 constructs with {e} but the engine is defective under RC2)"
            extra["disagreeing_backends"][key] = extra["disagreeing_backends"].get(key, 0) + 1
            if extra["disagreeing_backends"][key] <= 1:
                violations.append(
                    dict(
                        module="rel",
                        kind="c11-backend",
                        input=dict(base_input(c["base"]), base_id=c["id"], queries=[qtext(q) for q in c["qtexts"]], system=s, weakly=False, backends=["rc2", f"rc2-{e}"], engine_class="constructs-but-defective"),
                        expected="equal answers",
                        observed={"rc2": ref, f"rc2-{e}": r},
                    )
                )
    return dict(
        evaluations=evaluations,
        fingerprints=fps,
        violations=violations,
        samples=samples,
        rejected=rejected,
        scope=_scope_text(cases) + f"; system-w and lex_inf (strict, extended) under rc2, z3 and rc2-<e> for the {len(usable)} usable engines, c-inference (strict) under rc2 and every rc2-<e>; bases of size >= 45 with 5 sampled engines; engines with which RC2 constructs but fails a 3-variable optimisation ({', '.join(defective) or 'none'}) on a few small bases (every configuration runs in a forked child, so an engine that aborts the interpreter is recorded, not fatal)",
        rule="one answer vector per (base, query batch, operator, mode, back-end); judged against the vector of the default back-end rc2 on the rows decided by both; a case (base, query) is non-trivial when both A,B and A,!B are satisfiable, i.e. the operator cannot answer without its optimisation back-end",
        extra=extra,
    )


def _replay_c11(v):
    i = v["input"]
    base = input_base(i)
    q = [tuple(split_text(t)) for t in i["queries"]]
    cfgs = [(i["system"], pm, i["weakly"]) for pm in i["backends"]]
    # some engine failures (e.g. KeyError inside pysat's RC2.get_core under rc2-mcb) depend on the process state:
    # up to three attempts, the case violates if one of them disagrees
    for attempt in range(1, 4):
        _, out = _eval_item_guarded((0, base, q, cfgs, 0))
        a, b = out[cfgs[0]], out[cfgs[1]]
        if "ans" in a and "ans" in b:
            bad = any(x != y for x, y, t1, t2 in zip(a["ans"], b["ans"], a["to"], b["to"]) if not (t1 or t2))
        else:
            bad = not (("refused" in a and "refused" in b) or "skipped" in a or "skipped" in b)
        if bad:
            break
    return {"violates": bool(bad), "attempts": attempt, i["backends"][0]: a, i["backends"][1]: b}


# ---------------------------------------------------------------------------
# C12  presentation independence
# ---------------------------------------------------------------------------
REKEY = ["rekey-zero-based", "rekey-sparse", "rekey-permuted", "rekey-negative", "rekey-large"]
REORDER = ["reorder-reverse", "reorder-shuffle"]
RENAME = ["rename-fresh", "rename-internal-like", "rename-permute", "signature-reorder", "signature-extend"]
REWRITE = ["rewrite-and-top", "rewrite-double-negation", "rewrite-commute", "rewrite-conseq-and-ante", "rewrite-conseq-or-not-ante", "rewrite-distribute", "rewrite-tautological-conjunct", "rewrite-de-morgan"]
VARIANTS = REKEY + REORDER + RENAME + REWRITE
INTERNAL_LIKE = ["eta", "mv", "mf", "gamma", "eta1", "mv2", "mf3", "x1", "pool", "etaX", "gammaplus", "x_1", "mv-1", "Eta", "kappa", "nf"]


def _commute(f):
    if f[0] in ("and", "or"):
        return (f[0], _commute(f[2]), _commute(f[1]))
    if f[0] == "not":
        return ("not", _commute(f[1]))
    return f


def _distribute(f):
    """first applicable distribution step, None if there is none"""
    k = f[0]
    if k in ("and", "or"):
        dual = "or" if k == "and" else "and"
        l, r = f[1], f[2]
        if r[0] == dual:
            return (dual, (k, l, r[1]), (k, l, r[2]))
        if l[0] == dual:
            return (dual, (k, l[1], r), (k, l[2], r))
        for idx in (1, 2):
            sub = _distribute(f[idx])
            if sub is not None:
                return (k, sub, f[2]) if idx == 1 else (k, f[1], sub)
    if k == "not":
        sub = _distribute(f[1])
        if sub is not None:
            return ("not", sub)
    return None


def _demorgan(f):
    k = f[0]
    if k in ("and", "or"):
        dual = "or" if k == "and" else "and"
        return ("not", (dual, ("not", f[1]), ("not", f[2])))
    if k == "not":
        sub = _demorgan(f[1])
        return None if sub is None else ("not", sub)
    return None


def rewrite_formula(kind, t, x):
    """an equivalent formula text; x an atom name for tautologies"""
    f = cl_parse(t)
    taut = ("or", ("var", x), ("not", ("var", x)))
    if kind == "rewrite-and-top":
        return cl_text(("and", f, ("top",)))
    if kind == "rewrite-double-negation":
        return cl_text(("not", ("not", f)))
    if kind == "rewrite-commute":
        return cl_text(_commute(f))
    if kind == "rewrite-tautological-conjunct":
        return cl_text(("and", f, taut))
    if kind == "rewrite-distribute":
        g = _distribute(f)
        if g is None:  # (f,(x;!x)) distributed
            g = ("or", ("and", f, ("var", x)), ("and", f, ("not", ("var", x))))
        return cl_text(g)
    if kind == "rewrite-de-morgan":
        g = _demorgan(f)
        if g is None:
            g = ("not", ("or", ("not", f), ("bot",)))
        return cl_text(g)
    raise ValueError(kind)


def rewrite_conditional(kind, b, a, x, rng):
    if kind == "rewrite-conseq-and-ante":
        return conj_text(b, a), a
    if kind == "rewrite-conseq-or-not-ante":
        return disj_text(b, neg_text(a)), a
    which = rng.choice(["a", "b", "ab"])
    b2 = rewrite_formula(kind, b, x) if "b" in which else b
    a2 = rewrite_formula(kind, a, x) if "a" in which else a
    return b2, a2


def make_variant(kind, sig, triples, qtexts, rng):
    """-> (sig', triples', qtexts', detail); pure text manipulation"""
    sig, triples, qtexts = list(sig), [tuple(t) for t in triples], [tuple(q) for q in qtexts]
    n = len(triples)
    detail = {}
    if kind in REKEY:
        if kind == "rekey-zero-based":
            keys = list(range(n))
        elif kind == "rekey-sparse":
            keys, k = [], 5
            for _ in range(n):
                keys.append(k)
                k += rng.randint(2, 6)
        elif kind == "rekey-permuted":
            keys = [k for k, _, _ in triples]
            if n > 1:
                while keys == [k for k, _, _ in triples]:
                    rng.shuffle(keys)
        elif kind == "rekey-negative":
            keys = list(range(-2, n - 2))
        else:
            keys = [10 ** 6 + 7 * i for i in range(n)]
            rng.shuffle(keys)
        triples = [(k, b, a) for k, (_, b, a) in zip(keys, triples)]
        detail["keys"] = keys
    elif kind == "reorder-reverse":
        triples = triples[::-1]
    elif kind == "reorder-shuffle":
        rng.shuffle(triples)
    elif kind in ("rename-fresh", "rename-internal-like", "rename-permute"):
        atoms = list(dict.fromkeys(sig + atoms_in(*[t for _, b, a in triples for t in (b, a)], *[t for q in qtexts for t in q])))
        if kind == "rename-fresh":
            new = [f"x{i + 1}" for i in range(len(atoms))]
        elif kind == "rename-internal-like":
            new = [INTERNAL_LIKE[i] if i < len(INTERNAL_LIKE) else f"eta{i}" for i in range(len(atoms))]
            rng.shuffle(new)
        else:
            new = atoms[1:] + atoms[:1]
        mp = dict(zip(atoms, new))
        sig = [mp[a] for a in sig]
        triples = [(k, rename_text(b, mp), rename_text(a, mp)) for k, b, a in triples]
        qtexts = [(rename_text(b, mp), rename_text(a, mp)) for b, a in qtexts]
        detail["renaming"] = mp
    elif kind == "signature-reorder":
        old = list(sig)
        if len(sig) > 1:
            while sig == old:
                rng.shuffle(sig)
    elif kind == "signature-extend":
        sig = ["zz1"] + sig + ["unused2", "zz3"]
    elif kind in REWRITE:
        scope = rng.choice(["base", "query", "both"])
        atoms = sig or ["a"]
        detail["scope"] = scope
        if scope in ("base", "both"):
            triples = [(k,) + rewrite_conditional(kind, b, a, rng.choice(atoms), rng) for k, b, a in triples]
        if scope in ("query", "both"):
            qtexts = [rewrite_conditional(kind, b, a, rng.choice(atoms), rng) for b, a in qtexts]
    else:
        raise ValueError(kind)
    return tuple(sig), tuple(triples), qtexts, detail


def _c12_worker(item):
    cid, base, qtexts, kinds, cfg, seed, timeout = item
    system, pm, weakly = cfg
    sig, conds = load_base(base)
    triples = triples_of(conds)
    out = {"evaluations": 0, "fingerprints": [], "violations": [], "rejected": False, "exceptions": 0}
    queries = [mkcond(b, a) for b, a in qtexts]
    ref = run_cfg(sig, conds, queries, system, pm, weakly, timeout)
    if "refused" in ref:
        out["rejected"] = True
    for kind in kinds:
        rng = random.Random(f"c12/{seed}/{cid}/{kind}")  # same variant for every operator
        sig2, tr2, q2, detail = make_variant(kind, sig, triples, qtexts, rng)
        if kind in REWRITE:  # side condition: same verification / falsification sets
            olds = {k: (b, a) for k, b, a in triples}
            for k, b, a in tr2:
                if (b, a) != olds[k] and not same_ver_fal(olds[k], (b, a)):
                    raise RuntimeError(f"rel: C12 rewrite {kind} changed the meaning of {olds[k]} -> {(b, a)}")
            for o, nq in zip(qtexts, q2):
                if tuple(o) != tuple(nq) and not same_ver_fal(o, nq):
                    raise RuntimeError(f"rel: C12 rewrite {kind} changed the meaning of {o} -> {nq}")
        if len(dedupe(q2)) != len(q2):
            continue
        _, conds2 = load_base(("text", sig2, tr2))
        got = run_cfg(sig2, conds2, [mkcond(b, a) for b, a in q2], system, pm, weakly, timeout)
        out["evaluations"] += 1
        if "ans" in ref:
            out["fingerprints"].append((cid, kind))
        if "refused" in ref and "refused" in got:
            continue
        same = "ans" in ref and "ans" in got and all(x == y for x, y, t1, t2 in zip(ref["ans"], got["ans"], ref["to"], got["to"]) if not (t1 or t2))
        if "exc" in ref and "exc" in got:
            out["exceptions"] += 1
            same = True
        if same:
            continue
        idx = list(range(len(qtexts)))
        if "ans" in ref and "ans" in got:
            idx = [j for j in idx if ref["ans"][j] != got["ans"][j] and not (ref["to"][j] or got["to"][j])][:3]
        out["violations"].append(
            dict(
                module="rel",
                kind="c12-" + kind,
                input=dict(
                    base_id=cid,
                    system=system,
                    pmaxsat=pm,
                    weakly=weakly,
                    original=dict(base_input(("text", tuple(sig), tuple(triples))), queries=[qtext(qtexts[j]) for j in idx]),
                    variant=dict(base_input(("text", sig2, tr2)), queries=[qtext(q2[j]) for j in idx]),
                    detail=detail,
                ),
                expected={"original": [ref["ans"][j] for j in idx] if "ans" in ref else ref},
                observed={"variant": [got["ans"][j] for j in idx] if "ans" in got else got},
            )
        )
    return out


C12_KINDS_PER_BASE = {"quick": 7, "thorough": len(VARIANTS)}


def run_c12(tier, seed):
    cases = [c for c in corpus("c12", tier, seed) if c["qtexts"]]
    rng = random.Random(f"c12/{seed}")
    items = []
    for c in cases:
        k = C12_KINDS_PER_BASE[tier] if c["size"] < 45 else min(5, C12_KINDS_PER_BASE[tier])
        if k >= len(VARIANTS):
            kinds = list(VARIANTS)
        else:  # at least one of each family
            kinds = [rng.choice(REKEY), rng.choice(REORDER), rng.choice(RENAME), rng.choice(REWRITE)]
            rest = [v for v in VARIANTS if v not in kinds]
            kinds += rng.sample(rest, max(0, k - len(kinds)))
        for cfg in all_cfgs():
            items.append((c["id"], c["base"], c["qtexts"], kinds, cfg, seed, c["timeout"]))
    size = {c["id"]: c["size"] for c in cases}
    items.sort(key=lambda it: size[it[0]], reverse=True)
    results = pmap(_c12_worker, items)
    tot = dict(evaluations=0, fingerprints=set(), violations=[], rejected=0)
    per_kind, exceptions = {}, 0
    for r in results:
        tot["evaluations"] += r["evaluations"]
        tot["fingerprints"].update(r["fingerprints"])
        tot["rejected"] += bool(r["rejected"])
        exceptions += r["exceptions"]
        for v in r["violations"]:
            key = f"{v['kind']} {v['input']['system']}/{v['input']['pmaxsat']}/{'weakly' if v['input']['weakly'] else 'strict'}"
            per_kind[key] = per_kind.get(key, 0) + 1
            if per_kind[key] <= 3:
                tot["violations"].append(v)
    c0 = cases[0]
    sv = make_variant("rewrite-de-morgan", c0["sig"], c0["triples"], c0["qtexts"][:2], random.Random(0))
    tot["samples"] = [dict(base_id=c0["id"], kind="rewrite-de-morgan", original=base_input(("text", c0["sig"], c0["triples"])), variant=base_input(("text", sv[0], sv[1])), variant_queries=[qtext(q) for q in sv[2]])]
    tot["scope"] = _scope_text(cases) + f"; variant kinds {VARIANTS}; every operator x back-end (rc2, z3) x mode; {C12_KINDS_PER_BASE[tier]} kinds per base (5 for bases of size >= 45)"
    tot["rule"] = "a variant is a re-presentation of (base, queries) built on CL text; rewrites are re-checked to keep verification and falsification sets (truth table / pysmt validity); judged: answer vector of the variant == answer vector of the original (refusal == refusal); a case is (base, variant kind)"
    tot["extra"] = {"violations_by_kind_and_operator": per_kind, "both_raise": exceptions}
    return tot


def _replay_c12(v):
    i = v["input"]
    cfg = (i["system"], i["pmaxsat"], i["weakly"])
    res = []
    for side in ("original", "variant"):
        base = input_base(i[side])
        q = [tuple(split_text(t)) for t in i[side]["queries"]]
        _, out = _eval_item((0, base, q, [cfg], 0))
        res.append(out[cfg])
    a, b = res
    if "ans" in a and "ans" in b:
        bad = a["ans"] != b["ans"]
    else:
        bad = not (("refused" in a and "refused" in b) or ("exc" in a and "exc" in b))
    return {"violates": bool(bad), "original": a, "variant": b}


# ---------------------------------------------------------------------------
def replay(v):
    kind = v.get("kind", "")
    if kind == "c08-inclusion":
        return _replay_c08(v)
    if kind == "c08-exception":
        i = v["input"]
        cfg = (i["system"], i["pmaxsat"], i["weakly"])
        _, out = _eval_item((0, input_base(i), [tuple(split_text(t)) for t in i["queries"]], [cfg], 0))
        return {"violates": "exc" in out[cfg], "observed": out[cfg]}
    if kind.startswith("c09-"):
        return _replay_c09(v)
    if kind == "c11-backend":
        return _replay_c11(v)
    if kind.startswith("c12-"):
        return _replay_c12(v)
    return {"violates": False, "note": f"rel: unknown kind {kind!r}"}
