"""dispatch stored Engine B counterexamples back to the module that produced them"""
import importlib


def rerun(v):
    mod = v.get("module")
    if not mod:
        return {"violates": False, "note": "no replayer recorded for this violation"}
    m = importlib.import_module(f"bounded.{mod}")
    return m.replay(v)
