"""Contracts: inference/c_inference.py -- the constraint system of c-inference (C05, C12, C17).

Specification vocabulary (written from the definition in the cited papers, not from the code):
for an assignment s of integers to symbol names, a list of key lists LL ("correction sets") and
an integer m

    SumEta(l, s)       = sum of asg(s, "eta_<k>") over the keys k of l
    IsMinSum(m, LL, s) = m <= SumEta(l, s) for every l in LL,  m >= SumEta(l, s) for some l in LL

and the constraint system of a base with keys K, verification sets vMin and falsification sets fMin

    BaseCSP(K, vMin, fMin, s) = for every k in K:  eta_k >= 0  and, unless fMin[k] is empty,
                                  mv_k = min vMin[k]-sums, mf_k = min fMin[k]-sums, eta_k > mv_k - mf_k

The auxiliary symbols mv_k / mf_k are NAMED in the specification ("mv_<k>", "mf_<k>", and
"mv_query" / "mf_query" for the query); eliminating them (they are defined by equations) gives
the constraint system of the papers.  What Engine P proves is that the lists of pysmt constraints
the real code builds hold under s exactly when the specification does, for every s, for bases with
arbitrary distinct integer keys -- and therefore that `_inference` answers "not satisfiable".
"""
import z3

from pyvc import iterm as IT
from pyvc import logic as L
from pyvc.contract import Contract, LoopSpec
from pyvc.iterm import Asg, HoldAll, IsMinOf, LIForm, LITerm, asg, iv
from pyvc.logic import Forall, LInt, LLInt
from pyvc.values import *  # noqa

EtaName = IT.fstr_fun("eta_{}", [L.Int])
MvName = IT.fstr_fun("mv_{}", [L.Int])
MfName = IT.fstr_fun("mf_{}", [L.Int])
MvQ = IT.fstr_fun("mv_{}", [StrSort])
MfQ = IT.fstr_fun("mf_{}", [StrSort])

SumEta = IT.named_sum("Eta", EtaName)


def sum_eta(l, s):
    return SumEta(l, s, LInt.len(l))


AllLESum, _ = IT.defpred_all("AllLESum", [L.Int, LLInt.sort, Asg], lambda x: LLInt.len(x[1]), lambda x, k: x[0] <= sum_eta(LLInt.at(x[1], k), x[2]), lambda x, k: LLInt.at(x[1], k))
SomeGESum, _ = IT.defpred_some("SomeGESum", [L.Int, LLInt.sort, Asg], lambda x: LLInt.len(x[1]), lambda x, k: x[0] >= sum_eta(LLInt.at(x[1], k), x[2]), lambda x, k: LLInt.at(x[1], k))


def IsMinSum(m, LL, s):
    return z3.And(AllLESum(m, LL, s), SomeGESum(m, LL, s))


# SumsOK(R, LL): R is the list of sum terms of the key lists LL, position by position
SumsOK = z3.Function("SumsOK", LITerm.sort, LLInt.sort, L.Bool)
_sow_j = z3.Function("SumsOK!wj", LITerm.sort, LLInt.sort, L.Int)
_sow_s = z3.Function("SumsOK!ws", LITerm.sort, LLInt.sort, Asg)
_R = z3.Const("_so_R", LITerm.sort)
_LL = z3.Const("_so_LL", LLInt.sort)
_j = z3.Int("_so_j")
_s = z3.Const("_so_s", Asg)
L.TH.axiom([_R, _LL], SumsOK(_R, _LL), z3.Implies(SumsOK(_R, _LL), LITerm.len(_R) == LLInt.len(_LL)), "SumsOK.len")
L.TH.axiom(
    [_R, _LL, _j, _s],
    [SumsOK(_R, _LL), iv(LITerm.at(_R, _j), _s)],
    z3.Implies(z3.And(SumsOK(_R, _LL), 0 <= _j, _j < LITerm.len(_R)), iv(LITerm.at(_R, _j), _s) == sum_eta(LLInt.at(_LL, _j), _s)),
    "SumsOK.elim",
)
L.TH.axiom(
    [_R, _LL, _j, _s],
    [SumsOK(_R, _LL), sum_eta(LLInt.at(_LL, _j), _s)],
    z3.Implies(z3.And(SumsOK(_R, _LL), 0 <= _j, _j < LITerm.len(_R)), iv(LITerm.at(_R, _j), _s) == sum_eta(LLInt.at(_LL, _j), _s)),
    "SumsOK.elim2",
)
_wj, _ws = _sow_j(_R, _LL), _sow_s(_R, _LL)
L.TH.axiom(
    [_R, _LL],
    SumsOK(_R, _LL),
    z3.Implies(
        z3.Not(SumsOK(_R, _LL)),
        z3.Or(LITerm.len(_R) != LLInt.len(_LL), z3.And(0 <= _wj, _wj < LITerm.len(_R), iv(LITerm.at(_R, _wj), _ws) != sum_eta(LLInt.at(_LL, _wj), _ws))),
    ),
    "SumsOK.intro",
)

DictLL = TDict(TList(TList(TInt)))
DictLT = TDict(TList(TITerm))


# --- freshVars ------------------------------------------------------------------------------
Contract(
    "inference.c_inference:freshVars",
    params={"i": TInt},
    ensures=lambda c, r: [r.items[0].t == IT.i_sym(MvName(c.i.t)), r.items[1].t == IT.i_sym(MfName(c.i.t))],
    inline=True,
    properties=["C05", "C19"],
    note="callers execute the body in place (it is called with an int key and with the string 'query')",
)


# --- minima_encoding ------------------------------------------------------------------------
def _minenc_post(c, r):
    s = z3.Const("_me_s", Asg)
    return [Forall([s], [HoldAll(r.t, s)], HoldAll(r.t, s) == IsMinOf(iv(c.mv.t, s), c.ssums.t, s), "minima_encoding.meaning")]


Contract(
    "inference.c_inference:minima_encoding",
    params={"mv": TITerm, "ssums": TList(TITerm)},
    returns=TList(TIForm),
    ensures=_minenc_post,
    properties=["C05", "C19", "C17"],
    fuel=7,
)


# --- makeSummation --------------------------------------------------------------------------
def _ms_outer(s, j, pre):
    m = s.minima
    p = z3.Int("_ms_p")
    out = [LInt.len(s.results.keys) == j] if isinstance(s.results, VDict) else [j == 0]
    if isinstance(s.results, VDict):
        r = s.results
        out += [
            Forall([p], [LInt.at(r.keys, p)], z3.Implies(z3.And(0 <= p, p < j), LInt.at(r.keys, p) == LInt.at(m.keys, p)), "ms.keys.prefix"),
            Forall([p], [LInt.at(m.keys, p)], z3.Implies(z3.And(0 <= p, p < j), SumsOK(z3.Select(r.val, LInt.at(m.keys, p)), z3.Select(m.val, LInt.at(m.keys, p)))), "ms.sums"),
        ]
    return out


def _ms_inner(s, j, pre):
    if not isinstance(s.interim, VList):
        return [j == 0]
    q = z3.Int("_ms_q")
    a = z3.Const("_ms_s", Asg)
    R = s.interim.t
    return [
        LITerm.len(R) == j,
        Forall([q, a], [iv(LITerm.at(R, q), a)], z3.Implies(z3.And(0 <= q, q < j), iv(LITerm.at(R, q), a) == sum_eta(LLInt.at(s.summ.t, q), a)), "ms.interim"),
    ]


def _ms_post(c, r):
    m = c.minima
    k = z3.Int("_ms_k")
    return [
        r.keys == m.keys,
        Forall([k], [L.mem_Int(m.keys, k)], z3.Implies(L.mem_Int(m.keys, k), SumsOK(z3.Select(r.val, k), z3.Select(m.val, k))), "makeSummation.sums"),
    ]


Contract(
    "inference.c_inference:makeSummation",
    params={"minima": DictLL},
    returns=DictLT,
    locals={"results": DictLT, "interim": TList(TITerm)},
    ensures=_ms_post,
    hints=lambda c, r: [LInt.ext_facts(r.keys, c.minima.keys)],
    loops={0: LoopSpec("for (index, summ) in minima.items()", _ms_outer), 1: LoopSpec("for subsum in summ", _ms_inner)},
    properties=["C05", "C17"],
    fuel=6,
)


# --- CInference.encoding -------------------------------------------------------------------
from contracts.c_consistency_sat import BeliefBaseT  # noqa: E402
from contracts.c_inference import DeadlineT, ES_COMMON  # noqa: E402

AT = z3.ArraySort(L.Int, IT.ITerm)
ALT = z3.ArraySort(L.Int, LITerm.sort)
ALL = z3.ArraySort(L.Int, LLInt.sort)


def _enc_body(k, etas, vS, fS, a):
    """conditional k contributes nothing if it has no falsification sum; otherwise its mv / mf
    symbols are the minima of its sums and its impact exceeds their difference"""
    mv, mf = asg(a, MvName(k)), asg(a, MfName(k))
    return z3.Implies(
        LITerm.len(z3.Select(fS, k)) > 0,
        z3.And(IsMinOf(mv, z3.Select(vS, k), a), IsMinOf(mf, z3.Select(fS, k), a), iv(z3.Select(etas, k), a) > mv - mf),
    )


# EncAll(keys, etas, vSums, fSums, a, n): the body holds for the first n keys
EncAll, _ = IT.defpred_all(
    "EncAll",
    [LInt.sort, AT, ALT, ALT, Asg, L.Int],
    lambda x: x[5],
    lambda x, p: _enc_body(LInt.at(x[0], p), x[1], x[2], x[3], x[4]),
    lambda x, p: LInt.at(x[0], p),
)


def _base_body(k, vM, fM, a):
    mv, mf = asg(a, MvName(k)), asg(a, MfName(k))
    return z3.And(
        asg(a, EtaName(k)) >= 0,
        z3.Implies(
            LLInt.len(z3.Select(fM, k)) > 0,
            z3.And(IsMinSum(mv, z3.Select(vM, k), a), IsMinSum(mf, z3.Select(fM, k), a), asg(a, EtaName(k)) > mv - mf),
        ),
    )


# BaseCSP(keys, vMin, fMin, a): the constraint system of the base (module docstring)
BaseCSP, _ = IT.defpred_all(
    "BaseCSP",
    [LInt.sort, ALL, ALL, Asg],
    lambda x: LInt.len(x[0]),
    lambda x, p: _base_body(LInt.at(x[0], p), x[1], x[2], x[3]),
    lambda x, p: LInt.at(x[0], p),
)

ES_CINF = dict(ES_COMMON)
ES_CINF.update({"vMin": DictLL, "fMin": DictLL})
CINF = TObj("CInference", {"epistemic_state": TRec(ES_CINF), "base_csp": TList(TIForm)})


def _keys_in(keys, others, name):
    """every key of the key list `keys` is a key of each dict in `others` (by position)"""
    p = z3.Int("_ki_" + name)
    return Forall([p], [LInt.at(keys, p)], z3.Implies(z3.And(0 <= p, p < LInt.len(keys)), z3.And(*[L.mem_Int(o, LInt.at(keys, p)) for o in others])), "keys.in." + name)


def _enc_pre(c):
    return [_keys_in(c.etas.keys, [c.vSums.keys, c.fSums.keys], "enc")]


def _enc_inv(s, j, pre):
    a = z3.Const("_enc_a", Asg)
    csp = s.csp.t if isinstance(s.csp, VList) else LIForm.nil
    return [Forall([a], [HoldAll(csp, a)], HoldAll(csp, a) == EncAll(s.etas.keys, s.etas.val, s.vSums.val, s.fSums.val, a, j), "encoding.inv")]


def _enc_post(c, r):
    a = z3.Const("_enc_a2", Asg)
    return [Forall([a], [HoldAll(r.t, a)], HoldAll(r.t, a) == EncAll(c.etas.keys, c.etas.val, c.vSums.val, c.fSums.val, a, LInt.len(c.etas.keys)), "encoding.meaning")]


Contract(
    "inference.c_inference:CInference.encoding",
    params={"self": CINF, "etas": TDict(TITerm), "vSums": DictLT, "fSums": DictLT},
    returns=TList(TIForm),
    locals={"csp": TList(TIForm)},
    requires=_enc_pre,
    ensures=_enc_post,
    loops={0: LoopSpec("for (index, eta) in etas.items()", _enc_inv)},
    properties=["C05", "C12", "C17"],
    fuel=7,
)


# --- CInference.translate ------------------------------------------------------------------
def _conds(c):
    return c.field(c.es("belief_base"), "conditionals")


def _tr_pre(c):
    return [_keys_in(_conds(c).keys, [c.es("vMin").keys, c.es("fMin").keys], "tr")]


def _tr_inv(s, j, pre):
    d = _conds(s)
    p = z3.Int("_tr_p")
    if not isinstance(s._st.env.get("_dc"), VDict):
        return [j == 0]
    e = s._st.env["_dc"]
    pre_ = z3.And(0 <= p, p < j)
    return [
        LInt.len(e.keys) == j,
        L.LForall([p], [LInt.at(e.keys, p)], z3.Implies(pre_, LInt.at(e.keys, p) == LInt.at(d.keys, p)), "tr.keys.prefix"),
        L.LForall([p], [LInt.at(d.keys, p)], z3.Implies(pre_, LInt.at(e.keys, p) == LInt.at(d.keys, p)), "tr.keys.prefix2"),
        L.LForall([p], [LInt.at(d.keys, p)], z3.Implies(pre_, z3.Select(e.val, LInt.at(d.keys, p)) == IT.i_sym(EtaName(LInt.at(d.keys, p)))), "tr.eta"),
    ]


def _tr_post(c, r):
    d = _conds(c)
    a = z3.Const("_tr_a", Asg)
    return IT.iff2([a], HoldAll(r.t, a), BaseCSP(d.keys, c.es("vMin").val, c.es("fMin").val, a), "translate.meaning")


Contract(
    "inference.c_inference:CInference.translate",
    params={"self": CINF},
    returns=TList(TIForm),
    locals={"_dc": TDict(TITerm)},
    requires=_tr_pre,
    ensures=_tr_post,
    loops={0: LoopSpec("{... for i in self.epistemic_state['belief_base'].conditionals}", _tr_inv)},
    hints=lambda c, r: [LInt.ext_facts(c.eta.keys, _conds(c).keys)],
    properties=["C05", "C12", "C17"],
    fuel=8,
)


# =============================================================================================
# the MaxSAT side: compile_constraint / compile_and_encode_query / _inference / _preprocess
# (the enumeration of minimal correction sets and the CNFs are the ASSUMED contracts of
#  contracts/c_rc2backends.py: MCS, query_to_cnf, belief_base_to_cnf)
# =============================================================================================
from contracts import c_rc2backends as RC  # noqa: E402
from pyvc import lib  # noqa: E402
from pyvc.lib import Den, DcP, TClause  # noqa: E402

ES_CINF.update({"nf_cnf_dict": RC.CnfDictT, "f_cnf_dict": RC.CnfDictT, "v_cnf_dict": RC.CnfDictT, "base_csp": TList(TIForm)})
_RAISES = {
    "TimeoutError": lambda c: z3.BoolVal(True),
    "ValueError": lambda c: z3.Not(lib.StartsWith(c.es("pmaxsat_solver").t, VStr(const="rc2").t)),
}


def _one(k):
    return LInt.snoc(LInt.nil, k)


def RepMCS(LL, H, val, ignore):
    """the key lists LL represent the minimal correction sets over the worlds H (not counting `ignore`)"""
    return z3.And(RC.FamOfLL(LL) == RC.MinFamK(H, val, RC.NotIgnored(ignore)), (LLInt.len(LL) == 0) == L.isempty(H))


def inv_cnf(c):
    """ASSUMED Inv_es (C15): every base key has verification / falsification / non-falsification
    clause lists denoting ver / fal / nf of its conditional"""
    d = _conds(c)
    v, f, nf = c.es("v_cnf_dict"), c.es("f_cnf_dict"), c.es("nf_cnf_dict")
    p = z3.Int("_ic_p")
    k = LInt.at(d.keys, p)
    return Forall(
        [p],
        [LInt.at(d.keys, p)],
        z3.Implies(
            z3.And(0 <= p, p < LInt.len(d.keys)),
            z3.And(
                L.mem_Int(v.keys, k),
                L.mem_Int(f.keys, k),
                L.mem_Int(nf.keys, k),
                Den(z3.Select(v.val, k)) == L.ver(z3.Select(d.val, k)),
                Den(z3.Select(f.val, k)) == L.fal(z3.Select(d.val, k)),
                Den(z3.Select(nf.val, k)) == L.nf(z3.Select(d.val, k)),
            ),
        ),
        "Inv_es.cnf3",
    )


def _compiled(c, which, cnf, upto=None, keys=None):
    """for the first `upto` keys of the clause dictionary `cnf`: es[which][k] represents the minimal
    correction sets over the worlds of cnf[k], conditional k itself not counted"""
    m = c.es(which)
    keys = cnf.keys if keys is None else keys
    p = z3.Int("_cc_p_" + which)
    k = LInt.at(keys, p)
    n = LInt.len(keys) if upto is None else upto
    return Forall(
        [p],
        [LInt.at(keys, p)],
        z3.Implies(z3.And(0 <= p, p < n), z3.And(L.mem_Int(m.keys, k), RepMCS(z3.Select(m.val, k), Den(z3.Select(cnf.val, k)), _conds(c).val, _one(k)))),
        "compiled." + which,
    )


def _same_dict(a, b):
    return z3.And(a.keys == b.keys, a.val == b.val)


def _soft_items(s, j, pre, skip=None):
    """the clauses of the first j keys of nf_cnf_dict (but `skip`) are soft clauses of wcnf"""
    nf = s.es("nf_cnf_dict")
    soft = s.soft(s.wcnf)
    p = z3.Int("_si_p")
    k = LInt.at(nf.keys, p)
    cond = z3.And(0 <= p, p < j) if skip is None else z3.And(0 <= p, p < j, k != skip)
    return [z3.IsSubset(pre.soft(pre.wcnf), soft), Forall([p], [LInt.at(nf.keys, p)], z3.Implies(cond, RC.key_soft(soft, z3.Select(nf.val, k))), "soft.items")]


def _soft_one(s, j, pre):
    soft = s.soft(s.wcnf)
    return [z3.IsSubset(pre.soft(pre.wcnf), soft), RC.KeySoftN(soft, s.softc.t, j)]


def _cc_inv_items(s, j, pre):
    lead = s.leading_conditional
    first = lead is s.es("v_cnf_dict")
    mine, other = ("vMin", "fMin") if first else ("fMin", "vMin")
    return [_compiled(s, mine, lead, upto=j), _same_dict(s.es(other), pre.es(other))]


def _cc_post(c, r):
    return [_compiled(c, "vMin", c.es("v_cnf_dict")), _compiled(c, "fMin", c.es("f_cnf_dict"))]


Contract(
    "inference.c_inference:CInference.compile_constraint",
    params={"self": CINF, "deadline": DeadlineT},
    defaults={"deadline": lambda ex: VNone()},
    returns=TFloat,
    ensures=_cc_post,
    raises=_RAISES,
    modifies=["self.epistemic_state.vMin", "self.epistemic_state.fMin"],
    loops={
        1: LoopSpec("for (i, conditional) in leading_conditional.items()", _cc_inv_items),
        2: LoopSpec("[... for c in conditional]", lambda s, j, pre: [s.A(s.wcnf) == DcP(s.conditional.t, j), s.soft(s.wcnf) == pre.soft(pre.wcnf)]),
        3: LoopSpec("[... for (j, softc) in self.epistemic_state['nf_cnf_dict'].items()]", lambda s, j, pre: [s.A(s.wcnf) == pre.A(pre.wcnf)] + _soft_items(s, j, pre, skip=s.i.t)),
        "3.1": LoopSpec("[... for s in softc]", lambda s, j, pre: [s.A(s.wcnf) == pre.A(pre.wcnf)] + _soft_one(s, j, pre)),
    },
    properties=["C05", "C12"],
    fuel=5,
    note="which WCNF is handed to the (assumed) MCS enumeration for which key, and where its result is stored",
)


# --- compile_and_encode_query ---------------------------------------------------------------
QSpec = z3.Function("QSpec", LLInt.sort, LLInt.sort, Asg, L.Bool)
_qv, _qf = z3.Consts("_qs_v _qs_f", LLInt.sort)
_qa = z3.Const("_qs_a", Asg)
_QUERY = VStr(const="query").t
_mvq, _mfq = asg(_qa, MvQ(_QUERY)), asg(_qa, MfQ(_QUERY))
# the minimum over an empty family is infinite: "min_v >= min_f" is then true unless only min_f is infinite
L.TH.axiom(
    [_qv, _qf, _qa],
    QSpec(_qv, _qf, _qa),
    QSpec(_qv, _qf, _qa)
    == z3.And(
        z3.Implies(LLInt.len(_qf) == 0, LLInt.len(_qv) == 0),
        z3.Implies(z3.And(LLInt.len(_qv) > 0, LLInt.len(_qf) > 0), z3.And(IsMinSum(_mvq, _qv, _qa), IsMinSum(_mfq, _qf, _qa), _mvq >= _mfq)),
    ),
    "def.QSpec",
)


def _build_query_cnfs(ex, bound):
    """query_to_cnf returns a fresh two-element list of two distinct fresh clause lists"""
    LT = RC.LClause
    a = VList(ex.st.fresh_const("query_v_cnf", LT.sort), TClause)
    b = VList(ex.st.fresh_const("query_f_cnf", LT.sort), TClause)
    a.oid, b.oid = "query_to_cnf[0]", "query_to_cnf[1]"
    LL = RC.LLClause
    r = VList(LL.snoc(LL.snoc(LL.nil, a.t), b.t), TList(TClause))
    r.concrete = [a, b]
    return r


RC.Contract.__class__  # (registry access below)
from pyvc import contract as _C  # noqa: E402

_C.get("inference.tseitin_transformation:TseitinTransformation.query_to_cnf").result_builder = _build_query_cnfs


def _rep_query(c, qv, qf):
    val = _conds(c).val
    return [RepMCS(qv, L.ver(c.query.t), val, LInt.nil), RepMCS(qf, L.fal(c.query.t), val, LInt.nil)]


def _caeq_post(c, r):
    a = z3.Const("_cq_a", Asg)
    qv, qf = c.ghost["qv"].t, c.ghost["qf"].t
    csp = r.items[0]
    t = csp.t if isinstance(csp, VList) else LIForm.nil
    return _rep_query(c, qv, qf) + IT.both([a], HoldAll(t, a), QSpec(qv, qf, a), "query.meaning")


Contract(
    "inference.c_inference:CInference.compile_and_encode_query",
    params={"self": CINF, "query": TCnd, "deadline": DeadlineT},
    defaults={"deadline": lambda ex: VNone()},
    returns=TTuple([TList(TIForm), TFloat]),
    ensures=_caeq_post,
    raises=_RAISES,
    ghost_out={"qv": TList(TList(TInt)), "qf": TList(TList(TInt))},
    ghost_wit=lambda c, r: {"qv": c.vMin, "qf": c.fMin},
    loops={
        1: LoopSpec("[... for c in conditional]", lambda s, j, pre: [s.A(s.wcnf) == DcP(s.conditional.t, j), s.soft(s.wcnf) == pre.soft(pre.wcnf)]),
        2: LoopSpec("[... for (j, softc) in self.epistemic_state['nf_cnf_dict'].items()]", lambda s, j, pre: [s.A(s.wcnf) == pre.A(pre.wcnf)] + _soft_items(s, j, pre)),
        "2.1": LoopSpec("[... for s in softc]", lambda s, j, pre: [s.A(s.wcnf) == pre.A(pre.wcnf)] + _soft_one(s, j, pre)),
    },
    properties=["C05", "C12"],
    fuel=7,
)


# --- CInference._inference ------------------------------------------------------------------
LCnd = L.LCnd
AllUnfals, _ = IT.defpred_all("AllUnfals", [LCnd.sort, L.Int], lambda x: x[1], lambda x, k: L.isempty(L.fal(LCnd.at(x[0], k))), lambda x, k: LCnd.at(x[0], k))
HoldUpTo = IT.HoldUpTo

# CSat(keys, vMin, fMin, qv, qf): the constraint system of base and query has a solution
CSat = z3.Function("CSat", LInt.sort, ALL, ALL, LLInt.sort, LLInt.sort, L.Bool)
csw = z3.Function("CSat!w", LInt.sort, ALL, ALL, LLInt.sort, LLInt.sort, Asg)
_ck = z3.Const("_cs_k", LInt.sort)
_cv, _cf = z3.Consts("_cs_v _cs_f", ALL)
_cqv, _cqf = z3.Consts("_cs_qv _cs_qf", LLInt.sort)
_ca = z3.Const("_cs_a", Asg)
_cs = CSat(_ck, _cv, _cf, _cqv, _cqf)
L.TH.axiom([_ck, _cv, _cf, _cqv, _cqf, _ca], [BaseCSP(_ck, _cv, _cf, _ca), QSpec(_cqv, _cqf, _ca)], z3.Implies(z3.And(BaseCSP(_ck, _cv, _cf, _ca), QSpec(_cqv, _cqf, _ca)), _cs), "CSat.intro")
_cw = csw(_ck, _cv, _cf, _cqv, _cqf)
L.TH.axiom([_ck, _cv, _cf, _cqv, _cqf], _cs, z3.Implies(_cs, z3.And(BaseCSP(_ck, _cv, _cf, _cw), QSpec(_cqv, _cqf, _cw))), "CSat.elim")


def base_csp_ok(c):
    """object invariant after preprocessing: self.base_csp means the base's constraint system"""
    a = z3.Const("_bo_a", Asg)
    t = c.field(c.self, "base_csp").t
    return IT.both([a], HoldAll(t, a), BaseCSP(_conds(c).keys, c.es("vMin").val, c.es("fMin").val, a), "base_csp.meaning")


def _inf_vals(c):
    d = _conds(c)
    return L.values_of(L.Cnd)(d.keys, d.val)


def _inf_inv0(s, j, pre):
    return [s.selffullfilling.t == AllUnfals(_inf_vals(s), j)]


def _inf_inv1(s, j, pre):
    a = z3.Const("_ii_a", Asg)
    I = s.I(s.solver)
    return [s.A(s.solver) == L.FULL] + IT.both([a], HoldAll(I, a), HoldUpTo(s.field(s.self, "base_csp").t, a, j), "inf.base.asserted")


def _inf_inv2(s, j, pre):
    a = z3.Const("_ij_a", Asg)
    I, I0 = s.I(s.solver), pre.I(pre.solver)
    return [s.A(s.solver) == L.FULL] + IT.both([a], HoldAll(I, a), z3.And(HoldAll(I0, a), HoldUpTo(s.csp.t, a, j)), "inf.query.asserted", rhs_trigger=HoldUpTo(s.csp.t, a, j))


def _inf_post(c, r):
    d = _conds(c)
    qv, qf = c.ghost["qv"].t, c.ghost["qf"].t
    unf = AllUnfals(_inf_vals(c), LInt.len(d.keys))
    return [z3.Implies(z3.Not(unf), f) for f in _rep_query(c, qv, qf)] + [
        r.t == z3.If(unf, z3.BoolVal(False), z3.Not(CSat(d.keys, c.es("vMin").val, c.es("fMin").val, qv, qf))),
    ]


Contract(
    "inference.c_inference:CInference._inference",
    params={"self": CINF, "query": TCnd, "weakly": TBool, "deadline": DeadlineT},
    returns=TBool,
    requires=lambda c: base_csp_ok(c),
    ensures=_inf_post,
    raises=_RAISES,
    ghost_out={"qv": TList(TList(TInt)), "qf": TList(TList(TInt))},
    ghost_wit=lambda c, r: {"qv": c._st.env["__ghost.qv"], "qf": c._st.env["__ghost.qf"]} if "__ghost.qv" in c._st.env else {"qv": VList(LLInt.nil, TList(TInt)), "qf": VList(LLInt.nil, TList(TInt))},
    loops={
        0: LoopSpec("for conditional in self.epistemic_state['belief_base'].conditionals.values()", _inf_inv0),
        1: LoopSpec("for constraint in self.base_csp", _inf_inv1, ints=True),
        2: LoopSpec("for constraint in csp", _inf_inv2, ints=True),
    },
    properties=["C05", "C12"],
    fuel=7,
    axioms=[IT.HOLDUPTO_ALL2],
    note="answer = no assignment satisfies base CSP + query constraints (over the MCS lists computed by the assumed enumeration); the shortcut for bases without any falsifiable conditional returns False",
)


# --- CInference._preprocess_belief_base -----------------------------------------------------
_mk = z3.Const("_ma_k", LInt.sort)
_mi = z3.Int("_ma_i")
# derived from mem.intro (a list access is a member); used only for the obligations of this function
MEM_AT = [Forall([_mk, _mi], [LInt.at(_mk, _mi)], z3.Implies(z3.And(0 <= _mi, _mi < LInt.len(_mk)), L.mem_Int(_mk, LInt.at(_mk, _mi))), "mem.at.Int")]


def compiled_base(c, which, cnfkey):
    """for every base key k: es[which][k] represents the minimal correction sets over the worlds of
    ver / fal of conditional k, conditional k itself not counted"""
    d, m = _conds(c), c.es(which)
    k = z3.Int("_cb_k_" + which)
    side = L.ver if cnfkey == "v_cnf_dict" else L.fal
    return Forall(
        [k],
        [L.mem_Int(d.keys, k)],
        z3.Implies(L.mem_Int(d.keys, k), z3.And(L.mem_Int(m.keys, k), RepMCS(z3.Select(m.val, k), side(z3.Select(d.val, k)), d.val, _one(k)))),
        "compiled.base." + which,
    )


def _pp_post(c, r):
    return base_csp_ok(c) + [compiled_base(c, "vMin", "v_cnf_dict"), compiled_base(c, "fMin", "f_cnf_dict")]


Contract(
    "inference.c_inference:CInference._preprocess_belief_base",
    params={"self": CINF, "weakly": TBool, "deadline": DeadlineT},
    returns=TNone,
    ensures=_pp_post,
    raises=_RAISES,
    modifies=["self.base_csp", "self.epistemic_state.vMin", "self.epistemic_state.fMin", "self.epistemic_state.base_csp", "self.epistemic_state.v_cnf_dict", "self.epistemic_state.f_cnf_dict", "self.epistemic_state.nf_cnf_dict"],
    properties=["C05", "C12"],
    axioms=MEM_AT,
    fuel=5,
)
