"""Contracts: inference/optimizer.py -- remove_supersets and the enumeration loop of
OptimizerRC2.minimal_correction_subsets (C03, C04, C05, C11, C15)."""
import z3

from contracts import c_rc2backends as RC
from pyvc import iterm as IT
from pyvc import logic as L
from pyvc.contract import Contract, LoopSpec
from pyvc.logic import Forall, LInt, LLInt
from pyvc.values import *  # noqa

KSet = RC.KSet
SK = RC.SK
LKS = RC.LKS
setofK = RC.setofK
enumK, _eidxK, cardK = L.enum_theory(L.Int)
memKS, _ = L.mem_theory(KSet)

# X is inclusion-minimal among the sets of the list Ls
IsMinimalIn, _ = IT.defpred_all(
    "IsMinimalIn", [LKS.sort, KSet], lambda x: LKS.len(x[0]), lambda x, p: z3.Implies(z3.IsSubset(LKS.at(x[0], p), x[1]), LKS.at(x[0], p) == x[1]), lambda x, p: LKS.at(x[0], p)
)
# some list of R has exactly the elements X
InFam, _ = IT.defpred_some("InFam", [LLInt.sort, KSet], lambda x: LLInt.len(x[0]), lambda x, i: setofK(LLInt.at(x[0], i)) == x[1], lambda x, i: LLInt.at(x[0], i))
# some of the first n sets of F is a subset of X
CoveredUpTo, _ = IT.defpred_some("CoveredUpTo", [LKS.sort, KSet, L.Int], lambda x: x[2], lambda x, q: z3.IsSubset(LKS.at(x[0], q), x[1]), lambda x, q: LKS.at(x[0], q))
# X is one of the first n sets of S
FromPrefix, _ = IT.defpred_some("FromPrefix", [LKS.sort, KSet, L.Int], lambda x: x[2], lambda x, p: LKS.at(x[0], p) == x[1], lambda x, p: LKS.at(x[0], p))

_s = z3.Const("_se_s", KSet)
# the enumeration of a finite set lists exactly its elements (definition of enum; TB-py: list(set))
SETOF_ENUM = Forall([_s], [enumK(_s)], setofK(enumK(_s)) == _s, "setof.enum.Int")  # (used only for remove_supersets)


_Fl = z3.Const("_cu_F", LKS.sort)
_a, _X = z3.Consts("_cu_a _cu_X", KSet)
_n = z3.Int("_cu_n")
# derived (lemmas/zlemmas.py): extending the list by one set
RS_AXIOMS = [
    Forall(
        [_Fl, _a, _X, _n],
        [CoveredUpTo(LKS.snoc(_Fl, _a), _X, _n)],
        z3.Implies(_n == LKS.len(_Fl) + 1, CoveredUpTo(LKS.snoc(_Fl, _a), _X, _n) == z3.Or(CoveredUpTo(_Fl, _X, LKS.len(_Fl)), z3.IsSubset(_a, _X))),
        "CoveredUpTo.snoc",
    )
]


def _F(s):
    return s.filtered.t if isinstance(s.filtered, VList) else LKS.nil


def _rs_outer(s, j, pre):
    S = s.lst_of_sets.t
    F = _F(s)
    q, q2, p = z3.Ints("_rs_q _rs_q2 _rs_p")
    n = LKS.len(F)
    return [
        Forall([q], [LKS.at(F, q)], z3.Implies(z3.And(0 <= q, q < n), FromPrefix(S, LKS.at(F, q), j)), "rs.from.prefix"),
        Forall([p], [LKS.at(S, p)], z3.Implies(z3.And(0 <= p, p < j), CoveredUpTo(F, LKS.at(S, p), n)), "rs.covered"),
        Forall([q, q2], [LKS.at(F, q), LKS.at(F, q2)], z3.Implies(z3.And(0 <= q, q < n, 0 <= q2, q2 < n, q != q2), z3.Not(z3.IsSubset(LKS.at(F, q), LKS.at(F, q2)))), "rs.antichain"),
        (n == 0) == (j == 0),
    ]


def _rs_inner(s, j, pre):
    return [s.is_superset.t == CoveredUpTo(_F(s), s.a.t, j)]


def _rs_post(c, r):
    L0 = c.old.lst_of_sets.t
    R = r.t
    i, i2, p, k, k2 = z3.Ints("_rp_i _rp_i2 _rp_p _rp_k _rp_k2")
    X = setofK(LLInt.at(R, i))
    rng = z3.And(0 <= i, i < LLInt.len(R))
    return [
        Forall([i], [LLInt.at(R, i)], z3.Implies(rng, z3.And(memKS(L0, X), IsMinimalIn(L0, X))), "remove_supersets.sound"),
        Forall([p], [LKS.at(L0, p)], z3.Implies(z3.And(0 <= p, p < LKS.len(L0), IsMinimalIn(L0, LKS.at(L0, p))), InFam(R, LKS.at(L0, p))), "remove_supersets.complete"),
        Forall([i, i2], [LLInt.at(R, i), LLInt.at(R, i2)], z3.Implies(z3.And(rng, i < i2, i2 < LLInt.len(R)), setofK(LLInt.at(R, i)) != setofK(LLInt.at(R, i2))), "remove_supersets.no.duplicates"),
        (LLInt.len(R) == 0) == (LKS.len(L0) == 0),
        Forall(
            [i, k, k2],
            [LInt.at(LLInt.at(R, i), k), LInt.at(LLInt.at(R, i), k2)],
            z3.Implies(z3.And(rng, 0 <= k, k < k2, k2 < LInt.len(LLInt.at(R, i))), LInt.at(LLInt.at(R, i), k) != LInt.at(LLInt.at(R, i), k2)),
            "remove_supersets.lists.duplicate.free",
        ),
    ]


Contract(
    "inference.optimizer:remove_supersets",
    params={"lst_of_sets": TList(SK)},
    returns=TList(TList(TInt)),
    locals={"filtered": TList(SK)},
    ensures=_rs_post,
    loops={0: LoopSpec("for a in lst_of_sets", _rs_outer), 1: LoopSpec("for b in filtered", _rs_inner)},
    properties=["C03", "C04", "C05", "C11", "C15"],
    fuel=7,
    fuel_post=10,
    axioms=RS_AXIOMS + [SETOF_ENUM],
    note="result = the inclusion-minimal sets of the input, each once, as duplicate-free lists",
)


# =============================================================================================
# OptimizerRC2.minimal_correction_subsets: the enumeration loop against the interface contract
# MCS of contracts/c_rc2backends.py (which the operators use).  Assumed here, one level further
# down (named in the evidence; all three are compared with brute force by module `pure`):
#   RC2      RC2(wcnf).compute() returns None iff no world satisfies the hard clauses, otherwise a
#            model that denotes such a world
#   GVC      get_violated_conditional(model, rc2.cost, ignore) = the not-ignored keys whose
#            conditional the model's world falsifies
#   BLOCK    adding all clauses of exclude_violated(violated) removes exactly the worlds that
#            falsify EVERY conditional of `violated`
# Proved: the accumulation of the violated sets, both exits of the loop (no model left / a model
# that violates nothing), the call of remove_supersets, and that the result represents exactly the
# inclusion-minimal violated sets.  Termination is not proved.
# =============================================================================================
from contracts.c_inference import DeadlineT  # noqa: E402
from pyvc import lib  # noqa: E402

World = L.World
CMapS = RC.CMapS
KFam = RC.KFam
ViolAll = z3.Function("ViolAll", World, CMapS, KSet)  # keys of the conditionals a world falsifies
Blocked = z3.Function("Blocked", KSet, CMapS, L.WSet)  # worlds falsifying every conditional of the set
_w = z3.Const("_mc_w", World)
_val = z3.Const("_mc_val", CMapS)
_k = z3.Int("_mc_k")
_S, _NI = z3.Consts("_mc_S _mc_NI", KSet)
_H = z3.Const("_mc_H", L.WSet)


def ViolK(w, val, NI):
    return z3.SetIntersect(ViolAll(w, val), NI)


Realised = z3.Function("Realised", L.WSet, CMapS, KSet, KSet, L.Bool)  # S = ViolK(w) for some w in H
rw = z3.Function("Realised!w", L.WSet, CMapS, KSet, KSet, World)
NoSmaller = z3.Function("NoSmaller", L.WSet, CMapS, KSet, KSet, L.Bool)  # no w in H has ViolK(w) strictly inside S
nsw = z3.Function("NoSmaller!w", L.WSet, CMapS, KSet, KSet, World)
_rl = Realised(_H, _val, _NI, _S)
_ns = NoSmaller(_H, _val, _NI, _S)
_rww, _nww = rw(_H, _val, _NI, _S), nsw(_H, _val, _NI, _S)
NotBlockedUpTo, _ = IT.defpred_all("NotBlockedUpTo", [LKS.sort, CMapS, World, L.Int], lambda x: x[3], lambda x, q: z3.Not(z3.Select(Blocked(LKS.at(x[0], q), x[1]), x[2])), lambda x, q: LKS.at(x[0], q))
_Xl = z3.Const("_mc_X", LKS.sort)
_v = z3.Const("_mc_v", KSet)
_n2 = z3.Int("_mc_n")
_R = z3.Const("_mc_R", LLInt.sort)
MCS_AXIOMS = [
    Forall([_w, _val, _k], [z3.IsMember(_k, ViolAll(_w, _val))], z3.IsMember(_k, ViolAll(_w, _val)) == z3.Select(L.fal(z3.Select(_val, _k)), _w), "def.ViolAll"),
    Forall([_S, _val, _w], [z3.Select(Blocked(_S, _val), _w)], z3.Select(Blocked(_S, _val), _w) == z3.IsSubset(_S, ViolAll(_w, _val)), "def.Blocked"),
    Forall([_H, _val, _NI, _S], [_rl], z3.Implies(_rl, z3.And(z3.Select(_H, _rww), _S == ViolK(_rww, _val, _NI))), "Realised.elim"),
    Forall([_H, _val, _NI, _S, _w], [_rl, ViolAll(_w, _val)], z3.Implies(z3.And(z3.Select(_H, _w), _S == ViolK(_w, _val, _NI)), _rl), "Realised.intro"),
    Forall([_H, _val, _NI, _S, _w], [_ns, ViolAll(_w, _val)], z3.Implies(z3.And(_ns, z3.Select(_H, _w), z3.IsSubset(ViolK(_w, _val, _NI), _S)), ViolK(_w, _val, _NI) == _S), "NoSmaller.elim"),
    Forall([_H, _val, _NI, _S], [_ns], z3.Implies(z3.Not(_ns), z3.And(z3.Select(_H, _nww), z3.IsSubset(ViolK(_nww, _val, _NI), _S), ViolK(_nww, _val, _NI) != _S)), "NoSmaller.intro"),
    # the specification vocabulary of the interface contract, spelled out
    Forall([_H, _val, _NI, _S], [z3.IsMember(_S, RC.MinFamK(_H, _val, _NI))], z3.IsMember(_S, RC.MinFamK(_H, _val, _NI)) == z3.And(_rl, _ns), "def.MinFamK"),
    Forall([_R, _S], [z3.IsMember(_S, RC.FamOfLL(_R))], z3.IsMember(_S, RC.FamOfLL(_R)) == InFam(_R, _S), "def.FamOfLL"),
    # derived (lemmas/zlemmas.py)
    Forall(
        [_Xl, _v, _val, _w, _n2],
        [NotBlockedUpTo(LKS.snoc(_Xl, _v), _val, _w, _n2)],
        z3.Implies(_n2 == LKS.len(_Xl) + 1, NotBlockedUpTo(LKS.snoc(_Xl, _v), _val, _w, _n2) == z3.And(NotBlockedUpTo(_Xl, _val, _w, LKS.len(_Xl)), z3.Not(z3.Select(Blocked(_v, _val), _w)))),
        "NotBlockedUpTo.snoc",
    ),
]
KFdiff = z3.Function("KFdiff", KFam, KFam, KSet)  # extensionality witness for families


def _X(s):
    return s.xMins.t if isinstance(s.xMins, VList) else LKS.nil


def _mv(c):
    return RC._val(c).val


def _NIc(c):
    return RC.NotIgnored(c.ignore.t)


def _mcs_inv(s, j, pre):
    X = _X(s)
    H0 = pre.A(pre.wcnf)
    val, NI = _mv(s), _NIc(s)
    w = z3.Const("_mi_w", World)
    q = z3.Int("_mi_q")
    A = s.A(s.rc2)
    return [
        Forall([w], [z3.Select(A, w)], z3.Select(A, w) == z3.And(z3.Select(H0, w), NotBlockedUpTo(X, val, w, LKS.len(X))), "mcs.remaining"),
        Forall([w], [NotBlockedUpTo(X, val, w, LKS.len(X))], z3.Select(A, w) == z3.And(z3.Select(H0, w), NotBlockedUpTo(X, val, w, LKS.len(X))), "mcs.remaining.r"),
        Forall([q], [LKS.at(X, q)], z3.Implies(z3.And(0 <= q, q < LKS.len(X)), Realised(H0, val, NI, LKS.at(X, q))), "mcs.realised"),
        s.A(s.wcnf) == H0,
    ]


def _block_effect(s):
    """ASSUMED (BLOCK): the joint effect of adding the clauses of exclude_violated(violated)"""
    ex = s._ex
    o = ex.st.obj(s.rc2.ref)
    ex.st.update(s.rc2.ref, A=L.inter(o["A"], L.compl(Blocked(s.violated.t, _mv(s)))))
    return VNone()


def mcs_pointwise(R, H0, val, NI):
    """the key lists R represent exactly the inclusion-minimal violated sets over the worlds H0
    (first-order form of `FamOfLL(R) == MinFamK(H0, val, NI)`; lemma MCS.bridge2 links the two)"""
    i = z3.Int("_mp_i")
    S = z3.Const("_mp_S", KSet)
    X = setofK(LLInt.at(R, i))
    return [
        Forall([i], [LLInt.at(R, i)], z3.Implies(z3.And(0 <= i, i < LLInt.len(R)), z3.And(Realised(H0, val, NI, X), NoSmaller(H0, val, NI, X))), "mcs.sound"),
        Forall([S], [Realised(H0, val, NI, S)], z3.Implies(z3.And(Realised(H0, val, NI, S), NoSmaller(H0, val, NI, S)), InFam(R, S)), "mcs.complete"),
        (LLInt.len(R) == 0) == L.isempty(H0),
    ]


def rs_relation(R, L0):
    """R = remove_supersets(L0): the postcondition of remove_supersets as a relation"""
    i, i2, p = z3.Ints("_rr_i _rr_i2 _rr_p")
    X = setofK(LLInt.at(R, i))
    rng = z3.And(0 <= i, i < LLInt.len(R))
    return [
        Forall([i], [LLInt.at(R, i)], z3.Implies(rng, z3.And(memKS(L0, X), IsMinimalIn(L0, X))), "rs.sound"),
        Forall([p], [LKS.at(L0, p)], z3.Implies(z3.And(0 <= p, p < LKS.len(L0), IsMinimalIn(L0, LKS.at(L0, p))), InFam(R, LKS.at(L0, p))), "rs.complete"),
        (LLInt.len(R) == 0) == (LKS.len(L0) == 0),
    ]


def mcs_structural(R, X, H0, val, NI):
    """what the enumeration loop establishes: every recorded set is the violated set of a world of
    H0, every world of H0 violates all of some recorded set, and R = the minimal recorded sets"""
    w = z3.Const("_ms_w", World)
    q = z3.Int("_ms_q")
    return rs_relation(R, X) + [
        Forall([q], [LKS.at(X, q)], z3.Implies(z3.And(0 <= q, q < LKS.len(X)), Realised(H0, val, NI, LKS.at(X, q))), "mcs.recorded.realised"),
        Forall([w], [z3.Select(H0, w)], z3.Implies(z3.Select(H0, w), z3.Not(NotBlockedUpTo(X, val, w, LKS.len(X)))), "mcs.exhaustive"),
        (LLInt.len(R) == 0) == L.isempty(H0),
    ]


def _mcs_post2(c, r):
    H0 = c.old.A(c.old.wcnf)
    return mcs_structural(r.t, c.ghost["X"].t, H0, _mv(c), _NIc(c)) + [c.A(c.wcnf) == H0]


anyw = z3.Function("anyw", L.WSet, World)  # some element of a non-empty set of worlds (extensionality witness)


def _mcs_hints2(c, r):
    H0 = c.old.A(c.old.wcnf)
    A = c.A(c.rc2)
    out = []
    for Hs in (H0, A):
        out.append(z3.Implies(Hs != L.EMPTY, z3.Select(Hs, anyw(Hs))))
    out.append(z3.Select(A, anyw(H0)) == z3.Select(A, anyw(H0)))
    X = _X(c)
    out.append(LKS.at(X, 0) == LKS.at(X, 0))  # (seed terms: the first recorded set)
    return out


OPT2 = TObj("OptimizerRC2", {"epistemic_state": TRec(RC.ES_RC2)})

Contract(
    "inference.optimizer:Optimizer.get_violated_conditional",
    params={"self": OPT2, "model": TOpaque, "cost": TInt, "ignore": TList(TInt)},
    returns=SK,
    requires=lambda c: [z3.Not(c.model.isnone)] if isinstance(c.model, VOptional) else [],
    ensures=lambda c, r: [r.t == ViolK(lib.wof((c.model.val if isinstance(c.model, VOptional) else c.model).t), _mv(c), _NIc(c))],
    trusted=True,
    note="ASSUMED (GVC): with cost = rc2.cost of that model; compared with brute force over explicit clause sets by module `pure`",
)
Contract(
    "inference.optimizer:Optimizer.exclude_violated",
    params={"self": OPT2, "violated": SK},
    returns=TList(lib.TClause),
    trusted=True,
    note="ASSUMED (BLOCK, together with the abstraction of the add_clause comprehension); compared with brute force by module `pure`",
)

Contract(
    "inference.optimizer:OptimizerRC2.minimal_correction_subsets",
    params={"self": OPT2, "wcnf": TSolverT, "ignore": TList(TInt), "deadline": DeadlineT},
    defaults={"ignore": lambda ex: VList(LInt.nil, TInt), "deadline": lambda ex: VNone()},
    returns=TList(TList(TInt)),
    locals={"xMins": TList(SK)},
    ensures=_mcs_post2,
    ghost_out={"X": TList(SK)},
    ghost_wit=lambda c, r: {"X": c.xMins if isinstance(c.xMins, VList) else VList(LKS.nil, SK)},
    hints=_mcs_hints2,
    raises={"TimeoutError": lambda c: z3.BoolVal(True)},
    abstractions={
        "str(self.epistemic_state.get('pmaxsat_solver', ''))[4:]": (lambda s: VStr(s._ex.st.fresh_const("engine", StrSort)), "TB-py: the SAT engine name (only passed on to RC2)"),
        "[rc2.add_clause(clause) for clause in clauses_to_add]": (_block_effect, "ASSUMED (BLOCK): the clauses of exclude_violated(violated) remove exactly the worlds falsifying every conditional of `violated`"),
    },
    loops={0: LoopSpec("while True", _mcs_inv)},
    axioms=MCS_AXIOMS + RS_AXIOMS,
    properties=["C03", "C04", "C05", "C11", "C14", "C15"],
    fuel=5,
    impl_only=True,
    note="what the loop establishes (mcs_structural, with the recorded sets as ghost output); lemmas MCS.bridge and MCS.bridge2 derive the interface contract MCS from it; relative to RC2 / GVC / BLOCK",
)
