"""Contracts: inference/inference.py (wrappers), p_entailment.py, system_z.py"""
import z3

from contracts.c_consistency_sat import BeliefBaseT, result_false_or
from contracts.spec import PS
from pyvc import logic as L
from pyvc.contract import Contract, LoopSpec
from pyvc.logic import Forall, LCnd, LForm, LInt, LLCnd
from pyvc.values import *  # noqa

PartT = TFalseOr(TList(TList(TCnd)))
DeadlineT = TOptional(TObj("Deadline", {}))

ES_COMMON = {
    "belief_base": BeliefBaseT,
    "smt_solver": TStr,
    "pmaxsat_solver": TStr,
    "inference_system": TStr,
    "weakly": TBool,
    "preprocessing_done": TBool,
    "preprocessing_timed_out": TBool,
    "preprocessing_time": TFloat,
}


def SelfT(cls, **extra):
    f = dict(ES_COMMON)
    f.update(extra)
    return TObj(cls, {"epistemic_state": TRec(f)})


def base_items(c, selfname="self"):
    d = c.field(c.es("belief_base", selfname), "conditionals")
    return d, L.values_of(L.Cnd)(d.keys, d.val)


def q_nontrivial(c):
    """what general_inference guarantees before it calls _inference"""
    q = c.query.t
    return [L.nonempty(L.M(L.ant(q))), L.nonempty(L.fal(q))]


# ---------------------------------------------------------------------------
# specification of the System Z recursion (DESIGN §5 C02): E(P, q, H, i)
#   H_i = H ∩ KL(P[i]);  V = H_i ∩ ver q ≠ ∅;  F = H_i ∩ fal q ≠ ∅
#   E = if ¬V then False elif F then (i > 0 ∧ E(P, q, H_i, i-1)) else True
# ---------------------------------------------------------------------------
EZ = z3.Function("EZ", LLCnd.sort, L.Cnd, L.WSet, L.Int, L.Bool)
_P = z3.Const("_ez_P", LLCnd.sort)
_q = z3.Const("_ez_q", L.Cnd)
_H = z3.Const("_ez_H", L.WSet)
_i = z3.Int("_ez_i")
_Hi = L.inter(_H, PS.KL((), LLCnd.at(_P, _i)))
L.TH.axiom(
    [_P, _q, _H, _i],
    EZ(_P, _q, _H, _i),
    EZ(_P, _q, _H, _i)
    == z3.If(
        L.isempty(L.inter(_Hi, L.ver(_q))),
        False,
        z3.If(L.nonempty(L.inter(_Hi, L.fal(_q))), z3.And(_i > 0, EZ(_P, _q, _Hi, _i - 1)), True),
    ),
    "unfold.EZ",
)


def spec_z_strict(P, q):
    return EZ(P, q, L.FULL, LLCnd.len(P) - 1)


def feas_of(P):
    """extended mode: worlds falsifying no conditional of the last (infinity) layer"""
    return PS.KL((), LLCnd.at(P, LLCnd.len(P) - 1))


def spec_z_ext(P, q):
    F = feas_of(P)
    m = LLCnd.len(P)
    return z3.If(
        L.isempty(L.inter(F, L.fal(q))),
        True,
        z3.If(m < 2, False, EZ(P, q, F, m - 2)),
    )


# ---------------------------------------------------------------------------
# Inference (abstract operator interface)
# ---------------------------------------------------------------------------
OpSpec = z3.Function("OpSpec", L.Cnd, L.Bool, L.Bool)  # abstract operator answer (per object)

Contract(
    "inference.inference:Inference._inference",
    params={"self": SelfT("Inference"), "query": TCnd, "weakly": TBool, "deadline": DeadlineT},
    returns=TBool,
    requires=q_nontrivial,
    ensures=lambda c, r: [r.t == OpSpec(c.query.t, c.weakly.t)],
    raises={"TimeoutError": lambda c: z3.BoolVal(True)},
    trusted=True,
    note="abstract method: every concrete operator has its own contract with the same precondition",
)

Contract(
    "inference.inference:Inference.general_inference",
    params={"self": SelfT("Inference"), "query": TCnd, "weakly": TOptional(TBool), "deadline": DeadlineT},
    defaults={"weakly": lambda ex: VNone(), "deadline": lambda ex: VNone()},
    returns=TBool,
    ensures=lambda c, r: [
        z3.Implies(
            z3.Or(L.isempty(L.M(L.ant(c.query.t))), L.isempty(L.fal(c.query.t))),
            r.t == True,
        ),
        z3.Implies(
            z3.And(L.nonempty(L.M(L.ant(c.query.t))), L.nonempty(L.fal(c.query.t))),
            r.t
            == OpSpec(
                c.query.t,
                z3.If(c.old.weakly.isnone, c.es("weakly").t, c.old.weakly.val.t),
            ),
        ),
    ],
    raises={"TimeoutError": lambda c: z3.BoolVal(True)},
    properties=["C01", "C02", "C03", "C04", "C05", "C07", "C09"],
)

Contract(
    "inference.inference:Inference._preprocess_belief_base",
    params={"self": SelfT("Inference", partition=PartT), "weakly": TBool, "deadline": DeadlineT},
    returns=TNone,
    modifies=["self.epistemic_state.partition"],
    raises={"TimeoutError": lambda c: z3.BoolVal(True)},
    trusted=True,
    note="abstract method",
)


def _incons(c, selfname="self"):
    d, cs = base_items(c, selfname)
    st = PS.stop(cs)
    rest = PS.GR(cs, st)
    w = c.es("weakly", selfname).t
    return z3.If(w, L.isempty(PS.KL((), rest)), LCnd.len(rest) > 0), LInt.len(d.keys) == 0


Contract(
    "inference.inference:Inference.preprocess_belief_base",
    params={"self": SelfT("Inference", partition=PartT), "preprocessing_timeout": TInt},
    returns=TNone,
    modifies=[
        "self.epistemic_state.preprocessing_done",
        "self.epistemic_state.preprocessing_timed_out",
        "self.epistemic_state.preprocessing_time",
        "self.epistemic_state.partition",
    ],
    # refusal (C06, last sentence): a normal return is only possible for a non-empty base that
    # is consistent for the selected mode (or when preprocessing had been done before)
    ensures=lambda c, r: [
        z3.Or(
            c.old.es("preprocessing_done").t,
            z3.And(z3.Not(_incons(c.old)[1]), z3.Not(_incons(c.old)[0])),
        ),
        # after a normal return the state is either preprocessed or flagged as timed out
        z3.Or(c.es("preprocessing_done").t, c.es("preprocessing_timed_out").t),
    ],
    raises={
        "AssertionError": lambda c: z3.And(
            z3.Not(c.old.es("preprocessing_done").t), z3.Or(_incons(c.old)[1], _incons(c.old)[0])
        )
    },
    properties=["C06", "C14"],
)

# ---------------------------------------------------------------------------
# p-entailment
# ---------------------------------------------------------------------------


def _neg_query(q):
    return L.mk_cnd(L.f_not(L.cons(q)), L.ant(q))


def _p_spec(c, r):
    d, cs = base_items(c)
    q = c.query.t
    E = LCnd.snoc(cs, _neg_query(q))
    st = PS.stop(E)
    rest = PS.GR(E, st)
    strict = LCnd.len(rest) > 0
    ext = z3.Or(
        L.isempty(PS.KL((), rest)),
        L.isempty(L.inter(PS.KL((), PS.GR(E, st + 1)), L.M(L.ant(q)))),
    )
    return [r.t == z3.If(c.weakly.t, ext, strict)]


def _p_hints(c, r):
    """extensionality instance: the values of the extended dict are the base's values
    followed by the negated query (a valid axiom instance, see ListTheory.ext_facts)"""
    d, cs = base_items(c)
    if not c.has("conditionals"):
        return []
    e = c.conditionals
    return [LCnd.ext_facts(L.values_of(L.Cnd)(e.keys, e.val), LCnd.snoc(cs, _neg_query(c.query.t)))]


Contract(
    "inference.p_entailment:PEntailment._inference",
    params={"self": SelfT("PEntailment"), "query": TCnd, "weakly": TBool, "deadline": DeadlineT},
    returns=TBool,
    requires=q_nontrivial,
    ensures=_p_spec,
    hints=_p_hints,
    loops={
        0: LoopSpec(
            "for c in last_layer",
            lambda s, j, pre: [s.A(s.solver) == L.inter(pre.A(pre.solver), PS.K(s.last_layer.t, j))],
        )
    },
    properties=["C01", "C07", "C12"],
)

# ---------------------------------------------------------------------------
# System Z
# ---------------------------------------------------------------------------
SZ = SelfT("SystemZ", partition=PartT)


def _P(c):
    p = c.es("partition")
    return p.val.t


def _z_pre_rec(c):
    p = c.es("partition")
    return [z3.Not(p.isfalse), 0 <= c.partition_index.t, c.partition_index.t < LLCnd.len(p.val.t)]


Contract(
    "inference.system_z:SystemZ._rec_inference",
    params={"self": SZ, "solver": TSolverT, "partition_index": TInt, "query": TCnd},
    returns=TBool,
    requires=_z_pre_rec,
    ensures=lambda c, r: [r.t == EZ(_P(c), c.query.t, c.old.A(c.old.solver), c.partition_index.t)],
    modifies=["solver"],
    loops={
        0: LoopSpec(
            "[... for c in part]",
            lambda s, j, pre: [s.A(s.solver) == L.inter(pre.A(pre.solver), PS.K(s.part.t, j))],
        )
    },
    decreases=lambda c: c.partition_index.t,
    properties=["C02", "C07"],
)


def _z_pre(c):
    p = c.es("partition")
    return q_nontrivial(c) + [z3.Not(p.isfalse), LLCnd.len(p.val.t) >= 1]


def _inv_last(solver_name, grows=False):
    def inv(s, j, pre):
        P = _P(s)
        last = LLCnd.at(P, LLCnd.len(P) - 1)
        sv = getattr(s, solver_name)
        return [s.A(sv) == L.inter(pre.A(getattr(pre, solver_name)), PS.K(last, j))]

    return inv


Contract(
    "inference.system_z:SystemZ._inference",
    params={"self": SZ, "query": TCnd, "weakly": TBool, "deadline": DeadlineT},
    returns=TBool,
    requires=_z_pre,
    ensures=lambda c, r: [
        r.t == z3.If(c.weakly.t, spec_z_ext(_P(c), c.query.t), spec_z_strict(_P(c), c.query.t))
    ],
    loops={
        0: LoopSpec("for c in self.epistemic_state['partition'][-1]", _inv_last("taut_solver")),
        1: LoopSpec("for c in self.epistemic_state['partition'][-1]", _inv_last("solver"), stack="grows"),
    },
    properties=["C02", "C07"],
)


def _z_prep_post(c, r):
    d, cs = base_items(c)
    p = c.es("partition")
    st = PS.stop(cs)
    rest = PS.GR(cs, st)
    w = c.weakly.t
    return [
        p.isfalse == z3.If(w, L.isempty(PS.KL((), rest)), LCnd.len(rest) > 0),
        z3.Implies(
            z3.Not(p.isfalse),
            p.val.t == z3.If(w, LLCnd.snoc(PS.GLs(cs, st), PS.GR(cs, st + 1)), PS.GLs(cs, st)),
        ),
    ]


Contract(
    "inference.system_z:SystemZ._preprocess_belief_base",
    params={"self": SZ, "weakly": TBool, "deadline": DeadlineT},
    returns=TNone,
    ensures=_z_prep_post,
    properties=["C02", "C07", "C13"],
)


# ---------------------------------------------------------------------------
# row plumbing: single_inference, _multi_inference_worker, inference  (C13, C14)
# ---------------------------------------------------------------------------
from pyvc.lib import txt  # noqa: E402

RowT = TTuple([TInt, TBool, TBool, TFloat])  # (query key, answer, timed_out flag, time)
ResultsT = TDict(RowT, TStr)
QueriesT = TDict(TCnd)
RS = RowT.sort()
_r_key, _r_ans, _r_flag = (RS.accessor(0, 0), RS.accessor(0, 1), RS.accessor(0, 2))
LStr = L.list_theory(StrSort, "Str")
mem_Str, _ = L.mem_theory(StrSort)


def GI(c, q, selfname="self"):
    """the answer general_inference gives for q (trivial short cut, else the operator)"""
    triv = z3.Or(L.isempty(L.M(L.ant(q))), L.isempty(L.fal(q)))
    return z3.If(triv, True, OpSpec(q, c.es("weakly", selfname).t))


def _q_at(qs, i):
    return z3.Select(qs.val, LInt.at(qs.keys, i))


def distinct_texts(qs):
    """negated carve-out of the known finding KF-C13-duplicate-texts"""
    i, j = z3.Ints("_dt_i _dt_j")
    return Forall(
        [i, j],
        [LInt.at(qs.keys, i), LInt.at(qs.keys, j)],
        z3.Implies(z3.And(0 <= i, i < j, j < LInt.len(qs.keys)), txt(_q_at(qs, i)) != txt(_q_at(qs, j))),
        "distinct.texts",
    )


def rows_ok(c, qs, rd, upto, flagged_means=None, name="rows"):
    """for every processed query: its row is stored under its text, carries its own key, and
    is either flagged as timed out with answer False or carries the un-budgeted answer"""
    i = z3.Int("_row_i")
    q = _q_at(qs, i)
    row = z3.Select(rd.val, txt(q))
    body = z3.And(
        mem_Str(rd.keys, txt(q)),
        _r_key(row) == LInt.at(qs.keys, i),
        z3.If(_r_flag(row), _r_ans(row) == False, _r_ans(row) == GI(c, q)),
    )
    return Forall([i], [LInt.at(qs.keys, i)], z3.Implies(z3.And(0 <= i, i < upto), body), name)


INF = SelfT("Inference", partition=PartT)

Contract(
    "inference.inference:Inference.single_inference",
    params={"self": INF, "queries": QueriesT, "timeout": TInt},
    returns=ResultsT,
    locals={"result_dict": ResultsT},
    requires=lambda c: [distinct_texts(c.queries)],
    ensures=lambda c, r: [rows_ok(c, c.queries, r, LInt.len(c.queries.keys))],
    loops={
        0: LoopSpec(
            "for (index, query) in queries.items()",
            lambda s, j, pre: [rows_ok(s, s.queries, s.result_dict, j)],
        )
    },
    properties=["C13", "C14"],
)

Contract(
    "inference.inference:Inference.multi_inference",
    params={"self": INF, "queries": QueriesT, "timeout": TInt},
    returns=ResultsT,
    requires=lambda c: [distinct_texts(c.queries)],
    ensures=lambda c, r: [rows_ok(c, c.queries, r, LInt.len(c.queries.keys))],
    trusted=True,
    note="ASSUMED (TB-mp, sequentialised): every worker is a call of _multi_inference_worker on a copy of the state "
    "whose only effect is its row in the manager dict; real interleavings are not explored. Exercised by Engine B (C13).",
)


def _worker_post(c, r):
    d = c.mp_return_dict
    row = z3.Select(d.val, c.index.t)
    q = c.query.t
    return [
        L.mem_Int(d.keys, c.index.t),
        _r_key(row) == c.index.t,
        z3.If(_r_flag(row), _r_ans(row) == False, _r_ans(row) == GI(c, q)),
    ]


Contract(
    "inference.inference:Inference._multi_inference_worker",
    params={"self": INF, "index": TInt, "query": TCnd, "mp_return_dict": TDict(RowT), "timeout": TInt},
    returns=TNone,
    ensures=_worker_post,
    modifies=["mp_return_dict"],
    properties=["C13", "C14"],
)


def _inference_post(c, r):
    qs = c.queries
    n = LInt.len(qs.keys)
    i = z3.Int("_pt_i")
    q = _q_at(qs, i)
    row = z3.Select(r.val, txt(q))
    pto = c.old.es("preprocessing_timed_out").t
    timed_out_rows = Forall(
        [i],
        [LInt.at(qs.keys, i)],
        z3.Implies(
            z3.And(0 <= i, i < n),
            z3.And(mem_Str(r.keys, txt(q)), _r_key(row) == LInt.at(qs.keys, i), _r_ans(row) == False),
        ),
        "rows.after.preprocessing.timeout",
    )
    return [_guard(pto, timed_out_rows), _guard(z3.Not(pto), rows_ok(c, qs, r, n))]


def _guard(cond, fa):
    """cond ==> forall ...   as a Forall"""
    return Forall(fa.vars, fa.triggers, z3.Implies(cond, fa.body), fa.name + ".guarded")


def _dc_inv(s, j, pre):
    qs = s.queries
    i = z3.Int("_dc_i")
    q = _q_at(qs, i)
    d = getattr(s, "_dc") if False else s._st.env["_dc"]
    row = z3.Select(d.val, txt(q))
    return [
        Forall(
            [i],
            [LInt.at(qs.keys, i)],
            z3.Implies(
                z3.And(0 <= i, i < j),
                z3.And(mem_Str(d.keys, txt(q)), _r_key(row) == LInt.at(qs.keys, i), _r_ans(row) == False),
            ),
            "dictcomp.rows",
        )
    ]


Contract(
    "inference.inference:Inference.inference",
    params={"self": INF, "queries": QueriesT, "timeout": TInt, "multi_inference": TBool},
    returns=ResultsT,
    locals={"_dc": ResultsT, "result_dict": ResultsT},
    requires=lambda c: [distinct_texts(c.queries)],
    ensures=_inference_post,
    raises={
        "Exception": lambda c: z3.And(
            z3.Not(c.old.es("preprocessing_done").t), z3.Not(c.old.es("preprocessing_timed_out").t)
        )
    },
    loops={0: LoopSpec("{... for (i, q) in queries.items()}", _dc_inv)},
    properties=["C13", "C14"],
)


# ---------------------------------------------------------------------------
# InferenceManager.inference: budgets and the result table (C13, C14)
# ---------------------------------------------------------------------------
MGR = TObj("InferenceManager", {"epistemic_state": TRec(dict(ES_COMMON, partition=PartT))})
QueriesObjT = TObj("Queries", {"conditionals": QueriesT, "name": TStr, "signature": TOpaque})


def _build_instance(ex, bound):
    ref = ex.st.alloc({"kind": "obj", "cls": "Inference", "fields": {"epistemic_state": bound["epistemic_state"]}})
    return VRef(ref, TObj("Inference", {}))


def _table_ok(c, df_cols, qs, upto, es_view):
    """row p carries key, text and answer of the p-th submitted query; every row is flagged or
    carries the operator's answer; the preprocessing flag is the one set by THIS call"""
    p = z3.Int("_tb_p")
    vals = L.values_of(L.Cnd)(qs.keys, qs.val)
    q = L.LCnd.at(vals, p)
    pto = es_view.es("preprocessing_timed_out").t
    body = z3.And(
        z3.Select(df_cols["index"], p) == LInt.at(qs.keys, p),
        z3.Select(df_cols["query"], p) == txt(q),
        z3.Select(df_cols["preprocessing_timed_out"], p) == pto,
        z3.Or(
            pto,
            z3.If(z3.Select(df_cols["inference_timed_out"], p), z3.Select(df_cols["result"], p) == False, z3.Select(df_cols["result"], p) == GI(es_view, q)),
        ),
        z3.Implies(pto, z3.Select(df_cols["result"], p) == False),
    )
    return Forall([p], [LInt.at(qs.keys, p)], z3.Implies(z3.And(0 <= p, p < upto), body), "table.rows")


def _mgr_post(c, r):
    qs = c.field(c.queries, "conditionals")
    cols = c._st.obj(r.ref)["cols"]
    return [_table_ok(c, cols, qs, LInt.len(qs.keys), c)]


def _mgr_inv(s, j, pre):
    qs = s.field(s.queries, "conditionals")
    cols = s._st.obj(s.df.ref)["cols"]
    return [_table_ok(s, cols, qs, j, s)]


from contracts import c_misc as _cm  # noqa: E402

_cm_ct = __import__("pyvc.contract", fromlist=["get"]).get("inference.inference_manager:create_inference_instance")
_cm_ct.result_builder = _build_instance

Contract(
    "inference.inference_manager:InferenceManager.inference",
    params={
        "self": MGR,
        "queries": QueriesObjT,
        "total_timeout": TInt,
        "inference_timeout": TInt,
        "preprocessing_timeout": TInt,
        "queries_name": TStr,
        "multi_inference": TBool,
        "decimals": TInt,
    },
    returns=TOpaque,
    requires=lambda c: [distinct_texts(c.field(c.queries, "conditionals"))],
    ensures=_mgr_post,
    raises={
        "AssertionError": lambda c: z3.And(z3.Not(c.old.es("preprocessing_done").t), z3.Or(_incons(c.old)[1], _incons(c.old)[0])),
        "Exception": lambda c: z3.BoolVal(True),
    },
    fuel=4,
    shards=4,
    loops={2: LoopSpec("for (index, query) in enumerate(queries.conditionals.values())", _mgr_inv)},
    abstractions={
        "pd.DataFrame({c: pd.Series([], dtype=object) for c in columns})": (lambda s: s._ex.lib.functions["pandas.DataFrame"](s._ex, [], {}, None), "TB-pd: an empty table with the listed columns"),
    },
    properties=["C13", "C14"],
    note="refusal (AssertionError) and 'no correct inference system' (Exception) are the only raises; the table rows are those of Inference.inference",
)


# ---------------------------------------------------------------------------
# create_epistemic_state: what a fresh manager starts from (C13)
# ---------------------------------------------------------------------------
def _ces_post(c, r):
    if not isinstance(r, VConcDict):
        return [z3.BoolVal(False)]
    d = {k.const: v for k, v in r.items}
    want = {"belief_base", "inference_system", "smt_solver", "pmaxsat_solver", "preprocessing_done", "preprocessing_timed_out", "preprocessing_time", "weakly"}
    out = [z3.BoolVal(set(d) == want)]
    if set(d) != want:
        return out
    out += [
        z3.BoolVal(d["belief_base"] is c.belief_base),
        d["inference_system"].t == c.inference_system.t,
        d["smt_solver"].t == c.smt_solver.t,
        d["pmaxsat_solver"].t == c.pmaxsat_solver.t,
        z3.Not(d["preprocessing_done"].t),
        z3.Not(d["preprocessing_timed_out"].t),
        d["weakly"].t == c.weakly.t,
    ]
    return out


Contract(
    "inference.inference_manager:create_epistemic_state",
    params={"belief_base": BeliefBaseT, "inference_system": TStr, "smt_solver": TStr, "pmaxsat_solver": TStr, "weakly": TBool},
    ensures=_ces_post,
    properties=["C13"],
    note="a fresh epistemic state holds the arguments, is not preprocessed and not timed out, and nothing else",
)
