"""Engine B: the z3 back-ends' correction-set enumeration `get_all_xi_i` (SystemWZ3, LexInfZ3)
against brute force -- the ASSUMED contract `result == MinFam(hard set, part)` of Engine P:
exactly the inclusion-minimal sets { c in part | w falsifies c } over the worlds w of the
optimizer's hard set, nothing when the hard set is empty."""
from __future__ import annotations

import random

from .common import merge, pmap, rnd_conditional, s2_bases, s3_base, split_text, texts_of, describe


def _case(args):
    sig, cond_texts, query_text, which, seed = args
    import z3

    from oracle.core import Sem
    from oracle.gen import cond as mkcond

    from inference.conditional_z3 import Conditional_z3
    from inference.lex_inf_z3 import LexInfZ3
    from inference.lex_inf_z3 import makeOptimizer as mk_l
    from inference.system_w_z3 import SystemWZ3
    from inference.system_w_z3 import makeOptimizer as mk_w

    rng = random.Random(seed)
    conds = {}
    for k, (b, a) in cond_texts.items():
        c = mkcond(b, a)
        c.index = k
        conds[k] = c
    q = mkcond(*query_text)
    sem = Sem(conds, [q.antecedence, q.consequence], sig)
    A, AB, AnB = sem.q(q)
    out = {"evaluations": 0, "fingerprints": [], "violations": [], "rejected": False}
    keys = list(conds)
    part_keys = [k for k in keys if rng.random() < 0.8] or keys[:1]
    zc = {k: Conditional_z3.translate_from_existing(conds[k]) for k in keys}
    qz = Conditional_z3.translate_from_existing(q)
    for cls, mk, name in ((SystemWZ3, mk_w, "SystemWZ3"), (LexInfZ3, mk_l, "LexInfZ3")):
        for side, worlds, hard in (("ver", AB, qz.make_A_then_B()), ("fal", AnB, qz.make_A_then_not_B())):
            opt = mk()
            opt.add(hard)
            # some conditionals outside `part` fixed as in the recursion (falsified / not falsified)
            fixed = {}
            for k in keys:
                if k not in part_keys and rng.random() < 0.5:
                    fixed[k] = rng.random() < 0.5
                    f = zc[k].make_A_then_not_B()
                    opt.add(f if fixed[k] else f == False)
            ws = [w for w in worlds if all((w in sem.fal[k]) == v for k, v in fixed.items())]
            fam = {frozenset(k for k in part_keys if w in sem.fal[k]) for w in ws}
            want = {a for a in fam if not any(b < a for b in fam)}
            inst = cls({"partition": []})
            try:
                got = inst.get_all_xi_i(opt, [zc[k] for k in part_keys])
            except BaseException as e:  # noqa
                out["violations"].append(dict(module="mcsz3", kind="exception", input=describe(sig, conds, [q], part=part_keys, fixed={str(k): v for k, v in fixed.items()}, side=side, cls=name), observed=f"{type(e).__name__}: {e}"))
                continue
            inv = {id(zc[k]): k for k in part_keys}
            got_sets = {frozenset(inv[id(c)] for c in s) for s in got}
            out["evaluations"] += 1
            if len(ws) >= 2:
                out["fingerprints"].append((tuple(sorted((tuple(sorted(sem.ver[k])), tuple(sorted(sem.fal[k]))) for k in part_keys)), tuple(sorted(ws)), name))
            if got_sets != want:
                out["violations"].append(
                    dict(module="mcsz3", kind="mcs-z3-wrong", input=describe(sig, conds, [q], part=part_keys, fixed={str(k): v for k, v in fixed.items()}, side=side, cls=name), expected=sorted(map(sorted, want)), observed=sorted(map(sorted, got_sets)))
                )
    return out


def run(tier, seed):
    rng = random.Random(seed)
    n2, n3 = (150, 250) if tier == "quick" else (1500, 2500)
    cases = []
    for sig, conds in s2_bases(rng, False, n2):
        q = rnd_conditional(rng, sig, 2, 0.05)
        cases.append((sig, texts_of(conds), split_text(str(q)), 0, rng.randrange(10**6)))
    for _ in range(n3):
        sig, conds = s3_base(rng, max_conds=5, consts=0.05)
        q = rnd_conditional(rng, sig, 2, 0.05)
        cases.append((sig, texts_of(conds), split_text(str(q)), 0, rng.randrange(10**6)))
    res = merge(pmap(_case, cases))
    res["scope"] = f"get_all_xi_i of both z3 back-ends on {n2} S2 + {n3} S3 bases x verifying/falsifying side of a random query x random part/fixing, vs brute force over explicit worlds"
    res["samples"] = [dict(signature=c[0], conditionals=c[1], query=c[2]) for c in cases[:2]]
    return res


def replay(v):
    return {"violates": False, "note": "re-run ./check with the same VERIF_SEED to reproduce"}
