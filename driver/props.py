"""per-property configuration of the checks (which Engine B module, which lemmas, what is
assumed, which level is claimed)"""
import importlib
import os

HERE = os.path.dirname(os.path.dirname(os.path.abspath(__file__)))


def _ops(p):
    def f(tier, seed):
        from bounded import ops

        return ops.run(p, tier, seed)

    return f


def _mod(name, fn="run"):
    def f(tier, seed):
        m = importlib.import_module(f"bounded.{name}")
        return getattr(m, fn)(tier, seed)

    f.module = name
    return f


def _usable_only(f):
    """C11 speaks about USABLE engines: disagreements of engines with which RC2 constructs but
    does not work (kissat ignores assumptions, lingeling lacks limited solving) are reported in
    `extra`, not as violations"""

    def g(tier, seed):
        r = f(tier, seed)
        keep, dropped = [], []
        for v in r["violations"]:
            (dropped if (v.get("input") or {}).get("engine_class") == "constructs-but-defective" else keep).append(v)
        r["violations"] = keep
        r.setdefault("extra", {})["defective_engine_disagreements_not_counted"] = len(dropped)
        return r

    g.module = getattr(f, "module", None)
    return g


def _both(*fs):
    """merge several Engine B runs"""

    def f(tier, seed):
        out = None
        for g in fs:
            r = g(tier, seed)
            r["fingerprints"] = set(r.get("fingerprints", []))
            if out is None:
                out = r
                out["scope"] = str(r.get("scope"))
            else:
                out["evaluations"] = (out.get("evaluations") or 0) + (r.get("evaluations") or 0)
                out["fingerprints"] |= {("+", x) for x in r["fingerprints"]}
                out["violations"] = list(out["violations"]) + list(r["violations"])
                out["scope"] += " || " + str(r.get("scope"))
                out["samples"] = list(out.get("samples") or []) + list(r.get("samples") or [])[:1]
        return out

    return f


TB = ["TB-fml", "TB-solver", "TB-py"]
L1 = "L1 (greedy tolerance test fails iff no ordered tolerance partition exists; order independence of the verdict) - classical (Goldszmidt/Pearl); cross-checked by Engine B against a brute force over all ordered partitions on bases of <= 3 conditionals"
LREST = "L-rest: GR(cs,stop) and GR(cs,stop+1) have the same elements (the layer at stop is empty)"

PROPS = {
    "C01": dict(
        level="proof",
        bounded=_ops("C01"),
        lemmas=["lenGLs", "L-stop", "L-least", "mem.snoc.Int", "mem.nil.Int"],
        trusted=TB,
        assumed=[L1, "Adams / Goldszmidt-Pearl: D+(not B|A) has no tolerance partition iff (B|A) is accepted by every ranking model of D"],
        explanation="Engine P proves, from the real source, Conditional.make_*, toImplicit, consistency (both loops, every exit), "
        "PEntailment._inference (strict and extended, for arbitrary distinct integer keys) and the shared wrapper general_inference against "
        "the greedy tolerance-partition specification; greedy <-> declarative is an assumed classical lemma. Engine B compares "
        "InferenceManager with a brute-force oracle written from the property wording (bounded stand-in).",
    ),
    "C02": dict(
        level="proof",
        bounded=_ops("C02"),
        lemmas=["lenGLs", "L-stop", "L-least", "Zmono", "Zshrink", "L2a", "L2b"],
        trusted=TB,
        assumed=["reading of `<` between minima: rank(AB) < rank(A not B) iff some threshold j has a verifying world of rank <= j and no falsifying world of rank <= j (minimum of an empty set infinite)"],
        explanation="Engine P proves SystemZ._preprocess_belief_base (partition = greedy partition), _inference and the recursion "
        "_rec_inference (result == EZ, the layer-wise descent) from the real source; lemma L2a (EZ = exists separating layer) and lemma L2b "
        "(the separating layer is a comparison of Z-ranks of worlds: w lies in the worlds of rank <= j iff the rank descent on {w} returns "
        "<= j) are proved by induction in z3 on every run. Engine B compares with the oracle's kz-based definition.",
    ),
    "C03": dict(
        level="other",
        bounded=_both(_ops("C03"), _mod("pure"), _mod("mcsz3")),
        lemmas=["GVC.count", "SeenViol.step", "InKey.step", "GenBlock.step", "CoveredUpTo.snoc", "MCS.bridge", "MCS.bridge2", "KeySoftN.mono", "XI", "L-rest", "L-restk", "L-stop", "L-stopk", "L-least", "L-leastk", "mem.snoc.Int", "mem.nil.Int"],
        trusted=TB + ["TB-z3", "TB-time", "TB-sat"],
        assumed=[
            "RC2: RC2(wcnf).compute() returns None iff no world satisfies the hard clauses, otherwise a model of them (pysat, trusted)",
            "GVC: get_violated_conditional(model, rc2.cost, ignore) = the not-ignored keys falsified by the model's world (bounded: module pure); its body is proved at clause level (contract get_violated_conditional#impl: the not-ignored keys with a clause containing no literal of the model, provided cost >= the number of such clauses; lemmas GVC.count) -- assumed are the step from unsatisfied clauses to falsified conditionals (TB-tac) and rc2.cost >= that count",
            "BLOCK: the clauses of exclude_violated(v), added together, remove exactly the worlds falsifying every conditional of v (bounded: module pure); WHICH clauses these are is proved (contract exclude_violated#impl: per key k of v every clause of nf_cnf_dict[k] extended by -id(k), then one clause of all the id(k)) -- assumed is their reading over worlds (projection of the helper variables)",
            "TB-tac: goal2intcnf(tseitin(F)) is a clause list denoting the models of F (the only assumption inside belief_base_to_cnf / query_to_cnf, whose wiring is proved; bounded: module c15)",
            "termination of the enumeration loops is not proved",
            "OptModel (TB-z3): after check() == sat, Optimize.model() denotes a world of the hard set such that no world of the hard set violates a strict subset of the soft constraints it violates (bounded: module mcsz3 compares get_all_xi_i with brute force)",
            "L3: the recursion over minimal correction sets (WREC) decides the preferred-structure definition of System W (Komo/Beierle 2022)",
        ],
        explanation="Engine P proves both back-ends from the real source against the recursion WREC over minimal falsified sets: "
        "SystemWZ3._preprocess_belief_base / _inference / _rec_inference / get_all_xi_i (z3 Optimize ghost model with soft constraints; the enumeration loop against AllMin / Exhaustive, lemmas XI.*) and SystemW._preprocess_belief_base / "
        "_inference / _rec_inference at key level (WCNF ghost model: which clause sets become hard for which tie, subset test, "
        "exists/forall over candidates, base case, feasibility constraints of the extended mode), plus the MaxSAT enumeration they call: "
        "remove_supersets (result = the inclusion-minimal sets, each once) and the loop of OptimizerRC2.minimal_correction_subsets, from "
        "which lemmas MCS.bridge / MCS.bridge2 derive the interface contract the operators use. Assumed: pysat's RC2, two helpers "
        "(bounded), the CNFs (C15), and the link WREC <-> preferred structure. Engine B compares InferenceManager with a brute-force "
        "oracle written from the property wording for both back-ends.",
    ),
    "C04": dict(
        level="other",
        bounded=_both(_ops("C04"), _mod("lexbias"), _mod("pure"), _mod("mcsz3")),
        lemmas=["GVC.count", "SeenViol.step", "InKey.step", "GenBlock.step", "CoveredUpTo.snoc", "MCS.bridge", "MCS.bridge2", "KeySoftN.mono", "XI", "L-rest", "L-restk", "L-stop", "L-stopk", "L-least", "L-leastk", "mem.snoc.Int", "mem.nil.Int"],
        trusted=TB + ["TB-z3", "TB-time", "TB-sat"],
        assumed=[
            "RC2: RC2(wcnf).compute() returns None iff no world satisfies the hard clauses, otherwise a model of them (pysat, trusted)",
            "GVC: get_violated_conditional(model, rc2.cost, ignore) = the not-ignored keys falsified by the model's world (bounded: module pure); its body is proved at clause level (contract get_violated_conditional#impl: the not-ignored keys with a clause containing no literal of the model, provided cost >= the number of such clauses; lemmas GVC.count) -- assumed are the step from unsatisfied clauses to falsified conditionals (TB-tac) and rc2.cost >= that count",
            "BLOCK: the clauses of exclude_violated(v), added together, remove exactly the worlds falsifying every conditional of v (bounded: module pure); WHICH clauses these are is proved (contract exclude_violated#impl: per key k of v every clause of nf_cnf_dict[k] extended by -id(k), then one clause of all the id(k)) -- assumed is their reading over worlds (projection of the helper variables)",
            "TB-tac: goal2intcnf(tseitin(F)) is a clause list denoting the models of F (the only assumption inside belief_base_to_cnf / query_to_cnf, whose wiring is proved; bounded: module c15)",
            "termination of the enumeration loops is not proved",
            "OptModel (TB-z3) as for C03",
            "L4: the recursion over minimum-cardinality correction sets (LREC: exists a verifying candidate that beats all falsifying ones) decides the lexicographic definition (Haldimann/Beierle 2022)",
        ],
        explanation="Engine P proves both back-ends from the real source against the recursion LREC: LexInfZ3 and LexInf "
        "_preprocess_belief_base / _inference / _rec_inference (and LexInfZ3.get_all_xi_i) (cardinality comparison, exists/forall over the minimum-cardinality "
        "candidates, tie handling, base case, extended mode), plus remove_supersets and the loop of "
        "OptimizerRC2.minimal_correction_subsets (see C03). Engine B compares with the oracle, including a generator biased to layers "
        "with several minimum-cardinality sets.",
    ),
    "C05": dict(
        level="other",
        bounded=_both(_ops("C05"), _mod("pure")),
        lemmas=["GVC.count", "SeenViol.step", "InKey.step", "GenBlock.step", "HoldAll", "SumCong.Eta", "mem.at.Int", "mem.snoc.Int", "mem.nil.Int", "KeySoftN.mono", "CoveredUpTo.snoc", "MCS.bridge", "MCS.bridge2"],
        trusted=TB + ["TB-ifml", "TB-sat", "TB-time"],
        assumed=[
            "MCS: minimal_correction_subsets enumerates the inclusion-minimal falsified key sets over the hard clauses' worlds (bounded: modules pure, c15)",
            "TB-tac: goal2intcnf(tseitin(F)) is a clause list denoting the models of F (bounded: module c15); the wiring of belief_base_to_cnf / query_to_cnf is proved",
            "L5: the constraint system over minimal correction sets has a solution violating the query iff some c-representation does (Beierle et al. 2021, von Berg et al. 2024)",
            "L-sumperm: a finite sum does not depend on the order in which a correction set is listed",
            "aliasing: different entries of the epistemic state hold different container objects",
        ],
        explanation="Engine P proves the whole constraint-system side of c-inference from the real source: makeSummation, freshVars, "
        "minima_encoding, CInference.encoding, translate (the list of pysmt constraints holds under an integer assignment exactly when the "
        "base's constraint system does, for arbitrary distinct integer keys), compile_constraint / compile_and_encode_query (which WCNF goes "
        "to the assumed MCS enumeration for which key and where the result is stored; the query's constraints incl. the three "
        "empty-side cases), _inference (answer = the combined system has no solution) and _preprocess_belief_base. The MaxSAT enumeration, "
        "the CNFs and the link to c-representations over worlds are assumed; the bounded oracle comparison (z3 search for a violating "
        "c-representation over explicit worlds) decides the property end to end.",
    ),
    "C06": dict(
        level="proof",
        bounded=_mod("c06"),
        lemmas=["lenGLs", "lenGLsk", "L-rest", "L-restk", "L-stop", "L-stopk", "L-least", "L-leastk", "mem.snoc.Int", "mem.nil.Int", "RangeList"],
        trusted=TB,
        assumed=[L1],
        explanation="Engine P proves consistency and consistency_indices (outer/inner loops, strict and extended exits, arbitrary keys) "
        "equal to the greedy partition specification, preprocess_belief_base's refusal of empty/inconsistent bases, and the diagnostics: "
        "facts_jointly_satisfiable, _last_layer_size and consistency_diagnostics (every flag equals its definition over the partition "
        "specification, for the base and for the base augmented by the fact conditionals; without precomputed partitions). Engine B "
        "compares partitions, key variant, diagnostics flags and refusal with the oracle.",
    ),
    "C07": dict(
        level="other",
        bounded=_ops("C07"),
        lemmas=["XI", "MCS.bridge", "MCS.bridge2", "CoveredUpTo.snoc", "L-rest", "L-restk", "L-stop", "L-stopk", "L-least", "L-leastk"],
        trusted=TB + ["TB-z3", "TB-time", "TB-sat"],
        assumed=[
            "L7: the extended (weakly consistent) formulations of p-entailment / Z / W / lex: conditionals of the infinity layer are hard constraints, worlds falsifying them are infeasible",
            "L3 / L4 (links of WREC / LREC to the definitions), RC2 / GVC / BLOCK, OptModel (see C03)",
        ],
        explanation="Engine P proves the extended branches from the real source: PEntailment._inference, SystemZ._inference (vacuity test, "
        "feasibility constraints, no-finite-layer case), both back-ends' _preprocess_belief_base (extended partition = greedy layers plus "
        "the never-tolerated rest), _inference (feasibility constraints of the infinity layer, top index, no-finite-layer case) and the "
        "recursions they call, including the two enumeration loops (rc2: minimal_correction_subsets, z3: get_all_xi_i). Engine B "
        "compares every operator and back-end with the oracle in weakly mode.",
    ),
    "C08": dict(
        level="other",
        bounded=_both(_mod("rel", "run_c08"), _mod("extra", "run_c08x")),
        p_also=["C01", "C02", "C03", "C04", "C05"],
        trusted=TB + ["TB-z3", "TB-time", "TB-sat", "TB-ifml"],
        assumed=["the inclusion theorems of the cited papers (Komo/Beierle 2022, Haldimann/Beierle 2022), as statements about the specification functions the operators are proved against"],
        explanation="Engine P discharges the contracts of every operator against its specification function (C01-C05); the inclusions "
        "are theorems relating those specifications (assumed, cited). Engine B checks the inclusions themselves, oracle-free, on the "
        "shipped corpora, generated bases of up to dozens of atoms and oracle-filtered delicate bases (bounded).",
    ),
    "C09": dict(
        level="other",
        bounded=_both(_mod("rel", "run_c09"), _mod("extra", "run_c09x")),
        p_also=["C01", "C02", "C03", "C04", "C05"],
        trusted=TB + ["TB-z3", "TB-time", "TB-sat", "TB-ifml"],
        assumed=["L9a-e: the specification functions of the operators (preferential / ranked model semantics) satisfy direct inference, System P and, for Z and lex, rational monotony"],
        explanation="Engine P proves general_inference's short cuts (reflexivity / supraclassicality path) and the contracts of every "
        "operator against its specification function (C01-C05), for arbitrary distinct integer keys; the postulates are theorems about "
        "those specifications (assumed). Engine B checks the postulates as implications between answers on generated "
        "premise/conclusion batches, incl. delicate bases, world-level Or instances and sparse key sets (bounded).",
    ),
    "C10": dict(
        level="other",
        bounded=_mod("c10"),
        trusted=["TB-antlr", "TB-fml", "TB-py"],
        assumed=[],
        lemmas=["RangeList"],
        explanation="Engine P proves the visitor methods (Or/And/Negation/Paren/Var incl. Top/Bottom) against the documented meaning, "
        "visitCondition (a condition list denotes its conditionals in the order written, consequent before and antecedent after the bar), "
        "visitConditionals (the parsed base's conditionals are keyed 1..n in that order), visitMyid / visitSignature (the signature is the "
        "identifier list as written, refused exactly for a duplicate or the reserved names Top / Bottom), and the rejection wiring of the wrappers: "
        "_require_end_of_input returns normally iff the rest of the token stream is NEWLINE* EOF, the error listener never returns "
        "normally, and _getParseTree / parse_formula return only for a text that both recognisers processed without a reported error "
        "(each has the raising listener installed) and that is followed by newlines only -- relative to a model of the ANTLR runtime's "
        "token stream and error reporting (TB-antlr); "
        "the ANTLR-generated recogniser is a table-driven interpreter outside its reach and is compared exhaustively with a reference "
        "parser written from docs/CL_SYNTAX.md on all token strings up to the stated length (bounded).",
    ),
    "C11": dict(
        level="other",
        bounded=_both(_usable_only(_mod("rel", "run_c11")), _mod("pure"), _mod("mcsz3"), _mod("extra", "run_c11x")),
        lemmas=["GVC.count", "SeenViol.step", "InKey.step", "GenBlock.step", "CoveredUpTo.snoc", "MCS.bridge", "MCS.bridge2", "XI"],
        trusted=TB + ["TB-z3", "TB-time", "TB-sat (RC2 assumed correct for every engine name)"],
        assumed=[
            "RC2 / GVC / BLOCK (see C03): the MaxSAT layer below minimal_correction_subsets",
            "OptModel (TB-z3): the optimum contract of z3.Optimize.model() (bounded: module mcsz3)",
            "WREC / LREC are the same specification for both back-ends: both are proved against it, which is what makes the answers agree",
        ],
        explanation="Engine P proves the back-end dispatch (create_inference_instance, create_optimizer) and proves BOTH back-ends of "
        "System W and lexicographic inference against the same recursion specifications (z3: world level, rc2: key level), plus "
        "remove_supersets and the enumeration loop of OptimizerRC2.minimal_correction_subsets; the engine name only reaches RC2 "
        "(abstracted). Agreement across all usable engines is checked end to end (bounded); two pysat engine failures are known findings.",
    ),
    "C12": dict(
        level="other",
        bounded=_mod("rel", "run_c12"),
        trusted=TB,
        assumed=[L1],
        explanation="Engine P's contracts for consistency_indices and PEntailment._inference hold for arbitrary distinct integer keys and "
        "an uninterpreted sort of worlds (no dependence on names); the remaining operators are checked by metamorphic variants (bounded).",
    ),
    "C13": dict(
        level="other",
        bounded=_both(_mod("c13"), _mod("extra", "run_c13x")),
        lemmas=["mem.snoc.Str"],
        trusted=TB + ["TB-mp (multi_inference assumed sequentialised)"],
        assumed=["precondition: query texts of one batch are pairwise distinct (negated carve-out of the known finding)"],
        explanation="Engine P proves the row plumbing (single_inference, _multi_inference_worker, Inference.inference): every row is "
        "stored under its query's text, carries its own key, and is flagged or carries the operator's answer, for batches with "
        "pairwise distinct texts; histories, duplicates and parallel evaluation are exercised by the bounded module.",
    ),
    "C14": dict(
        level="other",
        bounded=_mod("c14"),
        lemmas=["mem.snoc.Str", "XI", "CoveredUpTo.snoc"],
        trusted=TB + ["TB-z3", "TB-time (every clock observation nondeterministic)"],
        assumed=[],
        explanation="Engine P proves, with every clock observation and every Optimize.check() under a timeout nondeterministic, that "
        "single_inference / the worker / preprocess_belief_base convert exactly TimeoutError into flagged rows with answer False and "
        "that the z3 back-ends' _inference raise nothing else; the two enumeration loops (minimal_correction_subsets polls the deadline, "
        "get_all_xi_i turns a given-up optimizer into TimeoutError) raise TimeoutError and nothing else; fault injection at every "
        "observation point is the bounded stand-in.",
    ),
    "C15": dict(
        level="other",
        bounded=_both(_mod("c15"), _mod("pure")),
        lemmas=["GVC.count", "SeenViol.step", "InKey.step", "GenBlock.step", "CoveredUpTo.snoc", "MCS.bridge", "MCS.bridge2", "CnfHolds.snoc"],
        trusted=["TB-tac", "TB-sat", "TB-py", "TB-zexpr"],
        assumed=[
            "TB-tac: the Tseitin tactic returns a goal in CNF format (clauses of literals) that is equisatisfiable with the formula over the formula's atoms (bounded: truth tables of the resulting integer CNFs in module c15)",
            "RC2 / GVC / BLOCK (see C03)",
        ],
        explanation="Engine P proves Conditional(_z3).make_* (the formulas handed to the Tseitin tactic); the conversion of the tactic's "
        "goal to an integer CNF -- constant_value, expr_to_signed_id, goal2intcnf: for every assignment of truth values to pool ids the integer "
        "CNF holds exactly when every clause of the goal is true, where constants never take an id's truth value (the defect repaired by the "
        "first fix: commit is a failing obligation of this contract); remove_supersets (result = "
        "the inclusion-minimal sets, each once, as duplicate-free lists) and the enumeration loop of "
        "OptimizerRC2.minimal_correction_subsets (every recorded set is the violated set of a world, every world violates all of some "
        "recorded set; lemmas derive that the result is exactly the family of minimal correction sets); the integer CNFs and the two "
        "helpers below the loop are compared with truth tables / brute force (bounded).",
    ),
    "C16": dict(
        level="other",
        bounded=_both(_mod("c16"), _mod("extra", "run_c16x")),
        lemmas=["RangeList", "mem.snoc.Str", "mem.nil.Str", "LitsOK.step", "WofN.map", "L-stop", "L-least"],
        trusted=TB,
        assumed=["worlds handed to a ranking are well-formed bitstrings of its signature, and Wof(b) abbreviates WofN(b, signature) (the computation of symbolize_bitvec is proved: contract symbolize_bitvec#impl, lemma WofN.map)"],
        explanation="Engine P proves SystemZPreOCF._rec_z_rank, z_part2ocf and rank_world with the cache invariant (lazy / forced / "
        "bulk computation agree in any order) and acceptance on top of formula_rank; constructor, facts and diagnostics are bounded.",
    ),
    "C17": dict(
        level="other",
        bounded=_mod("c17"),
        lemmas=["HoldAll", "SumCong.Eta", "SumCong.Gm", "SumCong.Gp", "SumIV.concat"],
        trusted=TB + ["TB-z3", "TB-ifml"],
        assumed=["existence of c-representations for strongly consistent bases"],
        explanation="Engine P proves c_vec2ocf (rank = sum of impacts of falsified conditionals, keys 1..n), rank_world of the c-representation "
        "object (computed, forced or cached: always that sum; the cache keeps its meaning) and the constraint systems "
        "the impact vectors are solutions of (c-inference: minima_encoding, encoding, translate; c-revision: symbolize_minima_expression, "
        "encoding, translate_to_csp); construction, Pareto-minimality and front enumeration are compared with brute force (bounded).",
    ),
    "C18": dict(
        level="other",
        bounded=_mod("c18"),
        trusted=TB,
        assumed=[
            "worlds handed to a ranking are well-formed bitstrings of its signature, and Wof(b) abbreviates WofN(b, signature) (the computation of symbolize_bitvec is proved: contract symbolize_bitvec#impl, lemma WofN.map)",
            "precondition of marginalize: every world of the ranking has one character per atom of the signature (TB-py: ''.join of one-character strings is a function of the list)",
            "abstract rank_world of the base class returns RKf(world), or raises (compute_conditionalization); the custom ranking's rank_world is proved to return the stored rank",
        ],
        lemmas=["SeenRank.step", "MargAtt.step", "MargLB.step", "MargAny.step", "LitsOK.step", "WofN.map"],
        explanation="Engine P proves formula_rank (least rank of the models, None if none), conditional_acceptance, is_ocf, "
        "world_satisfies_conditionalization, the conditionalisations (filter_worlds_by_conditionalization, compute_conditionalization, "
        "conditionalize_existing_ranks: exactly the worlds satisfying the formula, with their ranks), both directions of the TPO "
        "conversion (tpo2ranks, ranks2tpo), the structure of marginalize (every projected world gets the least rank of its ranked "
        "extensions, where the projection of a world is proved to be the string of its bits at the positions of the kept atoms, in order; "
        "the new signature is the subsequence of the remaining atoms) and the constructor chain it ends in (init_custom -> "
        "CustomPreOCF.__init__ -> PreOCF.__init__ store ranks and signature) from the real source. All operations are also compared end to end with their "
        "definitions on all small rankings by the bounded module.",
    ),
    "C19": dict(
        level="other",
        bounded=_mod("c19"),
        lemmas=["HoldAll", "SumCong.Gm", "SumCong.Gp", "SumIV.concat"],
        trusted=["TB-z3", "TB-py", "TB-ifml"],
        assumed=[
            "precondition of translate_to_csp: no fixed_gamma_* values (negated carve-out of the known finding KF-C19-fixed-gamma)",
            "L19: gamma-_k - gamma+_k > mv_k - mf_k for the minima of the compilation entries iff the revised ranking accepts conditional k (arithmetic of minima)",
            "the three compilations list, per conditional, exactly the verifying / falsifying worlds with their rank and the other conditionals they verify / falsify (bounded: agreement of the compilations with a brute force)",
            "MASK: a literal mask returned by _extract_cond_masks decides verification / falsification of its conditional from two bits of a world (bounded: module c19 compares the mask path with the solver path)",
            "precondition of CRevisionModel.__init__: the worlds of the ranking are strings of integer literals (bitstrings)",
            "to_compilation reads the caches faithfully (bounded)",
        ],
        explanation="Engine P proves the constraint-system side of c-revision from the real source: symbolize_minima_expression (every "
        "compilation entry becomes rank + sum of gamma- over rejected + sum of gamma+ over accepted, gamma_plus_zero honoured), encoding "
        "(minima, the skip rule, gamma- - gamma+ > mv - mf) and translate_to_csp (the pysmt constraint list holds under an assignment "
        "exactly when the revision's constraint system does), and the incremental model as a data structure against an abstract view: "
        "__init__ establishes and add_conditional and remove_conditional preserve the representation invariant WF (for every world, world_acc / world_rej are exactly "
        "the indices of the current conditionals the world verifies / falsifies), so the classification after any sequence of additions "
        "and removals is that of the current conditionals. The world-level compilations, the z3 search (Pareto) and to_compilation of the "
        "incremental model are decided by the bounded module (acceptance of the revised ranking over explicit worlds, existence search, "
        "Pareto minimality, agreement of the three compilations, add/remove histories).",
    ),
    "C20": dict(
        level="other",
        bounded=_both(_mod("c20"), _mod("extra", "run_c20x")),
        trusted=["TB-io", "TB-py"],
        assumed=[],
        explanation="Engine P proves that save_ocf leaves the object's attribute dictionary unchanged on the normal exit and on every "
        "exception edge of open()/dump(); round-trip fidelity is the contract of pickle/json and is checked by the bounded module "
        "(same and fresh process, partial states, failing saves).",
    ),
}

NOT_APPLICABLE = {}


# Engine B modules that are finished and reviewed (a module file may exist while still in work)
READY_MODULES = {"c06", "c10", "c13", "c14", "c15", "c16", "c17", "c18", "c19", "c20", "lexbias", "pure", "mcsz3", "extra", "rel"}


def available(pid):
    """a property is claimed only if its Engine B module exists (or it needs none)"""
    b = PROPS[pid].get("bounded")
    mods = []

    def collect(f):
        if hasattr(f, "module"):
            mods.append(f.module)
        for c in getattr(f, "__closure__", None) or []:
            v = c.cell_contents
            if callable(v):
                collect(v)
            elif isinstance(v, tuple):
                for x in v:
                    if callable(x):
                        collect(x)

    if b:
        collect(b)
    return all(m in READY_MODULES and os.path.exists(os.path.join(HERE, "bounded", m + ".py")) for m in mods)
