"""Contracts: PreOCF.save_ocf (C20: a save, whether it succeeds or fails at ANY point,
leaves the in-memory object unchanged)"""
import z3

from pyvc.contract import Contract
from pyvc.values import *  # noqa


def _unchanged(c):
    now = c._st.obj(c.self.ref)
    old = c.old._st.obj(c.old.self.ref)
    return [now["present"] == old["present"], now["val"] == old["val"]]


Contract(
    "inference.preocf:PreOCF.save_ocf",
    params={"self": TDynT, "path": TOpaque, "protocol": TOpaque},
    returns=TNone,
    ensures=lambda c, r: _unchanged(c),
    raises={"Exception": lambda c: z3.And(*_unchanged(c)), "OSError": lambda c: z3.And(*_unchanged(c))},
    properties=["C20"],
    note="exception edges of open() and dump() are the crash points; TB-io: neither modifies the object being dumped",
)
