"""Engine B for C06: consistency / consistency_indices / diagnostics / refusal vs the oracle."""
from __future__ import annotations

import itertools
import random

from .common import (
    ATOMS2,
    BeliefBase,
    describe,
    merge,
    pmap,
    s2_bases,
    s3_base,
    split_text,
    texts_of,
)


def _case(args):
    sig, cond_texts, facts, seed = args
    from oracle.core import Sem, exists_tolerance_partition, partition_extended, partition_strict
    from oracle.gen import cond as mkcond
    from parser.Wrappers import parse_formula

    from inference.consistency_diagnostics import consistency_diagnostics
    from inference.consistency_sat import consistency, consistency_indices

    conds = {}
    for k, (b, a) in cond_texts.items():
        c = mkcond(b, a)
        c.index = k
        conds[k] = c
    out = {"evaluations": 0, "fingerprints": [], "violations": [], "rejected": False}
    bb = BeliefBase(list(sig), conds, "c06")
    sem = Sem(conds, [], sig)
    fp_base = tuple(sorted((tuple(sorted(sem.ver[k])), tuple(sorted(sem.fal[k]))) for k in sem.keys))

    def bad(kind, **kw):
        out["violations"].append(dict(kind=kind, input=describe(sig, conds, facts=facts), **kw))

    exp = {}
    for weakly in (False, True):
        e = (partition_extended if weakly else partition_strict)(sem.keys, sem.ver, sem.fal, sem.U)
        exp[weakly] = e
        try:
            got_o = consistency(bb, "z3", weakly)[0]
            got_k = consistency_indices(bb, "z3", weakly)[0]
        except BaseException as ex:  # noqa
            bad("exception", weakly=weakly, observed=f"{type(ex).__name__}: {ex}")
            continue
        out["evaluations"] += 2
        out["fingerprints"].append(hash((fp_base, weakly)))
        inv = {id(c): k for k, c in conds.items()}
        got_o_keys = False if got_o is False else [[inv[id(c)] for c in layer] for layer in got_o]
        want = False if e is None else e
        if got_o_keys != want:
            bad("partition-object", weakly=weakly, expected=want, observed=got_o_keys)
        if got_k != want:
            bad("partition-keys", weakly=weakly, expected=want, observed=got_k)
        if not weakly and len(conds) <= 3:
            # lemma L1 cross-check: greedy fails iff no ordered tolerance partition exists
            if exists_tolerance_partition(sem.keys, sem.ver, sem.fal, sem.U) != (e is not None):
                bad("oracle-L1-disagreement", weakly=weakly)
    # diagnostics
    for extended in (False, True):
        for use_facts in ((False, True) if facts else (False,)):
            try:
                diag = consistency_diagnostics(bb, extended=extended, uses_facts=use_facts, facts=facts if use_facts else None, on_inconsistent="silent")
            except BaseException as ex:  # noqa
                bad("diagnostics-exception", extended=extended, observed=f"{type(ex).__name__}: {ex}")
                continue
            out["evaluations"] += 1
            want = {}
            if use_facts:
                fm = sem.U
                for f in facts:
                    fm = fm & sem.mod(parse_formula(f))
                want["facts_consistent"] = bool(fm)
            if extended:
                pe = exp[True]
                want["belief_base_weakly_consistent"] = pe is not None
                want["belief_base_consistent"] = pe is not None and len(pe[-1]) == 0
            else:
                want["belief_base_consistent"] = exp[False] is not None
            if use_facts:
                # base augmented with (Bottom | not fact) per fact
                ver2, fal2 = dict(sem.ver), dict(sem.fal)
                keys2 = list(sem.keys)
                nk = max(keys2, default=0)
                for f in facts:
                    nk += 1
                    keys2.append(nk)
                    ver2[nk] = frozenset()
                    fal2[nk] = sem.U - sem.mod(parse_formula(f))
                if extended:
                    pc = partition_extended(keys2, ver2, fal2, sem.U)
                    want["combination_consistent"] = pc is not None
                    if pc is not None and exp[True] is not None:
                        want["combination_infinity_increase"] = len(pc[-1]) > len(exp[True][-1])
                else:
                    want["combination_consistent"] = partition_strict(keys2, ver2, fal2, sem.U) is not None
            got = {k: diag.get(k) for k in want}
            extra = {k for k in ("facts_consistent", "belief_base_consistent", "belief_base_weakly_consistent", "combination_consistent", "combination_infinity_increase") if k in diag and k not in want}
            if got != want or extra:
                bad("diagnostics", extended=extended, uses_facts=use_facts, expected=want, observed={k: diag.get(k) for k in set(want) | extra})
    # refusal by the operators
    from inference.inference_manager import InferenceManager
    from inference.queries import Queries

    q = mkcond("a", "Top")
    for weakly in (False, True):
        rejected = exp[weakly] is None or not conds
        for system, pm in (("p-entailment", "rc2"), ("system-z", "rc2"), ("system-w", "rc2"), ("system-w", "z3"), ("lex_inf", "rc2"), ("lex_inf", "z3"), ("c-inference", "rc2")):
            if system == "c-inference" and weakly:
                continue
            if not rejected and (seed % 7):
                continue  # accepted bases are exercised by the operator checks
            try:
                InferenceManager(bb, system, pmaxsat_solver=pm, weakly=weakly).inference(Queries({1: q}))
                raised = False
            except AssertionError:
                raised = True
            except BaseException as ex:  # noqa
                raised = f"{type(ex).__name__}"
            out["evaluations"] += 1
            if rejected and raised is not True:
                bad("not-refused", system=system, pmaxsat=pm, weakly=weakly, observed=raised)
            if not rejected and raised is not False:
                bad("refused-consistent-base", system=system, pmaxsat=pm, weakly=weakly, observed=raised)
    return out


FACTS2 = [[], ["a"], ["!b"], ["a", "b"], ["a", "!a"], ["a;b"], ["(a,b)", "!a"]]


def run(tier, seed):
    rng = random.Random(seed)
    cases = []
    exhaustive = tier == "thorough"
    def rekey(conds):
        """non-default keys (sub-base that kept its parent's keys, sparse, 0-based): key
        arithmetic of the fact conditionals must not collide with them"""
        style = rng.randrange(4)
        ks = list(conds)
        if style == 0:
            return conds
        if style == 1:
            new = [k + 1 for k in ks]  # e.g. {2,3}: len+1 is an existing key
        elif style == 2:
            new = [k - 1 for k in ks]  # 0-based
        else:
            new = sorted(rng.sample(range(1, 3 * len(ks) + 3), len(ks)))
        return {nk: conds[k] for nk, k in zip(new, ks)}

    for sig, conds in s2_bases(rng, exhaustive, 500):
        facts = rng.choice(FACTS2)
        cases.append((sig, texts_of(rekey(conds)), facts, rng.randrange(1000)))
    # the empty base
    cases.append((ATOMS2, {}, [], 0))
    for _ in range(1500 if exhaustive else 300):
        sig, conds = s3_base(rng, consts=0.12)
        facts = rng.choice([[], [rng.choice(sig)], ["!" + rng.choice(sig), rng.choice(sig)]])
        cases.append((sig, texts_of(rekey(conds)), facts, rng.randrange(1000)))
    res = merge(pmap(_case, cases))
    res["scope"] = f"S2 {'exhaustive' if exhaustive else 'sample 500'} + S3 {1500 if exhaustive else 300} bases x both modes x object/key variants x diagnostics with fact lists x refusal by every operator"
    res["samples"] = [dict(signature=c[0], conditionals=c[1], facts=c[2]) for c in cases[:2]]
    res["rule"] = "distinct by (semantic base, mode); every case is non-trivial (the partition is compared literally)"
    return res
