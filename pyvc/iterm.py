"""TB-ifml: integer-sorted pysmt terms and the constraints built from them (c-inference,
c-revision CSPs).

A term of sort ITerm denotes, under an assignment s : Asg of integers to symbol NAMES, the
integer iv(t, s); a constraint of sort IForm is true or false under s: hold(f, s).  The
constructors are given their classical meaning -- that is the trusted contract of
pysmt.shortcuts.{Symbol(.., INT), Int, Plus, GE, GT, LE, LT, Not, And} and FNode.__sub__:

    iv(Symbol(n), s) = asg(s, n)      iv(Int(c), s) = c      iv(a - b, s) = iv(a,s) - iv(b,s)
    iv(Plus(l), s)   = sum of iv(l[k], s)                     hold(LE(a,b), s) = iv(a,s) <= iv(b,s) ...
    hold(Not(f), s)  = not hold(f, s)  hold(And(l), s) = HoldAll(l, s)

A list of constraints is satisfiable, SatI(l), iff some assignment makes all of them hold;
pysmt's Solver.solve() over asserted integer constraints returns exactly that (TB-solver).

Bounded quantifiers over list positions are DEFINED predicates with a witness function
(elimination triggered by a list access, introduction by the skolem witness), as `mem` is.
"""
from __future__ import annotations

import z3

from . import logic as L
from .logic import TH, Forall, Int, Bool, list_theory, prefix_fun
from .values import StrSort

Asg = z3.DeclareSort("Asg")
ITerm = z3.DeclareSort("ITerm")
IForm = z3.DeclareSort("IForm")
LITerm = list_theory(ITerm, "ITerm")
LIForm = list_theory(IForm, "IForm")

asg = z3.Function("asg", Asg, StrSort, Int)
iv = z3.Function("iv", ITerm, Asg, Int)
hold = z3.Function("hold", IForm, Asg, Bool)

i_sym = z3.Function("i_sym", StrSort, ITerm)
i_const = z3.Function("i_const", Int, ITerm)
i_sub = z3.Function("i_sub", ITerm, ITerm, ITerm)
i_plusl = z3.Function("i_plusl", LITerm.sort, ITerm)
i_le = z3.Function("i_le", ITerm, ITerm, IForm)
i_lt = z3.Function("i_lt", ITerm, ITerm, IForm)
i_not = z3.Function("i_not", IForm, IForm)
i_andl = z3.Function("i_andl", LIForm.sort, IForm)
is_sym = z3.Function("is_sym", ITerm, Bool)  # FNode.is_symbol()

_s = z3.Const("_it_s", Asg)
_n = z3.Const("_it_n", StrSort)
_c = z3.Int("_it_c")
_a, _b = z3.Consts("_it_a _it_b", ITerm)
_f = z3.Const("_it_f", IForm)
_tl = z3.Const("_it_tl", LITerm.sort)
_fl, _fl2 = z3.Consts("_it_fl _it_fl2", LIForm.sort)
_k = z3.Int("_it_k")

TH.axiom([_n, _s], iv(i_sym(_n), _s), iv(i_sym(_n), _s) == asg(_s, _n), "iv.sym")
TH.axiom([_c, _s], iv(i_const(_c), _s), iv(i_const(_c), _s) == _c, "iv.const")
TH.axiom([_a, _b, _s], iv(i_sub(_a, _b), _s), iv(i_sub(_a, _b), _s) == iv(_a, _s) - iv(_b, _s), "iv.sub")
SumIV = prefix_fun("SumIV", [LITerm.sort, Asg], Int, lambda l, s: z3.IntVal(0), lambda l, s, k, prev: prev + iv(LITerm.at(l, k), s), max_chain=2)
TH.axiom([_tl, _s], iv(i_plusl(_tl), _s), iv(i_plusl(_tl), _s) == SumIV(_tl, _s, LITerm.len(_tl)), "iv.plus")
TH.axiom([_a, _b, _s], hold(i_le(_a, _b), _s), hold(i_le(_a, _b), _s) == (iv(_a, _s) <= iv(_b, _s)), "hold.le")
TH.axiom([_a, _b, _s], hold(i_lt(_a, _b), _s), hold(i_lt(_a, _b), _s) == (iv(_a, _s) < iv(_b, _s)), "hold.lt")
TH.axiom([_f, _s], hold(i_not(_f), _s), hold(i_not(_f), _s) == z3.Not(hold(_f, _s)), "hold.not")
TH.axiom([_n], i_sym(_n), is_sym(i_sym(_n)), "is_sym.sym")
TH.axiom([_c], i_const(_c), z3.Not(is_sym(i_const(_c))), "is_sym.const")

# HoldAll(l, s): every constraint of the list holds under s
HoldAll = z3.Function("HoldAll", LIForm.sort, Asg, Bool)
haw = z3.Function("haw", LIForm.sort, Asg, Int)
TH.axiom(
    [_fl, _s, _k],
    [HoldAll(_fl, _s), LIForm.at(_fl, _k)],
    z3.Implies(z3.And(HoldAll(_fl, _s), 0 <= _k, _k < LIForm.len(_fl)), hold(LIForm.at(_fl, _k), _s)),
    "HoldAll.elim",
)
TH.axiom(
    [_fl, _s],
    HoldAll(_fl, _s),
    z3.Implies(
        z3.Not(HoldAll(_fl, _s)),
        z3.And(0 <= haw(_fl, _s), haw(_fl, _s) < LIForm.len(_fl), z3.Not(hold(LIForm.at(_fl, haw(_fl, _s)), _s))),
    ),
    "HoldAll.intro",
)
TH.axiom([_fl, _s], hold(i_andl(_fl), _s), hold(i_andl(_fl), _s) == HoldAll(_fl, _s), "hold.andl")
# derived (proved in lemmas/zlemmas.py from elim / intro and the list axioms)
TH.axiom([_fl, _f, _s], HoldAll(LIForm.snoc(_fl, _f), _s), HoldAll(LIForm.snoc(_fl, _f), _s) == z3.And(HoldAll(_fl, _s), hold(_f, _s)), "HoldAll.snoc")
TH.axiom([_s], HoldAll(LIForm.nil, _s), HoldAll(LIForm.nil, _s), "HoldAll.nil")
TH.axiom(
    [_fl, _fl2, _s],
    HoldAll(LIForm.concat(_fl, _fl2), _s),
    HoldAll(LIForm.concat(_fl, _fl2), _s) == z3.And(HoldAll(_fl, _s), HoldAll(_fl2, _s)),
    "HoldAll.concat",
)
DERIVED = ["HoldAll.snoc", "HoldAll.nil", "HoldAll.concat"]

# satisfiability of a list of integer constraints
SatI = z3.Function("SatI", LIForm.sort, Bool)
satw = z3.Function("satw", LIForm.sort, Asg)
TH.axiom([_fl, _s], HoldAll(_fl, _s), z3.Implies(HoldAll(_fl, _s), SatI(_fl)), "SatI.intro")
TH.axiom([_fl], SatI(_fl), z3.Implies(SatI(_fl), HoldAll(_fl, satw(_fl))), "SatI.elim")


# ---------------------------------------------------------------------------
# bounded quantifiers over positions as defined predicates
# ---------------------------------------------------------------------------
def _step_axiom(name, P, xs, body, conj):
    """for a predicate whose LAST argument is the bound n: P(.., n) = P(.., n-1) (and / or) body(n-1) for n >= 1
    (derived from elimination / introduction; unfolded one step per chain)"""
    n = xs[-1]
    prev = P(*xs[:-1], n - 1)
    last = body(xs[:-1] + [n - 1] if False else xs, n - 1)
    rhs = z3.And(prev, last) if conj else z3.Or(prev, last)
    ax = TH.axiom(xs, P(*xs), z3.Implies(n >= 1, P(*xs) == rhs), f"{name}.step")
    ax.max_chain = 1
    return ax


# bound-indexed predicates with a step axiom: name -> (P, W, xs, body, trig, conj); each step axiom is
# re-derived from the predicate's elimination / introduction axioms by lemmas/zlemmas.py (lemma "<name>.step")
STEP_PREDS: dict = {}


def defpred_all(name, sorts, length, body, trig, step=False):
    """P(xs)  <=>  forall k in [0, length(xs)): body(xs, k).
    elimination is triggered by P(xs) together with trig(xs, k)."""
    P = z3.Function(name, *sorts, Bool)
    W = z3.Function(name + "!w", *sorts, Int)
    xs = [z3.Const(f"_{name}_{j}", s) for j, s in enumerate(sorts)]
    k = z3.Int(f"_{name}_k")
    TH.axiom(xs + [k], [P(*xs), trig(xs, k)], z3.Implies(z3.And(P(*xs), 0 <= k, k < length(xs)), body(xs, k)), f"{name}.elim")
    w = W(*xs)
    TH.axiom(xs, P(*xs), z3.Implies(z3.Not(P(*xs)), z3.And(0 <= w, w < length(xs), z3.Not(body(xs, w)))), f"{name}.intro")
    if step:
        _step_axiom(name, P, xs, body, True)
        STEP_PREDS[name] = (P, W, xs, body, trig, True)
    return P, W


def defpred_some(name, sorts, length, body, trig, step=False):
    """P(xs)  <=>  exists k in [0, length(xs)): body(xs, k)."""
    P = z3.Function(name, *sorts, Bool)
    W = z3.Function(name + "!w", *sorts, Int)
    xs = [z3.Const(f"_{name}_{j}", s) for j, s in enumerate(sorts)]
    k = z3.Int(f"_{name}_k")
    TH.axiom(xs + [k], [P(*xs), trig(xs, k)], z3.Implies(z3.And(0 <= k, k < length(xs), body(xs, k)), P(*xs)), f"{name}.intro")
    w = W(*xs)
    TH.axiom(xs, P(*xs), z3.Implies(P(*xs), z3.And(0 <= w, w < length(xs), body(xs, w))), f"{name}.elim")
    if step:
        _step_axiom(name, P, xs, body, False)
        STEP_PREDS[name] = (P, W, xs, body, trig, False)
    return P, W


# m is the minimum of the values of the terms of S under s (false for an empty S)
AllLE, _ = defpred_all("AllLE", [Int, LITerm.sort, Asg], lambda x: LITerm.len(x[1]), lambda x, k: x[0] <= iv(LITerm.at(x[1], k), x[2]), lambda x, k: LITerm.at(x[1], k))
SomeGE, _ = defpred_some("SomeGE", [Int, LITerm.sort, Asg], lambda x: LITerm.len(x[1]), lambda x, k: x[0] >= iv(LITerm.at(x[1], k), x[2]), lambda x, k: LITerm.at(x[1], k))


def IsMinOf(m, S, s):
    return z3.And(AllLE(m, S, s), SomeGE(m, S, s))


# the first n constraints of a list hold (loops that assert a list constraint by constraint)
HoldUpTo, _ = defpred_all("HoldUpTo", [LIForm.sort, Asg, Int], lambda x: x[2], lambda x, k: hold(LIForm.at(x[0], k), x[1]), lambda x, k: LIForm.at(x[0], k))
_hn = z3.Int("_it_hn")
# derived (lemmas/zlemmas.py): all of them = the whole list
TH.axiom([_fl, _s, _hn], HoldUpTo(_fl, _s, _hn), z3.Implies(_hn == LIForm.len(_fl), HoldUpTo(_fl, _s, _hn) == HoldAll(_fl, _s)), "HoldUpTo.all")
# the same fact triggered by HoldAll: only for contracts that list it in `axioms` (it creates a term per HoldAll)
HOLDUPTO_ALL2 = Forall([_fl, _s], [HoldAll(_fl, _s)], HoldUpTo(_fl, _s, LIForm.len(_fl)) == HoldAll(_fl, _s), "HoldUpTo.all2")
DERIVED += ["HoldUpTo.all"]


def both(vars, lhs, rhs, name, rhs_trigger=None):
    """lhs == rhs, instantiated where either side occurs (the second copy is only ever assumed:
    it states the same fact with another trigger)"""
    second = Forall(vars, [rhs_trigger if rhs_trigger is not None else rhs], lhs == rhs, name + ".r")
    second.assume_only = True
    return [Forall(vars, [lhs], lhs == rhs, name), second]


def iff2(vars, lhs, rhs, name, rhs_trigger=None):
    """lhs <=> rhs as two implications (two smaller proof obligations), each usable from either side"""
    rt = rhs_trigger if rhs_trigger is not None else rhs
    out = [Forall(vars, [lhs], z3.Implies(lhs, rhs), name + ".=>"), Forall(vars, [rt], z3.Implies(rhs, lhs), name + ".<=")]
    for trig, body, tag in ((rt, z3.Implies(lhs, rhs), ".=>.r"), (lhs, z3.Implies(rhs, lhs), ".<=.r")):
        f = Forall(vars, [trig], body, name + tag)
        f.assume_only = True
        out.append(f)
    return out


# names produced by f-strings: one injective-by-construction function per template
_fstr: dict = {}


def fstr_fun(template, sorts):
    key = (template, tuple(str(s) for s in sorts))
    if key not in _fstr:
        _fstr[key] = z3.Function("fstr<" + template + ">" + "".join("_" + str(s) for s in sorts), *sorts, StrSort)
    return _fstr[key]


# ---------------------------------------------------------------------------
# sums of named symbols over a key list, and the congruence lemma (induction, lemmas/zlemmas.py)
#   Sum<tag>(l, s, n) = sum of asg(s, Name(l[k])) for k < n
#   lemma.SumCong.<tag>:  SumIV(tl, s, n) != Sum<tag>(kl, s, n)  ==>  some k < n has
#                         iv(tl[k], s) != asg(s, Name(kl[k]))          (k named by a witness function)
# ---------------------------------------------------------------------------
LInt = L.LInt
NAMED_SUMS: dict = {}


def named_sum(tag, NameFn):
    if tag in NAMED_SUMS:
        return NAMED_SUMS[tag][0]
    S = prefix_fun(f"Sum{tag}", [LInt.sort, Asg], Int, lambda l, s: z3.IntVal(0), lambda l, s, k, prev: prev + asg(s, NameFn(LInt.at(l, k))), max_chain=2)
    tl = z3.Const(f"_sc{tag}_tl", LITerm.sort)
    kl = z3.Const(f"_sc{tag}_kl", LInt.sort)
    s = z3.Const(f"_sc{tag}_s", Asg)
    n = z3.Int(f"_sc{tag}_n")
    W = z3.Function(f"SumCong{tag}!w", LITerm.sort, LInt.sort, Asg, Int, Int)
    w = W(tl, kl, s, n)
    TH.axiom(
        [tl, kl, s, n],
        [SumIV(tl, s, n), S(kl, s, n)],
        z3.Implies(z3.And(0 <= n, SumIV(tl, s, n) != S(kl, s, n)), z3.And(0 <= w, w < n, iv(LITerm.at(tl, w), s) != asg(s, NameFn(LInt.at(kl, w))))),
        f"lemma.SumCong.{tag}",
    )
    NAMED_SUMS[tag] = (S, NameFn)
    return S


# lemma (two inductions, lemmas/zlemmas.py): the sum over a concatenation
_c1, _c2 = z3.Consts("_sci_1 _sci_2", LITerm.sort)
_cm = z3.Int("_sci_m")
TH.axiom(
    [_c1, _c2, _s, _cm],
    SumIV(LITerm.concat(_c1, _c2), _s, _cm),
    z3.Implies(_cm == LITerm.len(_c1) + LITerm.len(_c2), SumIV(LITerm.concat(_c1, _c2), _s, _cm) == SumIV(_c1, _s, LITerm.len(_c1)) + SumIV(_c2, _s, LITerm.len(_c2))),
    "lemma.SumIV.concat",
)
