"""Contracts: inference/system_w.py, inference/lex_inf.py (rc2 back-end recursions, key level).

The partial-MaxSAT layer is ASSUMED (named in the evidence):
  * Inv_es   for every base key k: k is a key of f_cnf_dict / nf_cnf_dict and the clause lists
             denote fal(D[k]) / nf(D[k]) (C15's faithfulness + TB-tac freshness of auxiliaries);
             query_v_cnf / query_f_cnf denote ver / fal of the current query; every layer of the
             partition consists of base keys
  * MCS      minimal_correction_subsets(wcnf, ignore) enumerates the inclusion-minimal sets
             { k not ignored | w falsifies D[k] } over the worlds w admitted by wcnf's hard clauses,
             each as a duplicate-free list, no two lists with the same elements
What is verified is the real control structure of the recursions: which clause sets become hard
constraints for which tie, the subset / cardinality tests, the exists/forall over candidates,
the base case, and that nothing else happens to the caller's WCNF.
"""
import z3

from contracts.c_consistency_sat import BeliefBaseT
from contracts.c_inference import DeadlineT, ES_COMMON
from pyvc import lib
from pyvc import logic as L
from pyvc.contract import Contract, LoopSpec
from pyvc.lib import Den, DcP, LClause, TClause
from pyvc.logic import LInt, LLInt
from pyvc.values import *  # noqa

KSet = z3.SetSort(L.Int)
KFam = z3.SetSort(KSet)
CMapS = z3.ArraySort(L.Int, L.Cnd)
SK = TSet(TInt)
SSK = TSet(SK)
enumK, _eidxK, cardK = L.enum_theory(L.Int)
setofK = L.set_of_list(L.Int)
LKS = L.list_theory(KSet)

CnfDictT = TDict(TList(TClause))
ES_RC2 = dict(ES_COMMON)
ES_RC2.update(
    {
        "partition": TList(TList(TInt)),
        "nf_cnf_dict": CnfDictT,
        "f_cnf_dict": CnfDictT,
        "v_cnf_dict": CnfDictT,
        "query_v_cnf": TList(TClause),
        "query_f_cnf": TList(TClause),
    }
)


def SelfRC2(cls):
    return TObj(cls, {"epistemic_state": TRec(ES_RC2)})


def _es(c, key, selfname="self"):
    return c.es(key, selfname)


def _val(c, selfname="self"):
    return c.field(_es(c, "belief_base", selfname), "conditionals")


def _P(c):
    return _es(c, "partition").t


# --- specification vocabulary at key level -----------------------------------------------
MinFamK = z3.Function("MinFamK", L.WSet, CMapS, KSet, KFam)  # minimal falsified key sets over H within a key set
ASAK = z3.Function("ASAK", KFam, KFam, L.Bool)
FamOfLL = z3.Function("FamOfLL", LLInt.sort, KFam)  # a list of key lists read as a set of key sets
IgnoreOf = z3.Function("IgnoreOf", LLInt.sort, L.Int, LInt.sort)  # keys of all layers but layer i
NotIgnored = z3.Function("NotIgnored", LInt.sort, KSet)  # base keys outside an ignore list
_v = z3.Const("_k_val", CMapS)
_l = z3.Const("_k_l", LInt.sort)
FalPK = L.prefix_fun("FalPK", [CMapS, LInt.sort], L.WSet, lambda v, l: L.FULL, lambda v, l, k, prev: L.inter(prev, L.fal(z3.Select(v, LInt.at(l, k)))))
NfPK = L.prefix_fun("NfPK", [CMapS, LInt.sort], L.WSet, lambda v, l: L.FULL, lambda v, l, k, prev: L.inter(prev, L.nf(z3.Select(v, LInt.at(l, k)))))
_Pp = z3.Const("_k_P", LLInt.sort)
_ii = z3.Int("_k_i")
# ASSUMED: the partition's layers are disjoint and cover the base, so "not ignored" = the layer
L.TH.axiom([_Pp, _ii], IgnoreOf(_Pp, _ii), NotIgnored(IgnoreOf(_Pp, _ii)) == setofK(LLInt.at(_Pp, _ii)), "assumed.ignore.complement")
# (same assumption: a partition with a single layer has all base keys in it)
L.TH.axiom(
    [_Pp, _ii],
    NotIgnored(LLInt.at(_Pp, _ii)),
    z3.Implies(z3.And(LLInt.len(_Pp) == 1, _ii == 0), NotIgnored(LLInt.at(_Pp, _ii)) == z3.EmptySet(L.Int)),
    "assumed.ignore.single.layer",
)


def ExactK(H, val, partset, xi):
    e1 = enumK(xi)
    e2 = enumK(z3.SetDifference(partset, xi))
    return L.inter(L.inter(H, FalPK(val, e1, LInt.len(e1))), NfPK(val, e2, LInt.len(e2)))


def inv_es(c, selfname="self"):
    d = _val(c, selfname)
    f, nf = _es(c, "f_cnf_dict", selfname), _es(c, "nf_cnf_dict", selfname)
    k = z3.Int("_ies_k")
    i, j = z3.Ints("_ies_i _ies_j")
    P = _es(c, "partition", selfname).t
    return [
        L.Forall(
            [k],
            [L.mem_Int(d.keys, k)],
            z3.Implies(
                L.mem_Int(d.keys, k),
                z3.And(
                    L.mem_Int(f.keys, k),
                    L.mem_Int(nf.keys, k),
                    Den(z3.Select(f.val, k)) == L.fal(z3.Select(d.val, k)),
                    Den(z3.Select(nf.val, k)) == L.nf(z3.Select(d.val, k)),
                ),
            ),
            "Inv_es.cnf",
        ),
        L.Forall(
            [i, j],
            [LInt.at(LLInt.at(P, i), j)],
            z3.Implies(z3.And(0 <= i, i < LLInt.len(P), 0 <= j, j < LInt.len(LLInt.at(P, i))), L.mem_Int(d.keys, LInt.at(LLInt.at(P, i), j))),
            "Inv_es.partition.keys",
        ),
    ]


# --- soft clauses: every clause of every not-ignored key must be a soft clause of the WCNF --------
from pyvc import iterm as _IT  # noqa: E402
from pyvc.lib import Clause  # noqa: E402

CSoft = z3.SetSort(Clause)
KeySoftN, _ksw = _IT.defpred_all("KeySoftN", [CSoft, LClause.sort, L.Int], lambda x: x[2], lambda x, j: z3.IsMember(LClause.at(x[1], j), x[0]), lambda x, j: LClause.at(x[1], j))
_s1, _s2 = z3.Consts("_ks_1 _ks_2", CSoft)
_kcl = z3.Const("_ks_cl", LClause.sort)
_kn = z3.Int("_ks_n")
# derived (lemmas/zlemmas.py): more soft clauses keep a key covered
L.TH.axiom([_s1, _s2, _kcl, _kn], [KeySoftN(_s1, _kcl, _kn), KeySoftN(_s2, _kcl, _kn)], z3.Implies(z3.And(KeySoftN(_s1, _kcl, _kn), z3.IsSubset(_s1, _s2)), KeySoftN(_s2, _kcl, _kn)), "KeySoftN.mono")
_nk = z3.Int("_ni_k")
_nl = z3.Const("_ni_l", LInt.sort)
# "base keys outside the ignore list" (half of the definition)
L.TH.axiom([_nk, _nl], [z3.IsMember(_nk, NotIgnored(_nl))], z3.Implies(z3.IsMember(_nk, NotIgnored(_nl)), z3.Not(L.mem_Int(_nl, _nk))), "def.NotIgnored.outside")


def key_soft(soft, cnf):
    return KeySoftN(soft, cnf, LClause.len(cnf))


def soft_covers(c, soft, ignore, selfname="self"):
    """precondition of MCS: all clauses of every not-ignored key of nf_cnf_dict are soft clauses"""
    nf = _es(c, "nf_cnf_dict", selfname)
    k = z3.Int("_sc_k")
    return L.Forall([k], [L.mem_Int(nf.keys, k)], z3.Implies(z3.And(L.mem_Int(nf.keys, k), z3.IsMember(k, NotIgnored(ignore))), key_soft(soft, z3.Select(nf.val, k))), "MCS.pre.soft.covers")


# --- assumed: the MaxSAT enumeration -------------------------------------------------------
OPT = TObj("Optimizer", {"epistemic_state": TRec(ES_RC2)})


def _mcs_post(c, r):
    val = _val(c).val
    fam = FamOfLL(r.t)
    xs = z3.Const("_mcs_xs", KSet)
    kk = z3.Int("_mcs_k")
    return [
        fam == MinFamK(c.A(c.wcnf), val, NotIgnored(c.ignore.t)),
        # nothing is returned exactly when no world satisfies the hard clauses
        (r.len() == 0) == L.isempty(c.A(c.wcnf)),
        (r.len() == 0) == (fam == z3.EmptySet(KSet)),
        # every returned key is one of the keys that were not ignored
        L.Forall([xs, kk], [z3.IsMember(kk, xs)], z3.Implies(z3.And(z3.IsMember(xs, fam), z3.IsMember(kk, xs)), z3.IsMember(kk, NotIgnored(c.ignore.t))), "mcs.members.not.ignored"),
    ]


Contract(
    "inference.optimizer:Optimizer.minimal_correction_subsets",
    params={"self": OPT, "wcnf": TSolverT, "ignore": TList(TInt), "deadline": DeadlineT},
    defaults={"ignore": lambda ex: VList(LInt.nil, TInt), "deadline": lambda ex: VNone()},
    returns=TList(TList(TInt)),
    requires=lambda c: [soft_covers(c, c.soft(c.wcnf), c.ignore.t)],
    ensures=_mcs_post,
    raises={"TimeoutError": lambda c: z3.BoolVal(True)},
    trusted=True,
    note="interface contract MCS: DERIVED for the only implementation, OptimizerRC2.minimal_correction_subsets (contracts/c_mcs.py: proved structural contract + lemmas MCS.bridge, MCS.bridge2), relative to the assumed RC2 / GVC / BLOCK contracts one level further down; also compared with brute force by modules pure / c15",
)
# --- WRECK: System W recursion at key level --------------------------------------------------
WRECK = z3.Function("WRECK", LLInt.sort, CMapS, L.WSet, L.WSet, L.WSet, L.Int, L.Bool)
AtLevelWK = z3.Function("AtLevelWK", L.WSet, L.Bool)
_m = z3.Const("_mkk", L.WSet)
L.TH.axiom([_m], AtLevelWK(_m), AtLevelWK(_m), "marker.WK")
_wV, _wF, _wH = z3.Consts("_wk_V _wk_F _wk_H", L.WSet)
_wxi = z3.Const("_wk_xi", KSet)
_wn = z3.Int("_wk_n")
witWK = z3.Function("witWK", LLInt.sort, CMapS, L.WSet, L.WSet, L.WSet, L.Int, KSet)
_partset = NotIgnored(IgnoreOf(_Pp, _ii))  # = the keys of layer i (assumed.ignore.complement); this is the shape the code produces
_XV = MinFamK(L.inter(_wH, _wV), _v, _partset)
_XF = MinFamK(L.inter(_wH, _wF), _v, _partset)
_S = z3.SetIntersect(_XV, _XF)
_me = WRECK(_Pp, _v, _wV, _wF, _wH, _ii)


def _next(xi):
    return z3.And(_ii > 0, WRECK(_Pp, _v, _wV, _wF, ExactK(_wH, _v, _partset, xi), _ii - 1))


_wit = witWK(_Pp, _v, _wV, _wF, _wH, _ii)
_A = [_Pp, _v, _wV, _wF, _wH, _ii]
WRECK_AXIOMS = [
    L.Forall(_A, [_me, AtLevelWK(_wH)], z3.Implies(_me, ASAK(_XV, _XF)), "def.WRECK.elim.asa"),
    L.Forall(_A + [_wxi], [_me, AtLevelWK(_wH), z3.IsMember(_wxi, _S)], z3.Implies(z3.And(_me, z3.IsMember(_wxi, _S)), _next(_wxi)), "def.WRECK.elim.all"),
    L.Forall(_A + [_wxi, _wn], [_me, AtLevelWK(_wH), FalPK(_v, enumK(_wxi), _wn)], z3.Implies(z3.And(_me, z3.IsMember(_wxi, _S)), _next(_wxi)), "def.WRECK.elim.all.2"),
    L.Forall(_A, [_me, AtLevelWK(_wH)], z3.Implies(z3.Not(_me), z3.Or(z3.Not(ASAK(_XV, _XF)), z3.And(z3.IsMember(_wit, _S), z3.Not(_next(_wit))))), "def.WRECK.intro"),
]

SW = SelfRC2("SystemW")


def _qsets(c):
    """the query's verification / falsification sets as denoted by the stored query CNFs"""
    return Den(_es(c, "query_v_cnf").t), Den(_es(c, "query_f_cnf").t)


def _w_pre(c):
    P = _P(c)
    return inv_es(c) + [0 <= c.partition_index.t, c.partition_index.t < LLInt.len(P), AtLevelWK(c.A(c.hard_constraints))]


def _w_post(c, r):
    V, F = _qsets(c)
    return [
        r.t == WRECK(_P(c), _val(c).val, V, F, c.old.A(c.old.hard_constraints), c.partition_index.t),
        c.A(c.hard_constraints) == c.old.A(c.old.hard_constraints),
    ]


def _w_inv_ties(s, j, pre):
    V, F = _qsets(s)
    P, i = _P(s), s.partition_index.t
    H = pre.A(pre.hard_constraints)
    lst = s._st.env["__seq4"].t
    k = z3.Int("_wt_k")
    partset = NotIgnored(IgnoreOf(P, i))
    xs = z3.Const("_wt_xs", KSet)
    kk = z3.Int("_wt_kk")
    S = z3.SetIntersect(s.xi_i_set.t, s.xi_i_prime_set.t)
    return [
        s.A(s.hard_constraints) == H,
        L.Forall(
            [k],
            [LKS.at(lst, k)],
            z3.Implies(z3.And(0 <= k, k < j), z3.And(i > 0, WRECK(P, _val(s).val, V, F, ExactK(H, _val(s).val, partset, LKS.at(lst, k)), i - 1))),
            "ties.hold.so.far",
        ),
        # every key of every tied set is a key of the current layer (from the MCS contract)
        L.Forall(
            [xs, kk],
            [z3.IsMember(kk, xs)],
            z3.Implies(z3.And(z3.IsMember(xs, S), z3.IsMember(kk, xs)), L.mem_Int(LLInt.at(P, i), kk)),
            "tied.keys.in.layer",
        ),
    ]


def _unchanged(name):
    return lambda s, j, pre: [s.A(getattr(s, name)) == pre.A(getattr(pre, name))]


def _appended(name, cnfvar):
    return lambda s, j, pre: [s.A(getattr(s, name)) == L.inter(pre.A(getattr(pre, name)), DcP(getattr(s, cnfvar), j))]


def _soft_layer(s, name, j, pre):
    """the clauses of the first j keys of the layer are soft clauses; soft clauses are only added"""
    p = z3.Int("_sl_p_" + name)
    nf = _es(s, "nf_cnf_dict")
    soft = s.soft(getattr(s, name))
    return [
        z3.IsSubset(pre.soft(getattr(pre, name)), soft),
        L.Forall([p], [LInt.at(s.part.t, p)], z3.Implies(z3.And(0 <= p, p < j), key_soft(soft, z3.Select(nf.val, LInt.at(s.part.t, p)))), "soft.layer." + name),
    ]


def _soft_key(s, name, j, pre):
    soft = s.soft(getattr(s, name))
    return [z3.IsSubset(pre.soft(getattr(pre, name)), soft), KeySoftN(soft, s.softc.t, j)]


def _hard_query(name, key):
    return lambda s, j, pre: [s.A(getattr(s, name)) == L.inter(pre.A(getattr(pre, name)), DcP(_es(s, key).t, j))]


def _w_inv_fal(s, j, pre):
    return [s.A(s.hard_constraints_new) == L.inter(pre.A(pre.hard_constraints_new), FalPK(_val(s).val, enumK(s.xi_i.t), j))]


def _w_inv_nf(s, j, pre):
    P, i = _P(s), s.partition_index.t
    rest = z3.SetDifference(setofK(LLInt.at(P, i)), s.xi_i.t)
    return [s.A(s.hard_constraints_new) == L.inter(pre.A(pre.hard_constraints_new), NfPK(_val(s).val, enumK(rest), j))]


def _cnf_of(dictkey, var):
    """invariant of `[w.append(c) for c in es[dictkey][i]]`: the clauses appended so far"""

    def inv(s, j, pre):
        cnf = z3.Select(_es(s, dictkey).val, getattr(s, var).t)
        return [s.A(s.hard_constraints_new) == L.inter(pre.A(pre.hard_constraints_new), DcP(cnf, j))]

    return inv


ABS_W = {
    "[item for sublist in self.epistemic_state['partition'] if sublist != part for item in sublist]": (
        lambda s: VList(IgnoreOf(_P(s), s.partition_index.t), TInt),
        "TB-py: the keys of all layers other than the current one",
    ),
    "frozenset([frozenset(l) for l in xi_i_list])": (lambda s: VSet(FamOfLL(s.xi_i_list.t), SK), "TB-py: a list of key lists read as a set of key sets"),
    "frozenset([frozenset(l) for l in xi_i_prime_list])": (lambda s: VSet(FamOfLL(s.xi_i_prime_list.t), SK), "TB-py: as above"),
}

Contract(
    "inference.system_w:SystemW._rec_inference",
    params={"self": SW, "hard_constraints": TSolverT, "partition_index": TInt, "deadline": DeadlineT},
    returns=TBool,
    requires=_w_pre,
    ensures=_w_post,
    raises={
        "TimeoutError": lambda c: z3.BoolVal(True),
        "ValueError": lambda c: z3.Not(lib.StartsWith(_es(c, "pmaxsat_solver").t, VStr(const="rc2").t)),
    },
    fuel=5,
    axioms=WRECK_AXIOMS,
    abstractions=ABS_W,
    loops={
        0: LoopSpec("for index in part", lambda s, j, pre: [s.A(s.wcnf) == pre.A(pre.wcnf), s.A(s.hard_constraints) == pre.A(pre.hard_constraints)] + _soft_layer(s, "wcnf", j, pre)),
        1: LoopSpec("[... for s in softc]", lambda s, j, pre: _unchanged("wcnf")(s, j, pre) + _soft_key(s, "wcnf", j, pre)),
        2: LoopSpec("[... for c in *", lambda s, j, pre: _hard_query("wcnf", "query_v_cnf")(s, j, pre) + [s.soft(s.wcnf) == pre.soft(pre.wcnf)]),
        3: LoopSpec("[... for c in *", lambda s, j, pre: _hard_query("wcnf_prime", "query_f_cnf")(s, j, pre) + [s.soft(s.wcnf_prime) == pre.soft(pre.wcnf_prime)]),
        4: LoopSpec("for xi_i in xi_i_set & xi_i_prime_set", _w_inv_ties),
        5: LoopSpec("for i in xi_i", _w_inv_fal),
        6: LoopSpec("[... for c in *", _cnf_of("f_cnf_dict", "i")),
        7: LoopSpec("for i in frozenset(part) - xi_i", _w_inv_nf),
        8: LoopSpec("[... for c in *", _cnf_of("nf_cnf_dict", "i")),
    },
    properties=["C03", "C07", "C11"],
    note="refinement of the rc2 recursion to WRECK under the assumed Inv_es and MCS contracts",
)


# ---------------------------------------------------------------------------
# SystemW._inference (rc2): query CNFs, feasibility constraints, top index, no-finite-layer case
# ---------------------------------------------------------------------------
TS = TObj("TseitinTransformation", {"epistemic_state": TRec(ES_RC2)})
LLClause = L.list_theory(LClause.sort)

Contract(
    "inference.tseitin_transformation:TseitinTransformation.query_to_cnf",
    params={"self": TS, "query": TCnd},
    returns=TList(TList(TClause)),
    ensures=lambda c, r: [
        r.len() == 2,
        Den(LLClause.at(r.t, 0)) == L.ver(c.query.t),
        Den(LLClause.at(r.t, 1)) == L.fal(c.query.t),
    ],
    trusted=True,
    note="ASSUMED (C15 part 1: faithful CNFs of the query's verification / falsification); truth-table checked by module c15",
)


def _feas(c):
    P = _P(c)
    last = LLInt.at(P, LLInt.len(P) - 1)
    return NfPK(_val(c).val, last, LInt.len(last))


def _wi_pre(c):
    P = _P(c)
    return inv_es(c) + [LLInt.len(P) >= 1]


def _wi_post(c, r):
    P, q = _P(c), c.query.t
    m = LLInt.len(P)
    val = _val(c).val
    V, F = L.ver(q), L.fal(q)
    Fe = _feas(c)
    ext = z3.If(m < 2, L.isempty(L.inter(Fe, F)), WRECK(P, val, V, F, Fe, m - 2))
    return [r.t == z3.If(c.weakly.t, ext, WRECK(P, val, V, F, L.FULL, m - 1))]


def _wi_inv_last(s, j, pre):
    P = _P(s)
    last = LLInt.at(P, LLInt.len(P) - 1)
    return [s.A(s.wcnf) == L.inter(pre.A(pre.wcnf), NfPK(_val(s).val, last, j))]


Contract(
    "inference.system_w:SystemW._inference",
    params={"self": SW, "query": TCnd, "weakly": TBool, "deadline": DeadlineT},
    returns=TBool,
    requires=_wi_pre,
    ensures=_wi_post,
    raises={
        "TimeoutError": lambda c: z3.BoolVal(True),
        "ValueError": lambda c: z3.Not(lib.StartsWith(_es(c, "pmaxsat_solver").t, VStr(const="rc2").t)),
    },
    fuel=4,
    loops={
        0: LoopSpec("for index in self.epistemic_state['partition'][-1]", _wi_inv_last),
        1: LoopSpec("[... for c in *", lambda s, j, pre: [s.A(s.wcnf) == L.inter(pre.A(pre.wcnf), DcP(z3.Select(_es(s, "nf_cnf_dict").val, s.index.t), j))]),
        2: LoopSpec("[... for c in *", _hard_query("wcnf", "query_f_cnf")),
    },
    properties=["C03", "C07", "C11", "C12"],
)


# ---------------------------------------------------------------------------
# LexInf (rc2): recursion at key level
#   XV = MinFamK(Hv, val, layer i), XF = MinFamK(Hf, val, layer i)   (Hv, Hf already contain the query)
#   LRECK(P,val,Hv,Hf,i) = if XV={} then False elif XF={} then True elif cv<cf then True elif cf<cv then False
#                          elif i<=0 then False else TieK
#   TieK <=> EXISTS xv in XV, |xv|=cv:  BAK(xv);   BAK(xv) <=> FOR ALL xf in XF, |xf|=cf: LRECK(P,val, ExK(Hv,xv), ExK(Hf,xf), i-1)
#   ExK(H, xi) = H ∩ ⋂_{k in layer i} (k in xi ? fal(D[k]) : nf(D[k]))
# ---------------------------------------------------------------------------
ExactPK = L.prefix_fun(
    "ExactPK",
    [CMapS, LInt.sort, KSet],
    L.WSet,
    lambda v, l, xi: L.FULL,
    lambda v, l, xi, k, prev: z3.If(z3.IsMember(LInt.at(l, k), xi), L.inter(prev, L.fal(z3.Select(v, LInt.at(l, k)))), L.inter(prev, L.nf(z3.Select(v, LInt.at(l, k))))),
)


def ExK(H, val, part, xi):
    return L.inter(H, ExactPK(val, part, xi, LInt.len(part)))


MinCardK = z3.Function("MinCardK", KFam, L.Int)
mcwK = z3.Function("mcwK", KFam, KSet)
FilterLen = z3.Function("FilterLen", LLInt.sort, L.Int, LLInt.sort)
fidx = z3.Function("fidx", LLInt.sort, L.Int, KSet, L.Int)
_X = z3.Const("_lk_X", KFam)
_sx = z3.Const("_lk_s", KSet)
_LL = z3.Const("_lk_LL", LLInt.sort)
_nn, _kk = z3.Ints("_lk_n _lk_k")
_FLt = FilterLen(_LL, _nn)
# ASSUMED (TB-py semantics of the list filter; MCS lists are duplicate-free and pairwise different as sets)
L.TH.axiom(
    [_LL, _nn, _kk],
    LLInt.at(_FLt, _kk),
    z3.Implies(z3.And(0 <= _kk, _kk < LLInt.len(_FLt)), z3.And(z3.IsMember(setofK(LLInt.at(_FLt, _kk)), FamOfLL(_LL)), cardK(setofK(LLInt.at(_FLt, _kk))) == _nn)),
    "assumed.filterlen.sound",
)
L.TH.axiom(
    [_LL, _nn, _sx, _X],
    [_FLt, z3.IsMember(_sx, _X)],  # (X is matched syntactically; that it IS the family is a semantic side condition)
    z3.Implies(
        z3.And(_X == FamOfLL(_LL), z3.IsMember(_sx, FamOfLL(_LL)), cardK(_sx) == _nn),
        z3.And(0 <= fidx(_LL, _nn, _sx), fidx(_LL, _nn, _sx) < LLInt.len(_FLt), setofK(LLInt.at(_FLt, fidx(_LL, _nn, _sx))) == _sx),
    ),
    "assumed.filterlen.complete",
)

LRECK = z3.Function("LRECK", LLInt.sort, CMapS, L.WSet, L.WSet, L.Int, L.Bool)
TieK = z3.Function("TieK", LLInt.sort, CMapS, L.WSet, L.WSet, L.Int, L.Bool)
BAK = z3.Function("BAK", LLInt.sort, CMapS, L.WSet, L.WSet, L.Int, KSet, L.Bool)
lwitK = z3.Function("lwitK", LLInt.sort, CMapS, L.WSet, L.WSet, L.Int, KSet)
bawitK = z3.Function("bawitK", LLInt.sort, CMapS, L.WSet, L.WSet, L.Int, KSet, KSet)
AtLevelLK = z3.Function("AtLevelLK", L.WSet, L.WSet, L.Bool)
_m1, _m2 = z3.Consts("_mlk1 _mlk2", L.WSet)
L.TH.axiom([_m1, _m2], AtLevelLK(_m1, _m2), AtLevelLK(_m1, _m2), "marker.LK")
_Hv, _Hf = z3.Consts("_lk_Hv _lk_Hf", L.WSet)
_xv, _xf = z3.Consts("_lk_xv _lk_xf", KSet)
_layer = LLInt.at(_Pp, _ii)
_kept = NotIgnored(IgnoreOf(_Pp, _ii))
_lXV = MinFamK(_Hv, _v, _kept)
_lXF = MinFamK(_Hf, _v, _kept)
_cv, _cf = MinCardK(_lXV), MinCardK(_lXF)
_largs = (_Pp, _v, _Hv, _Hf, _ii)
_lme = LRECK(*_largs)
_tie = TieK(*_largs)
_mk = AtLevelLK(_Hv, _Hf)


def _nxtK(xv, xf):
    return LRECK(_Pp, _v, ExK(_Hv, _v, _layer, xv), ExK(_Hf, _v, _layer, xf), _ii - 1)


LRECK_AXIOMS = [
    L.Forall([_X, _sx], [MinCardK(_X), z3.IsMember(_sx, _X)], z3.Implies(z3.IsMember(_sx, _X), cardK(_sx) >= MinCardK(_X)), "def.MinCardK.lower"),
    L.Forall([_X], [MinCardK(_X)], z3.Implies(_X != z3.EmptySet(KSet), z3.And(z3.IsMember(mcwK(_X), _X), cardK(mcwK(_X)) == MinCardK(_X))), "def.MinCardK.attained"),
    L.Forall(
        list(_largs),
        [_lme, _mk],
        _lme == z3.If(_lXV == z3.EmptySet(KSet), False, z3.If(_lXF == z3.EmptySet(KSet), True, z3.If(_cv < _cf, True, z3.If(_cf < _cv, False, z3.If(_ii <= 0, False, _tie))))),
        "def.LRECK",
    ),
    L.Forall(list(_largs), [_tie, _mk], z3.Implies(_tie, z3.And(z3.IsMember(lwitK(*_largs), _lXV), cardK(lwitK(*_largs)) == _cv, BAK(*_largs, lwitK(*_largs)))), "def.TieK.elim"),
    L.Forall(list(_largs) + [_xv], [_tie, _mk, z3.IsMember(_xv, _lXV)], z3.Implies(z3.And(z3.IsMember(_xv, _lXV), cardK(_xv) == _cv, BAK(*_largs, _xv)), _tie), "def.TieK.intro"),
    L.Forall(list(_largs) + [_xv, _xf], [BAK(*_largs, _xv), _mk, z3.IsMember(_xf, _lXF)], z3.Implies(z3.And(BAK(*_largs, _xv), z3.IsMember(_xf, _lXF), cardK(_xf) == _cf), _nxtK(_xv, _xf)), "def.BAK.elim"),
    L.Forall(
        list(_largs) + [_xv],
        [BAK(*_largs, _xv), _mk],
        z3.Implies(z3.Not(BAK(*_largs, _xv)), z3.And(z3.IsMember(bawitK(*_largs, _xv), _lXF), cardK(bawitK(*_largs, _xv)) == _cf, z3.Not(_nxtK(_xv, bawitK(*_largs, _xv))))),
        "def.BAK.intro",
    ),
]

SL = SelfRC2("LexInf")


def _l_pre(c):
    P = _P(c)
    return inv_es(c) + [0 <= c.partition_index.t, c.partition_index.t < LLInt.len(P), AtLevelLK(c.A(c.hard_constraints_v), c.A(c.hard_constraints_f))]


def _l_post(c, r):
    return [
        r.t == LRECK(_P(c), _val(c).val, c.old.A(c.old.hard_constraints_v), c.old.A(c.old.hard_constraints_f), c.partition_index.t),
        # the caller's WCNFs only gain soft clauses
        c.A(c.hard_constraints_v) == c.old.A(c.old.hard_constraints_v),
        c.A(c.hard_constraints_f) == c.old.A(c.old.hard_constraints_f),
    ]


def _l_ctx(s, pre):
    return (_P(s), _val(s).val, pre.A(pre.hard_constraints_v), pre.A(pre.hard_constraints_f), s.partition_index.t)


def _l_inv_outer(s, j, pre):
    a = _l_ctx(s, pre)
    lst = s._st.env["__seq3"].t
    k = z3.Int("_lko_k")
    return [
        s.A(s.hard_constraints_v) == pre.A(pre.hard_constraints_v),
        s.A(s.hard_constraints_f) == pre.A(pre.hard_constraints_f),
        L.Forall([k], [LLInt.at(lst, k)], z3.Implies(z3.And(0 <= k, k < j), z3.Not(BAK(*a, setofK(LLInt.at(lst, k))))), "no.earlier.candidate.beats.all"),
    ]


def _l_inv_inner(s, j, pre):
    P, val, i = _P(s), _val(s).val, s.partition_index.t
    Hv, Hf = pre.A(pre.hard_constraints_v), pre.A(pre.hard_constraints_f)
    lst = s._st.env["__seq4"].t
    layer = LLInt.at(P, i)
    k = z3.Int("_lki_k")
    return [
        s.A(s.hard_constraints_v) == Hv,
        s.A(s.hard_constraints_f) == Hf,
        s.beats_all.t == True,
        L.Forall(
            [k],
            [LLInt.at(lst, k)],
            z3.Implies(z3.And(0 <= k, k < j), LRECK(P, val, ExK(Hv, val, layer, setofK(s.xi_v.t)), ExK(Hf, val, layer, setofK(LLInt.at(lst, k))), i - 1)),
            "beats.so.far",
        ),
    ]


def _l_inv_part(s, j, pre):
    val = _val(s).val
    return [
        s.A(s.hard_constraints_new_v) == L.inter(pre.A(pre.hard_constraints_new_v), ExactPK(val, s.part.t, setofK(s.xi_v.t), j)),
        s.A(s.hard_constraints_new_f) == L.inter(pre.A(pre.hard_constraints_new_f), ExactPK(val, s.part.t, setofK(s.xi_f.t), j)),
    ]


def _l_cnf(name, dictkey):
    def inv(s, j, pre):
        cnf = z3.Select(_es(s, dictkey).val, s.i.t)
        return [s.A(getattr(s, name)) == L.inter(pre.A(getattr(pre, name)), DcP(cnf, j))]

    return inv


ABS_L = {
    "[item for sublist in self.epistemic_state['partition'] if sublist != part for item in sublist]": ABS_W[
        "[item for sublist in self.epistemic_state['partition'] if sublist != part for item in sublist]"
    ],
    "min((len(xi) for xi in mcs_v))": (lambda s: VInt(MinCardK(FamOfLL(s.mcs_v.t))), "TB-py + MCS lists duplicate-free: least length = least cardinality of the family (mcs_v is non-empty here)"),
    "min((len(xi) for xi in mcs_f))": (lambda s: VInt(MinCardK(FamOfLL(s.mcs_f.t))), "as above"),
    "[xi for xi in mcs_v if len(xi) == min_len_v]": (lambda s: VList(FilterLen(s.mcs_v.t, s.min_len_v.t), TList(TInt)), "TB-py list filter (assumed.filterlen.*)"),
    "[xi for xi in mcs_f if len(xi) == min_len_f]": (lambda s: VList(FilterLen(s.mcs_f.t, s.min_len_f.t), TList(TInt)), "TB-py list filter (assumed.filterlen.*)"),
}

Contract(
    "inference.lex_inf:LexInf._rec_inference",
    params={"self": SL, "hard_constraints_v": TSolverT, "hard_constraints_f": TSolverT, "partition_index": TInt, "deadline": DeadlineT},
    returns=TBool,
    requires=_l_pre,
    ensures=_l_post,
    modifies=["hard_constraints_v", "hard_constraints_f"],
    raises={
        "TimeoutError": lambda c: z3.BoolVal(True),
        "ValueError": lambda c: z3.Not(lib.StartsWith(_es(c, "pmaxsat_solver").t, VStr(const="rc2").t)),
    },
    fuel=5,
    axioms=LRECK_AXIOMS,
    abstractions=ABS_L,
    loops={
        0: LoopSpec(
            "for index in part",
            lambda s, j, pre: [s.A(s.hard_constraints_v) == pre.A(pre.hard_constraints_v), s.A(s.hard_constraints_f) == pre.A(pre.hard_constraints_f)]
            + _soft_layer(s, "hard_constraints_v", j, pre)
            + _soft_layer(s, "hard_constraints_f", j, pre),
        ),
        1: LoopSpec("[... for s in softc]", lambda s, j, pre: _unchanged("hard_constraints_v")(s, j, pre) + _soft_key(s, "hard_constraints_v", j, pre)),
        2: LoopSpec("[... for s in softc]", lambda s, j, pre: _unchanged("hard_constraints_f")(s, j, pre) + _soft_key(s, "hard_constraints_f", j, pre)),
        3: LoopSpec("for xi_v in *", _l_inv_outer),
        4: LoopSpec("for xi_f in *", _l_inv_inner),
        5: LoopSpec("for i in part", _l_inv_part),
        6: LoopSpec("[... for c in *", _l_cnf("hard_constraints_new_v", "f_cnf_dict")),
        7: LoopSpec("[... for c in *", _l_cnf("hard_constraints_new_v", "nf_cnf_dict")),
        8: LoopSpec("[... for c in *", _l_cnf("hard_constraints_new_f", "f_cnf_dict")),
        9: LoopSpec("[... for c in *", _l_cnf("hard_constraints_new_f", "nf_cnf_dict")),
    },
    properties=["C04"],
    note="refinement of the rc2 recursion (exists/forall over minimum-cardinality sets) to LRECK under the assumed Inv_es / MCS / list-filter contracts",
)


# ---------------------------------------------------------------------------
# LexInf._inference (rc2): strict short cuts, extended vacuity tests, feasibility constraints
# ---------------------------------------------------------------------------
def _li_post(c, r):
    P, q = _P(c), c.query.t
    m = LLInt.len(P)
    val = _val(c).val
    V, F, A = L.ver(q), L.fal(q), L.M(L.ant(q))
    Fe = _feas(c)
    strict = z3.If(z3.Or(L.isempty(A), L.isempty(F)), True, z3.If(L.isempty(V), False, LRECK(P, val, V, F, m - 1)))
    ext = z3.If(
        z3.Or(L.isempty(L.inter(Fe, A)), L.isempty(L.inter(Fe, F))),
        True,
        z3.If(m < 2, False, LRECK(P, val, L.inter(V, Fe), L.inter(F, Fe), m - 2)),
    )
    return [r.t == z3.If(c.weakly.t, ext, strict)]


def _li_inv_solver(name):
    def inv(s, j, pre):
        P = _P(s)
        last = LLInt.at(P, LLInt.len(P) - 1)
        return [s.A(getattr(s, name)) == L.inter(pre.A(getattr(pre, name)), NfPK(_val(s).val, last, j))]

    return inv


def _li_inv_both(s, j, pre):
    return _li_inv_solver("wcnf_v")(s, j, pre) + _li_inv_solver("wcnf_f")(s, j, pre)


def _li_cnf(name):
    return lambda s, j, pre: [s.A(getattr(s, name)) == L.inter(pre.A(getattr(pre, name)), DcP(z3.Select(_es(s, "nf_cnf_dict").val, s.index.t), j))]


Contract(
    "inference.lex_inf:LexInf._inference",
    params={"self": SL, "query": TCnd, "weakly": TBool, "deadline": DeadlineT},
    returns=TBool,
    requires=_wi_pre,
    ensures=_li_post,
    raises={
        "TimeoutError": lambda c: z3.BoolVal(True),
        "ValueError": lambda c: z3.Not(lib.StartsWith(_es(c, "pmaxsat_solver").t, VStr(const="rc2").t)),
    },
    fuel=4,
    loops={
        0: LoopSpec("[... for c in *", _hard_query("wcnf_v", "query_v_cnf")),
        1: LoopSpec("[... for c in *", _hard_query("wcnf_f", "query_f_cnf")),
        2: LoopSpec("for index in self.epistemic_state['partition'][-1]", _li_inv_solver("taut_solver")),
        3: LoopSpec("for index in self.epistemic_state['partition'][-1]", _li_inv_solver("contra_solver")),
        4: LoopSpec("for index in self.epistemic_state['partition'][-1]", _li_inv_both),
        5: LoopSpec("[... for c in *", _li_cnf("wcnf_v")),
        6: LoopSpec("[... for c in *", _li_cnf("wcnf_f")),
    },
    properties=["C04", "C07", "C11", "C12"],
)


# ---------------------------------------------------------------------------
# preprocessing of the rc2 operators: partition by keys + CNFs  (establishes Inv_es)
# ---------------------------------------------------------------------------
from contracts.spec import PSK  # noqa: E402

ES_PRE = dict(ES_RC2)
ES_PRE["partition"] = TFalseOr(TList(TList(TInt)))
TS_PRE = TObj("TseitinTransformation", {"epistemic_state": TRec(ES_PRE)})


def _cnf_inv_only(c, selfname="self"):
    d = _val(c, selfname)
    f, nf = _es(c, "f_cnf_dict", selfname), _es(c, "nf_cnf_dict", selfname)
    k = z3.Int("_ies2_k")
    return L.Forall(
        [k],
        [L.mem_Int(d.keys, k)],
        z3.Implies(
            L.mem_Int(d.keys, k),
            z3.And(L.mem_Int(f.keys, k), L.mem_Int(nf.keys, k), Den(z3.Select(f.val, k)) == L.fal(z3.Select(d.val, k)), Den(z3.Select(nf.val, k)) == L.nf(z3.Select(d.val, k))),
        ),
        "Inv_es.cnf",
    )


def _cnf_inv_v(c, selfname="self"):
    """(only when asked for, v=True) verification clause lists denote ver of their conditional"""
    d = _val(c, selfname)
    v = _es(c, "v_cnf_dict", selfname)
    k = z3.Int("_ies3_k")
    return L.Forall(
        [k],
        [L.mem_Int(d.keys, k)],
        z3.Implies(z3.And(c.v.t, L.mem_Int(d.keys, k)), z3.And(L.mem_Int(v.keys, k), Den(z3.Select(v.val, k)) == L.ver(z3.Select(d.val, k)))),
        "Inv_es.cnf.v",
    )


Contract(
    "inference.tseitin_transformation:TseitinTransformation.belief_base_to_cnf",
    params={"self": TS_PRE, "v": TBool, "f": TBool, "nf": TBool},
    returns=TFloat,
    requires=lambda c: [c.f.t, c.nf.t],
    ensures=lambda c, r: [_cnf_inv_only(c), _cnf_inv_v(c)],
    modifies=["self.epistemic_state.f_cnf_dict", "self.epistemic_state.nf_cnf_dict", "self.epistemic_state.v_cnf_dict"],
    trusted=True,
    note="ASSUMED (C15 part 1): after the call every base key has falsification / non-falsification clause lists that denote fal / nf of its conditional; truth-table checked by module c15",
)


def _pre_post(weakly_of):
    def post(c, r):
        d = _val(c)
        p = _es(c, "partition")
        x = (d.val,)
        st = PSK.stop(*x, d.keys)
        rest = PSK.GR(*x, d.keys, st)
        w = weakly_of(c)
        return [
            p.isfalse == z3.If(w, L.isempty(PSK.KL(x, rest)), LInt.len(rest) > 0),
            z3.Implies(z3.Not(p.isfalse), p.val.t == z3.If(w, LLInt.snoc(PSK.GLs(*x, d.keys, st), PSK.GR(*x, d.keys, st + 1)), PSK.GLs(*x, d.keys, st))),
            _cnf_inv_only(c),
        ]

    return post


for _cls, _mod, _wk in (
    ("SystemW", "inference.system_w", lambda c: c.weakly.t),
    ("LexInf", "inference.lex_inf", lambda c: c.old.es("weakly").t),
):
    Contract(
        f"{_mod}:{_cls}._preprocess_belief_base",
        params={"self": TObj(_cls, {"epistemic_state": TRec(ES_PRE)}), "weakly": TBool, "deadline": DeadlineT},
        returns=TNone,
        ensures=_pre_post(_wk),
        properties=["C03" if _cls == "SystemW" else "C04", "C07", "C12", "C13"],
        note="partition = greedy partition of the base's keys (arbitrary distinct integer keys); CNF invariant from the assumed belief_base_to_cnf",
    )


# ---------------------------------------------------------------------------
# query_to_cnf / belief_base_to_cnf: which formula goes where.  ASSUMED only (TB-tac + the step from
# assignments of pool ids to worlds): the clause list goal2intcnf(tseitin(F)) denotes M(F)
# ---------------------------------------------------------------------------
def _cnf_of_formula(build):
    """abstraction of `self.goal2intcnf(t(<formula>)[0])`: a fresh clause list denoting the formula"""

    def f(s):
        ex = s._ex
        F = build(s)
        r = VList(ex.st.fresh_const("cnf", LClause.sort), TClause)
        ex.st.assume(Den(r.t) == L.M(F))
        return r

    return f


def _goal_formula(expr_src):
    """the formula a goal expression such as `g1[0]` / `t(F)[0]` was made from"""

    def build(s):
        import ast as _ast

        node = _ast.parse(expr_src, mode="eval").body
        assert isinstance(node, _ast.Subscript)
        g = s._ex.eval(node.value)
        if getattr(g, "kind", None) != "goal":
            raise Unsupported("goal2intcnf of something that is not the first sub-goal of a tactic application")
        return g.formula.t

    return build


_TAC = "ASSUMED (TB-tac + ids -> worlds): the integer CNF of the Tseitin goal of a formula denotes the formula's models"
ABS_CNF = {
    f"self.goal2intcnf({e})": (_cnf_of_formula(_goal_formula(e)), _TAC)
    for e in ("g1[0]", "g2[0]", "g3[0]", "t(z3.And(antecedence, consequence))[0]", "t(z3.And(antecedence, z3.Not(consequence)))[0]")
}
_qc = _C_get = None
from pyvc import contract as _Cmod  # noqa: E402

_qc = _Cmod.get("inference.tseitin_transformation:TseitinTransformation.query_to_cnf")
_qc.trusted = False
_qc.abstractions = ABS_CNF
_qc.properties = ["C15", "C03", "C04", "C05"]
_qc.note = "which formula is converted for which side; the conversion itself is the assumed abstraction (TB-tac)"


def _bb2cnf_inv(s, j, pre):
    d = _val(s)
    v, f, nf = _es(s, "v_cnf_dict"), _es(s, "f_cnf_dict"), _es(s, "nf_cnf_dict")
    p = z3.Int("_b2c_p")
    k = LInt.at(d.keys, p)
    return [
        L.Forall(
            [p],
            [LInt.at(d.keys, p)],
            z3.Implies(
                z3.And(0 <= p, p < j),
                z3.And(
                    L.mem_Int(f.keys, k),
                    L.mem_Int(nf.keys, k),
                    Den(z3.Select(f.val, k)) == L.fal(z3.Select(d.val, k)),
                    Den(z3.Select(nf.val, k)) == L.nf(z3.Select(d.val, k)),
                    z3.Implies(s.v.t, z3.And(L.mem_Int(v.keys, k), Den(z3.Select(v.val, k)) == L.ver(z3.Select(d.val, k)))),
                ),
            ),
            "bb2cnf.done",
        )
    ]


_bc = _Cmod.get("inference.tseitin_transformation:TseitinTransformation.belief_base_to_cnf")
_bc.trusted = False
_bc.abstractions = ABS_CNF
_bc.loops = {0: LoopSpec("for (index, conditional) in conditionals.items()", _bb2cnf_inv)}
_bc.properties = ["C15", "C03", "C04", "C05", "C12"]
_bc.fuel = 5
_bc.note = "which formula of which conditional is stored under which key of which dictionary; the conversion itself is the assumed abstraction (TB-tac)"
