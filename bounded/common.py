"""Engine B (bounded stand-in): scopes, generators, judge against the oracle.

Nothing passed here is ever counted as proved (DESIGN §2.7).  Scopes:
  S2   signature {a,b}: every conditional up to semantics (81 pairs of disjoint
       verification/falsification sets) in several syntactic realisations; bases of
       <= 2 conditionals x all 81 queries (thorough: exhaustive; quick: seeded sample)
  S3   3-4 atoms, seeded random bases of <= 5 conditionals, depth <= 2, constants
"""
from __future__ import annotations

import hashlib
import itertools
import json
import multiprocessing as mp
import os
import random
import sys
import warnings

os.environ.setdefault("INFOCF_LOGLEVEL", "CRITICAL")
warnings.filterwarnings("ignore")

REPO = os.environ.get("INFOCF_REPO", "/repo")
VERIF = os.path.dirname(os.path.dirname(os.path.abspath(__file__)))
for p in (REPO, VERIF):
    if p not in sys.path:
        sys.path.insert(0, p)


def _imports():
    global And, Or, Not, Symbol, Bool, BOOL, Conditional, BeliefBase, Queries
    from pysmt.shortcuts import And, Bool, Not, Or, Symbol
    from pysmt.typing import BOOL

    from inference.belief_base import BeliefBase
    from inference.conditional import Conditional
    from inference.queries import Queries


_imports()
from oracle.core import Answers, Sem  # noqa: E402
from oracle.gen import rnd_base, rnd_conditional  # noqa: E402

ATOMS2 = ["a", "b"]
WORLDS2 = list(itertools.product([False, True], repeat=2))  # (a,b)


# ---------------------------------------------------------------------------
# syntactic realisations of a set of worlds over {a,b}
# ---------------------------------------------------------------------------
def _lit(atom, val):
    s = Symbol(atom, BOOL)
    return (s, atom) if val else (Not(s), f"!{atom}")


def realise(ws: frozenset, rng: random.Random, style=None):
    """formula over a,b whose models are exactly the worlds in ws -> (pysmt, CL text)"""
    style = style if style is not None else rng.randrange(4)
    if not ws:
        opts = [(Bool(False), "Bottom"), (And(Symbol("a", BOOL), Not(Symbol("a", BOOL))), "(a,!a)")]
        return opts[style % 2]
    if len(ws) == 4:
        opts = [(Bool(True), "Top"), (Or(Symbol("b", BOOL), Not(Symbol("b", BOOL))), "(b;!b)")]
        return opts[style % 2]
    terms = []
    for wi in sorted(ws):
        w = WORLDS2[wi]
        (fa, ta), (fb, tb) = _lit("a", w[0]), _lit("b", w[1])
        terms.append((And(fa, fb), f"({ta},{tb})"))
    if style == 1 and len(ws) == 2:
        # try a single literal
        for atom, idx in (("a", 0), ("b", 1)):
            for val in (False, True):
                if ws == frozenset(i for i, w in enumerate(WORLDS2) if w[idx] == val):
                    return _lit(atom, val)
    if style == 2 and len(ws) == 3:
        # negation of the missing world
        (miss,) = set(range(4)) - ws
        w = WORLDS2[miss]
        (fa, ta), (fb, tb) = _lit("a", w[0]), _lit("b", w[1])
        return Not(And(fa, fb)), f"!({ta},{tb})"
    f, t = terms[0]
    for g, u in terms[1:]:
        f, t = Or(f, g), f"{t};{u}"
    if style == 3:
        f, t = And(f, Bool(True)), f"(({t}),Top)"
    elif len(terms) > 1:
        t = f"({t})"
    return f, t


SEM_CONDS2 = [
    (frozenset(v), frozenset(f))
    for v in (itertools.chain.from_iterable(itertools.combinations(range(4), r) for r in range(5)))
    for f in (itertools.chain.from_iterable(itertools.combinations(range(4), r) for r in range(5)))
    if not set(v) & set(f)
]
assert len(SEM_CONDS2) == 81


def sem_conditional(ver, fal, rng, index=None):
    """(B|A) with A = ver ∪ fal, B = ver (plus arbitrary worlds outside A)"""
    A = ver | fal
    extra = frozenset(w for w in set(range(4)) - A if rng.random() < 0.5)
    fb, tb = realise(ver | extra, rng)
    fa, ta = realise(A, rng)
    c = Conditional(fb, fa, f"({tb}|{ta})")
    c.index = index
    return c


def s2_bases(rng, exhaustive, n):
    """yield (signature, conditionals dict) for S2"""
    singles = [(c,) for c in SEM_CONDS2]
    pairs = list(itertools.combinations_with_replacement(SEM_CONDS2, 2))
    space = singles + pairs
    if not exhaustive:
        space = rng.sample(space, min(n, len(space)))
    for combo in space:
        conds = {i + 1: sem_conditional(v, f, rng, i + 1) for i, (v, f) in enumerate(combo)}
        yield ATOMS2, conds


def s2_queries(rng, exhaustive, n):
    space = SEM_CONDS2 if exhaustive else rng.sample(SEM_CONDS2, min(n, 81))
    return [sem_conditional(v, f, rng) for (v, f) in space]


def s3_base(rng, max_conds=5, consts=0.08):
    atoms = ["a", "b", "c", "d"][: rng.choice([3, 3, 4])]
    bb = rnd_base(rng, atoms, rng.randint(1, max_conds), 2, consts=consts)
    return atoms, bb.conditionals


def distinct_queries(qs):
    seen = set()
    out = []
    for q in qs:
        if str(q) not in seen:
            seen.add(str(q))
            out.append(q)
    return out


# ---------------------------------------------------------------------------
# running the real code
# ---------------------------------------------------------------------------
def run_real(sig, conds, queries, system, pm="rc2", weakly=False, **kw):
    from inference.inference_manager import InferenceManager

    bb = BeliefBase(list(sig), dict(conds), "scope")
    m = InferenceManager(bb, system, pmaxsat_solver=pm, weakly=weakly)
    df = m.inference(Queries({i + 1: q for i, q in enumerate(queries)}), **kw)
    return [bool(x) for x in df["result"].tolist()]


def fingerprint(sem: Sem, q, cfg):
    A, AB, AnB = sem.q(q)
    base = tuple(sorted((tuple(sorted(sem.ver[k])), tuple(sorted(sem.fal[k]))) for k in sem.keys))
    s = json.dumps([base, sorted(AB), sorted(AnB), cfg], default=str)
    return hashlib.sha1(s.encode()).hexdigest()[:16]


def describe(sig, conds, queries=None, **cfg):
    d = {"signature": list(sig), "conditionals": {str(k): str(c) for k, c in conds.items()}}
    if queries is not None:
        d["queries"] = [str(q) for q in queries]
    d.update(cfg)
    return d


def judge_case(args):
    """one base x queries x configurations against the oracle; returns dict"""
    sig, cond_texts, query_texts, configs, weakly = args
    from oracle.gen import cond as mkcond

    conds = {}
    for k, (b, a) in cond_texts.items():
        c = mkcond(b, a)
        c.index = k
        conds[k] = c
    queries = [mkcond(b, a) for (b, a) in query_texts]
    sem = Sem(conds, [f for q in queries for f in (q.antecedence, q.consequence)], sig)
    ans = Answers(sem, weakly)
    out = {"evaluations": 0, "fingerprints": [], "violations": [], "rejected": False}
    if not ans.accepted or not conds:
        out["rejected"] = True
        # refusal: every operator must raise (C06 last sentence)
        for system, pm in configs:
            try:
                run_real(sig, conds, queries[:1], system, pm, weakly)
                out["violations"].append(
                    dict(kind="not-refused", system=system, pmaxsat=pm, weakly=weakly, input=describe(sig, conds, queries[:1]))
                )
            except AssertionError:
                pass
            except Exception as e:  # any other error is still a refusal by error
                pass
            out["evaluations"] += 1
        return out
    for system, pm in configs:
        expected = [ans.answer(system, q) for q in queries]
        try:
            got = run_real(sig, conds, queries, system, pm, weakly)
        except BaseException as e:  # noqa
            got = f"EXC {type(e).__name__}: {e}"
        out["evaluations"] += len(queries)
        for qi, q in enumerate(queries):
            A, AB, AnB = sem.q(q)
            if (A & ans.feas) and (AnB & ans.feas):
                out["fingerprints"].append(fingerprint(sem, q, [system, pm, weakly]))
        if got != expected:
            bad = [i for i in range(len(queries)) if isinstance(got, str) or got[i] != expected[i]]
            out["violations"].append(
                dict(
                    kind="wrong-answer" if not isinstance(got, str) else "exception",
                    system=system,
                    pmaxsat=pm,
                    weakly=weakly,
                    input=describe(sig, conds, queries),
                    expected=expected,
                    observed=got,
                    first_bad_query=str(queries[bad[0]]) if bad else None,
                )
            )
    # a batch with a repeated query text (C13's known finding concerns only the key column of
    # such rows; the number of rows and every answer must still be right)
    if len(queries) >= 2 and configs:
        system, pm = configs[0]
        batch = [queries[0], queries[1], queries[0]] + list(queries[2:3])
        expected = [ans.answer(system, q) for q in batch]
        try:
            got = run_real(sig, conds, batch, system, pm, weakly)
        except BaseException as e:  # noqa
            got = f"EXC {type(e).__name__}: {e}"
        out["evaluations"] += len(batch)
        if got != expected:
            out["violations"].append(
                dict(
                    kind="wrong-answer-in-batch-with-repeated-query",
                    system=system,
                    pmaxsat=pm,
                    weakly=weakly,
                    input=describe(sig, conds, batch),
                    expected=expected,
                    observed=got,
                )
            )
    return out


def rekey(conds, rng):
    """non-default distinct integer keys for a third of the cases (shifted so that len+1 is a
    key, 0-based, sparse): answers must not depend on them (C12) and key arithmetic in the
    code under test must not collide with them"""
    style = rng.randrange(6)
    ks = list(conds)
    if style >= 3:
        return conds
    if style == 0:
        new = [k + 1 for k in ks]
    elif style == 1:
        new = [k - 1 for k in ks]
    else:
        new = sorted(rng.sample(range(1, 3 * len(ks) + 3), len(ks)))
    return {nk: conds[k] for nk, k in zip(new, ks)}


def texts_of(conds):
    return {k: split_text(str(c)) for k, c in conds.items()}


def split_text(t):
    """'(B|A)' -> (B, A) ; the bar at nesting depth 1"""
    assert t[0] == "(" and t[-1] == ")", t
    depth = 0
    for i, ch in enumerate(t):
        if ch == "(":
            depth += 1
        elif ch == ")":
            depth -= 1
        elif ch == "|" and depth == 1:
            return t[1:i], t[i + 1 : -1]
    raise ValueError(t)


def pmap(fn, items, procs=None):
    procs = procs or min(16, os.cpu_count() or 4)
    if len(items) < 4:
        return [fn(x) for x in items]
    ctx = mp.get_context("fork")
    with ctx.Pool(procs) as pool:
        return pool.map(fn, items, chunksize=max(1, len(items) // (procs * 8)))


def merge(results):
    tot = {"evaluations": 0, "fingerprints": set(), "violations": [], "rejected": 0, "cases": 0}
    for r in results:
        tot["cases"] += 1
        tot["evaluations"] += r["evaluations"]
        tot["fingerprints"].update(r["fingerprints"])
        tot["violations"].extend(r["violations"])
        tot["rejected"] += bool(r["rejected"])
    return tot
