"""Contract registry (sidecar contracts, DESIGN §2.6)."""
from __future__ import annotations

REGISTRY: dict = {}


class LoopSpec:
    def __init__(self, head, inv, decreases=None, stack="balanced", ints=False):
        self.head = head  # fingerprint: ast.unparse of the loop header (For: 'for x in expr', While: 'while cond', effectful comprehension: the comprehension text)
        self.inv = inv  # function(s, j, pre) -> list of formulas ; j is None for while loops
        self.decreases = decreases
        self.ints = ints  # the body may assert integer constraints on a pysmt Solver (its list I is havocked)
        self.stack = stack  # 'balanced' | 'grows' (body only pushes; nothing below is popped later)


class Contract:
    """
    qual      'module:qualname' of the real function in /repo
    params    dict name -> type descriptor (every parameter incl. self)
    returns   type descriptor of the result
    requires  f(c) -> list of formulas over the entry state
    ensures   f(c, result) -> list of formulas; c.old is the entry state
    raises    dict exception-name -> f(c) -> condition (entry state) under which the
              function is ALLOWED to raise it; any other raise must be unreachable
    loops     dict ordinal -> LoopSpec
    modifies  list of parameter names whose heap object may be changed (solvers, records)
    trusted   True for library contracts (no body is verified; listed in trusted_base)
    pure_post f(c, result) optional: extra facts callers may assume (same as ensures)
    """

    def __init__(self, qual, params, returns=None, requires=None, ensures=None, raises=None, loops=None,
                 modifies=(), trusted=False, properties=(), note="", decreases=None, locals=None, defaults=None, hints=None, fuel=3, axioms=(), abstractions=None, result_builder=None, shards=0, inline=False, ghost_out=None, ghost_wit=None, impl_only=False, derived_ensures=None, derived_by=(), exclude=(), fuel_post=None, globals=None, module_inv=None):
        self.qual = qual
        self.params = params
        self.returns = returns
        self.requires = requires or (lambda c: [])
        self.ensures = ensures or (lambda c, r: [])
        self.raises = raises or {}
        self.loops = loops or {}
        self.modifies = list(modifies)
        self.trusted = trusted
        self.properties = list(properties)
        self.note = note
        self.decreases = decreases
        self.locals = locals or {}
        self.defaults = defaults or {}
        # hints: VALID axiom instances (only list extensionality, ListTheory.ext_facts) added as
        # hypotheses of the post obligations; they are listed in the evidence
        self.hints = hints
        self.fuel = fuel  # instantiation rounds for this function's obligations
        self.axioms = list(axioms)  # definitional axioms used only for this function's obligations
        # abstractions: {source text of an expression: (f(view) -> value, note)}: expressions outside the
        # executor's subset whose VALUE is given by the contract (library semantics, listed as
        # assumed in the evidence)
        self.abstractions = abstractions or {}
        # result_builder(ex, bound_args) -> value: for factory functions whose result shares heap
        # objects with the arguments (identity cannot be said in `ensures`)
        self.result_builder = result_builder
        # ghost outputs: {name: type}; ensures may refer to c.ghost[name].  Proving the contract uses the
        # witnesses ghost_wit(view, result); callers get fresh values (an existential postcondition)
        self.ghost_out = ghost_out or {}
        self.ghost_wit = ghost_wit
        # impl_only: the contract of an IMPLEMENTATION of an interface method, stated in its own vocabulary;
        # callers keep using the interface contract of the parent class (linked by named lemmas)
        self.impl_only = impl_only
        # derived_ensures(c, result): clauses callers may ALSO assume; they follow from `ensures` by the
        # lemmas named in derived_by (proved in lemmas/zlemmas.py on every run), not from the body
        self.derived_ensures = derived_ensures
        self.derived_by = list(derived_by)
        # globals: module-level variables the function reads / writes ({name: type}); module_inv(c): an invariant of
        # them that holds initially (checked: the module initialises them to an empty literal and no OTHER function of
        # the module assigns to them), is assumed at entry and must be re-established at every exit
        self.globals = globals or {}
        self.module_inv = module_inv
        self.fuel_post = fuel_post  # instantiation rounds for the postcondition obligations, if they need more than `fuel`
        self.exclude = list(exclude)  # names of global axioms NOT used for this function's obligations (sound: fewer axioms)
        self.inline = inline  # callers execute the (loop-free) real body instead of using the contract
        self.shards = shards  # >0: discharge the obligations in that many parallel processes
        REGISTRY[qual] = self


def get(qual):
    return REGISTRY.get(qual)
