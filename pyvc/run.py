"""Engine P driver: contracts -> obligations from /repo's working tree -> verdicts."""
from __future__ import annotations

import importlib
import os
import pkgutil
import sys
import time
import traceback

import z3

from . import contract as C
from . import lib
from . import logic as L
from .symex import Executor, ModuleInfo
from .values import Unsupported

REPO = os.environ.get("INFOCF_REPO", "/repo")
VERIF = os.path.dirname(os.path.dirname(os.path.abspath(__file__)))


def load_contracts():
    if VERIF not in sys.path:
        sys.path.insert(0, VERIF)
    import contracts

    for m in pkgutil.iter_modules(contracts.__path__):
        if m.name.startswith("c_"):
            importlib.import_module(f"contracts.{m.name}")
    return C.REGISTRY


_mods: dict = {}


def module_info(modname):
    if modname not in _mods:
        path = os.path.join(REPO, *modname.split(".")) + ".py"
        _mods[modname] = ModuleInfo(modname, path)
    return _mods[modname]


def model_summary(m, limit=40):
    out = {}
    try:
        for d in m.decls()[:limit]:
            out[d.name()] = str(m[d])[:200]
        try:
            out["|World|"] = len(m.get_universe(L.World) or [])
        except Exception:
            pass
    except Exception as e:  # pragma: no cover
        out["error"] = str(e)
    return out


def verify_function(qual, timeout_ms=60000, canary=True, shard=None):
    """returns dict: status in proved|failed|undecided, obligations list, meta"""
    ct = C.get(qual)
    modname, fname = qual.split(":")
    fname = fname.split("#")[0]  # "Cls.method#impl": a second (implementation-level) contract of the same function
    t0 = time.time()
    res = {"function": qual, "obligations": [], "status": None, "properties": ct.properties}
    try:
        mod = module_info(modname)
        if fname not in mod.funcs:
            raise Unsupported(f"shape mismatch: function {fname} not found in {modname}")
        ex = Executor(mod, fname, ct, lib)
        obls = ex.run()
    except Unsupported as e:
        res.update(status="undecided", reason=str(e), seconds=round(time.time() - t0, 3))
        return res
    except Exception as e:
        res.update(status="undecided", reason=f"executor error: {type(e).__name__}: {e}", trace=traceback.format_exc()[-1500:], seconds=round(time.time() - t0, 3))
        return res
    res["source_sha256_16"] = ex.src_hash
    res["paths"] = ex.paths
    res["dropped"] = sorted(set(ex.dropped))
    res["trusted_base"] = sorted(getattr(ex, "trusted", set()))
    res["callee_contracts"] = sorted(getattr(ex, "called", set()))
    res["local_axioms"] = sorted({a.name for a in ct.axioms})  # definitions / lemmas used only for this function (lemmas are proved in lemmas/zlemmas.py)
    res["excluded_axioms"] = list(getattr(ct, "exclude", []))
    res["derived_by"] = list(getattr(ct, "derived_by", []))
    worst = "proved"
    res["generated"] = len(obls)
    for idx, (key, ob) in enumerate(obls.items()):
        if shard is not None and idx % shard[1] != shard[0]:
            continue
        # iterative deepening: most obligations need 3 rounds; only a refutation at the
        # contract's full fuel counts as `failed`
        top = ct.fuel_post if (getattr(ct, "fuel_post", None) and ob.kind.startswith("post")) else ct.fuel
        for fuel in range(3, max(3, top) + 1):
            st, info = L.check_valid(ob.hyps, ob.goal, timeout_ms=timeout_ms, fuel=fuel, extra_axioms=ct.axioms, exclude=getattr(ct, "exclude", ()))
            if st == "proved":
                break
        info["fuel"] = fuel
        rec = {"name": ob.name, "kind": ob.kind, "line": ob.lineno, "status": st, "seconds": info.get("seconds"), "instances": info.get("instances"), "cross": info.get("cross")}
        if st == "failed":
            rec["model"] = model_summary(info["model"]) if "model" in info else None
            rec["goal"] = str(ob.goal)[:600]
            worst = "failed"
        elif st == "undecided":
            rec["reason"] = info.get("reason")
            if worst != "failed":
                worst = "undecided"
        res["obligations"].append(rec)
    # vacuity guards (DESIGN §2.9): every cover point reachable, canary refuted
    res["vacuity"] = []
    for name, pcs in (ex.covers.items() if shard is None or shard[0] == 0 else []):
        ok = False
        unknown = False
        for pc in pcs:
            st, _ = L.check_valid(pc, z3.BoolVal(False), timeout_ms=timeout_ms, want_model=False)
            if st == "failed":  # hyps satisfiable
                ok = True
                break
            if st == "undecided":
                unknown = True  # solver gave up: inconclusive, not a vacuity failure
        res["vacuity"].append({"cover": name, "reachable": True if ok else (None if unknown else False)})
        if not ok and not unknown:
            res.setdefault("vacuity_failures", []).append(name)
    if not obls:
        res.setdefault("vacuity_failures", []).append("zero obligations")
    res["shard"] = shard
    res["status"] = worst
    res["seconds"] = round(time.time() - t0, 3)
    return res


def main(argv):
    load_contracts()
    quals = argv or [q for q, c in C.REGISTRY.items() if not c.trusted]
    bad = 0
    for q in quals:
        r = verify_function(q)
        n = len(r["obligations"])
        p = sum(1 for o in r["obligations"] if o["status"] == "proved")
        print(f"{r['status']:10s} {q}  obligations {p}/{n}  paths {r.get('paths')}  {r.get('seconds')}s  {r.get('reason','')}")
        for o in r["obligations"]:
            if o["status"] != "proved":
                print("     ", o["status"], o["name"], o.get("reason", ""), (o.get("goal") or "")[:300])
        for v in r.get("vacuity_failures", []):
            print("      VACUITY", v)
        if "trace" in r:
            print(r["trace"])
        bad += r["status"] != "proved"
    return 1 if bad else 0


if __name__ == "__main__":
    sys.exit(main(sys.argv[1:]))
