"""Contracts: inference/conditional_z3.py (translation), system_w_z3.py, lex_inf_z3.py
(_inference level; the correction-set recursion is an ASSUMED contract, bounded by Engine B)"""
import z3

from contracts.c_inference import DeadlineT, SelfT, feas_of, q_nontrivial
from contracts.spec import PS
from pyvc import logic as L
from pyvc.contract import Contract, LoopSpec
from pyvc.logic import LCnd, LLCnd
from pyvc.values import *  # noqa

Contract(
    "inference.conditional_z3:Conditional_z3.translate_from_existing",
    params={"cls": TCallable("inference.conditional_z3:Conditional_z3"), "existing": TCnd},
    returns=TCnd,
    ensures=lambda c, r: [
        L.M(L.ant(r.t)) == L.M(L.ant(c.existing.t)),
        L.M(L.cons(r.t)) == L.M(L.cons(c.existing.t)),
    ],
    properties=["C03", "C04", "C07", "C11"],
)

for mod in ("inference.system_w_z3", "inference.lex_inf_z3"):
    Contract(
        f"{mod}:makeOptimizer",
        params={},
        returns=TSolverT,
        ensures=lambda c, r: [c.A(r) == L.FULL],
        properties=["C03", "C04"],
    )

PZ3 = TList(TList(TCnd))  # the z3 back-ends keep a list of layers of translated conditionals

# preferred-structure recursion of System W over a context H of admissible worlds
# (DESIGN §5 C03: Wrec); only its use is verified here
_WREC = z3.Function("WREC", LLCnd.sort, L.WSet, L.WSet, L.WSet, L.Int, L.Bool)


def WREC(P, q, H, i):
    """depends on the query only through its verification / falsification sets"""
    return _WREC(P, L.ver(q), L.fal(q), H, i)

# lexicographic comparison over contexts (Hv, Hf) (DESIGN §5 C04: Lspec)
_LREC = z3.Function("LREC", LLCnd.sort, L.WSet, L.WSet, L.WSet, L.WSet, L.Int, L.Bool)


def LREC(P, q, Hv, Hf, i):
    return _LREC(P, L.ver(q), L.fal(q), Hv, Hf, i)


WZ = SelfT("SystemWZ3", partition=PZ3)
LZ = SelfT("LexInfZ3", partition=PZ3)


def _Pz(c):
    return c.es("partition").t


def _idx_ok(c):
    return [0 <= c.partition_index.t, c.partition_index.t < LLCnd.len(_Pz(c))]


# ---------------------------------------------------------------------------
# System W recursion over minimal falsification sets (DESIGN §5 C03, refinement step)
#   MinFam(H, part)   the inclusion-minimal sets { c in part | w falsifies c }, w in H   (assumed: get_all_xi_i)
#   ASA(X, Y)         every member of Y has a subset in X                                 (assumed: any_subset_of_all)
#   FalP(l, n)        worlds falsifying each of the first n conditionals of l
#   NfExcP(l, xi, n)  worlds falsifying none of the first n conditionals of l that are not in xi
#   Exact(part, xi) = FalP(enum xi) ∩ NfExcP(part, xi): worlds whose falsified set within part is exactly xi
#   WREC(P,V,F,H,i)  <=>  ASA(XV, XF)  and  for all xi in XV ∩ XF:  i > 0 and WREC(P,V,F, H ∩ Exact(P[i], xi), i-1)
#                         where XV = MinFam(H ∩ V, P[i]), XF = MinFam(H ∩ F, P[i])
# ---------------------------------------------------------------------------
CSet = z3.SetSort(L.Cnd)
Fam = z3.SetSort(CSet)
SC = TSet(TCnd)
SSC = TSet(SC)
MinFam = z3.Function("MinFam", L.WSet, LCnd.sort, Fam)
ASA = z3.Function("ASA", Fam, Fam, L.Bool)
enumC, _eidxC, _cardC = L.enum_theory(L.Cnd)
FalP = L.prefix_fun("FalP", [LCnd.sort], L.WSet, lambda l: L.FULL, lambda l, k, prev: L.inter(prev, L.fal(LCnd.at(l, k))))
NfExcP = L.prefix_fun(
    "NfExcP",
    [LCnd.sort, CSet],
    L.WSet,
    lambda l, xi: L.FULL,
    lambda l, xi, k, prev: z3.If(z3.IsMember(LCnd.at(l, k), xi), prev, L.inter(prev, L.nf(LCnd.at(l, k)))),
)


def Exact(H, part, xi):
    """H restricted to the worlds whose falsified set within `part` is exactly xi
    (association as the code builds it: first the falsifications, then the non-falsifications)"""
    e = enumC(xi)
    return L.inter(L.inter(H, FalP(e, LCnd.len(e))), NfExcP(part, xi, LCnd.len(part)))


_wP = z3.Const("_w_P", LLCnd.sort)
_wV, _wF, _wH = z3.Consts("_w_V _w_F _w_H", L.WSet)
_wi, _wn = z3.Ints("_w_i _w_n")
_wxi = z3.Const("_w_xi", CSet)
witW = z3.Function("witW", LLCnd.sort, L.WSet, L.WSet, L.WSet, L.Int, CSet)
_part = LLCnd.at(_wP, _wi)
_XV = MinFam(L.inter(_wH, _wV), _part)
_XF = MinFam(L.inter(_wH, _wF), _part)
_S = z3.SetIntersect(_XV, _XF)
_me = _WREC(_wP, _wV, _wF, _wH, _wi)


def _next(xi):
    return z3.And(_wi > 0, _WREC(_wP, _wV, _wF, Exact(_wH, _part, xi), _wi - 1))


WREC_AXIOMS = [L.Forall([_wP, _wV, _wF, _wH, _wi], [_me], z3.Implies(_me, ASA(_XV, _XF)), "def.WREC.elim.asa")]
WREC_AXIOMS.append(L.Forall(
    [_wP, _wV, _wF, _wH, _wi, _wxi, _wn],
    [_me, FalP(enumC(_wxi), _wn)],
    z3.Implies(z3.And(_me, z3.IsMember(_wxi, _S)), _next(_wxi)),
    "def.WREC.elim.all",
))
WREC_AXIOMS.append(L.Forall(
    [_wP, _wV, _wF, _wH, _wi, _wxi],
    [_me, z3.IsMember(_wxi, _S)],
    z3.Implies(z3.And(_me, z3.IsMember(_wxi, _S)), _next(_wxi)),
    "def.WREC.elim.all.member",
))
_wit = witW(_wP, _wV, _wF, _wH, _wi)
WREC_AXIOMS.append(L.Forall(
    [_wP, _wV, _wF, _wH, _wi],
    [_me],
    z3.Implies(z3.Not(_me), z3.Or(z3.Not(ASA(_XV, _XF)), z3.And(z3.IsMember(_wit, _S), z3.Not(_next(_wit))))),
    "def.WREC.intro",
))

Contract(
    "inference.system_w_z3:SystemWZ3.get_all_xi_i",
    params={"self": WZ, "opt": TSolverT, "part": TList(TCnd)},
    returns=SSC,
    ensures=lambda c, r: [r.t == MinFam(c.old.A(c.old.opt), c.part.t)],
    modifies=["opt"],
    raises={"TimeoutError": lambda c: z3.BoolVal(True)},
    trusted=True,
    note="ASSUMED (TB-z3 MaxSAT optimum + blocking clauses): returns exactly the inclusion-minimal falsification sets "
    "of `part` over the optimizer's hard set; may leave extra hard/soft constraints behind (callers pop); bounded by C03/C15 modules",
)
Contract(
    "inference.system_w_z3:any_subset_of_all",
    params={"A": SSC, "B": SSC},
    returns=TBool,
    ensures=lambda c, r: [r.t == ASA(c._st.env["A"].t, c._st.env["B"].t)],  # (View.A is the solver accessor)
    trusted=True,
    note="ASSUMED (all/any over generators are outside Engine P): every member of B has a subset in A; checked "
    "exhaustively on small universes by the bounded module `pure`",
)


def _w_inv_outer(s, j, pre):
    P, q, i = _Pz(s), s.query.t, s.partition_index.t
    H = pre.A(pre.opt)
    es = enumC  # noqa
    S = z3.SetIntersect(s.xi_i_set.t, s.xi_i_prime_set.t)
    lst = L.enum_theory(CSet)[0](S)
    LCS = L.list_theory(CSet)
    k = z3.Int("_wo_k")
    return [
        s.A(s.opt) == H,
        L.Forall(
            [k],
            [LCS.at(lst, k)],
            z3.Implies(
                z3.And(0 <= k, k < j),
                z3.And(i > 0, _WREC(P, L.ver(q), L.fal(q), Exact(H, LLCnd.at(P, i), LCS.at(lst, k)), i - 1)),
            ),
            "ties.hold.so.far",
        ),
    ]


Contract(
    "inference.system_w_z3:SystemWZ3._rec_inference",
    params={"self": WZ, "opt": TSolverT, "partition_index": TInt, "query": TCnd},
    returns=TBool,
    requires=_idx_ok,
    ensures=lambda c, r: [r.t == WREC(_Pz(c), c.query.t, c.old.A(c.old.opt), c.partition_index.t), c.A(c.opt) == c.old.A(c.old.opt)],
    raises={"TimeoutError": lambda c: z3.BoolVal(True)},
    modifies=["opt"],
    fuel=3,
    axioms=WREC_AXIOMS,
    loops={
        0: LoopSpec("for xi_i in xi_i_set & xi_i_prime_set", _w_inv_outer),
        1: LoopSpec(
            "[... for c in xi_i]",
            lambda s, j, pre: [s.A(s.opt) == L.inter(pre.A(pre.opt), FalP(enumC(s.xi_i.t), j))],
        ),
        2: LoopSpec(
            "[... for c in part]",
            lambda s, j, pre: [s.A(s.opt) == L.inter(pre.A(pre.opt), NfExcP(s.part.t, s.xi_i.t, j))],
        ),
    },
    properties=["C03", "C07", "C11"],
    note="refinement of the real recursion to WREC under the assumed contracts of get_all_xi_i / any_subset_of_all",
)
Contract(
    "inference.lex_inf_z3:LexInfZ3._rec_inference",
    params={"self": LZ, "opt_v": TSolverT, "opt_f": TSolverT, "partition_index": TInt, "query": TCnd},
    returns=TBool,
    requires=_idx_ok,
    ensures=lambda c, r: [
        r.t == LREC(_Pz(c), c.query.t, c.old.A(c.old.opt_v), c.old.A(c.old.opt_f), c.partition_index.t)
    ],
    raises={"TimeoutError": lambda c: z3.BoolVal(True)},
    trusted=True,
    note="ASSUMED, as above (C04, C07)",
)


def _pre(c):
    return q_nontrivial(c) + [LLCnd.len(_Pz(c)) >= 1]


def _inv_last(name):
    def inv(s, j, pre):
        P = _Pz(s)
        last = LLCnd.at(P, LLCnd.len(P) - 1)
        sv = getattr(s, name)
        return [s.A(sv) == L.inter(pre.A(getattr(pre, name)), PS.K(last, j))]

    return inv


def _inv_last2(s, j, pre):
    return _inv_last("opt_v")(s, j, pre) + _inv_last("opt_f")(s, j, pre)


def _w_post(c, r):
    P, q = _Pz(c), c.query.t
    m = LLCnd.len(P)
    F = feas_of(P)
    ext = z3.If(
        z3.Or(L.isempty(L.inter(F, L.M(L.ant(q)))), L.isempty(L.inter(F, L.fal(q)))),
        True,
        z3.If(m < 2, False, WREC(P, q, F, m - 2)),
    )
    return [r.t == z3.If(c.weakly.t, ext, WREC(P, q, L.FULL, m - 1))]


def _l_post(c, r):
    P, q = _Pz(c), c.query.t
    m = LLCnd.len(P)
    F = feas_of(P)
    ext = z3.If(
        z3.Or(L.isempty(L.inter(F, L.M(L.ant(q)))), L.isempty(L.inter(F, L.fal(q)))),
        True,
        z3.If(m < 2, False, LREC(P, q, F, F, m - 2)),
    )
    return [r.t == z3.If(c.weakly.t, ext, LREC(P, q, L.FULL, L.FULL, m - 1))]


Contract(
    "inference.system_w_z3:SystemWZ3._inference",
    params={"self": WZ, "query": TCnd, "weakly": TBool, "deadline": DeadlineT},
    returns=TBool,
    requires=_pre,
    ensures=_w_post,
    raises={"TimeoutError": lambda c: z3.BoolVal(True)},
    loops={
        0: LoopSpec("for c in self.epistemic_state['partition'][-1]", _inv_last("taut_solver")),
        1: LoopSpec("for c in self.epistemic_state['partition'][-1]", _inv_last("contra_solver")),
        2: LoopSpec("for c in self.epistemic_state['partition'][-1]", _inv_last("opt")),
    },
    properties=["C03", "C07", "C11", "C14"],
)
Contract(
    "inference.lex_inf_z3:LexInfZ3._inference",
    params={"self": LZ, "query": TCnd, "weakly": TBool, "deadline": DeadlineT},
    returns=TBool,
    requires=_pre,
    ensures=_l_post,
    raises={"TimeoutError": lambda c: z3.BoolVal(True)},
    loops={
        0: LoopSpec("for c in self.epistemic_state['partition'][-1]", _inv_last("taut_solver")),
        1: LoopSpec("for c in self.epistemic_state['partition'][-1]", _inv_last("contra_solver")),
        2: LoopSpec("for c in self.epistemic_state['partition'][-1]", _inv_last2),
    },
    properties=["C04", "C07", "C11", "C14"],
)
