"""Specification functions of the properties (DESIGN §2.3), as z3 vocabulary.

None of these is a copy of the code: no solver, no push/pop, no CNF, no mutation.
They are the mathematical definitions, written recursively over a prefix length so
that the loop invariants of the real code can refer to them.
"""
from __future__ import annotations

import z3

from pyvc.logic import (
    EMPTY,
    FULL,
    TH,
    Cnd,
    Forall,
    Int,
    LCnd,
    LInt,
    LLCnd,
    LLInt,
    M,
    WSet,
    World,
    ant,
    compl,
    cons,
    fal,
    inter,
    isempty,
    list_theory,
    nf,
    nonempty,
    prefix_fun,
    ver,
)

CMap = z3.ArraySort(Int, Cnd)  # dict[int, Conditional] as a total map (+ key list elsewhere)


class PartSpec:
    """Tolerance vocabulary over lists of items; an item denotes a conditional through
    `proj`.  Two instances: items = conditionals (proj = identity) and items = integer
    keys (proj = lookup in the base's map, an extra argument of every function)."""

    def __init__(self, tag, L, LL, extra_sorts, proj):
        self.L, self.LL = L, LL
        E = L.elem
        S = L.sort
        xs = list(extra_sorts)
        self.proj = proj
        nx = len(xs)

        def split(args):
            return args[:nx], args[nx:]

        # K(l, n) = intersection of the non-falsification sets of the first n items
        self.K = prefix_fun(
            f"K{tag}",
            xs + [S],
            WSet,
            lambda *a: FULL,
            lambda *a: inter(a[-1], nf(proj(a[:nx], L.at(a[nx], a[nx + 1])))),
        )

        def KL(x, l):
            return self.K(*x, l, L.len(l))

        self.KL = KL

        def tol(x, e, l):
            """item e is tolerated by the list l (some world verifies e and falsifies no item of l)"""
            return nonempty(inter(ver(proj(x, e)), KL(x, l)))

        self.tol = tol
        # FT / FN: tolerated / not tolerated items among the first n items of l (w.r.t. all of l)
        self.FT = prefix_fun(
            f"FT{tag}",
            xs + [S],
            S,
            lambda *a: L.nil,
            lambda *a: z3.If(
                tol(a[:nx], L.at(a[nx], a[nx + 1]), a[nx]),
                L.snoc(a[-1], L.at(a[nx], a[nx + 1])),
                a[-1],
            ),
        )
        self.FN = prefix_fun(
            f"FN{tag}",
            xs + [S],
            S,
            lambda *a: L.nil,
            lambda *a: z3.If(
                tol(a[:nx], L.at(a[nx], a[nx + 1]), a[nx]),
                a[-1],
                L.snoc(a[-1], L.at(a[nx], a[nx + 1])),
            ),
        )

        def Layer(x, l):
            return self.FT(*x, l, L.len(l))

        def Rest(x, l):
            return self.FN(*x, l, L.len(l))

        self.Layer, self.Rest = Layer, Rest
        # GR(cs, k): what remains after k greedy rounds; GL(cs,k) = Layer(GR(cs,k))
        self.GR = prefix_fun(
            f"GR{tag}",
            xs + [S],
            S,
            lambda *a: a[nx],
            lambda *a: Rest(a[:nx], a[-1]),
        )

        def GL(x, cs, k):
            return Layer(x, self.GR(*x, cs, k))

        self.GL = GL
        # GLs(cs, n): the list of the first n greedy layers
        self.GLs = prefix_fun(
            f"GLs{tag}",
            xs + [S],
            LL.sort,
            lambda *a: LL.nil,
            lambda *a: LL.snoc(a[-1], GL(a[:nx], a[nx], a[nx + 1])),
        )
        vs = [z3.Const(f"_ps{tag}_{i}", s) for i, s in enumerate(xs + [S])]
        n = z3.Int(f"_ps{tag}_n")
        # lemma (induction on n, discharged in lemmas.py): len(GLs(cs,n)) = max(n,0)
        self.lem_lenGLs = TH.axiom(
            vs + [n],
            self.GLs(*vs, n),
            L_len(LL, self.GLs(*vs, n)) == z3.If(n <= 0, 0, n),
            f"lemma.lenGLs{tag}",
        )
        # stop(cs): index of the first empty greedy layer.  Its existence is lemma
        # L-stop (GR strictly shrinks while the layer is non-empty), see lemmas.
        self.stop = z3.Function(f"stop{tag}", *xs, S, Int)
        k = z3.Int(f"_ps{tag}_k")
        TH.axiom(
            vs,
            self.stop(*vs),
            z3.And(self.stop(*vs) >= 0, L.len(GL(vs[:nx], vs[nx], self.stop(*vs))) == 0),
            f"def.stop{tag}.1",
        )
        TH.axiom(
            vs + [k],
            [self.stop(*vs), self.GR(*vs, k)],
            z3.Implies(z3.And(0 <= k, k < self.stop(*vs)), L.len(GL(vs[:nx], vs[nx], k)) > 0),
            f"def.stop{tag}.2",
        )

    # --- the value `consistency` must return ---------------------------------
    def part_strict(self, x, cs):
        """(is_inconsistent, partition): strict mode."""
        st = self.stop(*x, cs)
        rest = self.GR(*x, cs, st)
        return self.L.len(rest) > 0, self.GLs(*x, cs, st)

    def part_extended(self, x, cs):
        """(is_inconsistent, partition): extended mode: finite layers followed by the
        never-tolerated rest; inconsistent iff every world falsifies one of the rest."""
        st = self.stop(*x, cs)
        rest = self.GR(*x, cs, st)
        return isempty(self.KL(x, rest)), self.LL.snoc(self.GLs(*x, cs, st), rest)


def L_len(LT, t):
    return LT.len(t)


PS = PartSpec("", LCnd, LLCnd, [], lambda x, e: e)
PSK = PartSpec("k", LInt, LLInt, [CMap], lambda x, e: z3.Select(x[0], e))
