"""Contracts: SystemWZ3.get_all_xi_i / LexInfZ3.get_all_xi_i -- the z3 Optimize based enumeration
of the minimal falsification sets of a layer (C03, C04, C07, C11).

Assumed (TB-z3): after check() == sat, model() denotes a world w of the hard set such that no world
of the hard set violates a strict subset of the soft constraints w violates (OptModel: the MaxSAT
optimum in its inclusion form); m.eval(f) is the truth value of f in that world.

Proof architecture (as for the RC2 loop, contracts/c_mcs.py): the loop invariant is stated with
three packaged predicates
    Rem(A, H0, X, part)   the remaining hard set A = the worlds of H0 not covered by a recorded set
                          (w is covered by X if some T in X has T <= ViolC(w, part))
    SoftOK(S, part)       the soft constraints are the non-falsification sets of part, position by position
    AllMin(X, H0, part)   every recorded set is realised by a world of H0 and has nothing realised strictly inside
and the mathematical steps are LEMMAS over these predicates, proved in lemmas/zlemmas.py with only
the definitions they need (XI.new-minimal, XI.add, XI.exit-unsat, XI.exit-empty, XI.bridge) and used
here as axioms.  What is proved from the real source: which soft constraints are added, that the
blocking clause Or([c.fal == False for c in xi_i]) removes exactly the worlds covered by the new
set, both exits, and the frame (soft constraints and recorded sets as the lemmas need them).
"""
import z3

from contracts import c_z3backends as Z
from pyvc import iterm as IT
from pyvc import lib
from pyvc import logic as L
from pyvc.contract import Contract, LoopSpec
from pyvc.logic import Forall, LCnd, LForm
from pyvc.values import *  # noqa

CSet, Fam, SC, SSC = Z.CSet, Z.Fam, Z.SC, Z.SSC
World = L.World
memC, _ = L.mem_theory(L.Cnd)
ViolC = z3.Function("ViolC", World, LCnd.sort, CSet)  # the conditionals of the list that the world falsifies
RealC = z3.Function("RealisedC", L.WSet, LCnd.sort, CSet, L.Bool)
rcw = z3.Function("RealisedC!w", L.WSet, LCnd.sort, CSet, World)
NoSmC = z3.Function("NoSmallerC", L.WSet, LCnd.sort, CSet, L.Bool)
nscw = z3.Function("NoSmallerC!w", L.WSet, LCnd.sort, CSet, World)
Covered = z3.Function("CoveredBy", Fam, LCnd.sort, World, L.Bool)  # some set of the family lies inside ViolC(w)
covw = z3.Function("CoveredBy!w", Fam, LCnd.sort, World, CSet)
Rem = z3.Function("Rem", L.WSet, L.WSet, Fam, LCnd.sort, L.Bool)
remw = z3.Function("Rem!w", L.WSet, L.WSet, Fam, LCnd.sort, World)
AllMin = z3.Function("AllMin", Fam, L.WSet, LCnd.sort, L.Bool)
amw = z3.Function("AllMin!w", Fam, L.WSet, LCnd.sort, CSet)
Exh = z3.Function("Exhaustive", Fam, L.WSet, LCnd.sort, L.Bool)  # every world of H0 is covered
exw = z3.Function("Exhaustive!w", Fam, L.WSet, LCnd.sort, World)
AnyHolds, _ = IT.defpred_some("AnyHolds", [LForm.sort, World, L.Int], lambda x: x[2], lambda x, k: z3.Select(L.M(LForm.at(x[0], k)), x[1]), lambda x, k: LForm.at(x[0], k))
SoftOK, _ = IT.defpred_all("SoftOK", [LForm.sort, LCnd.sort, L.Int], lambda x: x[2], lambda x, k: L.M(LForm.at(x[0], k)) == L.nf(LCnd.at(x[1], k)), lambda x, k: LForm.at(x[0], k))

_w, _w2 = z3.Consts("_xi_w _xi_w2", World)
_p = z3.Const("_xi_p", LCnd.sort)
_c = z3.Const("_xi_c", L.Cnd)
_S, _T = z3.Consts("_xi_S _xi_T", CSet)
_H, _A = z3.Consts("_xi_H _xi_A", L.WSet)
_X = z3.Const("_xi_X", Fam)
_fl = z3.Const("_xi_fl", LForm.sort)
_n = z3.Int("_xi_n")
_Ss0 = z3.Const("_xi_Ss0", LForm.sort)
_k0 = z3.Int("_xi_k0")
_rl, _ns = RealC(_H, _p, _S), NoSmC(_H, _p, _S)
_rw, _nw = rcw(_H, _p, _S), nscw(_H, _p, _S)
_cv = Covered(_X, _p, _w)
_cw = covw(_X, _p, _w)
_rem = Rem(_A, _H, _X, _p)
_rmw = remw(_A, _H, _X, _p)
_am = AllMin(_X, _H, _p)
_amw = amw(_X, _H, _p)
_ex = Exh(_X, _H, _p)
_exw = exw(_X, _H, _p)
subw = z3.Function("subset!w", CSet, CSet, L.Cnd)


def _rem_body(w):
    return z3.Select(_A, w) == z3.And(z3.Select(_H, w), z3.Not(Covered(_X, _p, w)))


# ---- definitions (each predicate: elimination(s) + introduction with a witness function) ------
DEFS = {
    "ViolC": [
        Forall([_w, _p, _c], [z3.IsMember(_c, ViolC(_w, _p))], z3.IsMember(_c, ViolC(_w, _p)) == z3.And(memC(_p, _c), z3.Select(L.fal(_c), _w)), "def.ViolC"),
        # derived from def.ViolC and mem.at (a list access is a member)
        Forall([_w, _p, _n], [ViolC(_w, _p), LCnd.at(_p, _n)], z3.Implies(z3.And(0 <= _n, _n < LCnd.len(_p)), z3.IsMember(LCnd.at(_p, _n), ViolC(_w, _p)) == z3.Select(L.fal(LCnd.at(_p, _n)), _w)), "def.ViolC.at"),
    ],
    "sets": [
        Forall([_S, _T], [z3.IsSubset(_S, _T)], z3.Implies(z3.Not(z3.IsSubset(_S, _T)), z3.And(z3.IsMember(subw(_S, _T), _S), z3.Not(z3.IsMember(subw(_S, _T), _T)))), "subset.witness"),
        Forall([_S, _T, _c], [z3.IsSubset(_S, _T), z3.IsMember(_c, _S)], z3.Implies(z3.And(z3.IsSubset(_S, _T), z3.IsMember(_c, _S)), z3.IsMember(_c, _T)), "subset.elim"),
        Forall([_S, _T], [z3.IsSubset(_S, _T)], z3.Implies(z3.And(z3.IsSubset(_S, _T), _S != _T), z3.Not(z3.IsSubset(_T, _S))), "subset.antisym"),
    ],
    "SoftOK": [
        Forall([_Ss0, _p, _n, _k0], [SoftOK(_Ss0, _p, _n), LCnd.at(_p, _k0)], z3.Implies(z3.And(SoftOK(_Ss0, _p, _n), 0 <= _k0, _k0 < _n), L.M(LForm.at(_Ss0, _k0)) == L.nf(LCnd.at(_p, _k0))), "SoftOK.elim.r"),
    ],
    "Realised": [
        Forall([_H, _p, _S], [_rl], z3.Implies(_rl, z3.And(z3.Select(_H, _rw), _S == ViolC(_rw, _p))), "RealisedC.elim"),
        Forall([_H, _p, _S, _w], [_rl, ViolC(_w, _p)], z3.Implies(z3.And(z3.Select(_H, _w), _S == ViolC(_w, _p)), _rl), "RealisedC.intro"),
    ],
    "NoSmaller": [
        Forall([_H, _p, _S, _w], [_ns, ViolC(_w, _p)], z3.Implies(z3.And(_ns, z3.Select(_H, _w), z3.IsSubset(ViolC(_w, _p), _S)), ViolC(_w, _p) == _S), "NoSmallerC.elim"),
        Forall([_H, _p, _S], [_ns], z3.Implies(z3.Not(_ns), z3.And(z3.Select(_H, _nw), z3.IsSubset(ViolC(_nw, _p), _S), ViolC(_nw, _p) != _S)), "NoSmallerC.intro"),
    ],
    "Covered": [
        Forall([_X, _p, _w], [_cv], z3.Implies(_cv, z3.And(z3.IsMember(_cw, _X), z3.IsSubset(_cw, ViolC(_w, _p)))), "CoveredBy.elim"),
        Forall([_X, _p, _w, _T], [_cv, z3.IsMember(_T, _X)], z3.Implies(z3.And(z3.IsMember(_T, _X), z3.IsSubset(_T, ViolC(_w, _p))), _cv), "CoveredBy.intro"),
    ],
    "Rem": [
        Forall([_A, _H, _X, _p, _w], [_rem, z3.Select(_A, _w)], z3.Implies(_rem, _rem_body(_w)), "Rem.elim"),
        Forall([_A, _H, _X, _p, _w], [_rem, Covered(_X, _p, _w)], z3.Implies(_rem, _rem_body(_w)), "Rem.elim.r"),
        Forall([_A, _H, _X, _p, _w], [_rem, z3.Select(_H, _w)], z3.Implies(_rem, _rem_body(_w)), "Rem.elim.r2"),
        Forall([_A, _H, _X, _p], [_rem], z3.Implies(z3.Not(_rem), z3.Not(_rem_body(_rmw))), "Rem.intro"),
    ],
    "AllMin": [
        Forall([_X, _H, _p, _T], [_am, z3.IsMember(_T, _X)], z3.Implies(z3.And(_am, z3.IsMember(_T, _X)), z3.And(RealC(_H, _p, _T), NoSmC(_H, _p, _T))), "AllMin.elim"),
        Forall([_X, _H, _p], [_am], z3.Implies(z3.Not(_am), z3.And(z3.IsMember(_amw, _X), z3.Not(z3.And(RealC(_H, _p, _amw), NoSmC(_H, _p, _amw))))), "AllMin.intro"),
    ],
    "Exh": [
        Forall([_X, _H, _p, _w], [_ex, z3.Select(_H, _w)], z3.Implies(z3.And(_ex, z3.Select(_H, _w)), Covered(_X, _p, _w)), "Exhaustive.elim"),
        Forall([_X, _H, _p], [_ex], z3.Implies(z3.Not(_ex), z3.And(z3.Select(_H, _exw), z3.Not(Covered(_X, _p, _exw)))), "Exhaustive.intro"),
    ],
    "MinFam": [
        Forall([_H, _p, _S], [z3.IsMember(_S, Z.MinFam(_H, _p))], z3.IsMember(_S, Z.MinFam(_H, _p)) == z3.And(_rl, _ns), "def.MinFam"),
    ],
}

_ml = z3.Const("_xi_ml", LCnd.sort)
_mi = z3.Int("_xi_mi")
# derived from mem.intro (proved as lemma mem.at for Int lists; the same three-line proof for Cnd lists)
MEM_AT_C = Forall([_ml, _mi], [LCnd.at(_ml, _mi)], z3.Implies(z3.And(0 <= _mi, _mi < LCnd.len(_ml)), memC(_ml, LCnd.at(_ml, _mi))), "mem.at.Cnd")

# ---- lemmas over the predicates (proved in lemmas/zlemmas.py from DEFS; used as axioms here) ----
_Ss = z3.Const("_xi_Ss", LForm.sort)
_wm = z3.Const("_xi_wm", World)
_new = ViolC(_wm, _p)
LEMMAS = {
    # an optimum of the remaining worlds yields a realised set with nothing realised strictly inside
    "XI.new-minimal": Forall(
        [_A, _H, _X, _p, _Ss, _wm],
        [_rem, lib.OptModel(_wm, _A, _Ss)],
        z3.Implies(z3.And(_rem, SoftOK(_Ss, _p, LCnd.len(_p)), LForm.len(_Ss) == LCnd.len(_p), lib.OptModel(_wm, _A, _Ss)), z3.And(RealC(_H, _p, _new), NoSmC(_H, _p, _new))),
        "lemma.XI.new-minimal",
    ),
    "XI.add": Forall(
        [_X, _H, _p, _T],
        [AllMin(z3.SetAdd(_X, _T), _H, _p)],
        z3.Implies(z3.And(_am, RealC(_H, _p, _T), NoSmC(_H, _p, _T)), AllMin(z3.SetAdd(_X, _T), _H, _p)),
        "lemma.XI.add",
    ),
    "XI.exit-unsat": Forall([_A, _H, _X, _p], [_rem, _ex], z3.Implies(z3.And(_rem, _A == L.EMPTY), _ex), "lemma.XI.exit-unsat"),
    "XI.exit-empty": Forall([_X, _H, _p], [Exh(z3.SetAdd(_X, z3.EmptySet(L.Cnd)), _H, _p)], Exh(z3.SetAdd(_X, z3.EmptySet(L.Cnd)), _H, _p), "lemma.XI.exit-empty"),
    "XI.start": Forall([_H, _p], [Rem(_H, _H, z3.EmptySet(CSet), _p)], Rem(_H, _H, z3.EmptySet(CSet), _p), "lemma.XI.start"),
    "XI.start2": Forall([_H, _p], [AllMin(z3.EmptySet(CSet), _H, _p)], AllMin(z3.EmptySet(CSet), _H, _p), "lemma.XI.start2"),
    # a world satisfies Or(l) iff it satisfies some member (induction)
    "MAny.pointwise": Forall([_fl, _n, _w], [z3.Select(L.MAny(_fl, _n), _w)], z3.Implies(z3.And(0 <= _n, _n <= LForm.len(_fl)), z3.Select(L.MAny(_fl, _n), _w) == AnyHolds(_fl, _w, _n)), "lemma.MAny.pointwise"),
    # the family-level statement the callers use
    "XI.bridge": Forall([_X, _H, _p], [_am, _ex], z3.Implies(z3.And(_am, _ex), _X == Z.MinFam(_H, _p)), "lemma.XI.bridge"),
}
# the blocking step is proved in the function itself; it needs these
BLOCK_AXIOMS = DEFS["ViolC"] + DEFS["sets"] + DEFS["Covered"] + DEFS["Rem"] + [
    LEMMAS["MAny.pointwise"],
    Forall([_fl, _n, _w, _X, _p], [L.MAny(_fl, _n), Covered(_X, _p, _w)], z3.Implies(z3.And(0 <= _n, _n <= LForm.len(_fl)), z3.Select(L.MAny(_fl, _n), _w) == AnyHolds(_fl, _w, _n)), "lemma.MAny.pointwise.r"),
    # derived from CoveredBy.elim / intro: adding a set to the family
    Forall([_X, _S, _p, _w], [Covered(z3.SetAdd(_X, _S), _p, _w)], Covered(z3.SetAdd(_X, _S), _p, _w) == z3.Or(Covered(_X, _p, _w), z3.IsSubset(_S, ViolC(_w, _p))), "CoveredBy.add"),
]
Fdiff = z3.Function("Fdiff", Fam, Fam, CSet)  # extensionality witness for families
XI_AXIOMS = BLOCK_AXIOMS + [LEMMAS[k] for k in ("XI.new-minimal", "XI.add", "XI.exit-unsat", "XI.exit-empty", "XI.start", "XI.start2")]


def _xi_inv0(s, j, pre):
    return [s.A(s.opt) == pre.A(pre.opt), LForm.len(s.S(s.opt)) == j, SoftOK(s.S(s.opt), s.part.t, j)]


def _Xs(s):
    return s.xi_i_set.t if isinstance(s.xi_i_set, VSet) else z3.EmptySet(CSet)


def _xi_inv1(s, j, pre):
    X, part = _Xs(s), s.part.t
    H0 = pre.A(pre.opt)
    return [Rem(s.A(s.opt), H0, X, part), AllMin(X, H0, part), s.S(s.opt) == pre.S(pre.opt)]


def _xi_post(c, r):
    H0 = c.old.A(c.old.opt)
    return [AllMin(r.t, H0, c.part.t), Exh(r.t, H0, c.part.t)]


def _xi_derived(c, r):
    return [r.t == Z.MinFam(c.old.A(c.old.opt), c.part.t)]


_ABS = {
    "frozenset([c for c in part if is_true(m.eval(c.make_A_then_not_B()))])": (
        lambda s: VSet(ViolC(lib.wof(s.m.t), s.part.t), TCnd),
        "TB-py / TB-z3: the conditionals of `part` whose falsification formula is true in the model's world",
    ),
}

for _mod, _cls, _self in (("inference.system_w_z3", "SystemWZ3", Z.WZ), ("inference.lex_inf_z3", "LexInfZ3", Z.LZ)):
    Contract(
        f"{_mod}:{_cls}.get_all_xi_i",
        params={"self": _self, "opt": TSolverT, "part": TList(TCnd)},
        returns=SSC,
        locals={"xi_i_set": SSC},
        requires=lambda c: [c.S(c.opt) == LForm.nil],
        ensures=_xi_post,
        derived_ensures=_xi_derived,
        derived_by=["XI.bridge"],
        modifies=["opt"],
        raises={"TimeoutError": lambda c: z3.BoolVal(True)},
        abstractions=_ABS,
        axioms=XI_AXIOMS,
        exclude=["enum.distinct.Cnd", "mem.intro.Cnd"],
        loops={0: LoopSpec("for conditional in part", _xi_inv0), 1: LoopSpec("while True", _xi_inv1)},
        properties=["C03", "C07", "C11", "C14"] if _cls == "SystemWZ3" else ["C04", "C07", "C11", "C14"],
        fuel=8,
        note="the enumeration loop against AllMin / Exhaustive; `result == MinFam(H, part)` is derived by lemma XI.bridge; relative to the optimum contract of z3.Optimize.model()",
    )
