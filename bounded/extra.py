"""Engine B: multi-step scenarios added after seeded changes slipped past the first modules
(DESIGN §9): each needs a particular SEQUENCE of operations, not a particular input.

  run_c13x  parallel evaluation WITH a per-query budget on a strict manager (the worker's
            call of general_inference must not confuse its parameters)
  run_c16x  several rankings built from ONE BeliefBase object (facts must not leak into it)
  run_c20x  query BEFORE saving, then load in a FRESH interpreter and ask OTHER queries
"""
from __future__ import annotations

import json
import os
import random
import subprocess
import sys
import tempfile

from .common import BeliefBase, REPO, VERIF, describe, merge, pmap, texts_of  # noqa: F401

BIRDS = (["b", "p", "f", "w"], {1: ("f", "b"), 2: ("!f", "p"), 3: ("b", "p"), 4: ("w", "b")})
LITS = ["b", "!b", "p", "!p", "f", "!f", "w", "!w"]


def _birds_queries(rng, n):
    qs = set()
    while len(qs) < n:
        a = rng.sample(LITS, rng.choice([1, 2]))
        if len({x.lstrip("!") for x in a}) < len(a):
            continue
        b = rng.choice(LITS)
        qs.add((b, "(" + ",".join(a) + ")" if len(a) > 1 else a[0]))
    return sorted(qs)


def _mk_base(sig, texts):
    from oracle.gen import cond

    cs = {}
    for k, (b, a) in texts.items():
        c = cond(b, a)
        c.index = k
        cs[k] = c
    return BeliefBase(list(sig), cs, "x")


# ---------------------------------------------------------------------------
def _c13x_case(args):
    system, pm, qtexts = args
    from oracle.core import Answers, Sem
    from oracle.gen import cond

    from inference.inference_manager import InferenceManager
    from inference.queries import Queries

    import multiprocessing as mp

    sig, texts = BIRDS
    out = {"evaluations": 0, "fingerprints": [], "violations": [], "rejected": False}
    bb = _mk_base(sig, texts)
    qs = [cond(b, a) for b, a in qtexts]
    sem = Sem(bb.conditionals, [f for q in qs for f in (q.antecedence, q.consequence)], sig)
    ans = Answers(sem, False)
    want = [ans.answer(system, q) for q in qs]
    # pool workers are daemonic and may not fork: lift the flag around the call
    cur = mp.current_process()
    was = cur._config.get("daemon")
    cur._config["daemon"] = False
    try:
        m = InferenceManager(bb, system, pmaxsat_solver=pm, weakly=False)
        df = m.inference(Queries({i + 10: q for i, q in enumerate(qs)}), inference_timeout=120, multi_inference=True)
        got = [bool(x) for x in df["result"].tolist()]
        flagged = [bool(x) for x in df["inference_timed_out"].tolist()]
    except BaseException as e:  # noqa
        got, flagged = f"EXC {type(e).__name__}: {e}", []
    finally:
        cur._config["daemon"] = was
    out["evaluations"] += len(qs)
    out["fingerprints"] += [("c13x", system, pm, q) for q in qtexts]
    ok = not isinstance(got, str) and all(f or g == w for g, w, f in zip(got, want, flagged)) and len(got) == len(want)
    if not ok:
        out["violations"].append(
            dict(module="extra", kind="c13x-parallel-with-budget", system=system, pmaxsat=pm, input=dict(signature=sig, conditionals={str(k): f"({b}|{a})" for k, (b, a) in texts.items()}, queries=[f"({b}|{a})" for b, a in qtexts], inference_timeout=120, multi_inference=True), expected=want, observed=got)
        )
    return out


def run_c13x(tier, seed):
    rng = random.Random(seed)
    n = 6 if tier == "quick" else 16
    fixed = [("!b", "(p,f)"), ("w", "p"), ("f", "p")]
    items = []
    for system, pm in (("system-z", "rc2"), ("system-w", "rc2"), ("lex_inf", "rc2"), ("system-w", "z3")):
        items.append((system, pm, fixed + [q for q in _birds_queries(rng, n) if q not in fixed]))
    res = merge(pmap(_c13x_case, items))
    res["scope"] = f"birds base, multi_inference=True with inference_timeout=120, {n}+3 literal queries, Z / W (rc2, z3) / lex vs oracle"
    res["samples"] = [dict(system=i[0], queries=i[2][:3]) for i in items[:1]]
    return res


# ---------------------------------------------------------------------------
def _c16x_case(args):
    sig, texts, facts1, facts2, seed = args
    from inference.preocf import PreOCF

    out = {"evaluations": 0, "fingerprints": [], "violations": [], "rejected": False}

    def bad(kind, **kw):
        out["violations"].append(dict(module="extra", kind=kind, input=dict(signature=list(sig), conditionals={str(k): f"({b}|{a})" for k, (b, a) in texts.items()}, facts_first=facts1, facts_second=facts2), **kw))

    def build(bb, facts):
        try:
            o = PreOCF.init_system_z(bb, facts=facts or None, extended=True)
            return o.compute_all_ranks()
        except ValueError:
            return "refused"
        except BaseException as e:  # noqa  (a base that is not even weakly consistent: outside C16;
            return f"unusable: {type(e).__name__}"  #  both constructions must still agree)

    shared = _mk_base(sig, texts)
    keys_before = list(shared.conditionals.keys())
    r1 = build(shared, facts1)
    if list(shared.conditionals.keys()) != keys_before:
        bad("c16x-base-object-changed", observed=[str(k) for k in shared.conditionals.keys()], expected=[str(k) for k in keys_before])
    r2 = build(shared, facts2)
    fresh = build(_mk_base(sig, texts), facts2)
    out["evaluations"] += 2
    out["fingerprints"].append(("c16x", tuple(sorted(texts.items())), tuple(facts1), tuple(facts2)))
    if r2 != fresh:
        bad("c16x-second-ranking-differs-from-fresh", expected=fresh, observed=r2)
    return out


def run_c16x(tier, seed):
    from .common import s2_bases, s3_base

    rng = random.Random(seed)
    cases = []
    n2, n3 = (60, 40) if tier == "quick" else (600, 400)
    fact_pool2 = [["a"], ["!b"], ["a", "b"], ["a;b"], []]
    for sig, conds in s2_bases(rng, False, n2):
        cases.append((sig, texts_of(conds), rng.choice(fact_pool2[:-1]), rng.choice(fact_pool2), rng.randrange(1000)))
    for _ in range(n3):
        sig, conds = s3_base(rng, consts=0.05)
        cases.append((sig, texts_of(conds), [rng.choice(sig)], rng.choice([[], ["!" + rng.choice(sig)]]), rng.randrange(1000)))
    res = merge(pmap(_c16x_case, cases))
    res["scope"] = f"{n2} S2 + {n3} S3 bases: ranking with facts, then a second ranking from the SAME BeliefBase object vs one from a fresh object"
    res["samples"] = [dict(signature=c[0], conditionals=c[1], facts_first=c[2], facts_second=c[3]) for c in cases[:2]]
    return res


# ---------------------------------------------------------------------------
_CHILD = r"""
import sys, json, os
os.environ["INFOCF_LOGLEVEL"] = "CRITICAL"
sys.path.insert(0, sys.argv[1]); sys.path.insert(0, sys.argv[2])
import warnings; warnings.filterwarnings("ignore")
from inference.preocf import PreOCF
from oracle.gen import cond
spec = json.load(open(sys.argv[3]))
o = PreOCF.load_ocf(spec["path"], trusted=True)
out = [bool(o.conditional_acceptance(cond(b, a))) for b, a in spec["queries"]]
print(json.dumps(out))
"""


def _c20x_case(args):
    kind, before, after = args
    from oracle.gen import cond

    from inference.preocf import PreOCF

    sig, texts = BIRDS
    out = {"evaluations": 0, "fingerprints": [], "violations": [], "rejected": False}

    def mk():
        bb = _mk_base(sig, texts)
        return PreOCF.init_system_z(bb) if kind == "z" else PreOCF.init_random_min_c_rep(bb)

    obj = mk()
    for b, a in before:  # fill whatever caches the object keeps
        obj.conditional_acceptance(cond(b, a))
    twin = mk()
    if kind == "c":
        twin.load_impacts(obj.save_impacts())
    want = [bool(twin.conditional_acceptance(cond(b, a))) for b, a in after]
    with tempfile.TemporaryDirectory() as d:
        path = os.path.join(d, "obj.pkl")
        obj.save_ocf(path)
        spec = os.path.join(d, "spec.json")
        json.dump({"path": path, "queries": after}, open(spec, "w"))
        child = os.path.join(d, "child.py")
        open(child, "w").write(_CHILD)
        p = subprocess.run([sys.executable, child, REPO, VERIF, spec], capture_output=True, text=True, timeout=600)
    out["evaluations"] += len(after)
    out["fingerprints"] += [("c20x", kind, q) for q in after]
    try:
        got = json.loads(p.stdout.strip().splitlines()[-1])
    except Exception:
        got = "child failed: " + (p.stderr or p.stdout)[-300:]
    if got != want:
        out["violations"].append(dict(module="extra", kind="c20x-fresh-process-after-queries", input=dict(ranking=kind, queried_before_save=before[:5], queries_after_load=after), expected=want, observed=got))
    return out


def run_c20x(tier, seed):
    rng = random.Random(seed)
    nb, na = (24, 24) if tier == "quick" else (64, 96)
    items = []
    for kind in ("z", "c"):
        for _ in range(2 if tier == "quick" else 6):
            allq = _birds_queries(rng, nb + na)
            rng.shuffle(allq)
            items.append((kind, allq[:nb], allq[nb:]))
    res = merge(pmap(_c20x_case, items))
    res["scope"] = f"birds base, System Z and c-representation objects: {nb} queries before save_ocf, load in a fresh interpreter, {na} other queries vs a never-saved twin"
    res["samples"] = [dict(ranking=i[0], before=i[1][:2], after=i[2][:2]) for i in items[:1]]
    return res


def replay(v):
    k = v.get("kind", "")
    if k.startswith("c13x"):
        qt = [tuple(__import__("bounded.common", fromlist=["split_text"]).split_text(q)) for q in v["input"]["queries"]]
        r = _c13x_case((v["system"], v["pmaxsat"], qt))
        return {"violates": bool(r["violations"]), "details": r["violations"][:1]}
    return {"violates": False, "note": "re-run ./check with the same VERIF_SEED to reproduce"}


# ---------------------------------------------------------------------------
# relational checks on the delicate bases of `lexbias` (ties with several minimum-cardinality sets)
# ---------------------------------------------------------------------------
def _biased_bases(tier, seed):
    from . import lexbias

    n_chunks, per = (24, 50) if tier == "quick" else (48, 600)
    found = []
    for r in pmap(lexbias._filter, [(seed * 977 + i, per) for i in range(n_chunks)]):
        found.extend(r)
    return found[: (60 if tier == "quick" else 800)]


SYSTEMS = [("p-entailment", "rc2"), ("system-z", "rc2"), ("system-w", "rc2"), ("system-w", "z3"), ("lex_inf", "rc2"), ("lex_inf", "z3"), ("c-inference", "rc2")]


def _rel_case(args):
    sig, texts, qtexts, mode = args
    from oracle.gen import cond

    from .common import run_real

    out = {"evaluations": 0, "fingerprints": [], "violations": [], "rejected": False}
    conds = {}
    for k, (b, a) in texts.items():
        c = cond(b, a)
        c.index = k
        conds[k] = c
    qs = [cond(b, a) for b, a in qtexts]
    if mode == "or":
        # direct inference under sparse keys (the key set contains len(D)+1 and skips a number):
        # every conditional of D must be inferred by every operator
        n = len(texts)
        rk = {}
        for pos, k in enumerate(sorted(texts)):
            rk[k] = pos + 1 if pos + 1 < n else n + 1
        if n >= 2:
            rk[sorted(texts)[0]] = n + 3
        sconds = {}
        for k, (b, a) in texts.items():
            c = cond(b, a)
            c.index = rk[k]
            sconds[rk[k]] = c
        own = [cond(b, a) for b, a in texts.values()]
        for system, pm in SYSTEMS:
            try:
                got = run_real(sig, sconds, own, system, pm, False)
            except AssertionError:
                break
            except BaseException as e:  # noqa
                out["violations"].append(dict(module="extra", kind="relx-exception", system=system, pmaxsat=pm, input=describe(sig, sconds, own), observed=f"{type(e).__name__}: {e}"))
                continue
            out["evaluations"] += len(own)
            for q, g in zip(own, got):
                if not g:
                    out["violations"].append(dict(module="extra", kind="c09x-direct-inference-sparse-keys", system=system, pmaxsat=pm, input=describe(sig, sconds, [q]), expected=True, observed=False))
    if mode == "or":
        # Or: (C|A), (C|B)  =>  (C|A;B) for pairs of the delicate queries
        inst = []
        for i in range(len(qtexts)):
            for j in range(i + 1, len(qtexts)):
                (c1, a1), (c2, a2) = qtexts[i], qtexts[j]
                inst.append(((c1, a1), (c1, a2), (c1, f"(({a1});({a2}))")))
        inst = inst[:4]
        # ... and for worlds V, F1, F2 written as complete conjunctions (V preferred to F1 and to
        # F2 must give V preferred to "F1 or F2"): the sharpest instances of Or
        import random as _r

        rng = _r.Random(hash((tuple(sig), tuple(sorted(texts)))) & 0xFFFF)

        def wtext():
            return "(" + ",".join((a if rng.random() < 0.5 else "!" + a) for a in sig) + ")"

        for _ in range(20):
            V, F1, F2 = wtext(), wtext(), wtext()
            if len({V, F1, F2}) == 3:
                inst.append(((V, f"({V};{F1})"), (V, f"({V};{F2})"), (V, f"(({V};{F1});({V};{F2}))")))
        flat = [q for t in inst for q in t]
        qs = [cond(b, a) for b, a in flat]
    ans = {}
    for system, pm in SYSTEMS:
        try:
            ans[(system, pm)] = run_real(sig, conds, qs, system, pm, False)
        except AssertionError:
            out["rejected"] = True
            return out
        except BaseException as e:  # noqa
            out["violations"].append(dict(module="extra", kind="relx-exception", system=system, pmaxsat=pm, input=describe(sig, conds, qs), observed=f"{type(e).__name__}: {e}"))
            return out
        out["evaluations"] += len(qs)

    def bad(kind, **kw):
        out["violations"].append(dict(module="extra", kind=kind, input=describe(sig, conds, qs), **kw))

    if mode == "incl":
        chain = [("p-entailment", "rc2"), ("system-z", "rc2"), ("system-w", "rc2"), ("lex_inf", "rc2")]
        pairs = list(zip(chain, chain[1:])) + [(("system-z", "rc2"), ("system-w", "z3")), (("system-w", "z3"), ("lex_inf", "z3")), (("system-w", "rc2"), ("lex_inf", "z3")), (("p-entailment", "rc2"), ("c-inference", "rc2")), (("c-inference", "rc2"), ("system-w", "rc2")), (("c-inference", "rc2"), ("system-w", "z3"))]
        for lo, hi in pairs:
            for i, q in enumerate(qs):
                if ans[lo][i] and not ans[hi][i]:
                    bad("c08x-inclusion", smaller=list(lo), larger=list(hi), query=str(q))
        out["fingerprints"] += [("incl", tuple(sorted(texts.items())), q) for q in qtexts]
    elif mode == "backend":
        for system in ("system-w", "lex_inf"):
            if ans[(system, "rc2")] != ans[(system, "z3")]:
                bad("c11x-backend", system=system, rc2=ans[(system, "rc2")], z3=ans[(system, "z3")])
        out["fingerprints"] += [("be", tuple(sorted(texts.items())), q) for q in qtexts]
    elif mode == "or":
        for system, pm in SYSTEMS:
            a = ans[(system, pm)]
            for t in range(len(qs) // 3):
                p1, p2, c = a[3 * t], a[3 * t + 1], a[3 * t + 2]
                if p1 and p2 and not c:
                    bad("c09x-Or", system=system, pmaxsat=pm, instance=[str(x) for x in qs[3 * t : 3 * t + 3]])
                if p1 and p2:
                    out["fingerprints"].append(("or", system, pm, tuple(str(x) for x in qs[3 * t : 3 * t + 3])))
    return out


def _relx(mode):
    def run(tier, seed):
        bases = _biased_bases(tier, seed)
        cases = [(sig, conds, qs[:4], mode) for sig, conds, qs in bases]
        res = merge(pmap(_rel_case, cases))
        res["scope"] = f"{len(cases)} oracle-filtered delicate bases (cardinality ties with several minimum sets), all operators and both back-ends, strict mode; relation checked: {mode}"
        res["samples"] = [dict(signature=c[0], conditionals=c[1], queries=c[2][:2]) for c in cases[:2]]
        return res

    return run


run_c08x = _relx("incl")
run_c11x = _relx("backend")
run_c09x = _relx("or")
