"""per-property configuration of the checks"""
from bounded import c06, ops


def _ops(p):
    return lambda tier, seed: ops.run(p, tier, seed)


TB = ["TB-fml", "TB-solver", "TB-py"]

PROPS = {
    "C01": dict(
        level="proof",
        bounded=_ops("C01"),
        trusted=TB,
        assumed=[
            "L1 (greedy tolerance test fails iff no ordered tolerance partition exists; order independence) - classical (Goldszmidt/Pearl), cross-checked by Engine B on S2",
            "Adams/Goldszmidt-Pearl theorem: no tolerance partition of D+(not B|A) iff (B|A) accepted by every ranking model of D",
            "L-stop: the greedy layering reaches an empty layer (termination measure |remaining|)",
        ],
        explanation="Engine P proves, from the real source, Conditional.make_*, toImplicit, consistency (both loops, all exits), "
        "PEntailment._inference (strict and extended) and the shared wrapper general_inference against the greedy tolerance-partition "
        "specification; the link greedy <-> declarative is an assumed classical lemma. Engine B compares InferenceManager with a "
        "brute-force oracle written from the property wording.",
    ),
    "C02": dict(
        level="proof",
        bounded=_ops("C02"),
        trusted=TB,
        assumed=["L2: EZ(P,q,TOP,m-1) iff rank(AB) < rank(A not B) under kz (unfolding of kz(w) <= i iff w in R_i; Zmono)", "L-stop"],
        explanation="Engine P proves SystemZ._preprocess_belief_base (partition = greedy partition), _inference and the recursion "
        "_rec_inference (result == EZ, the layer-wise rank comparison) from the real source; Engine B compares with the oracle's "
        "kz-based definition.",
    ),
    "C06": dict(
        level="proof",
        bounded=lambda tier, seed: c06.run(tier, seed),
        trusted=TB,
        assumed=["L1", "L-stop", "L-rest: GR(cs,stop) and GR(cs,stop+1) have the same elements"],
        explanation="Engine P proves consistency and consistency_indices (outer/inner loops, strict and extended exits) equal to the "
        "greedy partition specification and preprocess_belief_base's refusal of empty/inconsistent bases.",
    ),
}

NOT_APPLICABLE = {}
