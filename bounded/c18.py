"""Engine B for C18: ranking-function operations (PreOCF) against their defining laws.

The oracle below is written from the wording of C18 over explicit worlds:

  * worlds of a signature s_0..s_{n-1} are the bitstrings of length n, bit i == '1' iff s_i is true;
  * rank(F)            = least rank of the worlds satisfying F, undefined (None) if there is none;
  * (B|A) accepted    <=> rank(A and B) defined and (rank(A and not B) undefined or rank(AB) < rank(A not B));
  * marginalising `away` (a proper subset of the atoms): signature = remaining atoms in their old order,
    every world v over them gets min{rank(w) : w extends v}; hence rank(F) is unchanged for F over the
    remaining atoms (and so is acceptance of conditionals over them);
  * conditionalisation by F = exactly the worlds satisfying F, each with its own rank;
  * ranks -> layered total preorder: layers ascending by rank, each layer one full rank class, none empty;
    back with a numbering f: world in layer i gets f(i); strictly increasing f keeps the order
    (< and = between any two worlds), f(i) = rank of layer i reproduces the ranks exactly.

Scope A: all total rank assignments with ranks in {0,1,2} over 1 and 2 atoms x formulas realising every truth
table x conditionals from pairs of these formulas x every proper atom subset x numbering functions.
Scope B: seeded rankings over 3..6 atoms (shuffled signature order; dense, gapped, injective, sparse,
constant, min>0 rankings) x random formulas / conditionals / proper atom subsets; rankings produced by the
real System Z and random-min-c-representation classes for small consistent bases (after compute_all_ranks(),
plus the lazily evaluated object for the operations that go through rank_world).

Deliberately not judged (no expected value follows from the wording of C18):
  * formulas mentioning an atom outside the signature (the property defines ranks via the models among the
    worlds of the signature; such a formula has no truth value in them);
  * partial rank assignments (the quantifier says total assignments).  One consequence is only RECORDED in
    `extra["observation_lazy_marginalize"]`, not reported as a violation: `marginalize` /
    `conditionalize_existing_ranks` read the stored rank table, so on a System Z / c-representation object
    whose ranks have not been computed yet (`compute_all_ranks()` not called) `marginalize` silently returns
    an empty ranking.
"""
from __future__ import annotations

import hashlib
import itertools
import random

from .common import pmap  # also puts /repo and /verif on sys.path and silences logging

MODULE = "c18"


# ---------------------------------------------------------------------------
# oracle (definitions over explicit worlds)
# ---------------------------------------------------------------------------
def _worlds(n):
    assert n >= 1
    return [format(i, "0%db" % n) for i in range(2 ** n)]


def _wd(sig, w):
    return {a: w[i] == "1" for i, a in enumerate(sig)}


def _models(f, sig, worlds):
    from oracle.core import ev

    return frozenset(w for w in worlds if ev(f, _wd(sig, w)))


def _least(ranks, ms):
    return min(ranks[w] for w in ms) if ms else None


def _accepted(ranks, AB, AnB):
    rv, rn = _least(ranks, AB), _least(ranks, AnB)
    return rv is not None and (rn is None or rv < rn)


def _marginal(sig, ranks, away):
    keep = [i for i, a in enumerate(sig) if a not in away]
    assert keep, "marginalisation must leave at least one atom (proper subset)"
    new_sig = [sig[i] for i in keep]
    out = {}
    for v in _worlds(len(keep)):
        ext = [w for w in ranks if all(w[i] == v[j] for j, i in enumerate(keep))]
        out[v] = min(ranks[w] for w in ext)
    return new_sig, out


def _layers(ranks):
    vals = sorted(set(ranks.values()))
    return vals, [set(w for w in ranks if ranks[w] == r) for r in vals]


def _sign(x):
    return (x > 0) - (x < 0)


def _numbering(spec, layer_ranks):
    name = spec["name"]
    if name == "identity":
        return lambda i: i
    if name == "2i+1":
        return lambda i: 2 * i + 1
    if name == "layer-rank":
        t = list(layer_ranks)
    elif name == "table":
        t = list(spec["table"])
    else:
        raise ValueError(name)
    # total and strictly increasing beyond the table (only reached if the real layering has too many layers)
    return lambda i: t[i] if i < len(t) else t[-1] + (i - len(t) + 1)


def _strictly_increasing(spec, layer_ranks, n):
    f = _numbering(spec, layer_ranks)
    return all(f(i) < f(i + 1) for i in range(n - 1))


# ---------------------------------------------------------------------------
# helpers
# ---------------------------------------------------------------------------
def _js(x):
    if isinstance(x, (set, frozenset)):
        return sorted(_js(e) for e in x)
    if isinstance(x, (list, tuple)):
        return [_js(e) for e in x]
    if isinstance(x, dict):
        return {str(k): _js(v) for k, v in x.items()}
    if x is None or isinstance(x, (bool, int, str, float)):
        return x
    return repr(x)


def _fp(*parts):
    return hashlib.sha1(repr(parts).encode()).hexdigest()[:16]


def _build(item, compute=True):
    from oracle.gen import base_from_strings

    from inference.preocf import PreOCF

    sig = list(item["signature"])
    src = item["source"]
    if src["kind"] == "custom":
        return PreOCF.init_custom(dict(item["ranks"]), signature=sig)
    bb = base_from_strings(sig, [tuple(p) for p in src["conditionals"]], name="c18")
    if src["kind"] == "system-z":
        obj = PreOCF.init_system_z(bb)
    elif src["kind"] == "c-rep":
        obj = PreOCF.init_random_min_c_rep(bb)
    else:
        raise ValueError(src["kind"])
    if compute:
        obj.compute_all_ranks()
    return obj


# ---------------------------------------------------------------------------
# worker: one ranking x its arguments
# ---------------------------------------------------------------------------
def _case(item):
    from oracle.gen import cond as mkcond
    from parser.Wrappers import parse_formula

    from inference.preocf import ranks2tpo, tpo2ranks

    sig = list(item["signature"])
    src = item["source"]
    worlds = _worlds(len(sig))
    out = {"evaluations": 0, "fingerprints": [], "violations": [], "rejected": False, "ops": {}}

    obj = _build(item)
    if src["kind"] == "custom":
        ranks = dict(item["ranks"])
    else:
        ranks = dict(obj.ranks)
    base = {"signature": sig, "source": src, "ranks": dict(ranks)}

    def bad(kind, arg, expected, observed):
        inp = dict(base)
        inp.update(arg)
        out["violations"].append(
            {"module": MODULE, "kind": kind, "input": _js(inp), "expected": _js(expected), "observed": _js(observed)}
        )

    def real(op, arg, fn):
        out["evaluations"] += 1
        out["ops"][op] = out["ops"].get(op, 0) + 1
        try:
            return True, fn()
        except Exception as e:  # the laws are total on total rankings: no exception is acceptable
            bad("exception:" + op, arg, "a value (no exception)", f"{type(e).__name__}: {e}")
            return False, None

    # the ranking must be a total assignment over exactly the worlds of the signature
    if set(ranks) != set(worlds) or not all(isinstance(r, int) and not isinstance(r, bool) for r in ranks.values()):
        if src["kind"] == "custom":
            raise AssertionError(f"checker: generated ranking is not total: {sig} {ranks}")
        out["evaluations"] += 1
        bad("ranking-not-total", {}, sorted(worlds), ranks)
        return out
    rt = tuple(ranks[w] for w in worlds)
    key = (src["kind"], tuple(sig), rt)
    truth = item.get("truth") or {}
    _cache = {}

    def parse(text):
        if text not in _cache:
            f = parse_formula(text)
            ms = _models(f, sig, worlds)
            if text in truth:  # self-check of the generator: the text means the intended truth table
                want = frozenset(worlds[i] for i in truth[text])
                assert ms == want, f"checker: formula text {text!r} over {sig} has models {sorted(ms)}, intended {sorted(want)}"
            _cache[text] = (f, ms)
        return _cache[text]

    def contingent(ms):
        return 0 < len(ms) < len(worlds)

    variants = [("", obj)]
    if item.get("lazy") and src["kind"] != "custom":
        variants.append(("(lazy)", None))  # a fresh, not yet evaluated object per operation group

    # ---- formula_rank ------------------------------------------------------
    for tag, o in variants:
        o = o if o is not None else _build(item, compute=False)
        for text in item.get("formulas", []):
            f, ms = parse(text)
            ok, got = real("formula_rank" + tag, {"formulas": [text]}, lambda: o.formula_rank(f))
            if not ok:
                continue
            want = _least(ranks, ms)
            if got != want or (want is not None and type(got) is not int):
                bad("formula_rank" + tag, {"formulas": [text], "lazy": bool(tag)}, want, got)
            if contingent(ms):
                out["fingerprints"].append(_fp(key, "formula_rank" + tag, tuple(sorted(ms))))

    # ---- conditional_acceptance -------------------------------------------
    for tag, o in variants:
        o = o if o is not None else _build(item, compute=False)
        for b, a in item.get("conditionals", []):
            c = mkcond(b, a)
            A = _models(c.antecedence, sig, worlds)
            B = _models(c.consequence, sig, worlds)
            assert A == parse(a)[1] and B == parse(b)[1]
            AB, AnB = A & B, A - B
            ok, got = real("conditional_acceptance" + tag, {"conditionals": [[b, a]]}, lambda: o.conditional_acceptance(c))
            if not ok:
                continue
            want = _accepted(ranks, AB, AnB)
            if got is not want:
                bad(
                    "conditional_acceptance" + tag,
                    {"conditionals": [[b, a]], "lazy": bool(tag)},
                    {"accepted": want, "rank(AB)": _least(ranks, AB), "rank(A!B)": _least(ranks, AnB)},
                    got,
                )
            if AB and AnB:
                out["fingerprints"].append(_fp(key, "conditional_acceptance" + tag, tuple(sorted(AB)), tuple(sorted(AnB))))

    # ---- conditionalisation -----------------------------------------------
    for text in item.get("conditionalizations", []):
        f, ms = parse(text)
        want = {w: ranks[w] for w in worlds if w in ms}
        arg = {"conditionalizations": [text]}
        ok, got = real("filter_worlds_by_conditionalization", arg, lambda: obj.filter_worlds_by_conditionalization(f))
        if ok and (not isinstance(got, list) or len(got) != len(set(got)) or set(got) != set(want)):
            bad("filter_worlds_by_conditionalization", arg, sorted(want), got)
        ok, got = real("compute_conditionalization", arg, lambda: obj.compute_conditionalization(f))
        if ok and got != want:
            bad("compute_conditionalization", arg, want, got)
        ok, got = real("conditionalize_existing_ranks", arg, lambda: obj.conditionalize_existing_ranks(f))
        if ok and got != want:
            bad("conditionalize_existing_ranks", arg, want, got)
        if contingent(ms):
            out["fingerprints"].append(_fp(key, "conditionalization", tuple(sorted(ms))))
    for tag, o in variants[1:]:
        for text in item.get("conditionalizations", []):
            f, ms = parse(text)
            o = _build(item, compute=False)
            want = {w: ranks[w] for w in worlds if w in ms}
            arg = {"conditionalizations": [text], "lazy": True}
            ok, got = real("compute_conditionalization" + tag, arg, lambda: o.compute_conditionalization(f))
            if ok and got != want:
                bad("compute_conditionalization" + tag, arg, want, got)
            if contingent(ms):
                out["fingerprints"].append(_fp(key, "conditionalization" + tag, tuple(sorted(ms))))
    for text in item.get("world_checks", []):
        f, ms = parse(text)
        for w in worlds:
            arg = {"world_checks": [text], "world": w}
            ok, got = real("world_satisfies_conditionalization", arg, lambda: obj.world_satisfies_conditionalization(w, f))
            if ok and got is not (w in ms):
                bad("world_satisfies_conditionalization", arg, w in ms, got)
        if contingent(ms):
            out["fingerprints"].append(_fp(key, "world_satisfies", tuple(sorted(ms))))

    # ---- marginalisation ---------------------------------------------------
    for m in item.get("marginalizations", []):
        away = list(m["away"])
        assert set(away) < set(sig), "checker: not a proper subset"
        new_sig, want = _marginal(sig, ranks, away)
        arg = {"marginalizations": [{"away": away}]}
        ok, mo = real("marginalize", arg, lambda: obj.marginalize(list(away)))
        if not ok:
            continue
        got_sig, got_ranks = getattr(mo, "signature", None), getattr(mo, "ranks", None)
        if got_sig != new_sig or got_ranks != want:
            bad("marginalize", arg, {"signature": new_sig, "ranks": want}, {"signature": got_sig, "ranks": got_ranks})
        keep = [sig.index(s) for s in new_sig]
        merging = any(len({ranks[w] for w in ranks if all(w[i] == v[j] for j, i in enumerate(keep))}) > 1 for v in want)
        if merging:
            out["fingerprints"].append(_fp(key, "marginalize", tuple(sorted(away))))
        for text in m.get("formulas", []):
            f, ms = parse(text)  # models in the ORIGINAL worlds: the rank must be preserved
            arg2 = {"marginalizations": [{"away": away, "formulas": [text]}]}
            ok, got = real("marginalize.formula_rank", arg2, lambda: mo.formula_rank(f))
            if ok and got != _least(ranks, ms):
                bad("marginalize.formula_rank", arg2, _least(ranks, ms), got)
            if merging and contingent(ms):
                out["fingerprints"].append(_fp(key, "marginalize.formula_rank", tuple(sorted(away)), tuple(sorted(ms))))
        for b, a in m.get("conditionals", []):
            c = mkcond(b, a)
            A, B = parse(a)[1], parse(b)[1]
            arg2 = {"marginalizations": [{"away": away, "conditionals": [[b, a]]}]}
            ok, got = real("marginalize.conditional_acceptance", arg2, lambda: mo.conditional_acceptance(c))
            if ok and got is not _accepted(ranks, A & B, A - B):
                bad("marginalize.conditional_acceptance", arg2, _accepted(ranks, A & B, A - B), got)
            if merging and (A & B) and (A - B):
                out["fingerprints"].append(
                    _fp(key, "marginalize.conditional_acceptance", tuple(sorted(away)), tuple(sorted(A & B)), tuple(sorted(A - B)))
                )
        if m.get("tpo") and isinstance(got_ranks, dict) and got_ranks == want:
            _tpo_checks(want, [{"name": "layer-rank"}, {"name": "identity"}], real, bad, out, key + ("marg", tuple(sorted(away))),
                        lambda d: {"marginalizations": [{"away": away, "tpo": True}], **d}, ranks2tpo, tpo2ranks)

    # ---- ranks <-> layered total preorder -----------------------------------
    if item.get("numberings") is not None:
        _tpo_checks(ranks, item["numberings"], real, bad, out, key, lambda d: d, ranks2tpo, tpo2ranks)

    # ---- the operations are queries: the ranking itself must be unchanged ------------
    out["evaluations"] += 1
    if dict(obj.ranks) != ranks or list(obj.signature) != sig:
        bad("ranking-mutated", {}, {"signature": sig, "ranks": ranks}, {"signature": obj.signature, "ranks": obj.ranks})
    return out


def _tpo_checks(ranks, numberings, real, bad, out, key, mkarg, ranks2tpo, tpo2ranks):
    layer_ranks, want_layers = _layers(ranks)
    ok, tpo = real("ranks2tpo", mkarg({"numberings": []}), lambda: ranks2tpo(dict(ranks)))
    if not ok:
        return
    shape_ok = isinstance(tpo, list) and all(isinstance(l, (set, frozenset, list)) for l in tpo)
    if not shape_ok or [set(l) for l in tpo] != want_layers or any(len(l) != len(set(l)) or not l for l in tpo):
        bad("ranks2tpo", mkarg({"numberings": []}), [sorted(l) for l in want_layers], tpo)
    if len(want_layers) > 1:
        out["fingerprints"].append(_fp(key, "ranks2tpo"))
    if not shape_ok:
        return
    layer_of = {w: i for i, l in enumerate(want_layers) for w in l}
    for spec in numberings:
        f = _numbering(spec, layer_ranks)
        arg = mkarg({"numberings": [spec]})
        ok, back = real("tpo2ranks", arg, lambda: tpo2ranks(tpo, f))
        if not ok:
            continue
        want = {w: f(layer_of[w]) for w in ranks}
        if back != want:
            bad("tpo2ranks", arg, want, back)
        if _strictly_increasing(spec, layer_ranks, len(want_layers)):
            ws = sorted(ranks)
            order_ok = isinstance(back, dict) and set(back) == set(ranks) and all(
                _sign(ranks[u] - ranks[v]) == _sign(back[u] - back[v]) for u in ws for v in ws
            )
            if not order_ok:
                bad("tpo-roundtrip-order", arg, "same strict order and same ties as the ranking", back)
        if spec["name"] == "layer-rank" and back != ranks:
            bad("tpo-roundtrip-exact", arg, ranks, back)
        if len(want_layers) > 1 and (spec["name"] != "layer-rank" or layer_ranks != list(range(len(layer_ranks)))):
            sem = tuple(f(i) for i in range(len(want_layers)))
            out["fingerprints"].append(_fp(key, "tpo2ranks", sem))


# ---------------------------------------------------------------------------
# generators
# ---------------------------------------------------------------------------
def _lit(a, bit):
    return a if bit == "1" else "!" + a


def _minterm(sig, w):
    lits = [_lit(a, w[i]) for i, a in enumerate(sig)]
    return lits[0] if len(lits) == 1 else "(" + ",".join(lits) + ")"


def _dnf(sig, ws):
    terms = [_minterm(sig, w) for w in sorted(ws)]
    return terms[0] if len(terms) == 1 else "(" + ";".join(terms) + ")"


def _realisations(sig, idx):
    """one or two CL texts over `sig` whose models are exactly the worlds with the given indices"""
    worlds = _worlds(len(sig))
    ws = {worlds[i] for i in idx}
    if not ws:
        return ["Bottom", f"({sig[0]},!{sig[0]})"]
    if len(ws) == len(worlds):
        return ["Top", f"({sig[-1]};!{sig[-1]})"]
    out = [_dnf(sig, ws)]
    alt = None
    for i, a in enumerate(sig):
        for bit in "01":
            if ws == {w for w in worlds if w[i] == bit}:
                alt = _lit(a, bit)
    if alt is None or alt == out[0]:
        comp = _dnf(sig, set(worlds) - ws)
        alt = "!" + (comp if comp.startswith("(") else f"({comp})")
    out.append(alt)
    return out


def _formula_set(sig):
    """every truth table over sig in 2 realisations -> (texts, truth: text -> world indices)"""
    n = 2 ** len(sig)
    texts, truth = [], {}
    for r in range(n + 1):
        for idx in itertools.combinations(range(n), r):
            for t in _realisations(sig, idx):
                if t not in truth:
                    texts.append(t)
                    truth[t] = list(idx)
    return texts, truth


def _inc_table(rng, n):
    t, x = [], rng.randrange(0, 3)
    for _ in range(n):
        t.append(x)
        x += rng.randint(1, 4)
    return t


def _numberings(rng, nworlds):
    return [
        {"name": "identity"},
        {"name": "2i+1"},
        {"name": "layer-rank"},
        {"name": "table", "table": _inc_table(rng, nworlds)},
    ]


def _scope_a_items(rng, tier):
    thorough = tier == "thorough"
    items = []
    # --- one atom: exhaustive in both tiers ---------------------------------
    sig = ["a"]
    F, truth = _formula_set(sig)
    for rk in itertools.product(range(3), repeat=2):
        items.append(
            {
                "scope": "A1",
                "signature": sig,
                "source": {"kind": "custom"},
                "ranks": dict(zip(_worlds(1), rk)),
                "truth": truth,
                "formulas": F,
                "conditionals": [[b, a] for b in F for a in F],
                "conditionalizations": F,
                "world_checks": F,
                # the only proper subset of a one-atom signature is the empty one
                "marginalizations": [{"away": [], "formulas": F, "conditionals": [[b, a] for b in F for a in F], "tpo": True}],
                "numberings": _numberings(rng, 2),
            }
        )
    # --- two atoms ----------------------------------------------------------
    combos = [(s, rk) for s in (["a", "b"], ["b", "a"]) for rk in itertools.product(range(3), repeat=4)]
    if not thorough:
        combos = rng.sample(combos, 60)
    sets = {tuple(s): _formula_set(s) for s in (["a", "b"], ["b", "a"], ["a"], ["b"])}
    for sig, rk in combos:
        F, truth = sets[tuple(sig)]
        tts = sorted({tuple(v) for v in truth.values()})
        truth = {t: list(v) for t, v in truth.items()}
        pairs = [[b, a] for b in F for a in F]
        if not thorough:
            pairs = rng.sample(pairs, 60)
        margs = []
        for away in ([], [sig[0]], [sig[1]]):
            rest = [s for s in sig if s not in away]
            G, gtruth = sets[tuple(rest)]
            gp = [[b, a] for b in G for a in G]
            if len(rest) == 2:
                G = G if thorough else rng.sample(G, 8)
                gp = rng.sample(gp, 32 if thorough else 6)
            elif not thorough:
                gp = rng.sample(gp, 10)
            margs.append({"away": away, "formulas": G, "conditionals": gp, "tpo": True})
        tr = dict(truth)
        # truth tables of the one-atom formulas in the worlds of the two-atom signature
        for rest in (["a"], ["b"]):
            G, gtruth = sets[tuple(rest)]
            pos = sig.index(rest[0])
            for t in G:
                if t not in tr:
                    ones = {format(i, "01b") for i in gtruth[t]}
                    tr[t] = [i for i, w in enumerate(_worlds(2)) if w[pos] in ones]
        items.append(
            {
                "scope": "A2",
                "signature": sig,
                "source": {"kind": "custom"},
                "ranks": dict(zip(_worlds(2), rk)),
                "truth": tr,
                "formulas": F,
                "conditionals": pairs,
                # quick: every truth table once (random realisation) / 8 sampled formulas world by world
                "conditionalizations": F if thorough else [rng.choice([t for t in F if tuple(truth[t]) == tt]) for tt in tts],
                "world_checks": F if thorough else rng.sample(F, 8),
                "marginalizations": margs,
                "numberings": _numberings(rng, 4),
            }
        )
    return items


RANK_STYLES = ("dense", "gaps", "injective", "sparse", "shifted", "wide", "constant")


def _rnd_ranking(rng, n, style):
    ws = _worlds(n)
    if style == "dense":
        vals = [rng.randrange(6) for _ in ws]
    elif style == "gaps":
        pool = rng.choice([[0, 3, 7], [0, 2, 9], [1, 4, 5, 11], [0, 10]])
        vals = [rng.choice(pool) for _ in ws]
    elif style == "injective":
        vals = list(range(len(ws)))
        rng.shuffle(vals)
    elif style == "sparse":
        vals = [0 if rng.random() < 0.8 else rng.randint(1, 5) for _ in ws]
        if rng.random() < 0.5:
            vals = [5 - v for v in vals]
    elif style == "shifted":
        lo = rng.randint(1, 4)
        vals = [lo + rng.randrange(4) for _ in ws]
    elif style == "wide":
        vals = [rng.choice([0, 1, 2, 50, 1000]) for _ in ws]
    else:
        vals = [rng.choice([0, 3])] * len(ws)
    return dict(zip(ws, vals))


def _truth_of(node, sig):
    from oracle.core import ev

    return [i for i, w in enumerate(_worlds(len(sig))) if ev(node, _wd(sig, w))]


def _rnd_args(rng, sig, n_f, n_c, n_cz, n_wc, n_m):
    """random formulas / conditionals / proper atom subsets for a signature -> item fields"""
    from oracle.gen import rnd_formula

    truth = {}

    def F(atoms, depth=None):
        node, text = rnd_formula(rng, atoms, depth if depth is not None else rng.randint(1, 3), consts=0.08)
        truth[text] = _truth_of(node, sig)
        return text

    formulas = [F(sig) for _ in range(n_f)]
    conditionals = [[F(sig), F(sig)] for _ in range(n_c)]
    czs = [F(sig) for _ in range(n_cz)]
    wcs = [F(sig) for _ in range(n_wc)]
    margs = []
    for _ in range(n_m):
        k = rng.randint(1, len(sig) - 1)
        away = rng.sample(sig, k)  # arbitrary order, not the signature's
        rest = [s for s in sig if s not in away]
        margs.append(
            {
                "away": away,
                "formulas": [F(rest) for _ in range(3)],
                "conditionals": [[F(rest), F(rest)] for _ in range(2)],
                "tpo": True,
            }
        )
    return {
        "truth": truth,
        "formulas": formulas,
        "conditionals": conditionals,
        "conditionalizations": czs,
        "world_checks": wcs,
        "marginalizations": margs,
        "numberings": _numberings(rng, 2 ** len(sig)),
    }


def _scope_b_items(rng, tier):
    n_rank = 400 if tier == "thorough" else 40
    items = []
    for k in range(n_rank):
        n = 3 + k % 4
        sig = rng.sample(["a", "b", "c", "d", "e", "f"], n)  # shuffled order: bit i <-> sig[i]
        style = RANK_STYLES[(k // 4) % len(RANK_STYLES)] if k % 9 else "injective"
        it = {"scope": "B", "signature": sig, "source": {"kind": "custom"}, "ranks": _rnd_ranking(rng, n, style), "style": style}
        it.update(_rnd_args(rng, sig, 10, 10, 3, 1, 3))
        items.append(it)
    return items


BASES = [
    (["b", "p", "f", "w"], [("f", "b"), ("!f", "p"), ("b", "p"), ("w", "b")]),
    (["p", "b", "f"], [("f", "b"), ("!f", "p"), ("b", "p")]),
    (["a", "b", "c"], [("b", "a"), ("!b", "(a,c)")]),
    (["a", "b", "c"], [("b", "a"), ("c", "b")]),
    (["a", "b", "c", "d"], [("b", "a"), ("c", "(a,b)"), ("!c", "((a,b),d)")]),
    (["a", "b"], [("b", "Top")]),
]


def _scope_c_items(rng, tier):
    bases = BASES if tier == "thorough" else BASES[:4]
    reps = 4 if tier == "thorough" else 1
    items = []
    for sig, pairs in bases:
        for kind in ("system-z", "c-rep"):
            for _ in range(reps):
                it = {
                    "scope": "Z" if kind == "system-z" else "C",
                    "signature": list(sig),
                    "source": {"kind": kind, "conditionals": [list(p) for p in pairs]},
                    "lazy": True,
                }
                it.update(_rnd_args(rng, list(sig), 10, 10, 3, 1, 3))
                # the base's own conditionals and their parts as arguments, too
                it["conditionals"] += [list(p) for p in pairs]
                it["formulas"] += [p[1] for p in pairs]
                items.append(it)
    return items


# ---------------------------------------------------------------------------
# interface
# ---------------------------------------------------------------------------
def _lazy_marginalize_note():
    """Observation only (outside the stated quantifier 'total rank assignments'): marginalising a System Z
    object whose ranks have not been computed yet."""
    sig, pairs = BASES[0]
    it = {"signature": list(sig), "source": {"kind": "system-z", "conditionals": [list(p) for p in pairs]}}
    full = dict(_build(it).ranks)
    _, want = _marginal(list(sig), full, ["w"])
    try:
        got = dict(_build(it, compute=False).marginalize(["w"]).ranks)
    except Exception as e:  # noqa
        got = f"{type(e).__name__}: {e}"
    return {
        "case": "PreOCF.init_system_z(birds).marginalize(['w']) before compute_all_ranks()",
        "expected_if_in_scope": want,
        "observed": got,
        "agrees": got == want,
    }


def run(tier, seed):
    assert tier in ("quick", "thorough")
    rng = random.Random(seed)
    a = _scope_a_items(rng, tier)
    b = _scope_b_items(rng, tier)
    c = _scope_c_items(rng, tier)
    items = a + b + c
    order = list(range(len(items)))
    random.Random(seed + 1).shuffle(order)  # balance the pool's chunks
    results = pmap(_case, [items[i] for i in order])
    res = {"evaluations": 0, "fingerprints": set(), "violations": [], "rejected": 0}
    ops = {}
    for r in results:
        res["evaluations"] += r["evaluations"]
        res["fingerprints"].update(r["fingerprints"])
        res["violations"].extend(r["violations"])
        for k, v in r["ops"].items():
            ops[k] = ops.get(k, 0) + v
    n1 = sum(1 for i in a if i["scope"] == "A1")
    res["scope"] = (
        f"A: all {n1} rank assignments in {{0,1,2}} over 1 atom x 8 formulas (4 truth tables x 2 texts) x all 64 conditionals; "
        f"{'all 162 = 81 assignments x 2 signature orders' if tier == 'thorough' else 'seeded sample of 60 of the 162 (assignment, signature order) pairs'}"
        f" over 2 atoms x 32 formulas (16 truth tables x 2 texts) x "
        f"{'all 1024 conditionals' if tier == 'thorough' else '60 sampled conditionals'} x every proper atom subset (incl. the empty one) "
        f"x 4 numbering functions; B: {len(b)} seeded rankings over 3-6 atoms (shuffled signature order; styles {', '.join(RANK_STYLES)}) "
        f"x 10 formulas x 10 conditionals x 3 conditionalisations x 3 proper atom subsets (3 formulas + 2 conditionals each) x 4 numberings; "
        f"Z/C: {len(c)} rankings from the real System Z / random-min-c-representation objects of {len(c) // 2 // (4 if tier == 'thorough' else 1)} bases "
        f"(computed and lazily evaluated)"
    )
    res["rule"] = (
        "one case = (signature order, ranking, operation, argument); distinct by the ranking and the SEMANTICS of the argument "
        "(model sets / (AB, A!B) / atom subset / numbering values on the layers); non-trivial = formula with a model and a "
        "counter-model, conditional with both AB and A!B satisfiable, marginalisation merging worlds of different ranks, "
        "ranking with >= 2 layers (layer-rank numbering only if it differs from the layer index)"
    )

    def show(it):
        return {
            "scope": it["scope"],
            "signature": it["signature"],
            "source": it["source"],
            "ranks": it.get("ranks"),
            "formulas": it["formulas"][:3],
            "conditionals": it["conditionals"][:2],
            "marginalizations": [{"away": m["away"], "formulas": m["formulas"][:2]} for m in it["marginalizations"][:2]],
            "numberings": it["numberings"],
        }

    res["samples"] = [show(a[len(a) // 2]), show(b[0]), show(c[0])]
    res["extra"] = {
        "items": {"A": len(a), "B": len(b), "Z/C": len(c)},
        "evaluations_by_operation": dict(sorted(ops.items())),
        "observation_lazy_marginalize": _lazy_marginalize_note(),
    }
    return res


def replay(v):
    """re-execute the single (ranking, operation, argument) case stored in v['input'] against the real code"""
    inp = dict(v["input"])
    item = {
        "signature": inp["signature"],
        "source": inp["source"],
        "ranks": inp.get("ranks"),
        "lazy": bool(inp.get("lazy")),
    }
    for k in ("formulas", "conditionals", "conditionalizations", "world_checks", "marginalizations"):
        if k in inp:
            item[k] = inp[k]
    if "numberings" in inp and "marginalizations" not in inp:
        item["numberings"] = inp["numberings"]
    r = _case(item)
    same = [w for w in r["violations"] if w["kind"] == v["kind"]]
    if "world" in inp:
        same = [w for w in same if w["input"].get("world") == inp["world"]]
    return {
        "violates": bool(same),
        "kind": v["kind"],
        "expected": same[0]["expected"] if same else v.get("expected"),
        "observed": same[0]["observed"] if same else None,
        "other_kinds": sorted({w["kind"] for w in r["violations"]} - {v["kind"]}),
    }
