"""Contracts: inference/consistency_diagnostics.py -- how facts become conditionals and are
merged into the base (C06 diagnostics, C16 facts): keys must not collide with base keys."""
import z3

from contracts.c_consistency_sat import BeliefBaseT
from pyvc import lib
from pyvc import logic as L
from pyvc.contract import Contract, LoopSpec
from pyvc.logic import Forall, LInt
from pyvc.values import *  # noqa

LOpq = L.list_theory(Opq, "Opq")
factf = z3.Function("factf", Opq, L.Formula)  # the formula a facts entry denotes (parse_formula)

# RangeList(s, n) = [s, s+1, ..., s+n-1]
RangeList = L.prefix_fun("RangeList", [L.Int], LInt.sort, lambda s: LInt.nil, lambda s, i, prev: LInt.snoc(prev, s + i))
_s, _n, _i = z3.Ints("_rl_s _rl_n _rl_i")
L.TH.axiom([_s, _n], RangeList(_s, _n), LInt.len(RangeList(_s, _n)) == z3.If(_n <= 0, 0, _n), "lemma.RangeList.len")
L.TH.axiom(
    [_s, _n, _i],
    LInt.at(RangeList(_s, _n), _i),
    z3.Implies(z3.And(0 <= _i, _i < _n), LInt.at(RangeList(_s, _n), _i) == _s + _i),
    "lemma.RangeList.at",
)

Contract(
    "inference.consistency_diagnostics:_parse_fact",
    params={"entry": TOpaque},
    returns=TForm,
    ensures=lambda c, r: [r.t == factf(c.entry.t)],
    raises={"TypeError": lambda c: z3.BoolVal(True), "Exception": lambda c: z3.BoolVal(True)},
    trusted=True,
    note="TB-antlr/TB-py: a facts entry denotes the formula parse_formula returns for it (or the FNode itself)",
)
Contract(
    "inference.consistency_diagnostics:_validate_fact_vars",
    params={"signature": TOpaque, "phi": TForm},
    returns=TNone,
    raises={"ValueError": lambda c: z3.BoolVal(True)},
    trusted=True,
    note="pure check (may raise ValueError for unknown variables)",
)


def fact_cond_ok(val, key, entry):
    c = z3.Select(val, key)
    return z3.And(L.M(L.cons(c)) == L.EMPTY, L.M(L.ant(c)) == L.compl(L.M(factf(entry))))


def _bfc_inv(s, j, pre):
    d = s.fact_conditionals
    i = z3.Int("_bfc_i")
    start = s.start_index.t
    return [
        d.keys == RangeList(start + 1, j),
        s.next_index.t == start + 1 + j,
        Forall([i], [LOpq.at(s.facts.t, i)], z3.Implies(z3.And(0 <= i, i < j), fact_cond_ok(d.val, start + 1 + i, LOpq.at(s.facts.t, i))), "facts.values"),
    ]


def _bfc_post(c, r):
    i = z3.Int("_bfc_pi")
    start = c.start_index.t
    n = c.facts.len()
    return [
        r.keys == RangeList(start + 1, n),
        Forall([i], [LOpq.at(c.facts.t, i)], z3.Implies(z3.And(0 <= i, i < n), fact_cond_ok(r.val, start + 1 + i, LOpq.at(c.facts.t, i))), "facts.values"),
    ]


Contract(
    "inference.consistency_diagnostics:build_fact_conditionals",
    params={"signature": TOpaque, "facts": TList(TOpaque), "start_index": TInt},
    defaults={"start_index": lambda ex: VInt(0)},
    returns=TDict(TCnd),
    locals={"fact_conditionals": TDict(TCnd)},
    ensures=_bfc_post,
    raises={"ValueError": lambda c: z3.BoolVal(True), "TypeError": lambda c: z3.BoolVal(True), "Exception": lambda c: z3.BoolVal(True)},
    loops={0: LoopSpec("for entry in facts", _bfc_inv)},
    properties=["C06", "C16"],
)


def _aug_post(c, r):
    bb = c.field(c.bb, "conditionals")
    res = c.field(r, "conditionals") if isinstance(r, VRef) else None
    n = c.facts.len()
    k = z3.Int("_aug_k")
    i = z3.Int("_aug_i")
    mem = L.mem_Int
    out = []
    if res is None:
        return [z3.BoolVal(False)]
    # every base conditional is still there, unchanged, at its position
    out.append(Forall([k], [mem(bb.keys, k)], z3.Implies(mem(bb.keys, k), z3.And(mem(res.keys, k), z3.Select(res.val, k) == z3.Select(bb.val, k))), "base.preserved"))
    out.append(z3.Implies(n > 0, LInt.len(res.keys) == LInt.len(bb.keys) + n))
    out.append(z3.Implies(n == 0, z3.And(res.keys == bb.keys, res.val == bb.val)))
    # each fact contributes (Bottom | not fact) under a key that is not a base key
    w = z3.Function("aug_key", LInt.sort, L.Int, L.Int)
    out.append(
        Forall(
            [i],
            [LOpq.at(c.facts.t, i)],
            z3.Implies(
                z3.And(0 <= i, i < n),
                z3.And(
                    mem(res.keys, LInt.at(res.keys, LInt.len(bb.keys) + i)),
                    z3.Not(mem(bb.keys, LInt.at(res.keys, LInt.len(bb.keys) + i))),
                    fact_cond_ok(res.val, LInt.at(res.keys, LInt.len(bb.keys) + i), LOpq.at(c.facts.t, i)),
                ),
            ),
            "facts.added",
        )
    )
    return out


Contract(
    "inference.consistency_diagnostics:augment_belief_base_with_facts",
    params={"bb": BeliefBaseT, "facts": TList(TOpaque)},
    returns=BeliefBaseT,
    ensures=_aug_post,
    fuel=5,
    raises={"ValueError": lambda c: z3.BoolVal(True), "TypeError": lambda c: z3.BoolVal(True), "Exception": lambda c: z3.BoolVal(True)},
    properties=["C06", "C16"],
)
