"""Contracts: inference/conditional.py, inference/conditional_z3.py"""
from pyvc import logic as L
from pyvc.contract import Contract
from pyvc.values import TCnd, TForm

for mod, cls in (("inference.conditional", "Conditional"), ("inference.conditional_z3", "Conditional_z3")):
    Contract(
        f"{mod}:{cls}.make_A_then_B",
        params={"self": TCnd},
        returns=TForm,
        ensures=lambda c, r: [L.M(r.t) == L.ver(c.self.t)],
        properties=["C15", "C01", "C02", "C06"],
    )
    Contract(
        f"{mod}:{cls}.make_A_then_not_B",
        params={"self": TCnd},
        returns=TForm,
        ensures=lambda c, r: [L.M(r.t) == L.fal(c.self.t)],
        properties=["C15", "C01", "C02", "C06"],
    )
    Contract(
        f"{mod}:{cls}.make_not_A_or_B",
        params={"self": TCnd},
        returns=TForm,
        ensures=lambda c, r: [L.M(r.t) == L.nf(c.self.t)],
        properties=["C15", "C07"],
    )
