"""Engine P, logic layer.

* first-order vocabulary as z3 sorts / uninterpreted functions (DESIGN §2.3),
* axioms are (vars, triggers, body); quantifiers are NEVER handed to z3:
  `instantiate` does controlled ground instantiation (own E-matching, fixed fuel),
  the result is quantifier-free and z3 decides it (DESIGN §2.5),
* `Forall` objects may also occur in hypotheses (used as local axioms) and in goals
  (skolemised),
* `check_valid` returns ('proved'|'failed'|'undecided', info).
"""
from __future__ import annotations

import itertools
import time

import z3

def skey(sort):
    """a printable unique key of a sort (array sorts all have the name 'Array')"""
    import re

    return re.sub(r"\W+", "_", str(sort)).strip("_")


# ----------------------------------------------------------------------------
# sorts
# ----------------------------------------------------------------------------
World = z3.DeclareSort("World")
WSet = z3.ArraySort(World, z3.BoolSort())
Formula = z3.DeclareSort("Formula")
Cnd = z3.DeclareSort("Cnd")
Int = z3.IntSort()
Bool = z3.BoolSort()

EMPTY = z3.K(World, z3.BoolVal(False))
FULL = z3.K(World, z3.BoolVal(True))

_and = z3.And(z3.Bool("a"), z3.Bool("b")).decl()
_or = z3.Or(z3.Bool("a"), z3.Bool("b")).decl()
_not = z3.Not(z3.Bool("a")).decl()


def inter(*xs):
    xs = list(xs)
    r = xs[0]
    for x in xs[1:]:
        r = z3.Map(_and, r, x)
    return r


def union(*xs):
    xs = list(xs)
    r = xs[0]
    for x in xs[1:]:
        r = z3.Map(_or, r, x)
    return r


def compl(x):
    return z3.Map(_not, x)


def minus(a, b):
    return inter(a, compl(b))


def nonempty(a):
    return a != EMPTY


def isempty(a):
    return a == EMPTY


def subset(a, b):
    return minus(a, b) == EMPTY


# ----------------------------------------------------------------------------
# quantified facts (never given to z3 as quantifiers)
# ----------------------------------------------------------------------------
class Forall:
    """forall vars. body, instantiated only where `triggers` (a list of patterns:
    every pattern must match, sharing the substitution) match ground terms."""

    def __init__(self, vars, triggers, body, name=""):
        self.vars = list(vars)
        self.triggers = list(triggers) if isinstance(triggers, (list, tuple)) else [triggers]
        self.body = body
        self.name = name

    def __repr__(self):
        return f"Forall<{self.name or self.body}>"


def LForall(vars, triggers, body, name=""):
    """a Forall whose instances are guarded DEFINITIONS (range => t == u): the matcher may use
    the equations of its instances (only widens which instances are generated)"""
    f = Forall(vars, triggers, body, name)
    f.liberal = True
    return f


class Theory:
    """A bag of axioms + the lemmas (with their induction obligations) it assumes."""

    def __init__(self):
        self.axioms: list[Forall] = []
        self.ground: list = []
        self.lemma_obligations: list = []  # (name, hyps, goal)
        self.assumed: list[str] = []  # named assumptions that are NOT proved

    def axiom(self, vars, triggers, body, name=""):
        ax = Forall(vars, triggers, body, name)
        self.axioms.append(ax)
        return ax

    def fact(self, f):
        self.ground.append(f)


TH = Theory()

# ----------------------------------------------------------------------------
# formulas and conditionals
# ----------------------------------------------------------------------------
M = z3.Function("M", Formula, WSet)
f_and = z3.Function("f_and", Formula, Formula, Formula)
f_or = z3.Function("f_or", Formula, Formula, Formula)
f_implies = z3.Function("f_implies", Formula, Formula, Formula)
f_not = z3.Function("f_not", Formula, Formula)
f_true = z3.Const("f_true", Formula)
f_false = z3.Const("f_false", Formula)
ant = z3.Function("ant", Cnd, Formula)
cons = z3.Function("cons", Cnd, Formula)
mk_cnd = z3.Function("mk_cnd", Formula, Formula, Cnd)  # (consequence, antecedence)

_a, _b = z3.Consts("_fa _fb", Formula)
TH.axiom([_a, _b], f_and(_a, _b), M(f_and(_a, _b)) == inter(M(_a), M(_b)), "M.and")
TH.axiom([_a, _b], f_or(_a, _b), M(f_or(_a, _b)) == union(M(_a), M(_b)), "M.or")
TH.axiom([_a, _b], f_implies(_a, _b), M(f_implies(_a, _b)) == union(compl(M(_a)), M(_b)), "M.implies")
TH.axiom([_a], f_not(_a), M(f_not(_a)) == compl(M(_a)), "M.not")
TH.fact(M(f_true) == FULL)
TH.fact(M(f_false) == EMPTY)
TH.axiom([_a, _b], mk_cnd(_b, _a), z3.And(ant(mk_cnd(_b, _a)) == _a, cons(mk_cnd(_b, _a)) == _b), "mk_cnd")


def ver(c):
    return inter(M(ant(c)), M(cons(c)))


def fal(c):
    return minus(M(ant(c)), M(cons(c)))


def nf(c):
    return compl(fal(c))


# ----------------------------------------------------------------------------
# lists (nil / snoc / len / at), one sort per element sort
# ----------------------------------------------------------------------------
class ListTheory:
    cache: dict = {}

    def __init__(self, elem_sort, name):
        self.elem = elem_sort
        self.name = name
        self.sort = z3.DeclareSort(f"L_{name}")
        S = self.sort
        self.len = z3.Function(f"len_{name}", S, Int)
        self.at = z3.Function(f"at_{name}", S, Int, elem_sort)
        self.nil = z3.Const(f"nil_{name}", S)
        self.snoc = z3.Function(f"snoc_{name}", S, elem_sort, S)
        self.diff = z3.Function(f"diff_{name}", S, S, Int)  # extensionality witness
        l, l2 = z3.Consts(f"_l_{name} _l2_{name}", S)
        e = z3.Const(f"_e_{name}", elem_sort)
        i = z3.Int(f"_i_{name}")
        TH.axiom([l], self.len(l), self.len(l) >= 0, f"len>=0.{name}")
        TH.fact(self.len(self.nil) == 0)
        TH.axiom([l], self.len(l), z3.Implies(self.len(l) == 0, l == self.nil), f"len0.{name}")
        TH.axiom([l, e], self.snoc(l, e), self.len(self.snoc(l, e)) == self.len(l) + 1, f"len.snoc.{name}")
        TH.axiom(
            [l, e],
            self.snoc(l, e),
            self.at(self.snoc(l, e), self.len(l)) == e,
            f"at.snoc.last.{name}",
        )
        TH.axiom(
            [l, e, i],
            self.at(self.snoc(l, e), i),
            self.at(self.snoc(l, e), i) == z3.If(i == self.len(l), e, self.at(l, i)),
            f"at.snoc.{name}",
        ).liberal = True
        self.concat = z3.Function(f"concat_{name}", S, S, S)
        TH.axiom([l, l2], self.concat(l, l2), self.len(self.concat(l, l2)) == self.len(l) + self.len(l2), f"len.concat.{name}")
        TH.axiom(
            [l, l2, i],
            self.at(self.concat(l, l2), i),
            self.at(self.concat(l, l2), i) == z3.If(i < self.len(l), self.at(l, i), self.at(l2, i - self.len(l))),
            f"at.concat.{name}",
        )
        self._l, self._l2, self._i, self._e = l, l2, i, e

    def ext_facts(self, a, b):
        """a != b  ==>  they differ in length or at the witness index (extensionality,
        contrapositive; instantiated on demand for a pair of lists)."""
        d = self.diff(a, b)
        return z3.Implies(
            a != b,
            z3.Or(
                self.len(a) != self.len(b),
                z3.And(0 <= d, d < self.len(a), self.at(a, d) != self.at(b, d)),
            ),
        )


def list_theory(elem_sort, name=None) -> ListTheory:
    key = skey(elem_sort)
    if key not in ListTheory.cache:
        ListTheory.cache[key] = ListTheory(elem_sort, name or key)
    return ListTheory.cache[key]


LCnd = list_theory(Cnd, "Cnd")
LForm = list_theory(Formula, "Formula")
LInt = list_theory(Int, "Int")
LLCnd = list_theory(LCnd.sort, "LCnd")
LLInt = list_theory(LInt.sort, "LInt")


# ----------------------------------------------------------------------------
# prefix-recursive specification functions
# ----------------------------------------------------------------------------
def prefix_fun(name, arg_sorts, res_sort, base, step, n_index=-1, max_chain=None):
    """F(args.., n) with guarded backward unfolding
         F(.., n) = if n <= 0 then base(args) else step(args, n-1, F(.., n-1)).
    Returns the z3 function; the unfolding axiom is registered with trigger F(.., n)."""
    F = z3.Function(name, *arg_sorts, Int, res_sort)
    vs = [z3.Const(f"_{name}_{k}", s) for k, s in enumerate(arg_sorts)]
    n = z3.Int(f"_{name}_n")
    ax = TH.axiom(
        vs + [n],
        F(*vs, n),
        F(*vs, n) == z3.If(n <= 0, base(*vs), step(*vs, n - 1, F(*vs, n - 1))),
        f"unfold.{name}",
    )
    # max_chain: how many times the unfolding may be applied to terms that an unfolding itself
    # introduced (F(n) -> F(n-1) -> ...); None = every round
    ax.max_chain = max_chain
    return F


MAll = prefix_fun("MAll", [LForm.sort], WSet, lambda l: FULL, lambda l, i, prev: inter(prev, M(LForm.at(l, i))))
MAny = prefix_fun("MAny", [LForm.sort], WSet, lambda l: EMPTY, lambda l, i, prev: union(prev, M(LForm.at(l, i))))
f_andl = z3.Function("f_andl", LForm.sort, Formula)
f_orl = z3.Function("f_orl", LForm.sort, Formula)
_fl = z3.Const("_fl", LForm.sort)
TH.axiom([_fl], f_andl(_fl), M(f_andl(_fl)) == MAll(_fl, LForm.len(_fl)), "M.andl")
TH.axiom([_fl], f_orl(_fl), M(f_orl(_fl)) == MAny(_fl, LForm.len(_fl)), "M.orl")

# membership in a list, as a defined predicate with a witness function (per element sort)
_mem_cache: dict = {}


def mem_theory(elem_sort):
    key = skey(elem_sort)
    if key in _mem_cache:
        return _mem_cache[key]
    LT = list_theory(elem_sort)
    mem = z3.Function(f"mem_{LT.name}", LT.sort, elem_sort, Bool)
    memw = z3.Function(f"memw_{LT.name}", LT.sort, elem_sort, Int)
    mk = z3.Const(f"_mem_keys_{LT.name}", LT.sort)
    mx = z3.Const(f"_mem_x_{LT.name}", elem_sort)
    mi = z3.Int(f"_mem_i_{LT.name}")
    TH.axiom(
        [mk, mx],
        mem(mk, mx),
        z3.Implies(mem(mk, mx), z3.And(0 <= memw(mk, mx), memw(mk, mx) < LT.len(mk), LT.at(mk, memw(mk, mx)) == mx)),
        f"mem.elim.{LT.name}",
    )
    TH.axiom(
        [mk, mx, mi],
        [mem(mk, mx), LT.at(mk, mi)],
        z3.Implies(z3.And(0 <= mi, mi < LT.len(mk), LT.at(mk, mi) == mx), mem(mk, mx)),
        f"mem.intro.{LT.name}",
    )
    me = z3.Const(f"_mem_e_{LT.name}", elem_sort)
    # derived from mem.elim / mem.intro / at.snoc (membership in an extended list)
    TH.axiom(
        [mk, me, mx],
        mem(LT.snoc(mk, me), mx),
        mem(LT.snoc(mk, me), mx) == z3.Or(mem(mk, mx), mx == me),
        f"mem.snoc.{LT.name}",
    )
    TH.axiom([mx], mem(LT.nil, mx), z3.Not(mem(LT.nil, mx)), f"mem.nil.{LT.name}")
    _mem_cache[key] = (mem, memw)
    return _mem_cache[key]


mem_Int, memw_Int = mem_theory(Int)

# finite sets: an enumeration (some duplicate-free order), cardinality, set of a list
_enum_cache: dict = {}


def _sname(sort):
    return skey(sort)


def enum_theory(elem_sort):
    key = _sname(elem_sort)
    if key in _enum_cache:
        return _enum_cache[key]
    S = z3.SetSort(elem_sort)
    LT = list_theory(elem_sort, key)
    enum = z3.Function(f"enum_{key}", S, LT.sort)
    eidx = z3.Function(f"eidx_{key}", S, elem_sort, Int)
    card = z3.Function(f"card_{key}", S, Int)
    s_ = z3.Const(f"_en_s_{key}", S)
    s2 = z3.Const(f"_en_s2_{key}", S)
    x = z3.Const(f"_en_x_{key}", elem_sort)
    k, k2 = z3.Ints(f"_en_k_{key} _en_k2_{key}")
    TH.axiom([s_, k], LT.at(enum(s_), k), z3.Implies(z3.And(0 <= k, k < LT.len(enum(s_))), z3.IsMember(LT.at(enum(s_), k), s_)), f"enum.sound.{key}")
    TH.axiom(
        [s_, x],
        [enum(s_), z3.IsMember(x, s_)],
        z3.Implies(z3.IsMember(x, s_), z3.And(0 <= eidx(s_, x), eidx(s_, x) < LT.len(enum(s_)), LT.at(enum(s_), eidx(s_, x)) == x)),
        f"enum.complete.{key}",
    )
    TH.axiom(
        [s_, k, k2],
        [LT.at(enum(s_), k), LT.at(enum(s_), k2)],
        z3.Implies(z3.And(0 <= k, k < k2, k2 < LT.len(enum(s_))), LT.at(enum(s_), k) != LT.at(enum(s_), k2)),
        f"enum.distinct.{key}",
    )
    TH.axiom([s_], enum(s_), LT.len(enum(s_)) == card(s_), f"card.def.{key}")
    TH.axiom([s_], card(s_), z3.And(card(s_) >= 0, (card(s_) == 0) == (s_ == z3.EmptySet(elem_sort))), f"card.zero.{key}")
    # a proper subset of a finite set is smaller (finiteness of the Python sets is assumed)
    TH.axiom(
        [s_, s2],
        [card(s_), card(s2)],
        z3.Implies(z3.And(z3.IsSubset(s_, s2), s_ != s2), card(s_) < card(s2)),
        f"card.strict.{key}",
    )
    _enum_cache[key] = (enum, eidx, card)
    return _enum_cache[key]


_setof_cache: dict = {}


def set_of_list(elem_sort):
    key = _sname(elem_sort)
    if key not in _setof_cache:
        LT = list_theory(elem_sort, key)
        mem, _w = mem_theory(elem_sort)
        F = z3.Function(f"setof_{key}", LT.sort, z3.SetSort(elem_sort))
        l = z3.Const(f"_so_l_{key}", LT.sort)
        x = z3.Const(f"_so_x_{key}", elem_sort)
        TH.axiom([l, x], z3.IsMember(x, F(l)), z3.IsMember(x, F(l)) == mem(l, x), f"setof.{key}")
        TH.axiom([l, x], [F(l), mem(l, x)], z3.IsMember(x, F(l)) == mem(l, x), f"setof2.{key}")
        _setof_cache[key] = F
    return _setof_cache[key]


# dict.values(): the list of values in key order
_values_of: dict = {}


def values_of(elem_sort, key_sort=None):
    key_sort = key_sort if key_sort is not None else Int
    key = (skey(elem_sort), skey(key_sort))
    if key not in _values_of:
        LT = list_theory(elem_sort)
        KT = list_theory(key_sort)
        A = z3.ArraySort(key_sort, elem_sort)
        tag = skey(elem_sort) if key_sort == Int else f"{skey(elem_sort)}_{skey(key_sort)}"
        F = z3.Function(f"values_{tag}", KT.sort, A, LT.sort)
        ks = z3.Const(f"_vo_k_{tag}", KT.sort)
        va = z3.Const(f"_vo_v_{tag}", A)
        i = z3.Int(f"_vo_i_{tag}")
        TH.axiom([ks, va], F(ks, va), LT.len(F(ks, va)) == KT.len(ks), f"values.len.{tag}")
        TH.axiom(
            [ks, va, i],
            LT.at(F(ks, va), i),
            z3.Implies(z3.And(0 <= i, i < KT.len(ks)), LT.at(F(ks, va), i) == z3.Select(va, KT.at(ks, i))),
            f"values.at.{tag}",
        )
        TH.axiom(
            [ks, va, i],
            [F(ks, va), KT.at(ks, i)],
            z3.Implies(z3.And(0 <= i, i < KT.len(ks)), LT.at(F(ks, va), i) == z3.Select(va, KT.at(ks, i))),
            f"values.at.by.key.{tag}",
        ).liberal = True
        _values_of[key] = F
    return _values_of[key]


# ----------------------------------------------------------------------------
# instantiation
# ----------------------------------------------------------------------------
def _subterms(e, acc):
    stack = [e]
    while stack:
        t = stack.pop()
        k = t.get_id()
        if k in acc:
            continue
        acc[k] = t
        if z3.is_app(t):
            stack.extend(t.children())
        elif z3.is_quantifier(t):
            raise ValueError("quantifier inside a ground formula")


def _match(pat, term, vars_ids, subst):
    """syntactic first-order matching of pattern against ground term."""
    if pat.get_id() in vars_ids:
        cur = subst.get(pat.get_id())
        if cur is None:
            if pat.sort() != term.sort():
                return None
            s2 = dict(subst)
            s2[pat.get_id()] = term
            return s2
        return subst if cur.eq(term) else None
    if not z3.is_app(pat) or not z3.is_app(term):
        return subst if pat.eq(term) else None
    if not pat.decl().eq(term.decl()) or pat.num_args() != term.num_args():
        return None
    if pat.num_args() == 0:
        return subst if pat.eq(term) else None
    for pc, tc in zip(pat.children(), term.children()):
        subst = _match(pc, tc, vars_ids, subst)
        if subst is None:
            return None
    return subst


def arith_normalize(t):
    """normalise only the integer-sorted sub-terms (k+1-1 -> k) so that unfoldings meet;
    a full z3.simplify would also rewrite x ∈ A∩B into x ∈ A ∧ x ∈ B and destroy the term
    shapes the triggers are written for"""
    pairs = []
    seen = set()
    stack = [t]
    while stack:
        u = stack.pop()
        if u.get_id() in seen:
            continue
        seen.add(u.get_id())
        if z3.is_int(u) and z3.is_app(u) and u.num_args() > 0 and u.decl().kind() in (z3.Z3_OP_ADD, z3.Z3_OP_SUB, z3.Z3_OP_MUL, z3.Z3_OP_UMINUS):
            v = z3.simplify(u)
            if not v.eq(u):
                pairs.append((u, v))
            continue
        if z3.is_app(u):
            stack.extend(u.children())
    return z3.substitute(t, pairs) if pairs else t


class EGraph:
    """congruence closure over the ground terms seen so far, fed with the unit equalities of
    hypotheses and instances.  It only steers WHICH axiom instances are generated (matching
    modulo known equalities); every generated instance is a valid instance whatever the
    E-graph says, so it cannot affect soundness."""

    def __init__(self):
        self.parent: dict = {}
        self.terms: dict = {}
        self.members: dict = {}
        self.apps: dict = {}  # id -> (decl id, child ids) of application terms

    def add(self, t):
        k = t.get_id()
        if k not in self.parent:
            self.parent[k] = k
            self.terms[k] = t
            self.members[k] = [k]
            if z3.is_app(t) and t.num_args() > 0:
                kids = t.children()
                for c in kids:
                    self.add(c)
                self.apps[k] = (t.decl().get_id(), [c.get_id() for c in kids])

    def find(self, k):
        p = self.parent
        while p[k] != k:
            p[k] = p[p[k]]
            k = p[k]
        return k

    def union(self, a, b):
        self.add(a)
        self.add(b)
        ra, rb = self.find(a.get_id()), self.find(b.get_id())
        if ra == rb:
            return False
        if len(self.members[ra]) < len(self.members[rb]):
            ra, rb = rb, ra
        self.parent[rb] = ra
        self.members[ra].extend(self.members.pop(rb))
        return True

    def same(self, a, b):
        if a.eq(b):
            return True
        ka, kb = a.get_id(), b.get_id()
        if ka not in self.parent or kb not in self.parent:
            return False
        return self.find(ka) == self.find(kb)

    def class_of(self, t):
        k = t.get_id()
        if k not in self.parent:
            return [t]
        return [self.terms[m] for m in self.members[self.find(k)]]

    def feed(self, formulas, liberal=False):
        stack = list(formulas)
        while stack:
            f = stack.pop()
            if isinstance(f, Forall) or not z3.is_expr(f):
                continue
            if z3.is_and(f):
                stack.extend(f.children())
            elif liberal and z3.is_implies(f):
                stack.append(f.arg(1))  # guarded definition (comprehension element): match through it
            elif z3.is_eq(f) and not z3.is_bool(f.arg(0)):
                a, b = f.arg(0), f.arg(1)
                self.union(a, b)
                # liberal (only for instances of axioms flagged so, i.e. at(snoc(l,e),i)): a term
                # equated to an if-then-else is treated as possibly equal to either branch
                # (only widens which instances are generated)
                for x, y in ((a, b), (b, a)) if liberal else ():
                    st2 = [y]
                    while st2:
                        u = st2.pop()
                        if z3.is_app(u) and u.decl().kind() == z3.Z3_OP_ITE:
                            self.union(x, u.arg(1))
                            self.union(x, u.arg(2))
                            st2.extend([u.arg(1), u.arg(2)])


    def close(self, terms):
        for t in terms:
            self.add(t)
        changed = True
        rounds = 0
        while changed and rounds < 8:
            changed = False
            rounds += 1
            sig: dict = {}
            find = self.find
            for k, (d, kids) in self.apps.items():
                key = (d, tuple([find(c) for c in kids]))
                other = sig.get(key)
                if other is None:
                    sig[key] = k
                elif find(other) != find(k):
                    self.union(self.terms[other], self.terms[k])
                    changed = True


def _ematch(pat, term, vids, subst, eg):
    """all extensions of `subst` matching `pat` against `term` modulo the E-graph"""
    if pat.get_id() in vids:
        cur = subst.get(pat.get_id())
        if cur is None:
            if pat.sort() != term.sort():
                return []
            s2 = dict(subst)
            s2[pat.get_id()] = term
            return [s2]
        return [subst] if eg.same(cur, term) else []
    if not z3.is_app(pat) or pat.num_args() == 0:
        return [subst] if eg.same(pat, term) else []
    out = []
    seen = 0
    for m in eg.class_of(term):
        if not z3.is_app(m) or m.num_args() != pat.num_args() or not pat.decl().eq(m.decl()):
            continue
        seen += 1
        if seen > 6:
            break
        partial = [subst]
        for pc, mc in zip(pat.children(), m.children()):
            nxt = []
            for s in partial:
                nxt.extend(_ematch(pc, mc, vids, s, eg))
            partial = nxt
            if not partial:
                break
        out.extend(partial)
    return out


MAX_INSTANCES = 4000
STATS = None  # debugging: {axiom name: instances}


def instantiate(axioms, ground, fuel=3, max_instances=None):
    """Ground-instantiate `axioms` against the ground terms of `ground` (list of z3
    Bool terms), matching modulo the unit equalities known so far.  Returns the list of
    instances (quantifier-free)."""
    max_instances = max_instances or MAX_INSTANCES
    terms: dict = {}
    for g in ground:
        _subterms(g, terms)
    eg = EGraph()
    eg.feed(ground)
    done = set()
    out = []
    chain: dict = {}  # (axiom, term id) -> how many unfoldings of that axiom produced the term
    for _round in range(fuel):
        eg.close(terms.values())
        new = []
        new_liberal = []
        by_decl: dict = {}
        for t in terms.values():
            if z3.is_app(t):
                by_decl.setdefault(t.decl().name(), []).append(t)
        for ax in axioms:
            vids = {v.get_id() for v in ax.vars}
            substs = [dict()]
            for pat in ax.triggers:
                cands = by_decl.get(pat.decl().name(), []) if z3.is_app(pat) else []
                nxt = []
                for s in substs:
                    for t in cands:
                        if not pat.decl().eq(t.decl()) or pat.num_args() != t.num_args():
                            continue
                        # the candidate itself has the trigger's head: match its arguments modulo E
                        if getattr(ax, "max_chain", None) is not None and chain.get((id(ax), t.get_id()), 0) >= ax.max_chain:
                            continue
                        partial = [s]
                        for pc, tc in zip(pat.children(), t.children()):
                            n2 = []
                            for s1 in partial:
                                n2.extend(_ematch(pc, tc, vids, s1, eg))
                            partial = n2
                            if not partial:
                                break
                        nxt.extend(partial)
                substs = nxt
                if not substs:
                    break
            for s in substs:
                if len(s) != len(ax.vars):
                    continue
                key = (id(ax), tuple(s[v.get_id()].get_id() for v in ax.vars))
                if key in done:
                    continue
                done.add(key)
                if STATS is not None:
                    STATS[ax.name] = STATS.get(ax.name, 0) + 1
                inst = z3.substitute(ax.body, [(v, s[v.get_id()]) for v in ax.vars])
                inst = arith_normalize(inst)
                if getattr(ax, "max_chain", None) is not None:
                    head = ax.triggers[0].decl()
                    src = z3.substitute(ax.triggers[0], [(v, s[v.get_id()]) for v in ax.vars])
                    d = chain.get((id(ax), src.get_id()), 0)
                    acc: dict = {}
                    _subterms(inst, acc)
                    for u in acc.values():
                        if z3.is_app(u) and u.decl().eq(head) and u.get_id() != src.get_id() and u.get_id() not in terms:
                            chain.setdefault((id(ax), u.get_id()), d + 1)
                new.append(inst)
                if getattr(ax, "liberal", False):
                    new_liberal.append(inst)
                if len(done) > max_instances:
                    raise RuntimeError("instantiation budget exceeded")
        if not new:
            break
        out.extend(new)
        for inst in new:
            _subterms(inst, terms)
        eg.feed(new)
        eg.feed(new_liberal, liberal=True)
    return out


# ----------------------------------------------------------------------------
# obligations
# ----------------------------------------------------------------------------
_sk_counter = itertools.count()


def skolemize_goal(goal):
    """Goal may be a z3 Bool or a Forall (or list of them): returns ground goals."""
    if isinstance(goal, Forall):
        fresh = [z3.FreshConst(v.sort(), "sk") for v in goal.vars]
        body = z3.substitute(goal.body, list(zip(goal.vars, fresh)))
        return body, [t for t in (z3.substitute(p, list(zip(goal.vars, fresh))) for p in goal.triggers)]
    return goal, []


def _is_uconst(t):
    """program-generated constant (name contains '#'); literals and theory constants are
    never rewritten"""
    return z3.is_app(t) and t.num_args() == 0 and t.decl().kind() == z3.Z3_OP_UNINTERPRETED and "#" in t.decl().name()


def _is_fapp_of_uconst(t):
    """f(c) for an uninterpreted unary f and a program-generated constant c"""
    return (
        z3.is_app(t)
        and t.num_args() == 1
        and t.decl().kind() == z3.Z3_OP_UNINTERPRETED
        and _is_uconst(t.arg(0))
    )


def _has_uconst(t):
    acc = {}
    _subterms(t, acc)
    return any(_is_uconst(x) for x in acc.values())


def _contains(t, c):
    acc = {}
    _subterms(t, acc)
    return c.get_id() in acc


def _copy_flags(src, dst):
    if getattr(src, "liberal", False):
        dst.liberal = True
    return dst


def solve_equalities(ground, foralls, goal_parts, rounds=40):
    """orient hypotheses `c == t` (c an uninterpreted constant not occurring in t) as
    rewrite rules and apply them everywhere: a sound preprocessing (the equalities are
    hypotheses and are kept) that lets the syntactic matcher see through renamings such
    as `keys' == keys` introduced by loop havoc."""
    subst = []
    kept = []
    for _ in range(rounds):
        found = None
        for h in ground:
            if z3.is_eq(h):
                a, b = h.arg(0), h.arg(1)
                if _is_uconst(a) and not _is_uconst(b) and not _contains(b, a):
                    found = (a, b)
                elif _is_uconst(b) and not _is_uconst(a) and not _contains(a, b):
                    found = (b, a)
                elif _is_uconst(a) and _is_uconst(b) and not a.eq(b):
                    # orient by name so that the older constant (smaller suffix) survives
                    found = (a, b) if a.get_id() > b.get_id() else (b, a)
                elif _is_fapp_of_uconst(a) and not _contains(b, a.arg(0)):
                    found = (a, b)  # e.g. M(res#7) == ver(q): the callee's result is only known through M
                elif _is_fapp_of_uconst(b) and not _contains(a, b.arg(0)):
                    found = (b, a)
                if found and any(found[0].eq(x) for x, _ in subst):
                    found = None
                if found:
                    break
        if not found:
            break
        subst.append(found)
        pair = [found]
        kept.append(found[0] == found[1])
        ground = [z3.substitute(h, pair) for h in ground]
        foralls = [_copy_flags(f, Forall(f.vars, [z3.substitute(t, pair) for t in f.triggers], z3.substitute(f.body, pair), f.name)) for f in foralls]
        goal_parts = [z3.substitute(g, pair) for g in goal_parts]
    return ground + kept, foralls, goal_parts


CROSS_CHECK = False  # thorough tier: re-decide every instantiated obligation with a second solver
CROSS_SOLVER = "/usr/bin/z3"  # z3 4.8.12 (Debian), an independent build of a different version


def cross_check(solver, timeout_s=60):
    """export the quantifier-free instance (SMT-LIB 2) and decide it with the second back end.
    cvc5 1.0.3 cannot be used: the instances rely on z3's combinatory array logic
    ((_ map and) over (Array World Bool)), which cvc5 does not parse."""
    import subprocess
    import tempfile

    txt = solver.to_smt2()
    with tempfile.NamedTemporaryFile("w", suffix=".smt2", delete=False) as f:
        f.write(txt)
        path = f.name
    try:
        p = subprocess.run([CROSS_SOLVER, "-smt2", f"-T:{timeout_s}", path], capture_output=True, text=True, timeout=timeout_s + 10)
        out = (p.stdout or "").strip().splitlines()
        return out[0] if out else "error"
    except Exception as e:  # pragma: no cover
        return f"error {type(e).__name__}"
    finally:
        import os

        os.unlink(path)


def _find_select_store(t, seen=None):
    """a subterm Select(Store(a, k, v), i) with i, k not syntactically equal"""
    seen = seen if seen is not None else set()
    if t.get_id() in seen or not z3.is_app(t):
        return None
    seen.add(t.get_id())
    if t.decl().kind() == z3.Z3_OP_SELECT and z3.is_app(t.arg(0)) and t.arg(0).decl().kind() == z3.Z3_OP_STORE and t.arg(0).num_args() == 3:
        return t
    for c in t.children():
        r = _find_select_store(c, seen)
        if r is not None:
            return r
    return None


def _last_iteration_split(g):
    """g = Implies(And(.., sk < T + 1, ..), body) with sk an uninterpreted Int constant: (sk, T)"""
    if not (z3.is_implies(g) and z3.is_and(g.arg(0))):
        return None
    for c in g.arg(0).children():
        if z3.is_lt(c) and z3.is_const(c.arg(0)) and c.arg(0).decl().kind() == z3.Z3_OP_UNINTERPRETED and z3.is_add(c.arg(1)) and c.arg(1).num_args() == 2:
            a, b = c.arg(1).arg(0), c.arg(1).arg(1)
            if z3.is_int_value(b) and b.as_long() == 1:
                return c.arg(0), a
            if z3.is_int_value(a) and a.as_long() == 1:
                return c.arg(0), b
    return None


def check_valid(hyps, goal, extra_axioms=(), timeout_ms=60000, fuel=3, want_model=True, exclude=(), seed_terms=(), _depth=0):
    """hyps: list of z3 Bool / Forall; goal: z3 Bool / Forall.  Decide hyps |- goal after
    ground instantiation.  Returns (status, info).

    A goal that reads a just-updated map, Select(Store(a, k, v), i), is proved by cases
    i = k / i != k (each case with the read resolved), so that the matcher sees the plain
    value instead of the select-over-store term."""
    if _depth == 0 and isinstance(goal, Forall):
        # a bounded goal "forall p < T + 1. body" (an invariant re-established after iteration T) is
        # proved as "p < T" and "p = T" (the latter with p replaced by T, so that the matcher sees T)
        g0, trig0 = skolemize_goal(goal)
        sp = _last_iteration_split(g0)
        if sp is not None:
            sk, T = sp
            total = {"instances": 0, "seconds": 0.0}
            cases = [(list(hyps) + [sk < T], g0, list(trig0)), (list(hyps), z3.substitute(g0, [(sk, T)]), [z3.substitute(t, [(sk, T)]) for t in trig0])]
            for hy, gg, tr in cases:
                st, info = check_valid(hy, gg, extra_axioms, timeout_ms, fuel, want_model, exclude, list(seed_terms) + tr, 1)
                total["instances"] += info.get("instances", 0) or 0
                total["seconds"] += info.get("seconds", 0) or 0
                if st != "proved":
                    info["instances"], info["seconds"] = total["instances"], round(total["seconds"], 4)
                    return st, info
            total["seconds"] = round(total["seconds"], 4)
            return "proved", total
    if _depth < 3:
        g0, trig0 = skolemize_goal(goal)
        ss = _find_select_store(g0)
        if ss is not None:
            st_, k_, v_ = ss.arg(0).arg(0), ss.arg(0).arg(1), ss.arg(0).arg(2)
            i_ = ss.arg(1)
            total = {"instances": 0, "seconds": 0.0}
            worst = "proved"
            for cond, repl in ((i_ == k_, v_), (i_ != k_, z3.Select(st_, i_))):
                g1 = z3.substitute(g0, [(ss, repl)])
                extra_seeds = list(seed_terms) + [z3.substitute(t, [(ss, repl)]) for t in trig0]
                st, info = check_valid(list(hyps) + [cond], g1, extra_axioms, timeout_ms, fuel, want_model, exclude, extra_seeds, _depth + 1)
                total["instances"] += info.get("instances", 0) or 0
                total["seconds"] += info.get("seconds", 0) or 0
                if st != "proved":
                    info["instances"], info["seconds"] = total["instances"], round(total["seconds"], 4)
                    info["case"] = str(cond)[:200]
                    return st, info
            total["seconds"] = round(total["seconds"], 4)
            return worst, total
    t0 = time.time()
    ground_h = [h for h in hyps if not isinstance(h, Forall)]
    local_ax = [h for h in hyps if isinstance(h, Forall)]
    g, trig_terms = skolemize_goal(goal)
    seed_terms = list(seed_terms)
    ground_h, local_ax, gp = solve_equalities(ground_h, local_ax, [g] + trig_terms + seed_terms)
    g, trig_terms, seed_terms = gp[0], gp[1 : 1 + len(trig_terms)], gp[1 + len(trig_terms) :]
    neg = z3.Not(g)
    seeds = ground_h + [neg] + TH.ground + [t == t for t in list(trig_terms) + list(seed_terms)]
    axioms = [a for a in TH.axioms if a.name not in exclude]
    try:
        insts = instantiate(axioms + list(extra_axioms) + local_ax, seeds, fuel=fuel)
    except RuntimeError as e:
        return "undecided", {"reason": str(e), "seconds": time.time() - t0}
    s = z3.Solver()
    s.set("timeout", timeout_ms)
    for f in ground_h + TH.ground + insts:
        s.add(f)
    s.add(neg)
    r = s.check()
    info = {"instances": len(insts), "seconds": round(time.time() - t0, 4)}
    if CROSS_CHECK and r != z3.unknown:
        other = cross_check(s)
        info["cross"] = other
        agree = (other == "unsat" and r == z3.unsat) or (other == "sat" and r == z3.sat)
        if other in ("sat", "unsat") and not agree:
            info["reason"] = f"back ends disagree: z3 {z3.get_version_string()} says {r}, {CROSS_SOLVER} says {other}"
            return "undecided", info
    if r == z3.unsat:
        return "proved", info
    if r == z3.sat:
        if want_model:
            try:
                info["model"] = s.model()
            except z3.Z3Exception:
                pass
        return "failed", info
    info["reason"] = s.reason_unknown()
    return "undecided", info


# removal of a key from a duplicate-free key list (del d[k]): membership is what is specified
_remove_key: dict = {}


def remove_key(elem_sort):
    key = skey(elem_sort)
    if key not in _remove_key:
        LT = list_theory(elem_sort)
        mem, _w = mem_theory(elem_sort)
        F = z3.Function(f"remove_{LT.name}", LT.sort, elem_sort, LT.sort)
        l = z3.Const(f"_rk_l_{LT.name}", LT.sort)
        k, x = z3.Consts(f"_rk_k_{LT.name} _rk_x_{LT.name}", elem_sort)
        TH.axiom([l, k, x], mem(F(l, k), x), mem(F(l, k), x) == z3.And(mem(l, x), x != k), f"remove.mem.{LT.name}")
        TH.axiom([l, k, x], [F(l, k), mem(l, x)], mem(F(l, k), x) == z3.And(mem(l, x), x != k), f"remove.mem.r.{LT.name}")
        _remove_key[key] = F
    return _remove_key[key]
