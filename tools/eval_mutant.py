#!/venv/bin/python
"""Confirm a seeded change and run the checks against it.

  tools/eval_mutant.py <PROP> <dir with patch.diff demo.py notes.md> <name> [--checks C01,C06] [--skip-tests]

1. fresh scratch worktree of /repo HEAD (outside /repo and /verif), apply the patch;
2. full test suite must still pass (82 passed); demo must FAIL with the patch, PASS without;
3. run the registered quick checks against the mutated tree (INFOCF_REPO=<worktree>) and
   record exit codes / VIOLATION lines;
4. store everything under /verif/seeded/<name>/ and remove the worktree.
"""
import json
import os
import re
import shutil
import subprocess
import sys
import time

VERIF = os.path.dirname(os.path.dirname(os.path.abspath(__file__)))


def sh(cmd, cwd=None, env=None, timeout=3000):
    e = dict(os.environ)
    e.update(env or {})
    p = subprocess.run(cmd, shell=True, cwd=cwd, env=e, capture_output=True, text=True, timeout=timeout)
    return p.returncode, p.stdout + p.stderr


def main():
    prop, src, name = sys.argv[1:4]
    checks = [prop]
    skip_tests = "--skip-tests" in sys.argv
    for a in sys.argv[4:]:
        if a.startswith("--checks"):
            checks = a.split("=", 1)[1].split(",")
    wt = f"/tmp/evalwt/{name}"
    sh(f"git -C /repo worktree remove --force {wt}")
    os.makedirs("/tmp/evalwt", exist_ok=True)
    rc, out = sh(f"git -C /repo worktree add -q --detach {wt} HEAD")
    assert rc == 0, out
    meta = {"property": prop, "name": name, "evaluated_at_repo_head": sh("git -C /repo rev-parse --short HEAD")[1].strip()}
    try:
        env = {"PYTHONPATH": wt, "INFOCF_LOGLEVEL": "CRITICAL"}
        demo = os.path.join(src, "demo.py")
        # the demos were written for the agent's worktree path: rewrite that path
        demo_txt = open(demo).read()
        m = re.search(r"/tmp/mut/C\d\d", demo_txt)
        local_demo = os.path.join(wt, "_demo.py")
        open(local_demo, "w").write(demo_txt.replace(m.group(0), wt) if m else demo_txt)
        rc0, out0 = sh(f"/venv/bin/python _demo.py", cwd=wt, env=env, timeout=1800)
        meta["demo_clean"] = {"exit": rc0, "tail": out0[-300:]}
        rc, out = sh(f"git apply {os.path.join(src, 'patch.diff')}", cwd=wt)
        assert rc == 0, "patch does not apply: " + out
        rc1, out1 = sh(f"/venv/bin/python _demo.py", cwd=wt, env=env, timeout=1800)
        meta["demo_mutated"] = {"exit": rc1, "tail": out1[-300:]}
        if not skip_tests:
            rct, outt = sh("/venv/bin/python -m pytest -q -p no:cacheprovider --timeout=900 --continue-on-collection-errors 2>&1 | tail -3", cwd=wt, env=env)
            meta["tests_mutated"] = outt.strip().splitlines()[-1] if outt.strip() else ""
        meta["confirmed"] = rc0 == 0 and rc1 != 0 and (skip_tests or ("82 passed" in meta.get("tests_mutated", "") and "failed" not in meta.get("tests_mutated", "")))
        # run the checks against the mutated tree
        meta["checks"] = {}
        for c in checks:
            t0 = time.time()
            rcc, outc = sh(f"./check {c} --tier quick", cwd=VERIF, env={"INFOCF_REPO": wt, "VERIF_SEED": "1"}, timeout=3600)
            lines = [l for l in outc.splitlines() if l.startswith(("VIOLATION", "UNDECIDED", "KNOWN-FINDING", "CHECKER-FAILURE", "["))]
            meta["checks"][c] = {"exit": rcc, "lines": lines[:12], "seconds": round(time.time() - t0, 1)}
        meta["caught"] = any(v["exit"] == 1 for v in meta["checks"].values())
    finally:
        sh(f"git -C /repo worktree remove --force {wt}")
    dst = os.path.join(VERIF, "seeded", name)
    os.makedirs(dst, exist_ok=True)
    for f in ("patch.diff", "demo.py", "notes.md"):
        if os.path.exists(os.path.join(src, f)) and os.path.abspath(src) != os.path.abspath(dst):
            shutil.copy(os.path.join(src, f), os.path.join(dst, f))
    old = {}
    mp = os.path.join(dst, "meta.json")
    if os.path.exists(mp):
        old = json.load(open(mp))
    old.update(meta)
    json.dump(old, open(mp, "w"), indent=1)
    # evidence files were rewritten by runs against the mutated tree: restore the committed ones
    sh("git checkout -- evidence", cwd=VERIF)
    print(json.dumps({k: meta[k] for k in ("name", "confirmed", "caught")}), {c: v["exit"] for c, v in meta["checks"].items()})
    for c, v in meta["checks"].items():
        for l in v["lines"]:
            print("   ", c, l[:220])


if __name__ == "__main__":
    main()
