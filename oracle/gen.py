"""Generators of belief bases / queries and a thin driver of the real code."""
from __future__ import annotations

import os
import random

os.environ.setdefault("INFOCF_LOGLEVEL", "CRITICAL")

from pysmt.shortcuts import And, Bool, Not, Or, Symbol
from pysmt.typing import BOOL

from inference.belief_base import BeliefBase
from inference.conditional import Conditional
from inference.queries import Queries


def rnd_formula(rng: random.Random, atoms, depth: int, consts: float = 0.08):
    """Random formula as (pysmt node, CL text)."""
    if depth <= 0 or rng.random() < 0.3:
        if rng.random() < consts:
            return (Bool(True), "Top") if rng.random() < 0.5 else (Bool(False), "Bottom")
        a = rng.choice(atoms)
        if rng.random() < 0.4:
            return Not(Symbol(a, BOOL)), f"!{a}"
        return Symbol(a, BOOL), a
    r = rng.random()
    if r < 0.2:
        f, t = rnd_formula(rng, atoms, depth - 1, consts)
        return Not(f), f"!({t})"
    l, lt = rnd_formula(rng, atoms, depth - 1, consts)
    rr, rt = rnd_formula(rng, atoms, depth - 1, consts)
    if r < 0.6:
        return And(l, rr), f"({lt},{rt})"
    return Or(l, rr), f"({lt};{rt})"


def rnd_conditional(rng, atoms, depth=2, consts=0.08):
    b, bt = rnd_formula(rng, atoms, depth, consts)
    a, at = rnd_formula(rng, atoms, depth, consts)
    return Conditional(b, a, f"({bt}|{at})")


def rnd_base(rng, atoms, n, depth=2, consts=0.08, keys=None, name="gen"):
    conds = {}
    keys = keys or list(range(1, n + 1))
    for k in keys:
        c = rnd_conditional(rng, atoms, depth, consts)
        c.index = k
        conds[k] = c
    return BeliefBase(list(atoms), conds, name)


def mk_queries(conds):
    return Queries({i: c for i, c in enumerate(conds, start=1)})


def cond(b, a, text=None):
    """Conditional from CL strings."""
    from parser.Wrappers import parse_formula

    return Conditional(parse_formula(b), parse_formula(a), text or f"({b}|{a})")


def base_from_strings(sig, pairs, keys=None, name="bb"):
    keys = keys or list(range(1, len(pairs) + 1))
    cs = {}
    for k, (b, a) in zip(keys, pairs):
        c = cond(b, a)
        c.index = k
        cs[k] = c
    return BeliefBase(list(sig), cs, name)


def run_manager(bb, system, queries, pmaxsat="rc2", weakly=False, **kw):
    """Run the real InferenceManager; returns list of bool answers in row order."""
    from inference.inference_manager import InferenceManager

    m = InferenceManager(bb, system, pmaxsat_solver=pmaxsat, weakly=weakly)
    df = m.inference(queries, **kw)
    return [bool(x) for x in df["result"].tolist()]
