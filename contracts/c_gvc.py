"""Contracts: inference/optimizer.py -- Optimizer.get_violated_conditional at CLAUSE level (C03, C04, C05, C11, C15).

The enumeration loop (contracts/c_mcs.py) uses the assumed interface contract GVC: "the not-ignored keys whose
conditional the model's world falsifies".  Here the real body is proved against what it computes on integer clauses:

    result = { k in keys(nf_cnf_dict) \\ ignore  |  some clause of nf_cnf_dict[k] contains no literal of the model }

PROVIDED cost is at least the number of such (key, clause) pairs -- the early exit `counter == cost` stops the scan as
soon as that many unsatisfied clauses have been counted, which is sound exactly under this bound (RC2's cost counts the
unsatisfied soft clauses, and every clause of a not-ignored key is a soft clause: precondition soft_covers of MCS).
What remains assumed of GVC is the step from clauses to worlds (TB-tac: an unsatisfied clause of nf_cnf_dict[k] under
an optimal model means the model's world falsifies conditional k) and rc2.cost >= that count.
Lemmas (lemmas/zlemmas.py, explicit inductions): UCount.nonneg, UCount.mono, KCount.mono, KCount.flat."""
import z3

from pyvc import iterm as IT
from pyvc import logic as L
from pyvc.contract import Contract, LoopSpec
from pyvc.logic import Forall, LInt, LLInt
from pyvc.values import *  # noqa

mem_I = L.mem_Int
ValS = z3.ArraySort(L.Int, LLInt.sort)  # key -> clause list
NFT = TDict(TList(TList(TInt)))

# HitBy(clause, model): some literal of the model occurs in the clause (an existential with a witness function)
HitBy = z3.Function("HitBy", LInt.sort, LInt.sort, L.Bool)
_hw = z3.Function("HitBy!w", LInt.sort, LInt.sort, L.Int)
_hc, _hm = z3.Consts("_hb_c _hb_m", LInt.sort)
_hx = z3.Int("_hb_x")
HITBY_DEF = [
    Forall([_hc, _hm, _hx], [HitBy(_hc, _hm), mem_I(_hc, _hx)], z3.Implies(z3.And(mem_I(_hm, _hx), mem_I(_hc, _hx)), HitBy(_hc, _hm)), "def.HitBy.intro"),
    Forall([_hc, _hm], [HitBy(_hc, _hm)], z3.Implies(HitBy(_hc, _hm), z3.And(mem_I(_hm, _hw(_hc, _hm)), mem_I(_hc, _hw(_hc, _hm)))), "def.HitBy.elim"),
]
# UCount(clauses, model, n): how many of the first n clauses contain no literal of the model
UCount = L.prefix_fun("UCount", [LLInt.sort, LInt.sort], L.Int, lambda cl, m: z3.IntVal(0), lambda cl, m, i, prev: prev + z3.If(HitBy(LLInt.at(cl, i), m), 0, 1))


def contrib(keys, val, ign, m, p):
    k = LInt.at(keys, p)
    cl = z3.Select(val, k)
    return z3.If(mem_I(ign, k), 0, UCount(cl, m, LLInt.len(cl)))


# KCount(keys, val, ignore, model, n): unsatisfied clauses of the not-ignored keys among the first n keys
KCount = L.prefix_fun("KCount", [LInt.sort, ValS, LInt.sort, LInt.sort], L.Int, lambda ks, v, ig, m: z3.IntVal(0), lambda ks, v, ig, m, p, prev: prev + contrib(ks, v, ig, m, p))
# SeenViol(keys, val, ignore, model, k, n): k is one of the first n keys, not ignored, with an unsatisfied clause
SeenViol, _ = IT.defpred_some(
    "SeenViol",
    [LInt.sort, ValS, LInt.sort, LInt.sort, L.Int, L.Int],
    lambda x: x[5],
    lambda x, p: z3.And(LInt.at(x[0], p) == x[4], z3.Not(mem_I(x[2], x[4])), UCount(z3.Select(x[1], x[4]), x[3], LLInt.len(z3.Select(x[1], x[4]))) > 0),
    lambda x, p: LInt.at(x[0], p),
    step=True,
)

_cl = z3.Const("_gv_cl", LLInt.sort)
_m = z3.Const("_gv_m", LInt.sort)
_ks = z3.Const("_gv_ks", LInt.sort)
_v = z3.Const("_gv_v", ValS)
_ig = z3.Const("_gv_ig", LInt.sort)
_a, _b, _p = z3.Ints("_gv_a _gv_b _gv_p")
GVC_LEMMAS = [
    Forall([_cl, _m, _a], [UCount(_cl, _m, _a)], UCount(_cl, _m, _a) >= 0, "lemma.UCount.nonneg"),
    Forall([_cl, _m, _a, _b], [UCount(_cl, _m, _a), UCount(_cl, _m, _b)], z3.Implies(z3.And(0 <= _a, _a <= _b), UCount(_cl, _m, _a) <= UCount(_cl, _m, _b)), "lemma.UCount.mono"),
    Forall([_ks, _v, _ig, _m, _a, _b], [KCount(_ks, _v, _ig, _m, _a), KCount(_ks, _v, _ig, _m, _b)], z3.Implies(z3.And(0 <= _a, _a <= _b), KCount(_ks, _v, _ig, _m, _a) <= KCount(_ks, _v, _ig, _m, _b)), "lemma.KCount.mono"),
    Forall(
        [_ks, _v, _ig, _m, _a, _p],
        [KCount(_ks, _v, _ig, _m, _a), LInt.at(_ks, _p)],
        z3.Implies(z3.And(0 <= _a, _a <= _p, _p < LInt.len(_ks), KCount(_ks, _v, _ig, _m, _a) == KCount(_ks, _v, _ig, _m, LInt.len(_ks))), contrib(_ks, _v, _ig, _m, _p) == 0),
        "lemma.KCount.flat",
    ),
]

GOPT = TObj("Optimizer", {"epistemic_state": TRec({"nf_cnf_dict": NFT})})


def _nf(c):
    return c.es("nf_cnf_dict")


def _args(c):
    d = _nf(c)
    return (d.keys, d.val, c.ignore.t, c.model.t)


def _viol_is(c, violated, n, extra=None, name="gvc.violated"):
    k = z3.Int("_gvi_k")
    rhs = SeenViol(*_args(c), k, n)
    if extra is not None:
        rhs = z3.Or(rhs, extra(k))
    return IT.both([k], z3.IsMember(k, violated), rhs, name, rhs_trigger=SeenViol(*_args(c), k, n))


def _outer_inv(s, j, pre):
    a = _args(s)
    n = LInt.len(a[0])
    return [
        s.counter.t == KCount(*a, j),
        s.counter.t < s.cost.t,
        z3.Implies(j < n, KCount(*a, j + 1) >= KCount(*a, j)),  # (also names the count one key further, for the early exit)
    ] + _viol_is(s, s.violated.t, j, name="gvc.outer")


def _inner_inv(s, i, pre):
    cl = s.conditional.t
    m = s.model.t
    idx = s.index.t
    return [
        s.counter.t == pre.counter.t + UCount(cl, m, i),
        s.counter.t < s.cost.t,
        z3.Implies(i < LLInt.len(cl), UCount(cl, m, i + 1) >= UCount(cl, m, i)),  # (also names the count one clause further)
    ] + IT.both([z3.Int("_gvn_k")], z3.IsMember(z3.Int("_gvn_k"), s.violated.t), z3.Or(z3.IsMember(z3.Int("_gvn_k"), pre.violated.t), z3.And(z3.Int("_gvn_k") == idx, UCount(cl, m, i) > 0)), "gvc.inner", rhs_trigger=z3.IsMember(z3.Int("_gvn_k"), pre.violated.t))


def _gvc_post(c, r):
    a = _args(c)
    return _viol_is(c, r.t, LInt.len(a[0]), name="get_violated_conditional.result")


Contract(
    "inference.optimizer:Optimizer.get_violated_conditional#impl",
    params={"self": GOPT, "model": TList(TInt), "cost": TInt, "ignore": TList(TInt)},
    returns=TSet(TInt),
    locals={"violated": TSet(TInt)},
    requires=lambda c: [c.cost.t >= KCount(*_args(c), LInt.len(_args(c)[0])), KCount(*_args(c), 0) == 0],
    ensures=_gvc_post,
    loops={
        0: LoopSpec("for (index, conditional) in nf_cnf_dict.items()", _outer_inv),
        1: LoopSpec("for clause in conditional", _inner_inv),
    },
    axioms=GVC_LEMMAS + HITBY_DEF,
    properties=["C03", "C04", "C05", "C11", "C15"],
    fuel=5,
    note="clause level: the result is the set of not-ignored keys with a clause that contains no literal of the model, provided "
    "cost is at least the number of such clauses (the early exit `counter == cost`)",
)


# =============================================================================================
# Optimizer.exclude_violated at CLAUSE level: what the blocking clauses are.  For every key k of `violated` (helper
# variable h_k = pool.id(k) >= 1): each clause of nf_cnf_dict[k] extended by the literal -h_k, and one last clause with
# all the h_k.  (Read semantically: h_k may only be true where conditional k is not falsified, and some h_k must be
# true -- i.e. not every conditional of `violated` is falsified: the assumed contract BLOCK.  That reading needs the
# projection of the helper variables and is not proved here.)
# =============================================================================================
from pyvc import lib  # noqa: E402

enumK, _eidx, cardK = L.enum_theory(L.Int)
memC, _ = L.mem_theory(LInt.sort)  # a clause is a member of a clause list


def Hk(k):
    return lib.pid_key(k)


# InKey(cls, h, x, m): x is one of the first m clauses of cls extended by -h
InKey, _ = IT.defpred_some("InKey", [LLInt.sort, L.Int, LInt.sort, L.Int], lambda x: x[3], lambda x, c: x[2] == LInt.snoc(LLInt.at(x[0], c), -x[1]), lambda x, c: LLInt.at(x[0], c), step=True)
# Gen(E, val, x, n): x is a blocking clause of one of the first n keys of the enumeration E
Gen, _ = IT.defpred_some(
    "GenBlock",
    [LInt.sort, ValS, LInt.sort, L.Int],
    lambda x: x[3],
    lambda x, q: InKey(z3.Select(x[1], LInt.at(x[0], q)), Hk(LInt.at(x[0], q)), x[2], LLInt.len(z3.Select(x[1], LInt.at(x[0], q)))),
    lambda x, q: LInt.at(x[0], q),
    step=True,
)


def _helpers(hv, E, n, name):
    q = z3.Int("_ev_q")
    return [LInt.len(hv) == n, Forall([q], [LInt.at(hv, q)], z3.Implies(z3.And(0 <= q, q < n), LInt.at(hv, q) == Hk(LInt.at(E, q))), name)]


def _body_is(rc, rhs_of, name, trig_of):
    x = z3.Const("_ev_x", LInt.sort)
    return IT.both([x], memC(rc, x), rhs_of(x), name, rhs_trigger=trig_of(x))


def _ev_outer(s, j, pre):
    d = _nf(s)
    E = enumK(s.violated.t)
    return _body_is(s.return_constraints.t, lambda x: Gen(E, d.val, x, j), "ev.outer", lambda x: Gen(E, d.val, x, j)) + _helpers(s.helper_variables_clause.t, E, j, "ev.outer.helpers")


def _ev_inner(s, i, pre):
    d = _nf(s)
    cls = z3.Select(d.val, s.index.t)
    return _body_is(
        s.return_constraints.t,
        lambda x: z3.Or(memC(pre.return_constraints.t, x), InKey(cls, s.hid.t, x, i)),
        "ev.inner",
        lambda x: InKey(cls, s.hid.t, x, i),
    ) + [s.helper_variables_clause.t == pre.helper_variables_clause.t, s.hid.t == Hk(s.index.t)]


def _ev_post(c, r):
    d = _nf(c)
    E = enumK(c.violated.t)
    n = cardK(c.violated.t)
    body = c.ghost["body"].t
    helper = c.ghost["helper"].t
    return [r.t == LLInt.snoc(body, helper)] + _body_is(body, lambda x: Gen(E, d.val, x, n), "exclude_violated.clauses", lambda x: Gen(E, d.val, x, n)) + _helpers(helper, E, n, "exclude_violated.helper.clause")


EOPT = TObj("Optimizer", {"epistemic_state": TRec({"nf_cnf_dict": NFT, "pool": __import__("contracts.c_tseitin", fromlist=["_TPool"])._TPool()})})

Contract(
    "inference.optimizer:Optimizer.exclude_violated#impl",
    params={"self": EOPT, "violated": TSet(TInt)},
    returns=TList(TList(TInt)),
    locals={"return_constraints": TList(TList(TInt)), "helper_variables_clause": TList(TInt)},
    requires=lambda c: [Forall([z3.Int("_evr_k")], [z3.IsMember(z3.Int("_evr_k"), c.violated.t)], z3.Implies(z3.IsMember(z3.Int("_evr_k"), c.violated.t), mem_I(_nf(c).keys, z3.Int("_evr_k"))), "violated.are.keys")],
    ensures=_ev_post,
    ghost_out={"body": TList(TList(TInt)), "helper": TList(TInt)},
    ghost_wit=lambda c, r: {
        # the list returned is snoc(body, helper): the witness is read off the term
        "body": VList(r.t.arg(0) if z3.is_app(r.t) and r.t.num_args() == 2 and r.t.arg(0).sort() == LLInt.sort else LLInt.nil, TList(TInt)),
        "helper": c.helper_variables_clause,
    },
    loops={
        0: LoopSpec("for index in violated", _ev_outer),
        1: LoopSpec("for clause in nf_cnf_dict[index]", _ev_inner),
    },
    properties=["C03", "C04", "C05", "C11", "C15"],
    fuel=4,
    note="clause level: the result is, for every key k of `violated`, each clause of nf_cnf_dict[k] extended by -id(k), followed by "
    "one clause with all the id(k) (ghost outputs: the two parts)",
)
