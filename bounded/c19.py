"""Engine B for C19: c-revision (parameters, acceptance by the revised ranking, None only if impossible,
Pareto-minimality, agreement of the three compilations, incremental model) against an oracle over explicit worlds.

The oracle is written from the wording of the property:
  * worlds are bit strings over the signature (bit i <-> signature[i]), formulas are evaluated by truth table
    (oracle.core.ev), a conditional (B|A) is verified by w iff A and B hold in w, falsified iff A and not B;
  * k*(w) = k(w) + sum gamma+_i [w verifies i] + sum gamma-_i [w falsifies i];
  * k* accepts (B|A) iff min k*(A and B) < min k*(A and not B); also accepted when A-and-not-B has no model and
    A-and-B has one; not accepted when A-and-B has no model;
  * "parameters exist" is decided by a direct z3 statement over explicit worlds (exists v forall f: k*(v) < k*(f)),
    every witness is re-checked by explicit evaluation, and every "does not exist" is cross-checked by brute force
    over a box whenever the box is small;
  * Pareto-minimality by brute force over the box below the returned vector (z3 + explicit re-check if the box is huge);
  * a compilation is, per conditional key, the MULTISET of (prior rank, other verified keys, other falsified keys)
    over the worlds verifying (vMin) / falsifying (fMin) the conditional.
Nothing here looks at the minima encoding / CSP of the code under test.
"""
from __future__ import annotations

import hashlib
import itertools
import json
import random

from .common import pmap  # noqa: F401  (also puts /repo and /verif on sys.path)

MODULE = "c19"
KINDS = (
    "exception",
    "negative-or-nonint",
    "fixed-not-respected",
    "not-accepted",
    "none-but-exists",
    "not-pareto-minimal",
    "compilation-mismatch",
    "incremental-mismatch",
)
ATOMS = ["a", "b", "c", "d", "e"]
BRUTE_EXIST_LIMIT = 4000  # points of the box used to cross-check a "no parameters exist" verdict
BRUTE_PARETO_LIMIT = 20000
_MON = {}  # monitor hit counts of the oracle's branches (per worker; collected per case)


def _hit(name):
    _MON[name] = _MON.get(name, 0) + 1


# ---------------------------------------------------------------------------------------------
# oracle: explicit worlds
# ---------------------------------------------------------------------------------------------
def _world_keys(n):
    return [format(i, f"0{n}b") for i in range(2 ** n)]


class _Sem:
    """truth-table semantics of a list of revision conditionals [index, B text, A text] over `sig`"""

    def __init__(self, sig, triples):
        from oracle.core import ev
        from parser.Wrappers import parse_formula

        self.sig = list(sig)
        n = len(self.sig)
        self.keys = _world_keys(n)
        self.wd = [{self.sig[j]: k[j] == "1" for j in range(n)} for k in self.keys]
        self.idx = [int(t[0]) for t in triples]
        self.ver, self.fal = {}, {}
        for i, b, a in triples:
            fb, fa = parse_formula(b), parse_formula(a)
            A = [ev(fa, w) for w in self.wd]
            Bv = [ev(fb, w) for w in self.wd]
            self.ver[int(i)] = [w for w in range(len(self.wd)) if A[w] and Bv[w]]
            self.fal[int(i)] = [w for w in range(len(self.wd)) if A[w] and not Bv[w]]

    def nontrivial(self):
        return any(self.ver[i] and self.fal[i] for i in self.idx)

    def tags(self):
        t = []
        if any(self.ver[i] and not self.fal[i] for i in self.idx):
            t.append("unfalsifiable-conditional")
        if any(not self.ver[i] for i in self.idx):
            t.append("unverifiable-conditional")
        return t

    def kstar(self, prior, gm, gp):
        k = [prior[key] for key in self.keys]
        for i in self.idx:
            p, m = gp.get(i, 0), gm.get(i, 0)
            if p:
                for w in self.ver[i]:
                    k[w] += p
            if m:
                for w in self.fal[i]:
                    k[w] += m
        return k

    def accepts(self, k, i):
        V, F = self.ver[i], self.fal[i]
        if not V:
            return False
        if not F:
            return True
        return min(k[w] for w in V) < min(k[w] for w in F)

    def acceptance(self, prior, gm, gp):
        k = self.kstar(prior, gm, gp)
        return [self.accepts(k, i) for i in self.idx]

    def all_accepted(self, prior, gm, gp):
        k = self.kstar(prior, gm, gp)
        return all(self.accepts(k, i) for i in self.idx)

    def compilation(self, prior, idx=None):
        """per key the sorted multiset of (rank, other verified, other falsified)"""
        idx = self.idx if idx is None else idx
        vmin = {i: [] for i in idx}
        fmin = {i: [] for i in idx}
        for w, key in enumerate(self.keys):
            acc = sorted(i for i in idx if w in self._vs(i))
            rej = sorted(i for i in idx if w in self._fs(i))
            for i in acc:
                vmin[i].append((prior[key], tuple(j for j in acc if j != i), tuple(rej)))
            for i in rej:
                fmin[i].append((prior[key], tuple(acc), tuple(j for j in rej if j != i)))
        return ({i: sorted(v) for i, v in vmin.items()}, {i: sorted(v) for i, v in fmin.items()})

    def _vs(self, i):
        c = self.__dict__.setdefault("_vset", {})
        if i not in c:
            c[i] = frozenset(self.ver[i])
        return c[i]

    def _fs(self, i):
        c = self.__dict__.setdefault("_fset", {})
        if i not in c:
            c[i] = frozenset(self.fal[i])
        return c[i]


def _exists(sem, prior, gpz, fm, fp, upper=None):
    """parameters (gm, gp), non-negative integers honouring fixed values (and gamma+ = 0 in that mode unless
    fixed) such that k* accepts every conditional; with `upper`: additionally gm <= upper component-wise and
    somewhere smaller.  Returns a witness (re-checked explicitly) or None."""
    import z3

    for i in sem.idx:
        if not sem.ver[i]:
            return None
    s = z3.Solver()
    GM = {i: z3.Int(f"m_{i}") for i in sem.idx}
    GP = {i: z3.Int(f"p_{i}") for i in sem.idx}
    for i in sem.idx:
        s.add(GM[i] >= 0, GP[i] >= 0)
        if i in fm:
            s.add(GM[i] == int(fm[i]))
        if i in fp:
            s.add(GP[i] == int(fp[i]))
        elif gpz:
            s.add(GP[i] == 0)
    K = []
    for w, key in enumerate(sem.keys):
        terms = [z3.IntVal(int(prior[key]))]
        for i in sem.idx:
            if w in sem._vs(i):
                terms.append(GP[i])
            elif w in sem._fs(i):
                terms.append(GM[i])
        K.append(z3.Sum(terms) if len(terms) > 1 else terms[0])
    for i in sem.idx:
        V, F = sem.ver[i], sem.fal[i]
        if not F:
            continue
        s.add(z3.Or([z3.And([K[v] < K[f] for f in F]) for v in V]))
    if upper is not None:
        for i in sem.idx:
            s.add(GM[i] <= int(upper[i]))
        s.add(z3.Sum([GM[i] for i in sem.idx]) < sum(int(upper[i]) for i in sem.idx))
    r = s.check()
    if r == z3.unknown:
        raise RuntimeError("c19 oracle: z3 gave up on the existence question")
    if r == z3.unsat:
        return None
    m = s.model()
    gm = {i: m.eval(GM[i], model_completion=True).as_long() for i in sem.idx}
    gp = {i: m.eval(GP[i], model_completion=True).as_long() for i in sem.idx}
    ok = all(v >= 0 for v in gm.values()) and all(v >= 0 for v in gp.values())
    ok = ok and all(gm[i] == fm[i] for i in fm if i in gm) and all(gp[i] == fp[i] for i in fp if i in gp)
    ok = ok and (not gpz or all(gp[i] == 0 for i in sem.idx if i not in fp))
    ok = ok and sem.all_accepted(prior, gm, gp)
    if not ok:
        raise RuntimeError("c19 oracle: z3 witness fails the explicit check")
    return gm, gp


def _brute_exists(sem, prior, gpz, fm, fp):
    """brute force over the box [0..B]^free, B = max prior rank + number of conditionals + 2;
    returns witness / None / 'skipped' (box too large)"""
    n = len(sem.idx)
    B = max(prior.values()) + n + 2
    free_m = [i for i in sem.idx if i not in fm]
    free_p = [i for i in sem.idx if i not in fp and not gpz]
    if (B + 1) ** (len(free_m) + len(free_p)) > BRUTE_EXIST_LIMIT:
        return "skipped"
    gm0 = {i: int(fm[i]) for i in sem.idx if i in fm}
    gp0 = {i: (int(fp[i]) if i in fp else 0) for i in sem.idx}
    for vm in itertools.product(range(B + 1), repeat=len(free_m)):
        gm = dict(gm0)
        gm.update(zip(free_m, vm))
        for vp in itertools.product(range(B + 1), repeat=len(free_p)):
            gp = dict(gp0)
            gp.update(zip(free_p, vp))
            if sem.all_accepted(prior, gm, gp):
                return gm, gp
    return None


def _dominating(sem, prior, gm):
    """a gamma- vector (gamma+ = 0) component-wise <= gm, somewhere <, that also makes k* accept all; or None"""
    size = 1
    for i in sem.idx:
        size *= gm[i] + 1
    zero = {i: 0 for i in sem.idx}
    if size <= BRUTE_PARETO_LIMIT:
        for vec in itertools.product(*[range(gm[i] + 1) for i in sem.idx]):
            cand = dict(zip(sem.idx, vec))
            if cand == gm:
                continue
            if sem.all_accepted(prior, cand, zero):
                return cand
        return None
    w = _exists(sem, prior, True, {}, {}, upper=gm)
    return None if w is None else w[0]


# ---------------------------------------------------------------------------------------------
# real code
# ---------------------------------------------------------------------------------------------
def _mk(triples):
    from oracle.gen import cond

    out = []
    for i, b, a in triples:
        c = cond(b, a)
        c.index = int(i)
        out.append(c)
    return out


def _prior(sig, prior):
    from inference.preocf import PreOCF

    return PreOCF.init_custom(dict(prior), signature=list(sig))


def _norm(comp):
    """(vMin, fMin) -> per key the sorted multiset of (rank, sorted accepted, sorted rejected)"""
    out = []
    for d in comp:
        out.append({int(k): sorted((int(t[0]), tuple(sorted(t[1])), tuple(sorted(t[2]))) for t in ts) for k, ts in d.items()})
    return tuple(out)


def _show(n):
    return [{str(k): [list(map(lambda x: list(x) if isinstance(x, tuple) else x, t)) for t in ts] for k, ts in d.items()} for d in n]


def _fixed_json(d):
    return {str(k): int(v) for k, v in (d or {}).items()}


def _fixed_py(d):
    return {int(k): int(v) for k, v in (d or {}).items()}


def _exc(e):
    return f"{type(e).__name__}: {e}"[:300]


def _judge_result(sem, prior, res, gpz, fm, fp):
    """judge one returned value of c_revision; list of (kind, expected, observed)"""
    bad = []
    if res is None:
        w = _exists(sem, prior, gpz, fm, fp)
        if w is not None:
            gm, gp = w
            bad.append(
                (
                    "none-but-exists",
                    {
                        "parameters_exist": True,
                        "witness": {**{f"gamma-_{i}": gm[i] for i in sem.idx}, **{f"gamma+_{i}": gp[i] for i in sem.idx}},
                        "witness_kstar": dict(zip(sem.keys, sem.kstar(prior, gm, gp))),
                    },
                    None,
                )
            )
        else:
            b = _brute_exists(sem, prior, gpz, fm, fp)
            if b not in (None, "skipped"):
                raise RuntimeError(f"c19 oracle: brute force found parameters {b} where the z3 statement has none")
            _hit("none-correct:" + ("unverifiable-conditional" if any(not sem.ver[i] for i in sem.idx) else ("brute-force-agrees" if b is None else "z3-only")))
        return bad
    if not isinstance(res, dict):
        bad.append(("negative-or-nonint", "dict or None", repr(res)[:200]))
        return bad
    gammas = {k: v for k, v in res.items() if k.startswith("gamma")}
    gm, gp, wrong = {}, {}, {}
    for i in sem.idx:
        for name, tgt in ((f"gamma-_{i}", gm), (f"gamma+_{i}", gp)):
            if name not in res:
                if name.startswith("gamma+") and gpz and i not in fp:
                    tgt[i] = 0
                    continue
                wrong[name] = "missing"
                tgt[i] = None
                continue
            v = res[name]
            if type(v) is not int or v < 0:
                wrong[name] = repr(v)
            tgt[i] = v if type(v) is int else None
    if wrong:
        bad.append(("negative-or-nonint", "every gamma of every revision conditional is an int >= 0", {"bad": wrong, "result": _jsonable(gammas)}))
    fx = {}
    for i, v in fm.items():
        if i in gm and gm[i] != v:
            fx[f"gamma-_{i}"] = [v, gm[i]]
    for i, v in fp.items():
        if i in gp and gp[i] != v:
            fx[f"gamma+_{i}"] = [v, gp[i]]
    if gpz:
        for i in sem.idx:
            if i not in fp and gp[i] != 0:
                fx[f"gamma+_{i}"] = [0, gp[i]]
    if fx:
        bad.append(("fixed-not-respected", {k: v[0] for k, v in fx.items()}, {k: v[1] for k, v in fx.items()}))
    if any(v is None for v in gm.values()) or any(v is None for v in gp.values()):
        return bad
    acc = sem.acceptance(prior, gm, gp)
    if not all(acc):
        k = sem.kstar(prior, gm, gp)
        exists = _exists(sem, prior, gpz, fm, fp)
        bad.append(
            (
                "not-accepted",
                {
                    "every revision conditional accepted by k*": True,
                    "suitable_parameters_exist": exists is not None,
                    "example": None if exists is None else {**{f"gamma-_{i}": exists[0][i] for i in sem.idx}, **{f"gamma+_{i}": exists[1][i] for i in sem.idx}},
                },
                {
                    "result": _jsonable(gammas),
                    "kstar": dict(zip(sem.keys, k)),
                    "accepted": {str(i): a for i, a in zip(sem.idx, acc)},
                    "min_verifying_vs_min_falsifying": {
                        str(i): [min((k[w] for w in sem.ver[i]), default=None), min((k[w] for w in sem.fal[i]), default=None)] for i in sem.idx
                    },
                },
            )
        )
        return bad
    _hit("accepted-result")
    if gpz and not fm and not fp and all(v >= 0 for v in gm.values()):
        _hit("pareto-checked" + ("-zero-prior" if not any(prior.values()) else ""))
        dom = _dominating(sem, prior, gm)
        if dom is not None:
            bad.append(
                (
                    "not-pareto-minimal",
                    {"no smaller accepted gamma- vector": True, "smaller": {f"gamma-_{i}": dom[i] for i in sem.idx}},
                    {f"gamma-_{i}": gm[i] for i in sem.idx},
                )
            )
    return bad


def _jsonable(d):
    return {k: (v if isinstance(v, (int, float, str, bool)) or v is None else repr(v)) for k, v in d.items()}


def _rev_input(sig, prior, triples, gpz, fm, fp):
    return {
        "check": "revision",
        "signature": list(sig),
        "prior": dict(prior),
        "conditionals": [[int(i), b, a] for i, b, a in triples],
        "gamma_plus_zero": bool(gpz),
        "fixed_gamma_minus": _fixed_json(fm),
        "fixed_gamma_plus": _fixed_json(fp),
    }


def _cfg_tags(sem, gpz, fm, fp):
    t = sem.tags()
    t.append("gamma-plus-zero" if gpz else "gamma-plus-free")
    if fm:
        t.append("fixed-gamma-minus")
    if fp:
        t.append("fixed-gamma-plus")
    return t


def _check_revision(sig, prior, triples, gpz, fm, fp, sem=None):
    """one execution of c_revision (fresh compilation) judged; returns (violations, result-is-None, all accepted)"""
    from inference.c_revision import c_revision

    sem = sem or _Sem(sig, triples)
    inp = _rev_input(sig, prior, triples, gpz, fm, fp)
    tags = _cfg_tags(sem, gpz, fm, fp)
    try:
        res = c_revision(_prior(sig, prior), _mk(triples), gamma_plus_zero=gpz, fixed_gamma_minus=dict(fm) or None, fixed_gamma_plus=dict(fp) or None)
    except Exception as e:  # the property says: never raises
        return [dict(module=MODULE, kind="exception", input=inp, tags=tags, expected="a dict or None", observed=_exc(e))], "exc"
    out = [dict(module=MODULE, kind=k, input=inp, tags=tags, expected=e, observed=o) for k, e, o in _judge_result(sem, prior, res, gpz, fm, fp)]
    return out, ("none" if res is None else ("ok" if not any(v["kind"] == "not-accepted" for v in out) else "rejecting"))


def _check_compile(sig, prior, triples, sem=None):
    from inference.c_revision import compile_alt, compile_alt_fast
    from inference.c_revision_model import CRevisionModel

    sem = sem or _Sem(sig, triples)
    inp = {"check": "compile", "signature": list(sig), "prior": dict(prior), "conditionals": [[int(i), b, a] for i, b, a in triples]}
    got = {}
    out = []
    for name, fn in (
        ("compile_alt", lambda p, cs: compile_alt(p, cs)),
        ("compile_alt_fast", lambda p, cs: compile_alt_fast(p, cs)),
        ("CRevisionModel.to_compilation", lambda p, cs: CRevisionModel(p, cs).to_compilation()),
    ):
        try:
            got[name] = _norm(fn(_prior(sig, prior), _mk(triples)))
        except Exception as e:
            out.append(dict(module=MODULE, kind="exception", input=inp, tags=sem.tags() + [name], expected="a compilation", observed=_exc(e)))
    want = sem.compilation(prior)
    names = list(got)
    for x, y in itertools.combinations(names, 2):
        if got[x] != got[y]:
            out.append(dict(module=MODULE, kind="compilation-mismatch", input=inp, tags=sem.tags() + [x, y], expected={x: _show(got[x])}, observed={y: _show(got[y])}))
    if names and all(got[n] == got[names[0]] for n in names) and got[names[0]] != want:
        out.append(
            dict(module=MODULE, kind="compilation-mismatch", input=inp, tags=sem.tags() + ["all-three-vs-truth-table"], expected={"truth table": _show(want)}, observed={names[0]: _show(got[names[0]])})
        )
    return out


def _check_incremental(sig, prior, initial, ops, rev):
    """initial: triples the model is built with; ops: ["add", i, B, A] / ["remove", i];
    rev: {step(str): [gpz, fm, fp]} steps (1-based, 0 = after construction) at which c_revision is run with and
    without the model.  Returns (violations, evaluations)."""
    from inference.c_revision import c_revision, compile_alt
    from inference.c_revision_model import CRevisionModel

    inp = {
        "check": "incremental",
        "signature": list(sig),
        "prior": dict(prior),
        "initial": [[int(i), b, a] for i, b, a in initial],
        "ops": [list(o) for o in ops],
        "revision_at": {str(k): [bool(v[0]), _fixed_json(v[1]), _fixed_json(v[2])] for k, v in rev.items()},
    }
    out = []
    evals = 0

    def bad(kind, step, expected, observed, tags=()):
        out.append(dict(module=MODULE, kind=kind, input=inp, step=step, tags=list(tags), expected=expected, observed=observed))

    p = _prior(sig, prior)
    cur = [[int(i), b, a] for i, b, a in initial]
    try:
        m = CRevisionModel(p, _mk(cur))
    except Exception as e:
        bad("exception", 0, "a model", _exc(e))
        return out, 1
    for step in range(0, len(ops) + 1):
        if step > 0:
            op = ops[step - 1]
            try:
                if op[0] == "add":
                    m.add_conditional(_mk([op[1:4]])[0])
                    cur.append([int(op[1]), op[2], op[3]])
                else:
                    m.remove_conditional(int(op[1]))
                    cur = [t for t in cur if t[0] != int(op[1])]
            except Exception as e:
                bad("exception", step, f"{op[0]} succeeds", _exc(e))
                return out, evals + 1
        sem = _Sem(sig, cur)
        want = sem.compilation(prior)
        try:
            got = _norm(m.to_compilation())
            fresh = _norm(compile_alt(_prior(sig, prior), _mk(cur)))
        except Exception as e:
            bad("exception", step, "compilations", _exc(e))
            return out, evals + 1
        evals += 1
        if got != fresh:
            bad("incremental-mismatch", step, {"fresh compile_alt of " + json.dumps(cur): _show(fresh)}, {"model.to_compilation()": _show(got)})
        elif got != want:
            bad("incremental-mismatch", step, {"truth table compilation of " + json.dumps(cur): _show(want)}, {"model.to_compilation() == fresh compile_alt": _show(got)})
        cfg = rev.get(step, rev.get(str(step)))
        if cfg is not None and cur:
            gpz, fm, fp = bool(cfg[0]), _fixed_py(cfg[1]), _fixed_py(cfg[2])
            fm = {i: v for i, v in fm.items() if i in sem.idx}
            fp = {i: v for i, v in fp.items() if i in sem.idx}
            tags = _cfg_tags(sem, gpz, fm, fp) + ["model"]
            try:
                with_m = c_revision(p, _mk(cur), gamma_plus_zero=gpz, fixed_gamma_minus=dict(fm) or None, fixed_gamma_plus=dict(fp) or None, model=m)
                plain = c_revision(_prior(sig, prior), _mk(cur), gamma_plus_zero=gpz, fixed_gamma_minus=dict(fm) or None, fixed_gamma_plus=dict(fp) or None)
            except Exception as e:
                bad("exception", step, "dict or None", _exc(e), tags)
                evals += 1
                continue
            evals += 1
            jm = _judge_result(sem, prior, with_m, gpz, fm, fp)
            jp = _judge_result(sem, prior, plain, gpz, fm, fp)
            for k, e, o in jm:
                bad(k, step, e, o, tags)
            if [k for k, _, _ in jp] != [k for k, _, _ in jm]:
                # the run without the model is judged by the same rules (evaluations counts it as well)
                for k, e, o in jp:
                    bad(k, step, e, o, tags[:-1] + ["no-model"])
            evals += 1
            # "equal in acceptance behaviour": both return nothing or both return parameters; whether returned
            # parameters make k* accept is judged above for each of the two runs on its own (a result that depends
            # on the solver's arbitrary model must not be reported as a difference between the two paths)
            if (with_m is None) != (plain is None):
                bad(
                    "incremental-mismatch",
                    step,
                    {"c_revision without model": "None" if plain is None else "parameters"},
                    {"c_revision with model": "None" if with_m is None else "parameters"},
                    tags,
                )
    return out, evals


# ---------------------------------------------------------------------------------------------
# workers
# ---------------------------------------------------------------------------------------------
def _fp(sem, prior, gpz, fm, fp):
    s = json.dumps(
        [
            len(sem.sig),
            [prior[k] for k in sem.keys],
            sorted((i, sem.ver[i], sem.fal[i]) for i in sem.idx),
            bool(gpz),
            sorted(fm.items()),
            sorted(fp.items()),
        ]
    )
    return hashlib.sha1(s.encode()).hexdigest()[:16]


def _case(args):
    sig, prior, triples, cfgs, do_compile = args
    sem = _Sem(sig, triples)
    out = {"evaluations": 0, "fingerprints": [], "violations": [], "rejected": False, "stats": {}}
    st = out["stats"]
    _MON.clear()
    for gpz, fm, fp in cfgs:
        fm, fp = _fixed_py(fm), _fixed_py(fp)
        vs, what = _check_revision(sig, prior, triples, gpz, fm, fp, sem)
        out["evaluations"] += 1
        st[what] = st.get(what, 0) + 1
        out["violations"].extend(vs)
        if sem.nontrivial():
            out["fingerprints"].append(_fp(sem, prior, gpz, fm, fp))
    if do_compile:
        out["violations"].extend(_check_compile(sig, prior, triples, sem))
        out["evaluations"] += 3
        st["compile"] = st.get("compile", 0) + 1
    for k, v in _MON.items():
        st["mon:" + k] = st.get("mon:" + k, 0) + v
    return out


def _inc_case(args):
    sig, prior, initial, ops, rev = args
    _MON.clear()
    vs, ev = _check_incremental(sig, prior, initial, ops, rev)
    fps = []
    # distinct non-trivial: the (prior, op sequence semantics)
    cur = [list(t) for t in initial]
    trail = []
    for op in ops:
        if op[0] == "add":
            cur.append([int(op[1]), op[2], op[3]])
        else:
            cur = [t for t in cur if t[0] != int(op[1])]
        s = _Sem(sig, cur)
        trail.append(sorted((i, s.ver[i], s.fal[i]) for i in s.idx))
        if s.nontrivial():
            fps.append("inc-" + hashlib.sha1(json.dumps([len(sig), [prior[k] for k in s.keys], trail]).encode()).hexdigest()[:16])
    st = {"incremental-steps": len(ops) + 1}
    for k, v in _MON.items():
        st["mon:" + k] = v
    return {"evaluations": ev, "fingerprints": fps, "violations": vs, "rejected": False, "stats": st}


def _work(item):
    return _case(item[1]) if item[0] == "case" else _inc_case(item[1])


# ---------------------------------------------------------------------------------------------
# generators
# ---------------------------------------------------------------------------------------------
def _lit(rng, atoms):
    a = rng.choice(atoms)
    return a if rng.random() < 0.6 else "!" + a


def _gen_cond(rng, atoms):
    """(B text, A text)"""
    from oracle.gen import rnd_formula

    r = rng.random()
    x = rng.choice(atoms)
    y = rng.choice(atoms)
    if r < 0.38:
        return _lit(rng, atoms), _lit(rng, atoms)
    if r < 0.46:
        return _lit(rng, atoms), "Top"
    if r < 0.58 and len(atoms) >= 2:
        p, q = rng.sample(atoms, 2)
        z = rng.choice(atoms)
        return rng.choice([(f"({p};{q})", "!" + z), (f"({p},{q})", z), (_lit(rng, atoms), f"({p},!{q})"), (f"(!{p};{q})", f"({z};{p})"), (f"!({p},{q})", _lit(rng, atoms))])
    if r < 0.86:
        return rnd_formula(rng, atoms, 2, 0.05)[1], rnd_formula(rng, atoms, 2, 0.03)[1]
    if r < 0.92:  # no world falsifies it
        return rng.choice([(x, x), ("Top", x), (f"({x};!{x})", y), (x, f"({x},{y})"), ("!" + x, "!" + x), ("Top", "Top")])
    if r < 0.98:  # no world verifies it: no parameters can exist
        return rng.choice([("Bottom", x), ("!" + x, x), (f"({x},!{x})", y), ("Bottom", "Top"), (x, "!" + x)])
    return rng.choice([(x, "Bottom"), (y, f"({x},!{x})")])  # neither verifiable nor falsifiable


def _gen_indices(rng, k):
    r = rng.random()
    if r < 0.45:
        return list(range(1, k + 1))
    if r < 0.55:
        return {1: [2], 2: [2, 5], 3: [2, 5, 9], 4: [2, 5, 9, 11]}[k]
    if r < 0.8:
        return sorted(rng.sample(range(0, 13), k))
    return rng.sample(range(0, 13), k)


def _gen_list(rng, atoms, lens=(1, 1, 2, 2, 2, 3, 3, 4), clean=0.0):
    """with probability `clean` the list is re-drawn (up to 20 times) until every conditional has a verifying and a
    falsifying world, so that acceptance / Pareto-minimality are exercised and not only the degenerate shapes"""
    k = rng.choice(lens)
    idx = _gen_indices(rng, k)
    want_clean = rng.random() < clean
    for _ in range(20):
        tr = [[i, *(_gen_cond(rng, atoms))] for i in idx]
        if not want_clean or not _Sem(atoms, tr).tags():
            break
    return tr


def _gen_cfgs(rng, idx, full=True):
    cfgs = []
    for gpz in (False, True):
        i1, i2, i3 = rng.choice(idx), rng.choice(idx), rng.choice(idx)
        opts = [({}, {}), ({i1: rng.randint(0, 3)}, {}), ({}, {i2: rng.randint(0, 3)}), ({i3: rng.randint(0, 3)}, {rng.choice(idx): rng.randint(0, 3)})]
        if not full:
            opts = [opts[0], rng.choice(opts[1:])]
        for fm, fp in opts:
            cfgs.append((gpz, _fixed_json(fm), _fixed_json(fp)))
    return cfgs


def _rnd_prior(rng, n, top=4):
    keys = _world_keys(n)
    r = rng.random()
    if r < 0.2:
        return {k: 0 for k in keys}
    if r < 0.35:
        return {k: rng.choice([0, 0, 1]) for k in keys}
    pr = {k: rng.randint(0, top) for k in keys}
    if rng.random() < 0.6:  # normalised: some world of rank 0
        pr[rng.choice(keys)] = 0
    return pr


ONE_ATOM_FORMULAS = ["a", "!a", "Top", "Bottom"]


def _cases(rng, tier):
    thorough = tier == "thorough"
    cases = []
    # --- 1 atom: all 9 total rankings with ranks in {0,1,2} x all 16 single conditionals over {a, !a, Top, Bottom}
    for r0, r1 in itertools.product(range(3), repeat=2):
        prior = {"0": r0, "1": r1}
        for b, a in itertools.product(ONE_ATOM_FORMULAS, repeat=2):
            tr = [[rng.choice([1, 1, 2, 7, 0]), b, a]]
            cases.append((["a"], prior, tr, _gen_cfgs(rng, [tr[0][0]]), True))
        for _ in range(16 if thorough else 3):
            tr = _gen_list(rng, ["a"], lens=(2, 2, 3))
            cases.append((["a"], prior, tr, _gen_cfgs(rng, [t[0] for t in tr]), True))
    # --- 2 atoms: rankings with ranks in {0,1,2} (thorough: all 81, quick: seeded sample)
    all2 = [dict(zip(_world_keys(2), rs)) for rs in itertools.product(range(3), repeat=4)]
    sample2 = all2 if thorough else [all2[0]] + rng.sample(all2[1:], 11)
    for prior in sample2:
        for _ in range(12 if thorough else 7):
            tr = _gen_list(rng, ["a", "b"], clean=0.5)
            cases.append((["a", "b"], prior, tr, _gen_cfgs(rng, [t[0] for t in tr]), True))
    # --- 3..5 atoms: seeded random priors with ranks 0..4 (all-zero prior included)
    plan = {3: 800, 4: 500, 5: 250} if thorough else {3: 70, 4: 45, 5: 24}
    for n, cnt in plan.items():
        atoms = ATOMS[:n]
        for j in range(cnt):
            prior = {k: 0 for k in _world_keys(n)} if j == 0 else _rnd_prior(rng, n)
            tr = _gen_list(rng, atoms, clean=0.6)
            cases.append((atoms, prior, tr, _gen_cfgs(rng, [t[0] for t in tr]), thorough or n < 5 or j % 3 == 0))
    return cases


def _inc_cases(rng, tier):
    thorough = tier == "thorough"
    maxlen = 8 if thorough else 6
    out = []
    plan = {1: 20, 2: 150, 3: 200, 4: 80} if thorough else {1: 6, 2: 30, 3: 34, 4: 10}
    for n, cnt in plan.items():
        atoms = ATOMS[:n]
        for _ in range(cnt):
            prior = _rnd_prior(rng, n, top=2 if n <= 2 else 4)
            pool_idx = _gen_indices(rng, 4) + [20, 31]
            rng.shuffle(pool_idx)
            pool_idx = pool_idx[: rng.randint(3, 6)]
            pool = {i: _gen_cond(rng, atoms) for i in pool_idx}
            alt = {i: _gen_cond(rng, atoms) for i in pool_idx}  # a different conditional re-using the key after a removal
            present = rng.sample(pool_idx, rng.choice([0, 0, 1, 2]))
            initial = [[i, *pool[i]] for i in present]
            ops = []
            removed_once = set()
            for _ in range(rng.randint(2, maxlen)):
                absent = [i for i in pool_idx if i not in present]
                r = rng.random()
                if (not present or r < 0.55) and absent:
                    i = rng.choice(absent)
                    c = alt[i] if (i in removed_once and rng.random() < 0.5) else pool[i]
                    ops.append(["add", i, c[0], c[1]])
                    present.append(i)
                elif r < 0.63:
                    ops.append(["remove", rng.choice(absent) if absent else 99])  # removing an absent key changes nothing
                elif present:
                    i = rng.choice(present)
                    ops.append(["remove", i])
                    present.remove(i)
                    removed_once.add(i)
            rev = {}
            steps = list(range(len(ops) + 1))
            for s in {steps[-1], rng.choice(steps)}:
                gpz = rng.random() < 0.5
                fm = {rng.choice(pool_idx): rng.randint(0, 3)} if rng.random() < 0.3 else {}
                fpl = {rng.choice(pool_idx): rng.randint(0, 3)} if rng.random() < 0.3 else {}
                rev[s] = [gpz, _fixed_json(fm), _fixed_json(fpl)]
            out.append((atoms, prior, initial, ops, rev))
    return out


# ---------------------------------------------------------------------------------------------
# interface
# ---------------------------------------------------------------------------------------------
def _size(v):
    i = v["input"]
    cs = i.get("conditionals") or (i.get("initial", []) + i.get("ops", []))
    return (len(i["signature"]), len(cs), len(i.get("fixed_gamma_minus") or {}) + len(i.get("fixed_gamma_plus") or {}), sum(i["prior"].values()), len(json.dumps(cs)))


def _carve(v):
    """class of the INPUT (not of the diagnosis): which special shapes the failing input has"""
    t = v.get("tags") or ()
    parts = []
    if "unfalsifiable-conditional" in t:
        parts.append("unfalsifiable-conditional")
    if "fixed-gamma-minus" in t or "fixed-gamma-plus" in t:
        parts.append("fixed-gamma")
    return "+".join(parts) or None


def _order(violations):
    """the smallest example of every (kind, input class) first, then the smallest of every (kind, tags), then the rest"""
    for v in violations:
        v["carve_out"] = _carve(v)
    kidx = lambda v: KINDS.index(v["kind"]) if v["kind"] in KINDS else 99  # noqa: E731
    ranked = sorted(violations, key=lambda v: (_size(v), kidx(v)))
    first, second, rest, seen1, seen2 = [], [], [], set(), set()
    for v in ranked:
        k1 = (v["kind"], v["carve_out"])
        k2 = (v["kind"], tuple(v.get("tags") or ()))
        if k1 not in seen1:
            first.append(v)
        elif k2 not in seen2:
            second.append(v)
        else:
            rest.append(v)
        seen1.add(k1)
        seen2.add(k2)
    first.sort(key=lambda v: (kidx(v), len((v["carve_out"] or "").split("+")), _size(v)))
    return first + second + rest


def run(tier, seed):
    rng = random.Random(seed)
    cases = _cases(rng, tier)
    incs = _inc_cases(rng, tier)
    items = [("case", c) for c in cases] + [("inc", c) for c in incs]
    random.Random(seed + 1).shuffle(items)  # balance the load of the pool's chunks
    res = pmap(_work, items)
    tot = {"evaluations": 0, "fingerprints": set(), "violations": [], "rejected": 0}
    stats = {}
    for r in res:
        tot["evaluations"] += r["evaluations"]
        tot["fingerprints"].update(r["fingerprints"])
        tot["violations"].extend(r["violations"])
        for k, v in r["stats"].items():
            stats[k] = stats.get(k, 0) + v
    by_kind = {}
    for v in tot["violations"]:
        key = v["kind"] + " [" + ",".join(v.get("tags") or ()) + "]"
        by_kind[key] = by_kind.get(key, 0) + 1
    tot["violations"] = _order(tot["violations"])
    tot["extra"] = {
        "cases": len(cases),
        "incremental_sequences": len(incs),
        "c_revision_outcomes": {k: stats.get(k, 0) for k in ("ok", "none", "rejecting", "exc")},
        "compile_comparisons": stats.get("compile", 0),
        "incremental_steps": stats.get("incremental-steps", 0),
        "oracle_monitors": {k[4:]: v for k, v in sorted(stats.items()) if k.startswith("mon:")},
        "violations_by_class": dict(sorted(by_kind.items())),
    }
    thorough = tier == "thorough"
    tot["scope"] = (
        "priors: all 9 rankings {0,1,2} over 1 atom, "
        + ("all 81" if thorough else "12 sampled")
        + " rankings {0,1,2} over 2 atoms, seeded random priors with ranks 0..4 over 3-5 atoms (all-zero prior included); "
        "revision lists of 1-4 conditionals (literal, compound, unfalsifiable, unverifiable, empty antecedent; keys contiguous, 2/5/9, "
        "random in 0..12 and unsorted); 1 atom: all 16 single conditionals over {a,!a,Top,Bottom} for every prior; both gamma modes x "
        "{no fixed value, fixed gamma- of one key, fixed gamma+ of one key, both} with values 0..3; all three compilations per case; "
        f"{len(incs)} incremental add/remove sequences of length <= {8 if thorough else 6} over pools of 3-6 conditionals (1-4 atoms), "
        "compilation compared after every step, c_revision with/without model at two steps"
    )
    tot["rule"] = (
        "a c_revision case is distinct by (signature size, prior ranks, set of (key, verifying worlds, falsifying worlds), gamma mode, "
        "fixed maps) and non-trivial when at least one conditional has a verifying and a falsifying world; an incremental case is distinct "
        "by prior and the sequence of semantic conditional sets it passes through"
    )
    tot["samples"] = [
        _rev_input(c[0], c[1], c[2], c[3][0][0], c[3][0][1], c[3][0][2]) for c in (cases[5], cases[len(cases) // 2], cases[-1])
    ] + [{"check": "incremental", "signature": incs[0][0], "prior": incs[0][1], "initial": incs[0][2], "ops": incs[0][3], "revision_at": incs[0][4]}]
    return tot


def replay(v):
    inp = v["input"]
    sig, prior = inp["signature"], {str(k): int(r) for k, r in inp["prior"].items()}
    chk = inp.get("check", "revision")
    if chk == "revision":
        vs, _ = _check_revision(sig, prior, inp["conditionals"], inp["gamma_plus_zero"], _fixed_py(inp.get("fixed_gamma_minus")), _fixed_py(inp.get("fixed_gamma_plus")))
    elif chk == "compile":
        vs = _check_compile(sig, prior, inp["conditionals"])
    elif chk == "incremental":
        rev = {int(k): c for k, c in (inp.get("revision_at") or {}).items()}
        vs, _ = _check_incremental(sig, prior, inp["initial"], inp["ops"], rev)
    else:
        raise ValueError(f"c19 replay: unknown check {chk!r}")
    same = [x for x in vs if x["kind"] == v.get("kind")]
    return {
        "violates": bool(same) if v.get("kind") else bool(vs),
        "kinds_now": sorted({x["kind"] for x in vs}),
        "details": [{k: x[k] for k in ("kind", "expected", "observed") if k in x} for x in (same or vs)[:1]],
    }
