"""Contracts: inference/conditional_z3.py (translation), system_w_z3.py, lex_inf_z3.py
(_inference level; the correction-set recursion is an ASSUMED contract, bounded by Engine B)"""
import z3

from contracts.c_inference import DeadlineT, SelfT, feas_of, q_nontrivial
from contracts.spec import PS
from pyvc import logic as L
from pyvc.contract import Contract, LoopSpec
from pyvc.logic import LCnd, LLCnd
from pyvc.values import *  # noqa

Contract(
    "inference.conditional_z3:Conditional_z3.translate_from_existing",
    params={"cls": TCallable("inference.conditional_z3:Conditional_z3"), "existing": TCnd},
    returns=TCnd,
    ensures=lambda c, r: [
        L.M(L.ant(r.t)) == L.M(L.ant(c.existing.t)),
        L.M(L.cons(r.t)) == L.M(L.cons(c.existing.t)),
    ],
    properties=["C03", "C04", "C07", "C11"],
)

for mod in ("inference.system_w_z3", "inference.lex_inf_z3"):
    Contract(
        f"{mod}:makeOptimizer",
        params={},
        returns=TSolverT,
        ensures=lambda c, r: [c.A(r) == L.FULL, c.S(r) == L.LForm.nil],
        properties=["C03", "C04"],
    )

PZ3 = TList(TList(TCnd))  # the z3 back-ends keep a list of layers of translated conditionals

# preferred-structure recursion of System W over a context H of admissible worlds
# (DESIGN §5 C03: Wrec); only its use is verified here
_WREC = z3.Function("WREC", LLCnd.sort, L.WSet, L.WSet, L.WSet, L.Int, L.Bool)


def WREC(P, q, H, i):
    """depends on the query only through its verification / falsification sets"""
    return _WREC(P, L.ver(q), L.fal(q), H, i)

# lexicographic comparison over contexts (Hv, Hf) (DESIGN §5 C04: Lspec)
_LREC = z3.Function("LREC", LLCnd.sort, L.WSet, L.WSet, L.WSet, L.WSet, L.Int, L.Bool)


def LREC(P, q, Hv, Hf, i):
    return _LREC(P, L.ver(q), L.fal(q), Hv, Hf, i)


WZ = SelfT("SystemWZ3", partition=PZ3)
LZ = SelfT("LexInfZ3", partition=PZ3)


def _Pz(c):
    return c.es("partition").t


def _idx_ok(c):
    return [0 <= c.partition_index.t, c.partition_index.t < LLCnd.len(_Pz(c))]


# ---------------------------------------------------------------------------
# System W recursion over minimal falsification sets (DESIGN §5 C03, refinement step)
#   MinFam(H, part)   the inclusion-minimal sets { c in part | w falsifies c }, w in H   (assumed: get_all_xi_i)
#   ASA(X, Y)         every member of Y has a subset in X                                 (assumed: any_subset_of_all)
#   FalP(l, n)        worlds falsifying each of the first n conditionals of l
#   NfExcP(l, xi, n)  worlds falsifying none of the first n conditionals of l that are not in xi
#   Exact(part, xi) = FalP(enum xi) ∩ NfExcP(part, xi): worlds whose falsified set within part is exactly xi
#   WREC(P,V,F,H,i)  <=>  ASA(XV, XF)  and  for all xi in XV ∩ XF:  i > 0 and WREC(P,V,F, H ∩ Exact(P[i], xi), i-1)
#                         where XV = MinFam(H ∩ V, P[i]), XF = MinFam(H ∩ F, P[i])
# ---------------------------------------------------------------------------
CSet = z3.SetSort(L.Cnd)
Fam = z3.SetSort(CSet)
SC = TSet(TCnd)
SSC = TSet(SC)
MinFam = z3.Function("MinFam", L.WSet, LCnd.sort, Fam)
ASA = z3.Function("ASA", Fam, Fam, L.Bool)
enumC, _eidxC, _cardC = L.enum_theory(L.Cnd)
FalP = L.prefix_fun("FalP", [LCnd.sort], L.WSet, lambda l: L.FULL, lambda l, k, prev: L.inter(prev, L.fal(LCnd.at(l, k))))
NfExcP = L.prefix_fun(
    "NfExcP",
    [LCnd.sort, CSet],
    L.WSet,
    lambda l, xi: L.FULL,
    lambda l, xi, k, prev: z3.If(z3.IsMember(LCnd.at(l, k), xi), prev, L.inter(prev, L.nf(LCnd.at(l, k)))),
)


def Exact(H, part, xi):
    """H restricted to the worlds whose falsified set within `part` is exactly xi
    (association as the code builds it: first the falsifications, then the non-falsifications)"""
    e = enumC(xi)
    return L.inter(L.inter(H, FalP(e, LCnd.len(e))), NfExcP(part, xi, LCnd.len(part)))


# `AtLevel` is a marker that is true of everything: it only restricts the definitional axioms of
# WREC / LREC to the contexts a function was entered with (no unfolding of the nested levels)
AtLevelW = z3.Function("AtLevelW", L.WSet, L.Bool)
AtLevelL = z3.Function("AtLevelL", L.WSet, L.WSet, L.Bool)
_mk1, _mk2 = z3.Consts("_mk_1 _mk_2", L.WSet)
L.TH.axiom([_mk1], AtLevelW(_mk1), AtLevelW(_mk1), "marker.W")
L.TH.axiom([_mk1, _mk2], AtLevelL(_mk1, _mk2), AtLevelL(_mk1, _mk2), "marker.L")

_wP = z3.Const("_w_P", LLCnd.sort)
_wV, _wF, _wH = z3.Consts("_w_V _w_F _w_H", L.WSet)
_wi, _wn = z3.Ints("_w_i _w_n")
_wxi = z3.Const("_w_xi", CSet)
witW = z3.Function("witW", LLCnd.sort, L.WSet, L.WSet, L.WSet, L.Int, CSet)
_part = LLCnd.at(_wP, _wi)
_XV = MinFam(L.inter(_wH, _wV), _part)
_XF = MinFam(L.inter(_wH, _wF), _part)
_S = z3.SetIntersect(_XV, _XF)
_me = _WREC(_wP, _wV, _wF, _wH, _wi)


def _next(xi):
    return z3.And(_wi > 0, _WREC(_wP, _wV, _wF, Exact(_wH, _part, xi), _wi - 1))


WREC_AXIOMS = [L.Forall([_wP, _wV, _wF, _wH, _wi], [_me, AtLevelW(_wH)], z3.Implies(_me, ASA(_XV, _XF)), "def.WREC.elim.asa")]
WREC_AXIOMS.append(L.Forall(
    [_wP, _wV, _wF, _wH, _wi, _wxi, _wn],
    [_me, AtLevelW(_wH), FalP(enumC(_wxi), _wn)],
    z3.Implies(z3.And(_me, z3.IsMember(_wxi, _S)), _next(_wxi)),
    "def.WREC.elim.all",
))
WREC_AXIOMS.append(L.Forall(
    [_wP, _wV, _wF, _wH, _wi, _wxi],
    [_me, AtLevelW(_wH), z3.IsMember(_wxi, _S)],
    z3.Implies(z3.And(_me, z3.IsMember(_wxi, _S)), _next(_wxi)),
    "def.WREC.elim.all.member",
))
_wit = witW(_wP, _wV, _wF, _wH, _wi)
WREC_AXIOMS.append(L.Forall(
    [_wP, _wV, _wF, _wH, _wi],
    [_me, AtLevelW(_wH)],
    z3.Implies(z3.Not(_me), z3.Or(z3.Not(ASA(_XV, _XF)), z3.And(z3.IsMember(_wit, _S), z3.Not(_next(_wit))))),
    "def.WREC.intro",
))


def _w_inv_outer(s, j, pre):
    P, q, i = _Pz(s), s.query.t, s.partition_index.t
    H = pre.A(pre.opt)
    es = enumC  # noqa
    S = z3.SetIntersect(s.xi_i_set.t, s.xi_i_prime_set.t)
    lst = L.enum_theory(CSet)[0](S)
    LCS = L.list_theory(CSet)
    k = z3.Int("_wo_k")
    return [
        s.A(s.opt) == H,
        s.S(s.opt) == L.LForm.nil,
        L.Forall(
            [k],
            [LCS.at(lst, k)],
            z3.Implies(
                z3.And(0 <= k, k < j),
                z3.And(i > 0, _WREC(P, L.ver(q), L.fal(q), Exact(H, LLCnd.at(P, i), LCS.at(lst, k)), i - 1)),
            ),
            "ties.hold.so.far",
        ),
    ]


Contract(
    "inference.system_w_z3:SystemWZ3._rec_inference",
    params={"self": WZ, "opt": TSolverT, "partition_index": TInt, "query": TCnd},
    returns=TBool,
    requires=lambda c: _idx_ok(c) + [AtLevelW(c.A(c.opt)), c.S(c.opt) == L.LForm.nil],
    ensures=lambda c, r: [r.t == WREC(_Pz(c), c.query.t, c.old.A(c.old.opt), c.partition_index.t), c.A(c.opt) == c.old.A(c.old.opt), c.S(c.opt) == L.LForm.nil],
    raises={"TimeoutError": lambda c: z3.BoolVal(True)},
    modifies=["opt"],
    fuel=3,
    axioms=WREC_AXIOMS,
    loops={
        0: LoopSpec("for xi_i in xi_i_set & xi_i_prime_set", _w_inv_outer),
        1: LoopSpec(
            "[... for c in xi_i]",
            lambda s, j, pre: [s.A(s.opt) == L.inter(pre.A(pre.opt), FalP(enumC(s.xi_i.t), j))],
        ),
        2: LoopSpec(
            "[... for c in part]",
            lambda s, j, pre: [s.A(s.opt) == L.inter(pre.A(pre.opt), NfExcP(s.part.t, s.xi_i.t, j))],
        ),
    },
    properties=["C03", "C07", "C11"],
    note="refinement of the real recursion to WREC under the assumed contracts of get_all_xi_i / any_subset_of_all",
)
# ---------------------------------------------------------------------------
# lexicographic recursion over minimum-cardinality falsification sets (DESIGN §5 C04)
#   cv = MinCard(XV), cf = MinCard(XF)   (XV, XF as for System W, contexts Hv, Hf)
#   LREC(P,V,F,Hv,Hf,i) = if XV = {} then False elif XF = {} then True elif cv < cf then True
#                         elif cf < cv then False elif i <= 0 then False else Tie
#   Tie  <=>  EXISTS xv in XV, |xv| = cv:  BA(xv)
#   BA(xv) <=> FOR ALL xf in XF, |xf| = cf:  LREC(P,V,F, Exact(Hv,P[i],xv), Exact(Hf,P[i],xf), i-1)
# ---------------------------------------------------------------------------
cardC = _cardC
MinCard = z3.Function("MinCard", Fam, L.Int)
mcw = z3.Function("mcw", Fam, CSet)
_X = z3.Const("_mc_X", Fam)
_sx = z3.Const("_mc_s", CSet)
LREC_AXIOMS = [
    L.Forall([_X, _sx], [MinCard(_X), z3.IsMember(_sx, _X)], z3.Implies(z3.IsMember(_sx, _X), cardC(_sx) >= MinCard(_X)), "def.MinCard.lower"),
    L.Forall([_X], [MinCard(_X)], z3.Implies(_X != z3.EmptySet(CSet), z3.And(z3.IsMember(mcw(_X), _X), cardC(mcw(_X)) == MinCard(_X))), "def.MinCard.attained"),
]
_lHv, _lHf = z3.Consts("_l_Hv _l_Hf", L.WSet)
_lxv, _lxf = z3.Consts("_l_xv _l_xf", CSet)
_lXV = MinFam(L.inter(_lHv, _wV), _part)
_lXF = MinFam(L.inter(_lHf, _wF), _part)
_cv, _cf = MinCard(_lXV), MinCard(_lXF)
_lme = _LREC(_wP, _wV, _wF, _lHv, _lHf, _wi)
Tie = z3.Function("Tie", LLCnd.sort, L.WSet, L.WSet, L.WSet, L.WSet, L.Int, L.Bool)
BA = z3.Function("BA", LLCnd.sort, L.WSet, L.WSet, L.WSet, L.WSet, L.Int, CSet, L.Bool)
lwit = z3.Function("lwit", LLCnd.sort, L.WSet, L.WSet, L.WSet, L.WSet, L.Int, CSet)
bawit = z3.Function("bawit", LLCnd.sort, L.WSet, L.WSet, L.WSet, L.WSet, L.Int, CSet, CSet)
_args = (_wP, _wV, _wF, _lHv, _lHf, _wi)
_tie = Tie(*_args)


def _nxt(xv, xf):
    return _LREC(_wP, _wV, _wF, Exact(_lHv, _part, xv), Exact(_lHf, _part, xf), _wi - 1)


LREC_AXIOMS += [
    L.Forall(
        list(_args),
        [_lme, AtLevelL(_lHv, _lHf)],
        _lme
        == z3.If(
            _lXV == z3.EmptySet(CSet),
            False,
            z3.If(_lXF == z3.EmptySet(CSet), True, z3.If(_cv < _cf, True, z3.If(_cf < _cv, False, z3.If(_wi <= 0, False, _tie)))),
        ),
        "def.LREC",
    ),
    L.Forall(
        list(_args),
        [_tie, AtLevelL(_lHv, _lHf)],
        z3.Implies(_tie, z3.And(z3.IsMember(lwit(*_args), _lXV), cardC(lwit(*_args)) == _cv, BA(*_args, lwit(*_args)))),
        "def.Tie.elim",
    ),
    L.Forall(
        list(_args) + [_lxv],
        [_tie, AtLevelL(_lHv, _lHf), z3.IsMember(_lxv, _lXV)],
        z3.Implies(z3.And(z3.IsMember(_lxv, _lXV), cardC(_lxv) == _cv, BA(*_args, _lxv)), _tie),
        "def.Tie.intro",
    ),
    L.Forall(
        list(_args) + [_lxv, _lxf],
        [BA(*_args, _lxv), AtLevelL(_lHv, _lHf), z3.IsMember(_lxf, _lXF)],
        z3.Implies(z3.And(BA(*_args, _lxv), z3.IsMember(_lxf, _lXF), cardC(_lxf) == _cf), _nxt(_lxv, _lxf)),
        "def.BA.elim",
    ),
    L.Forall(
        list(_args) + [_lxv],
        [BA(*_args, _lxv), AtLevelL(_lHv, _lHf)],
        z3.Implies(
            z3.Not(BA(*_args, _lxv)),
            z3.And(
                z3.IsMember(bawit(*_args, _lxv), _lXF),
                cardC(bawit(*_args, _lxv)) == _cf,
                z3.Not(_nxt(_lxv, bawit(*_args, _lxv))),
            ),
        ),
        "def.BA.intro",
    ),
]

LCS = L.list_theory(CSet)


def _l_ctx(s, pre):
    P, q, i = _Pz(s), s.query.t, s.partition_index.t
    return (P, L.ver(q), L.fal(q), pre.A(pre.opt_v), pre.A(pre.opt_f), i)


def _l_inv_outer(s, j, pre):
    a = _l_ctx(s, pre)
    lv = s._ex.loop_seq_term if False else None
    k = z3.Int("_lo_k")
    lst = s._st.env["__seq0"].t
    return [
        s.A(s.opt_v) == pre.A(pre.opt_v),
        s.A(s.opt_f) == pre.A(pre.opt_f),
        s.S(s.opt_v) == L.LForm.nil,
        s.S(s.opt_f) == L.LForm.nil,
        L.Forall([k], [LCS.at(lst, k)], z3.Implies(z3.And(0 <= k, k < j), z3.Not(BA(*a, LCS.at(lst, k)))), "no.earlier.candidate.beats.all"),
    ]


def _l_inv_inner(s, j, pre):
    # `pre` is the state at the inner loop's entry: the optimizers are as at function entry
    P, q, i = _Pz(s), s.query.t, s.partition_index.t
    Hv, Hf = pre.A(pre.opt_v), pre.A(pre.opt_f)
    k = z3.Int("_li_k")
    lst = s._st.env["__seq1"].t
    part = LLCnd.at(P, i)
    return [
        s.A(s.opt_v) == Hv,
        s.A(s.opt_f) == Hf,
        s.S(s.opt_v) == L.LForm.nil,
        s.S(s.opt_f) == L.LForm.nil,
        s.beats_all.t == True,
        L.Forall(
            [k],
            [LCS.at(lst, k)],
            z3.Implies(
                z3.And(0 <= k, k < j),
                _LREC(P, L.ver(q), L.fal(q), Exact(Hv, part, s.xi_i.t), Exact(Hf, part, LCS.at(lst, k)), i - 1),
            ),
            "beats.so.far",
        ),
    ]


Contract(
    "inference.lex_inf_z3:LexInfZ3._rec_inference",
    params={"self": LZ, "opt_v": TSolverT, "opt_f": TSolverT, "partition_index": TInt, "query": TCnd},
    returns=TBool,
    requires=lambda c: _idx_ok(c) + [AtLevelL(c.A(c.opt_v), c.A(c.opt_f)), c.S(c.opt_v) == L.LForm.nil, c.S(c.opt_f) == L.LForm.nil],
    ensures=lambda c, r: [
        r.t == LREC(_Pz(c), c.query.t, c.old.A(c.old.opt_v), c.old.A(c.old.opt_f), c.partition_index.t),
        c.A(c.opt_v) == c.old.A(c.old.opt_v),
        c.A(c.opt_f) == c.old.A(c.old.opt_f),
        c.S(c.opt_v) == L.LForm.nil,
        c.S(c.opt_f) == L.LForm.nil,
    ],
    raises={"TimeoutError": lambda c: z3.BoolVal(True)},
    modifies=["opt_v", "opt_f"],
    fuel=5,
    axioms=LREC_AXIOMS,
    loops={
        0: LoopSpec("for xi_i in [s for s in xi_i_set if len(s) == v]", _l_inv_outer),
        1: LoopSpec("for xi_i_prime in [s for s in xi_i_prime_set if len(s) == f]", _l_inv_inner),
        2: LoopSpec("[... for c in xi_i]", lambda s, j, pre: [s.A(s.opt_v) == L.inter(pre.A(pre.opt_v), FalP(enumC(s.xi_i.t), j))]),
        3: LoopSpec("[... for c in part]", lambda s, j, pre: [s.A(s.opt_v) == L.inter(pre.A(pre.opt_v), NfExcP(s.part.t, s.xi_i.t, j))]),
        4: LoopSpec("[... for c in xi_i_prime]", lambda s, j, pre: [s.A(s.opt_f) == L.inter(pre.A(pre.opt_f), FalP(enumC(s.xi_i_prime.t), j))]),
        5: LoopSpec("[... for c in part]", lambda s, j, pre: [s.A(s.opt_f) == L.inter(pre.A(pre.opt_f), NfExcP(s.part.t, s.xi_i_prime.t, j))]),
    },
    properties=["C04"],  # (also relevant to C07/C11; listed once because it is the slowest function: ~2 min)
    note="refinement of the real recursion (exists/forall over minimum-cardinality sets) to LREC under the assumed contract of get_all_xi_i",
)


def _pre(c):
    return q_nontrivial(c) + [LLCnd.len(_Pz(c)) >= 1]


def _inv_last(name):
    def inv(s, j, pre):
        P = _Pz(s)
        last = LLCnd.at(P, LLCnd.len(P) - 1)
        sv = getattr(s, name)
        return [s.A(sv) == L.inter(pre.A(getattr(pre, name)), PS.K(last, j))]

    return inv


def _inv_last2(s, j, pre):
    return _inv_last("opt_v")(s, j, pre) + _inv_last("opt_f")(s, j, pre)


def _w_post(c, r):
    P, q = _Pz(c), c.query.t
    m = LLCnd.len(P)
    F = feas_of(P)
    ext = z3.If(
        z3.Or(L.isempty(L.inter(F, L.M(L.ant(q)))), L.isempty(L.inter(F, L.fal(q)))),
        True,
        z3.If(m < 2, False, WREC(P, q, F, m - 2)),
    )
    return [r.t == z3.If(c.weakly.t, ext, WREC(P, q, L.FULL, m - 1))]


def _l_post(c, r):
    P, q = _Pz(c), c.query.t
    m = LLCnd.len(P)
    F = feas_of(P)
    ext = z3.If(
        z3.Or(L.isempty(L.inter(F, L.M(L.ant(q)))), L.isempty(L.inter(F, L.fal(q)))),
        True,
        z3.If(m < 2, False, LREC(P, q, F, F, m - 2)),
    )
    return [r.t == z3.If(c.weakly.t, ext, LREC(P, q, L.FULL, L.FULL, m - 1))]


Contract(
    "inference.system_w_z3:SystemWZ3._inference",
    params={"self": WZ, "query": TCnd, "weakly": TBool, "deadline": DeadlineT},
    returns=TBool,
    requires=_pre,
    ensures=_w_post,
    raises={"TimeoutError": lambda c: z3.BoolVal(True)},
    loops={
        0: LoopSpec("for c in self.epistemic_state['partition'][-1]", _inv_last("taut_solver")),
        1: LoopSpec("for c in self.epistemic_state['partition'][-1]", _inv_last("contra_solver")),
        2: LoopSpec("for c in self.epistemic_state['partition'][-1]", _inv_last("opt")),
    },
    properties=["C03", "C07", "C11", "C14"],
)
Contract(
    "inference.lex_inf_z3:LexInfZ3._inference",
    params={"self": LZ, "query": TCnd, "weakly": TBool, "deadline": DeadlineT},
    returns=TBool,
    requires=_pre,
    ensures=_l_post,
    raises={"TimeoutError": lambda c: z3.BoolVal(True)},
    loops={
        0: LoopSpec("for c in self.epistemic_state['partition'][-1]", _inv_last("taut_solver")),
        1: LoopSpec("for c in self.epistemic_state['partition'][-1]", _inv_last("contra_solver")),
        2: LoopSpec("for c in self.epistemic_state['partition'][-1]", _inv_last2),
    },
    properties=["C04", "C07", "C11", "C14"],
)


# ---------------------------------------------------------------------------
# preprocessing of the z3 back-ends: the partition of the base, translated conditional by conditional
# ---------------------------------------------------------------------------
from contracts.c_consistency_sat import BeliefBaseT  # noqa: E402
from contracts.c_inference import PartT, base_items  # noqa: E402
from contracts.spec import PS as _PS  # noqa: E402


def _same(cz, c):
    return z3.And(L.M(L.ant(cz)) == L.M(L.ant(c)), L.M(L.cons(cz)) == L.M(L.cons(c)))


def _layer_eq(lz, l, upto, name):
    k = z3.Int("_le_k_" + name)
    return L.Forall([k], [LCnd.at(lz, k)], z3.Implies(z3.And(0 <= k, k < upto), _same(LCnd.at(lz, k), LCnd.at(l, k))), "layer.translated." + name)


def _part_eq(Pz, P, upto):
    i, k = z3.Ints("_pe_i _pe_k")
    return [
        L.Forall([i], [LLCnd.at(Pz, i)], z3.Implies(z3.And(0 <= i, i < upto), LCnd.len(LLCnd.at(Pz, i)) == LCnd.len(LLCnd.at(P, i))), "partition.translated.len"),
        L.Forall(
            [i, k],
            [LCnd.at(LLCnd.at(Pz, i), k)],
            z3.Implies(z3.And(0 <= i, i < upto, 0 <= k, k < LCnd.len(LLCnd.at(P, i))), _same(LCnd.at(LLCnd.at(Pz, i), k), LCnd.at(LLCnd.at(P, i), k))),
            "partition.translated",
        ),
    ]


def _zpre_post(c, r):
    d, cs = base_items(c)
    st = _PS.stop(cs)
    rest = _PS.GR(cs, st)
    w = c.weakly.t
    incons = z3.If(w, L.isempty(_PS.KL((), rest)), LCnd.len(rest) > 0)
    part = z3.If(w, LLCnd.snoc(_PS.GLs(cs, st), _PS.GR(cs, st + 1)), _PS.GLs(cs, st))
    Pz = c.es("partition").t
    guard = z3.And(z3.Not(incons), LLCnd.len(part) > 0)
    out = [z3.Implies(z3.Not(guard), LLCnd.len(Pz) == 0), z3.Implies(guard, LLCnd.len(Pz) == LLCnd.len(part))]
    for fa in _part_eq(Pz, part, LLCnd.len(part)):
        out.append(L.Forall(fa.vars, fa.triggers, z3.Implies(guard, fa.body), fa.name))
    return out


def _zpre_outer(s, j, pre):
    Pz = s.es("partition").t
    P = s.partition.val.t
    return [LLCnd.len(Pz) == j] + _part_eq(Pz, P, j)


def _zpre_inner(s, j, pre):
    return [LCnd.len(s.translated_part.t) == j, _layer_eq(s.translated_part.t, s.part.t, j, "inner"), s.es("partition").t == pre.es("partition").t]


for _mod, _cls in (("inference.system_w_z3", "SystemWZ3"), ("inference.lex_inf_z3", "LexInfZ3")):
    Contract(
        f"{_mod}:{_cls}._preprocess_belief_base",
        params={"self": SelfT(_cls, partition=PZ3), "weakly": TBool, "deadline": DeadlineT},
        returns=TNone,
        ensures=_zpre_post,
        locals={"translated_part": TList(TCnd)},
        loops={0: LoopSpec("for part in partition", _zpre_outer), 1: LoopSpec("for conditional in part", _zpre_inner)},
        properties=["C03" if _cls == "SystemWZ3" else "C04", "C07", "C13"],
        note="the stored partition is the greedy partition of the base with every conditional replaced by a semantically equal z3 conditional",
    )
