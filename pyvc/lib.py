"""Models of library calls = the TRUSTED library contracts of DESIGN §3 in executable
form for the symbolic executor.  Every entry names the trusted-base row it belongs to."""
from __future__ import annotations

import ast

import z3

from . import iterm as IT
from . import logic as L
from .symex import PathEnd, RaiseExc, VEmptyDict, VEmptyList, VEmptySet
from .values import *  # noqa: F401,F403

functions: dict = {}
methods: dict = {}
lazy: dict = {}
constants: dict = {}
TRUSTED_USED: set = set()


def fn(*quals, tb):
    def deco(f):
        def wrapped(ex, args, kwargs, node):
            TRUSTED_USED.add(tb)
            ex.trusted = getattr(ex, "trusted", set())
            ex.trusted.add(tb)
            return f(ex, args, kwargs, node)

        for q in quals:
            functions[q] = wrapped
        return f

    return deco


def meth(cls, *names, tb):
    def deco(f):
        def wrapped(ex, self_v, args, kwargs, node):
            ex.trusted = getattr(ex, "trusted", set())
            ex.trusted.add(tb)
            return f(ex, self_v, args, kwargs, node)

        for n in names:
            methods[(cls, n)] = wrapped
        return f

    return deco


# ---------------------------------------------------------------------------
# TB-fml: pysmt / z3 formula constructors, classical semantics over M
# ---------------------------------------------------------------------------
def _forms(ex, args):
    out = []
    for a in args:
        if isinstance(a, VForm):
            out.append(a)
        elif isinstance(a, VBool):
            # z3 API accepts Python bools: `x == False`
            b = z3.simplify(a.t)
            if z3.is_true(b):
                out.append(VForm(L.f_true))
            elif z3.is_false(b):
                out.append(VForm(L.f_false))
            else:
                raise Unsupported("symbolic bool as formula")
        else:
            raise Unsupported(f"formula constructor on {a.ty}")
    return out


@fn("pysmt.shortcuts.And", "z3.And", "z3.z3.And", tb="TB-fml")
def _and(ex, args, kwargs, node):
    if len(args) == 1 and isinstance(args[0], VList) and args[0].et is TIForm:
        return VIForm(IT.i_andl(args[0].t))
    if len(args) == 1 and isinstance(args[0], VList):
        return VForm(L.f_andl(args[0].t))
    fs = _forms(ex, args)
    if len(fs) == 0:
        return VForm(L.f_true)
    t = fs[0].t
    for f in fs[1:]:
        t = L.f_and(t, f.t)
    return VForm(t)


@fn("pysmt.shortcuts.Or", "z3.Or", "z3.z3.Or", tb="TB-fml")
def _or(ex, args, kwargs, node):
    if len(args) == 1 and isinstance(args[0], VList):
        return VForm(L.f_orl(args[0].t))
    fs = _forms(ex, args)
    if len(fs) == 0:
        return VForm(L.f_false)
    t = fs[0].t
    for f in fs[1:]:
        t = L.f_or(t, f.t)
    return VForm(t)


@fn("pysmt.shortcuts.Not", "z3.Not", "z3.z3.Not", tb="TB-fml")
def _not(ex, args, kwargs, node):
    if len(args) == 1 and isinstance(args[0], VIForm):
        return VIForm(IT.i_not(args[0].t))
    (f,) = _forms(ex, args)
    return VForm(L.f_not(f.t))


@fn("pysmt.shortcuts.Implies", "z3.Implies", tb="TB-fml")
def _implies(ex, args, kwargs, node):
    a, b = _forms(ex, args)
    return VForm(L.f_implies(a.t, b.t))


@fn("pysmt.shortcuts.TRUE", tb="TB-fml")
def _true(ex, args, kwargs, node):
    return VForm(L.f_true)


@fn("pysmt.shortcuts.FALSE", tb="TB-fml")
def _false(ex, args, kwargs, node):
    return VForm(L.f_false)


@fn("pysmt.shortcuts.Bool", "z3.BoolVal", "z3.z3.BoolVal", tb="TB-fml")
def _boolc(ex, args, kwargs, node):
    (f,) = _forms(ex, args)
    return f


@fn("pysmt.shortcuts.is_sat", tb="TB-fml")
def _is_sat(ex, args, kwargs, node):
    (f,) = _forms(ex, args[:1])
    return VBool(L.nonempty(L.M(f.t)))


@fn("pysmt.shortcuts.is_unsat", tb="TB-fml")
def _is_unsat(ex, args, kwargs, node):
    (f,) = _forms(ex, args[:1])
    return VBool(L.isempty(L.M(f.t)))


# ---------------------------------------------------------------------------
# TB-solver: pysmt Solver as ghost state (A, stack)
# ---------------------------------------------------------------------------
@fn("pysmt.shortcuts.Solver", tb="TB-solver")
def _solver(ex, args, kwargs, node):
    ref = ex.st.alloc({"kind": "solver", "A": L.FULL, "pushed": [], "base": None})
    return VRef(ref, TSolverT)


@meth("Solver", "push", tb="TB-solver")
def _push(ex, s, args, kwargs, node):
    o = ex.st.obj(s.ref)
    ex.st.update(s.ref, pushed=o["pushed"] + [o["A"]])
    if "S" in o:
        ex.st.update(s.ref, pushedS=o.get("pushedS", []) + [o["S"]])
    return VNone()


@meth("Solver", "pop", tb="TB-solver")
def _pop(ex, s, args, kwargs, node):
    o = ex.st.obj(s.ref)
    if not o["pushed"] or o["pushed"][-1] is None:
        # popping below what this function pushed: only allowed on an empty-base solver? never
        ex.oblige("noraise.pop", node, z3.BoolVal(False), "pop on a solver whose stack is not known to be non-empty")
        raise PathEnd()
    ex.st.update(s.ref, A=o["pushed"][-1], pushed=o["pushed"][:-1])
    if "S" in o:
        ps = o.get("pushedS", [])
        if ps:
            ex.st.update(s.ref, S=ps[-1], pushedS=ps[:-1])
        else:
            ex.st.update(s.ref, S=ex.st.fresh_const("S", L.LForm.sort))  # (a push made under a loop cut)
    return VNone()


@meth("Solver", "add_assertion", "add", tb="TB-solver")
def _add_assertion(ex, s, args, kwargs, node):
    if len(args) == 1 and isinstance(args[0], VIForm):
        o = ex.st.obj(s.ref)
        if o["pushed"]:
            raise Unsupported("integer constraint asserted under push()")
        if any(not x for x in ex._ints_stack):
            raise Unsupported("integer constraint asserted inside a loop whose LoopSpec does not declare ints=True")
        ex.st.update(s.ref, I=IT.LIForm.snoc(o.get("I", IT.LIForm.nil), args[0].t))
        return VNone()
    fs = _forms(ex, args)
    o = ex.st.obj(s.ref)
    A = o["A"]
    for f in fs:
        A = L.inter(A, L.M(f.t))
    ex.st.update(s.ref, A=A)
    return VNone()


@meth("Solver", "solve", tb="TB-solver")
def _solve(ex, s, args, kwargs, node):
    o = ex.st.obj(s.ref)
    if "I" in o:
        # Boolean and integer assertions share no symbol: satisfiable iff both parts are
        return VBool(z3.And(L.nonempty(o["A"]), IT.SatI(o["I"])))
    return VBool(L.nonempty(o["A"]))


# ---------------------------------------------------------------------------
# TB-py: builtins and container methods
# ---------------------------------------------------------------------------
@fn("builtins.len", tb="TB-py")
def _len(ex, args, kwargs, node):
    (a,) = args
    if isinstance(a, VList):
        return VInt(a.len())
    if isinstance(a, VEmptyList):
        return VInt(0)
    if isinstance(a, VDict):
        return VInt(a.KL.len(a.keys))
    if isinstance(a, VSet):
        return VInt(L.enum_theory(a.et.sort())[2](a.t))
    if isinstance(a, VOpaque):
        n = ex.st.fresh_const("len_opaque", L.Int)  # length of an unmodelled container
        ex.st.assume(n >= 0)
        return VInt(n)
    if isinstance(a, VTuple):
        return VInt(len(a.items))
    if isinstance(a, VFalseOr):
        ex.oblige("noraise.len_of_False", node, z3.Not(a.isfalse))
        return _len(ex, [a.val], kwargs, node)
    if isinstance(a, VOptional):
        ex.oblige("noraise.len_of_None", node, z3.Not(a.isnone))
        return _len(ex, [a.val], kwargs, node)
    if isinstance(a, VStr):
        ex.st.assume(strlen(a.t) >= 0)
        return VInt(strlen(a.t))
    raise Unsupported(f"len of {a.ty}")


@fn("builtins.int", tb="TB-py")
def _int(ex, args, kwargs, node):
    (a,) = args
    if isinstance(a, VInt):
        return a
    if isinstance(a, VBool):
        return VInt(z3.If(a.t, 1, 0))
    if isinstance(a, VStr):
        # int(s): ValueError unless s is an integer literal; otherwise the number it denotes
        ex.oblige("noraise.int_of_str", node, is_int_literal(a.t))
        return VInt(int_of_str(a.t))
    raise Unsupported(f"int() of {a.ty}")


def _isinstance_lazy(ex, node, f):
    """isinstance(x, list) for a value that is either the constant False or a list"""
    if len(node.args) == 2 and isinstance(node.args[1], ast.Name) and node.args[1].id == "list":
        v = ex.eval(node.args[0])
        if isinstance(v, VFalseOr) and isinstance(v.val, VList):
            return VBool(z3.Not(v.isfalse))
        if isinstance(v, (VList, VEmptyList)):
            return VBool(True)
        if isinstance(v, VBool):
            return VBool(False)
    if len(node.args) == 2 and isinstance(node.args[1], ast.Name) and node.args[1].id in ("dict", "list", "str", "int", "set", "tuple"):
        v = ex.eval(node.args[0])
        if isinstance(v, VOpaque) and getattr(v, "kind", None) is None:
            # an untyped value: some fixed Boolean function of the value (None is an instance of none of these)
            fn_ = z3.Function("isinstance_" + node.args[1].id, Opq, L.Bool)
            ex.st.assume(z3.Not(fn_(OPQ_NONE)))
            return VBool(fn_(v.t))
    raise Unsupported("isinstance() of this shape")


lazy["builtins.isinstance"] = _isinstance_lazy


@fn("builtins.bool", tb="TB-py")
def _bool(ex, args, kwargs, node):
    return VBool(ex.truth(args[0]))


@fn("builtins.cast", "typing.cast", tb="TB-py")
def _cast(ex, args, kwargs, node):
    return args[1]


def _cast_lazy(ex, node, f):
    return ex.eval(node.args[1])


lazy["builtins.cast"] = _cast_lazy
lazy["typing.cast"] = _cast_lazy


txt = z3.Function("txt", L.Cnd, StrSort)  # str(conditional) = its text representation


@fn("builtins.str", tb="TB-py")
def _str(ex, args, kwargs, node):
    if args and isinstance(args[0], VCnd):
        return VStr(txt(args[0].t))
    if args and isinstance(args[0], VStr):
        return args[0]
    return VStr(ex.st.fresh_const("str", StrSort))


@meth("dict", "items", tb="TB-py")
def _items(ex, d, args, kwargs, node):
    return VSeq(d.KL.len(d.keys), lambda i: VTuple([d.kt.wrap(d.KL.at(d.keys, i)), d.et.wrap(z3.Select(d.val, d.KL.at(d.keys, i)))]))


def _pure(node):
    """expression without calls other than len/str/bool: evaluating it has no side effect"""
    for n in ast.walk(node):
        if isinstance(n, ast.Call):
            ok = isinstance(n.func, ast.Name) and n.func.id in ("len", "str", "bool", "int", "float")
            ok = ok or (isinstance(n.func, ast.Attribute) and n.func.attr in ("values", "keys", "items") and not n.args)
            if not ok:
                return False
        if isinstance(n, (ast.Await, ast.Yield, ast.YieldFrom, ast.NamedExpr)):
            return False
    return True


def _sum_lazy(ex, node, f):
    """sum(<pure generator>) only feeds logging/timing columns: an arbitrary number"""
    if len(node.args) == 1 and isinstance(node.args[0], ast.GeneratorExp) and _pure(node.args[0]):
        ex.dropped.append((ex.rel(node), "value of sum(<pure generator>) abstracted to an arbitrary number"))
        return VFloat()
    raise Unsupported("sum() of this shape")


lazy["builtins.sum"] = _sum_lazy


_qcount = [0]


def _quant_lazy(kind):
    """all(e(x) for x in S) / any(e(x) for x in S) over a set or list, for a PURE element expression
    (possibly containing further all/any): the result is a fresh Boolean r -- a fresh function of the
    variables of the enclosing generators -- defined by elimination / introduction facts with a
    witness function, exactly like the bounded-quantifier predicates of the specifications."""

    def h(ex, node, f):
        if len(node.args) != 1 or node.keywords or not isinstance(node.args[0], (ast.GeneratorExp, ast.ListComp)):
            raise Unsupported(f"{kind}() of this shape")
        g = node.args[0]
        if len(g.generators) != 1 or g.generators[0].ifs or g.generators[0].is_async or not isinstance(g.generators[0].target, ast.Name):
            raise Unsupported(f"{kind}() over a generator of this shape")
        gen = g.generators[0]
        src = ex.eval(gen.iter)
        st = ex.st
        _qcount[0] += 1
        n = _qcount[0]
        if isinstance(src, VSet):
            es = src.et.sort()
            member = lambda t: z3.IsMember(t, src.t)
            et = src.et
        elif isinstance(src, VList):
            es = src.et.sort()
            mem, _w = L.mem_theory(es)
            member = lambda t: mem(src.t, t)
            et = src.et
        else:
            raise Unsupported(f"{kind}() over {src.ty}")
        x = z3.Const(f"_q{n}_{gen.target.id}", es)
        qv = list(getattr(ex, "_qvars", []))
        saved_env = dict(st.env)
        pc_before, pos_before, consts_before = len(st.pc), ex.pos, len(st.fresh_consts)
        ex._qvars = qv + [x]
        try:
            st.env[gen.target.id] = et.wrap(x)
            bv = ex.truth(ex.eval(g.elt))
        finally:
            ex._qvars = qv
            st.env = saved_env
        if ex.pos != pos_before or len(st.fresh_consts) != consts_before or any(not isinstance(p, L.Forall) for p in st.pc[pc_before:]):
            raise Unsupported(f"the element expression of {kind}() is not pure")
        sorts = [v.sort() for v in qv]
        if qv:
            r = z3.Function(f"q{n}!{kind}", *sorts, L.Bool)(*qv)
            w = z3.Function(f"q{n}!w", *sorts, es)(*qv)
        else:
            r = z3.Const(f"q{n}!{kind}", L.Bool)
            w = z3.Const(f"q{n}!w", es)
        bw = z3.substitute(bv, [(x, w)])
        if kind == "all":
            st.assume(L.Forall(qv + [x], [r, member(x)] if qv else [member(x)], z3.Implies(z3.And(r, member(x)), bv), f"q{n}.all.elim"))
            intro = z3.Implies(z3.Not(r), z3.And(member(w), z3.Not(bw)))
        else:
            st.assume(L.Forall(qv + [x], [r, member(x)] if qv else [member(x)], z3.Implies(z3.And(member(x), bv), r), f"q{n}.any.intro"))
            intro = z3.Implies(r, z3.And(member(w), bw))
        st.assume(L.Forall(qv, [r], intro, f"q{n}.{kind}.witness") if qv else intro)
        ex.trusted = getattr(ex, "trusted", set())
        ex.trusted.add("TB-py")
        return VBool(r)

    return h


lazy["builtins.all"] = _quant_lazy("all")
lazy["builtins.any"] = _quant_lazy("any")


def _sorted_lazy(ex, node, f):
    """sorted(xs, key=len) for a list of sets: some rearrangement of xs (same elements, same
    length) in which set sizes never decrease (TB-py)"""
    if len(node.args) == 1 and not node.keywords:
        # sorted(xs) of ints: the same elements (same length) in non-decreasing order (TB-py)
        xs = ex.eval(node.args[0])
        if isinstance(xs, VDict):
            xs = xs.keylist()
        if isinstance(xs, VSet) and xs.et is TInt:
            xs = xs.enum()
        if not (isinstance(xs, VList) and xs.et is TInt):
            raise Unsupported("sorted() of something other than ints")
        LT = xs.LT
        mem, _w = L.mem_theory(L.Int)
        r = ex.st.fresh_const("sorted", LT.sort)
        i, j = z3.Ints("_srt_i _srt_j")
        ex.st.assume(LT.len(r) == LT.len(xs.t))
        ex.st.assume(L.Forall([i], [LT.at(r, i)], z3.Implies(z3.And(0 <= i, i < LT.len(r)), mem(xs.t, LT.at(r, i))), "sorted.elements.from.input"))
        ex.st.assume(L.Forall([i], [LT.at(xs.t, i)], z3.Implies(z3.And(0 <= i, i < LT.len(r)), mem(r, LT.at(xs.t, i))), "sorted.elements.kept"))
        ex.st.assume(L.Forall([i, j], [LT.at(r, i), LT.at(r, j)], z3.Implies(z3.And(0 <= i, i <= j, j < LT.len(r)), LT.at(r, i) <= LT.at(r, j)), "sorted.ascending"))
        ex.trusted = getattr(ex, "trusted", set())
        ex.trusted.add("TB-py")
        res = VList(r, TInt)
        ex.st.env["__sorted_last"] = res  # ghost name: the most recent sorted() result (for ghost outputs)
        return res
    if len(node.args) != 1 or len(node.keywords) != 1 or node.keywords[0].arg != "key":
        raise Unsupported("sorted() of this shape")
    kf = node.keywords[0].value
    if not (isinstance(kf, ast.Name) and kf.id == "len" and "len" not in ex.st.env):
        raise Unsupported("sorted() with a key other than len")
    xs = ex.eval(node.args[0])
    if not (isinstance(xs, VList) and isinstance(xs.et, TSet)):
        raise Unsupported("sorted(key=len) of something other than a list of sets")
    LT = xs.LT
    es = xs.et.sort()
    mem, _w = L.mem_theory(es)
    card = L.enum_theory(xs.et.et.sort())[2]
    r = ex.st.fresh_const("sorted", LT.sort)
    i, j = z3.Ints("_srt_i _srt_j")
    ex.st.assume(LT.len(r) == LT.len(xs.t))
    ex.st.assume(L.Forall([i], [LT.at(r, i)], z3.Implies(z3.And(0 <= i, i < LT.len(r)), mem(xs.t, LT.at(r, i))), "sorted.elements.from.input"))
    ex.st.assume(L.Forall([i], [LT.at(xs.t, i)], z3.Implies(z3.And(0 <= i, i < LT.len(r)), mem(r, LT.at(xs.t, i))), "sorted.elements.kept"))
    ex.st.assume(L.Forall([i, j], [LT.at(r, i), LT.at(r, j)], z3.Implies(z3.And(0 <= i, i <= j, j < LT.len(r)), card(LT.at(r, i)) <= card(LT.at(r, j))), "sorted.by.len"))
    ex.trusted = getattr(ex, "trusted", set())
    ex.trusted.add("TB-py")
    return VList(r, xs.et)


lazy["builtins.sorted"] = _sorted_lazy


@fn("builtins.float", tb="TB-py")
def _float(ex, args, kwargs, node):
    return VFloat()


@fn("builtins.max", tb="TB-py")
def _max(ex, args, kwargs, node):
    if len(args) == 1 and isinstance(args[0], VList) and args[0].et is TInt and "default" in kwargs:
        l = args[0]
        d = kwargs["default"]
        m = ex.st.fresh_const("max", L.Int)
        i = z3.Int("_max_i")
        ex.st.assume(L.Forall([i], [L.LInt.at(l.t, i)], z3.Implies(z3.And(0 <= i, i < l.len()), L.LInt.at(l.t, i) <= m), "max.upper"))
        ex.st.assume(z3.Implies(l.len() == 0, m == d.t))
        w = ex.st.fresh_const("maxw", L.Int)
        ex.st.assume(z3.Implies(l.len() > 0, z3.And(0 <= w, w < l.len(), L.LInt.at(l.t, w) == m)))
        return VInt(m)
    if len(args) == 2 and all(isinstance(a, VInt) for a in args):
        return VInt(z3.If(args[0].t >= args[1].t, args[0].t, args[1].t))
    if all(isinstance(a, (VFloat, VInt)) for a in args):
        return VFloat()
    raise Unsupported("max")


@fn("builtins.min", tb="TB-py")
def _min(ex, args, kwargs, node):
    if len(args) == 2 and all(isinstance(a, VInt) for a in args):
        return VInt(z3.If(args[0].t <= args[1].t, args[0].t, args[1].t))
    if len(args) == 1 and isinstance(args[0], VList) and args[0].et is TInt:
        # min of a list of ints: a lower bound that is attained; raises ValueError on []
        l = args[0]
        ex.oblige("noraise.min_of_empty", node, l.len() > 0)
        m = ex.st.fresh_const("min", L.Int)
        w = ex.st.fresh_const("minw", L.Int)
        i = z3.Int("_min_i")
        ex.st.assume(L.Forall([i], [L.LInt.at(l.t, i)], z3.Implies(z3.And(0 <= i, i < l.len()), m <= L.LInt.at(l.t, i)), "min.lower"))
        ex.st.assume(z3.And(0 <= w, w < l.len(), L.LInt.at(l.t, w) == m))
        return VInt(m)
    if all(isinstance(a, (VFloat, VInt)) for a in args):
        return VFloat()
    raise Unsupported("min")


@meth("list", "append", tb="TB-py")
def _append(ex, l, args, kwargs, node):
    (v,) = args
    target = node.func.value
    if isinstance(l, VEmptyList):
        if isinstance(v, VEmptyList):
            raise Unsupported("[] appended to [] of unknown type")
        new = VList(v.ty.list_theory().snoc(v.ty.list_theory().nil, v.t), v.ty)
    else:
        if isinstance(v, VEmptyList):
            v = ex.coerce(v, l.et, 'append')
        if not hasattr(v, "t"):
            raise Unsupported(f"append of {v.ty}")
        if v.t.sort() != l.et.sort():
            raise Unsupported(f"append of {v.ty} to list of {l.et}")
        new = VList(l.LT.snoc(l.t, v.t), l.et)
    ex.mark_escaped(v)
    ex.rebind(target, l, new)
    return VNone()


@meth("list", "extend", tb="TB-py")
def _extend(ex, l, args, kwargs, node):
    (v,) = args
    if isinstance(v, VEmptyList):
        return VNone()
    if not isinstance(v, VList):
        raise Unsupported(f"extend by {v.ty}")
    if isinstance(l, VEmptyList):
        new = VList(v.t, v.et)
    else:
        if v.t.sort() != l.t.sort():
            raise Unsupported("extend by a list of another element type")
        new = VList(l.LT.concat(l.t, v.t), l.et)
    ex.rebind(node.func.value, l, new)
    return VNone()


@meth("dict", "values", tb="TB-py")
def _values(ex, d, args, kwargs, node):
    """list view: len = len(keys), at(i) = val[keys[i]]"""
    return VList(L.values_of(d.et.sort(), d.kt.sort())(d.keys, d.val), d.et)


@meth("dict", "keys", tb="TB-py")
def _keys(ex, d, args, kwargs, node):
    return d.keylist()


@meth("dict", "get", tb="TB-py")
def _dget(ex, d, args, kwargs, node):
    if len(args) != 1 or kwargs:
        raise Unsupported("dict.get with a default")
    k = args[0]
    if not hasattr(k, "t") or k.t.sort() != d.kt.sort():
        raise Unsupported("dict.get with a key of another type")
    stored = d.et.wrap(z3.Select(d.val, k.t))
    missing = z3.Not(ex.mem_keys(d.keys, k.t))
    if isinstance(stored, VOptional):
        # values are themselves Optional: None for a missing key or a stored None
        return VOptional(z3.Or(missing, stored.isnone), stored.val, stored.inner)
    return VOptional(missing, stored, d.et)


@meth("dict", "copy", tb="TB-py")
def _dcopy(ex, d, args, kwargs, node):
    return VDict(d.keys, d.val, d.et, d.kt)


@meth("rec", "get", tb="TB-py")
def _recget(ex, r, args, kwargs, node):
    k = args[0]
    if not (isinstance(k, VStr) and k.const is not None):
        raise Unsupported("record key must be a literal")
    f = ex.st.obj(r.ref)["fields"]
    if k.const in f:
        return f[k.const]
    if len(args) > 1:
        return args[1]
    return VNone()


# timing values are havoc (DESIGN §2.1 item 3)
@fn("time.perf_counter_ns", "time.perf_counter", tb="TB-py")
def _perf(ex, args, kwargs, node):
    return VFloat()


# ---------------------------------------------------------------------------
# repository classes that are plain records (constructors modelled directly;
# their __init__ only stores the arguments)
# ---------------------------------------------------------------------------
@fn("inference.conditional:Conditional", "inference.conditional_z3:Conditional_z3", tb="TB-py")
def _mk_conditional(ex, args, kwargs, node):
    names = ["consequence", "antecedence", "textRepresentation", "weak"]
    b = dict(zip(names, args))
    b.update(kwargs)
    (cons, ant) = _forms(ex, [b["consequence"], b["antecedence"]])
    return VCnd(L.mk_cnd(cons.t, ant.t))


@fn("inference.belief_base:BeliefBase", tb="TB-py")
def _mk_belief_base(ex, args, kwargs, node):
    names = ["signature", "conditionals", "name"]
    b = dict(zip(names, args))
    b.update(kwargs)
    d = b["conditionals"]
    if not isinstance(d, VDict):
        raise Unsupported("BeliefBase(conditionals=...) must be a dict")
    ex.mark_escaped(d)
    ref = ex.st.alloc({"kind": "obj", "cls": "BeliefBase", "fields": {"signature": b["signature"], "conditionals": d, "name": b["name"]}})
    from contracts.c_consistency_sat import BeliefBaseT

    return VRef(ref, BeliefBaseT)


@fn("inference.deadline:Deadline.from_duration", tb="TB-py")
def _deadline(ex, args, kwargs, node):
    ref = ex.st.alloc({"kind": "obj", "cls": "Deadline", "fields": {}})
    return VRef(ref, TObj("Deadline", {}))


# ---------------------------------------------------------------------------
# TB-z3: z3.Solver / z3.Optimize as ghost state; check() result as an int code
# ---------------------------------------------------------------------------
UNSAT, SAT, UNKNOWN = 0, 1, 2
for _q in ("z3.unsat", "z3.z3.unsat"):
    constants[_q] = VInt(UNSAT)
for _q in ("z3.sat", "z3.z3.sat"):
    constants[_q] = VInt(SAT)
for _q in ("z3.unknown", "z3.z3.unknown"):
    constants[_q] = VInt(UNKNOWN)


@fn("z3.Solver", "z3.z3.Solver", tb="TB-z3")
def _z3solver(ex, args, kwargs, node):
    ref = ex.st.alloc({"kind": "solver", "A": L.FULL, "pushed": [], "base": None, "timeout": False})
    return VRef(ref, TSolverT)


@fn("z3.Optimize", "z3.z3.Optimize", tb="TB-z3")
def _z3opt(ex, args, kwargs, node):
    ref = ex.st.alloc({"kind": "solver", "A": L.FULL, "pushed": [], "base": None, "timeout": False, "optimize": True, "S": L.LForm.nil, "pushedS": []})
    return VRef(ref, TSolverT)


@meth("Solver", "set", tb="TB-z3")
def _z3set(ex, s, args, kwargs, node):
    if "timeout" in kwargs:
        ex.st.update(s.ref, timeout=True)
    return VNone()


@meth("Solver", "add_soft", tb="TB-z3")
def _z3addsoft(ex, s, args, kwargs, node):
    # soft constraints do not change the set of admissible worlds; they are recorded (list S)
    (f,) = _forms(ex, args[:1])
    o = ex.st.obj(s.ref)
    if "S" in o and not f.t.eq(L.f_true):
        # (a soft constraint that is literally True is never violated: irrelevant to the optimum)
        ex.st.update(s.ref, S=L.LForm.snoc(o["S"], f.t))
    return VNone()


@meth("Solver", "check", tb="TB-z3")
def _z3check(ex, s, args, kwargs, node):
    o = ex.st.obj(s.ref)
    sat = L.nonempty(o["A"])
    if o.get("timeout", True):
        # with a timeout set the solver may give up: unknown is possible at every call (C14)
        gaveup = ex.st.fresh_const("gaveup", L.Bool)
        return VInt(z3.If(gaveup, UNKNOWN, z3.If(sat, SAT, UNSAT)))
    return VInt(z3.If(sat, SAT, UNSAT))


# the model of an Optimize after check() == sat (TB-z3, MaxSAT optimum in its inclusion form):
# it denotes a world w of the hard set such that no world of the hard set violates a strict
# subset of the soft constraints w violates
SubViol = z3.Function("SubViol", L.LForm.sort, L.World, L.World, L.Bool)  # every soft constraint violated by w1 is violated by w2
_svw = z3.Function("SubViol!w", L.LForm.sort, L.World, L.World, L.Int)
_svS = z3.Const("_sv_S", L.LForm.sort)
_sv1, _sv2 = z3.Consts("_sv_1 _sv_2", L.World)
_svk = z3.Int("_sv_k")
_sv = SubViol(_svS, _sv1, _sv2)
_svb = lambda k: z3.Implies(z3.Not(z3.Select(L.M(L.LForm.at(_svS, k)), _sv1)), z3.Not(z3.Select(L.M(L.LForm.at(_svS, k)), _sv2)))
L.TH.axiom([_svS, _sv1, _sv2, _svk], [_sv, L.LForm.at(_svS, _svk)], z3.Implies(z3.And(_sv, 0 <= _svk, _svk < L.LForm.len(_svS)), _svb(_svk)), "SubViol.elim")
_w = _svw(_svS, _sv1, _sv2)
L.TH.axiom([_svS, _sv1, _sv2], [_sv], z3.Implies(z3.Not(_sv), z3.And(0 <= _w, _w < L.LForm.len(_svS), z3.Not(_svb(_w)))), "SubViol.intro")


OptModel = z3.Function("OptModel", L.World, L.WSet, L.LForm.sort, L.Bool)  # w is an optimum of the soft list S over the hard set A
_omA = z3.Const("_om_A", L.WSet)
_om = OptModel(_sv2, _omA, _svS)
L.TH.axiom([_sv2, _omA, _svS], [_om], z3.Implies(_om, z3.Select(_omA, _sv2)), "OptModel.member")
for _trig in (z3.Select(_omA, _sv1), SubViol(_svS, _sv1, _sv2)):
    L.TH.axiom([_sv2, _omA, _svS, _sv1], [_om, _trig], z3.Implies(z3.And(_om, z3.Select(_omA, _sv1), SubViol(_svS, _sv1, _sv2)), SubViol(_svS, _sv2, _sv1)), "OptModel.optimal")


@meth("Solver", "model", tb="TB-z3")
def _z3model(ex, s, args, kwargs, node):
    o = ex.st.obj(s.ref)
    m = VOpaque("z3 model", ex.st.fresh_const("model", Opq))
    m.kind = "z3model"
    w = wof(m.t)
    ex.st.assume(z3.Select(o["A"], w))  # (model() is only defined after check() == sat)
    if "S" in o:
        ex.st.assume(OptModel(w, o["A"], o["S"]))
    return m


@meth("z3model", "eval", tb="TB-z3")
def _z3eval(ex, m, args, kwargs, node):
    (f,) = _forms(ex, args[:1])
    return VBool(z3.Select(L.M(f.t), wof(m.t)))  # the truth value of the formula in the model's world


@fn("z3.is_true", "z3.z3.is_true", tb="TB-z3")
def _is_true(ex, args, kwargs, node):
    (v,) = args
    if v.__class__.__name__ == "VZE":
        from . import zexpr as ZX

        return VBool(ZX.is_true(v.t))
    if isinstance(v, VBool):
        return v
    raise Unsupported("is_true of something other than the value of model.eval")


@meth("Solver.converter", "convert", tb="TB-solver")
def _convert(ex, s, args, kwargs, node):
    (f,) = _forms(ex, args)
    r = ex.st.fresh_const("conv", L.Formula)
    ex.st.assume(L.M(r) == L.M(f.t))
    return VForm(r)


# ---------------------------------------------------------------------------
# time model (C14): every observation of the clock is nondeterministic
# ---------------------------------------------------------------------------
@meth("Deadline", "expired", tb="TB-time")
def _expired(ex, d, args, kwargs, node):
    return VBool(ex.st.fresh_const("expired", L.Bool))


@meth("Deadline", "remaining_ms", tb="TB-time")
def _remaining_ms(ex, d, args, kwargs, node):
    return VInt(ex.st.fresh_const("remaining_ms", L.Int))


@meth("Deadline", "remaining_seconds", tb="TB-time")
def _remaining_s(ex, d, args, kwargs, node):
    return VFloat()


# ---------------------------------------------------------------------------
# operator / optimizer classes as records (their constructors only store the state dict)
# ---------------------------------------------------------------------------
def _mk_instance(clsname):
    def ctor(ex, args, kwargs, node):
        es = args[0] if args else kwargs.get("epistemic_state")
        ref = ex.st.alloc({"kind": "obj", "cls": clsname, "fields": {"epistemic_state": es}})
        return VRef(ref, TObj(clsname, {}))

    return ctor


for _mod, _cls in (
    ("inference.p_entailment", "PEntailment"),
    ("inference.system_z", "SystemZ"),
    ("inference.system_w", "SystemW"),
    ("inference.system_w_z3", "SystemWZ3"),
    ("inference.lex_inf", "LexInf"),
    ("inference.lex_inf_z3", "LexInfZ3"),
    ("inference.c_inference", "CInference"),
    ("inference.optimizer", "OptimizerRC2"),
):
    fn(f"{_mod}:{_cls}", tb="TB-py")(_mk_instance(_cls))

StartsWith = z3.Function("StartsWith", StrSort, StrSort, L.Bool)


@meth("str", "startswith", tb="TB-py")
def _startswith(ex, s, args, kwargs, node):
    return VBool(StartsWith(s.t, args[0].t))


@meth("str", "lower", tb="TB-py")
def _lower(ex, s, args, kwargs, node):
    return VStr(z3.Function("lower", StrSort, StrSort)(s.t))


# ---------------------------------------------------------------------------
# TB-antlr (visitor level): parse-tree contexts are opaque nodes with named children;
# `self.visit(child)` denotes the meaning sem(child) of that subtree
# ---------------------------------------------------------------------------
Ctx = z3.DeclareSort("Ctx")
sem = z3.Function("sem", Ctx, L.Formula)
child = {n: z3.Function(f"child_{n}", Ctx, Ctx) for n in ("left", "right", "formula", "atom", "consequent", "antecedent")}
tok_text = z3.Function("tok_text", Ctx, StrSort)
f_sym = z3.Function("f_sym", StrSort, L.Formula)  # Symbol(name, BOOL)


class VCtx(V):
    def __init__(self, t):
        self.t = t
        self.ty = TCtx


class _TCtx(T):
    def fresh(self, name, st):
        return VCtx(st.fresh_const(name, Ctx))

    def sort(self):
        return Ctx

    def wrap(self, t):
        return VCtx(t)


TCtx = _TCtx()


@fn("pysmt.shortcuts.Symbol", tb="TB-fml")
def _symbol(ex, args, kwargs, node):
    if not isinstance(args[0], VStr):
        raise Unsupported("Symbol(name) with non-string")
    if len(args) == 2:
        if isinstance(args[1], VOpaque) and args[1].what == "pysmt.INT":
            ex.trusted = getattr(ex, "trusted", set())
            ex.trusted.add("TB-ifml")
            return VITerm(IT.i_sym(args[0].t))
        if isinstance(args[1], VOpaque) and args[1].what == "pysmt.BOOL":
            return VForm(f_sym(args[0].t))
        raise Unsupported("Symbol(name, type) with a type other than INT / BOOL")
    return VForm(f_sym(args[0].t))


constants["pysmt.shortcuts.INT"] = VOpaque("pysmt.INT")
constants["pysmt.typing.INT"] = VOpaque("pysmt.INT")
constants["pysmt.shortcuts.BOOL"] = VOpaque("pysmt.BOOL")
constants["pysmt.typing.BOOL"] = VOpaque("pysmt.BOOL")


def _iterm(ex, v):
    if isinstance(v, VITerm):
        return v
    if isinstance(v, VInt):
        return VITerm(IT.i_const(v.t))  # pysmt coerces Python ints
    raise Unsupported(f"integer term expected, got {v.ty}")


@fn("pysmt.shortcuts.Int", tb="TB-ifml")
def _int_const(ex, args, kwargs, node):
    (c,) = args
    if not isinstance(c, VInt):
        raise Unsupported("Int(non-int)")
    return VITerm(IT.i_const(c.t))


@fn("pysmt.shortcuts.Plus", tb="TB-ifml")
def _plus(ex, args, kwargs, node):
    if len(args) == 1 and isinstance(args[0], VList) and args[0].et is TITerm:
        return VITerm(IT.i_plusl(args[0].t))
    if len(args) == 1 and isinstance(args[0], VEmptyList):
        return VITerm(IT.i_const(z3.IntVal(0)))
    ts = [_iterm(ex, a) for a in args]
    t = IT.LITerm.nil
    for x in ts:
        t = IT.LITerm.snoc(t, x.t)
    return VITerm(IT.i_plusl(t))


def _cmp(mk):
    def h(ex, args, kwargs, node):
        a, b = (_iterm(ex, x) for x in args)
        return VIForm(mk(a.t, b.t))

    return h


fn("pysmt.shortcuts.LE", tb="TB-ifml")(_cmp(lambda a, b: IT.i_le(a, b)))
fn("pysmt.shortcuts.LT", tb="TB-ifml")(_cmp(lambda a, b: IT.i_lt(a, b)))
fn("pysmt.shortcuts.GE", tb="TB-ifml")(_cmp(lambda a, b: IT.i_le(b, a)))
fn("pysmt.shortcuts.GT", tb="TB-ifml")(_cmp(lambda a, b: IT.i_lt(b, a)))


@meth("ITerm", "is_symbol", tb="TB-ifml")
def _is_symbol(ex, t, args, kwargs, node):
    return VBool(IT.is_sym(t.t))


@meth("Ctx", "formula", tb="TB-antlr")
def _ctx_formula(ex, c, args, kwargs, node):
    return VCtx(child["formula"](c.t))


# list-valued subtrees: `ctx.condition()` is the (optional) rest of a condition list;
# visit(that child) denotes CondsOf(child), the conditionals of the subtree in tree order
child["condition"] = z3.Function("child_condition", Ctx, Ctx)
has_condition = z3.Function("has_condition", Ctx, L.Bool)
CondsOf = z3.Function("CondsOf", Ctx, L.LCnd.sort)


@meth("Ctx", "condition", tb="TB-antlr")
def _ctx_condition(ex, c, args, kwargs, node):
    k = VCtx(child["condition"](c.t))
    k.kind = "condition"
    return VOptional(z3.Not(has_condition(c.t)), k, TCtx)


# identifier lists (the signature): `ctx.num` is this node's identifier token, `ctx.myid()` the (optional) rest of the list;
# visit(that child) denotes IdsOf(child), the identifiers of the subtree in the order written
child["num"] = z3.Function("child_num", Ctx, Ctx)
child["myid"] = z3.Function("child_myid", Ctx, Ctx)
has_myid = z3.Function("has_myid", Ctx, L.Bool)
IdsOf = z3.Function("IdsOf", Ctx, L.list_theory(StrSort, "Str").sort)


@meth("Ctx", "myid", tb="TB-antlr")
def _ctx_myid(ex, c, args, kwargs, node):
    k = VCtx(child["myid"](c.t))
    k.kind = "myid"
    return VOptional(z3.Not(has_myid(c.t)), k, TCtx)


@meth("Ctx", "getText", tb="TB-antlr")
def _ctx_gettext(ex, c, args, kwargs, node):
    return VStr(tok_text(c.t))


@meth("myVisitor", "visit", tb="TB-antlr")
def _visit(ex, v, args, kwargs, node):
    (c,) = args
    if isinstance(c, VOptional) and isinstance(c.val, VCtx):
        ex.oblige("noraise.visit_none", node, z3.Not(c.isnone))  # visit(None) raises AttributeError
        c = c.val
    if not isinstance(c, VCtx):
        raise Unsupported("visit of a non-context")
    if getattr(c, "kind", None) == "condition":
        return VList(CondsOf(c.t), TCnd)
    if getattr(c, "kind", None) == "myid":
        return VList(IdsOf(c.t), TStr)
    return VForm(sem(c.t))


# ---------------------------------------------------------------------------
# dynamic attributes (C20: save_ocf detaches and restores solver attributes)
# ---------------------------------------------------------------------------
def _dyn(ex, o):
    if not (isinstance(o, VRef) and ex.st.obj(o.ref)["kind"] == "dyn"):
        raise Unsupported("hasattr/getattr/setattr on a non-dynamic object")
    return ex.st.obj(o.ref)


# the key recorded on a conditional object (cond.index): set by whoever numbers the conditionals
cidx = z3.Function("cond_index", L.Cnd, L.Int)
has_index = z3.Function("cond_has_index", L.Cnd, L.Bool)


@fn("builtins.hasattr", tb="TB-py")
def _hasattr(ex, args, kwargs, node):
    o, name = args
    if isinstance(o, VCnd) and isinstance(name, VStr) and name.const == "index":
        return VBool(has_index(o.t))
    return VBool(z3.Select(_dyn(ex, o)["present"], name.t))


@fn("builtins.getattr", tb="TB-py")
def _getattr(ex, args, kwargs, node):
    o, name = args[:2]
    d = _dyn(ex, o)
    if len(args) < 3:
        ex.oblige("noraise.getattr", node, z3.Select(d["present"], name.t))
    return VOpaque("attr", z3.Select(d["val"], name.t))


@fn("builtins.setattr", tb="TB-py")
def _setattr(ex, args, kwargs, node):
    o, name, v = args
    d = _dyn(ex, o)
    vt = OPQ_NONE if isinstance(v, VNone) else getattr(v, "t", None)
    if vt is None or vt.sort() != Opq:
        raise Unsupported("setattr value")
    ex.st.update(o.ref, present=z3.Store(d["present"], name.t, True), val=z3.Store(d["val"], name.t, vt))
    return VNone()


@meth("dict", "items", tb="TB-py")
def _items2(ex, d, args, kwargs, node):
    return VSeq(d.KL.len(d.keys), lambda i: VTuple([d.kt.wrap(d.KL.at(d.keys, i)), d.et.wrap(z3.Select(d.val, d.KL.at(d.keys, i)))]))


def _may_raise(ex, node, name):
    if ex.choose():
        e = RaiseExc(name)
        e.node = node
        raise e


# TB-io: open / dump may fail at any point and do not modify the object being dumped
@fn("pathlib.Path", tb="TB-io")
def _path(ex, args, kwargs, node):
    v = VOpaque("path")
    v.kind = "path"
    return v


@fn("pickle.dump", "json.dump", tb="TB-io")
def _dump(ex, args, kwargs, node):
    _may_raise(ex, node, "Exception")
    return VNone()


@meth("path", "open", tb="TB-io")
def _popen(ex, p, args, kwargs, node):
    _may_raise(ex, node, "OSError")
    return VOpaque("file")


@meth("concdict", "items", tb="TB-py")
def _citems(ex, d, args, kwargs, node):
    r = VSeq(z3.IntVal(len(d.items)), lambda i: None)
    r.concrete = [VTuple([k, v]) for k, v in d.items]
    return r


# ---------------------------------------------------------------------------
# dict(x) copy and dict.update(other)   (TB-py)
# ---------------------------------------------------------------------------
@fn("builtins.dict", tb="TB-py")
def _dict(ex, args, kwargs, node):
    if not args:
        return VEmptyDict()
    (d,) = args
    if isinstance(d, VDict):
        return VDict(d.keys, d.val, d.et, d.kt)
    raise Unsupported("dict() of this argument")


_upd: dict = {}


def update_funs(kt, et):
    """keys / values of `d.update(o)`:  AppendNew(keys, okeys), Merge(val, okeys, oval)"""
    key = (kt.sort().name(), et.sort().name())
    if key in _upd:
        return _upd[key]
    KL = kt.list_theory()
    A = z3.ArraySort(kt.sort(), et.sort())
    mem, _w = L.mem_theory(kt.sort())
    app = z3.Function(f"AppendNew_{key[0]}_{key[1]}", KL.sort, KL.sort, KL.sort)
    mrg = z3.Function(f"Merge_{key[0]}_{key[1]}", A, KL.sort, A, A)
    ks, os_ = z3.Const("_u_ks", KL.sort), z3.Const("_u_os", KL.sort)
    v, ov = z3.Const("_u_v", A), z3.Const("_u_ov", A)
    k = z3.Const("_u_k", kt.sort())
    i = z3.Int("_u_i")
    L.TH.axiom([v, os_, ov, k], z3.Select(mrg(v, os_, ov), k), z3.Select(mrg(v, os_, ov), k) == z3.If(mem(os_, k), z3.Select(ov, k), z3.Select(v, k)), "update.value")
    L.TH.axiom([ks, os_, k], mem(app(ks, os_), k), mem(app(ks, os_), k) == z3.Or(mem(ks, k), mem(os_, k)), "update.keys.mem")
    # existing keys keep their positions
    L.TH.axiom([ks, os_, i], KL.at(app(ks, os_), i), z3.Implies(z3.And(0 <= i, i < KL.len(ks)), KL.at(app(ks, os_), i) == KL.at(ks, i)), "update.keys.prefix")
    L.TH.axiom([ks, os_], app(ks, os_), KL.len(app(ks, os_)) >= KL.len(ks), "update.keys.len>=")
    # when no new key is present already, the new keys are appended in order
    disj = z3.Function(f"Disjoint_{key[0]}", KL.sort, KL.sort, L.Bool)
    L.TH.axiom([ks, os_, i], [disj(ks, os_), KL.at(os_, i)], z3.Implies(z3.And(disj(ks, os_), 0 <= i, i < KL.len(os_)), z3.Not(mem(ks, KL.at(os_, i)))), "disjoint.elim")
    dw = z3.Function(f"disjw_{key[0]}", KL.sort, KL.sort, L.Int)
    L.TH.axiom([ks, os_], disj(ks, os_), z3.Implies(z3.Not(disj(ks, os_)), z3.And(0 <= dw(ks, os_), dw(ks, os_) < KL.len(os_), mem(ks, KL.at(os_, dw(ks, os_))))), "disjoint.intro")
    L.TH.axiom([ks, os_], app(ks, os_), z3.Implies(disj(ks, os_), KL.len(app(ks, os_)) == KL.len(ks) + KL.len(os_)), "update.keys.len.disjoint")
    L.TH.axiom([ks, os_, i], KL.at(app(ks, os_), i), z3.Implies(z3.And(disj(ks, os_), KL.len(ks) <= i, i < KL.len(ks) + KL.len(os_)), KL.at(app(ks, os_), i) == KL.at(os_, i - KL.len(ks))), "update.keys.suffix.disjoint")
    _upd[key] = (app, mrg, disj)
    return _upd[key]


@meth("dict", "update", tb="TB-py")
def _update(ex, d, args, kwargs, node):
    (o,) = args
    if not isinstance(o, VDict) or o.et.sort() != d.et.sort() or o.kt.sort() != d.kt.sort():
        raise Unsupported("dict.update with this argument")
    app, mrg, _disj = update_funs(d.kt, d.et)
    new = VDict(app(d.keys, o.keys), mrg(d.val, o.keys, o.val), d.et, d.kt)
    ex.rebind(node.func.value, d, new)
    return VNone()


@meth("str", "replace", tb="TB-py")
def _replace(ex, s, args, kwargs, node):
    return VStr(ex.st.fresh_const("replaced", StrSort))


# ---------------------------------------------------------------------------
# sets (TB-py): finite sets as characteristic functions; iteration = some enumeration
# ---------------------------------------------------------------------------
@fn("builtins.frozenset", "builtins.set", tb="TB-py")
def _mkset(ex, args, kwargs, node):
    if not args:
        return VEmptySet()
    (x,) = args
    if isinstance(x, VSet):
        return VSet(x.t, x.et)
    if isinstance(x, VList):
        return VSet(L.set_of_list(x.et.sort())(x.t), x.et)
    if isinstance(x, VEmptyList):
        return VEmptySet()
    raise Unsupported(f"set of {x.ty}")


@meth("set", "issubset", tb="TB-py")
def _issubset(ex, a, args, kwargs, node):
    (b,) = args
    if isinstance(a, VEmptySet):
        return VBool(True)
    if isinstance(b, VEmptySet):
        return VBool(a.t == z3.EmptySet(a.et.sort()))
    return VBool(z3.IsSubset(a.t, b.t))


@meth("set", "discard", tb="TB-py")
def _setdiscard(ex, a, args, kwargs, node):
    (x,) = args
    if isinstance(a, VEmptySet):
        return VNone()
    ex.rebind(node.func.value, a, VSet(z3.SetDel(a.t, x.t), a.et))
    return VNone()


@meth("set", "add", tb="TB-py")
def _setadd(ex, a, args, kwargs, node):
    (x,) = args
    if isinstance(a, VEmptySet):
        lt = ex.contract.locals.get(node.func.value.id) if isinstance(node.func.value, ast.Name) else None
        if lt is None:
            raise Unsupported("add to a set of unknown element type (declare it in the contract's locals)")
        a = ex.coerce(a, lt, "set")
    if isinstance(x, VEmptySet):
        x = ex.coerce(x, a.et, "elem")
    ex.rebind(node.func.value, a, VSet(z3.SetAdd(a.t, x.t), a.et))
    return VNone()


# ---------------------------------------------------------------------------
# TB-sat (ghost level): a pysat WCNF as the set of worlds its HARD clauses admit.  Clauses are
# opaque; Dc(clause) is the set of worlds (assignments of the atoms, auxiliaries projected
# out) a clause admits -- the algebra "appending hard clauses intersects" rests on TB-tac's
# freshness of auxiliary variables and is part of the assumed invariant Inv_es (DESIGN §5 C03).
# ---------------------------------------------------------------------------
Clause = z3.DeclareSort("Clause")
LClause = L.list_theory(Clause, "Clause")
Dc = z3.Function("Dc", Clause, L.WSet)
DcP = L.prefix_fun("DcP", [LClause.sort], L.WSet, lambda l: L.FULL, lambda l, k, prev: L.inter(prev, Dc(LClause.at(l, k))))


def Den(cnf):
    """worlds admitted by a clause list"""
    return DcP(cnf, LClause.len(cnf))


class VClause(V):
    def __init__(self, t):
        self.t = t
        self.ty = TClause


class _TClause(T):
    def fresh(self, name, st):
        return VClause(st.fresh_const(name, Clause))

    def sort(self):
        return Clause

    def wrap(self, t):
        return VClause(t)


TClause = _TClause()


@fn("pysat.formula.WCNF", tb="TB-sat")
def _wcnf(ex, args, kwargs, node):
    ref = ex.st.alloc({"kind": "solver", "A": L.FULL, "pushed": [], "base": None, "wcnf": True, "soft": z3.EmptySet(Clause)})
    return VRef(ref, TSolverT)


@meth("Solver", "copy", tb="TB-sat")
def _wcnf_copy(ex, s, args, kwargs, node):
    o = ex.st.obj(s.ref)
    ref = ex.st.alloc({"kind": "solver", "A": o["A"], "pushed": [], "base": None, "wcnf": True, "soft": o.get("soft", z3.EmptySet(Clause))})
    return VRef(ref, TSolverT)


@meth("Solver", "append", tb="TB-sat")
def _wcnf_append(ex, s, args, kwargs, node):
    (c,) = args
    if not isinstance(c, VClause):
        raise Unsupported("WCNF.append of a non-clause")
    o = ex.st.obj(s.ref)
    if "weight" in kwargs:
        # soft clause: the admitted worlds do not change; the clause is recorded (set `soft`)
        if "soft" in o:
            ex.st.update(s.ref, soft=z3.SetAdd(o["soft"], c.t))
        return VNone()
    ex.st.update(s.ref, A=L.inter(o["A"], Dc(c.t)))
    return VNone()


# RC2 (TB-sat): the MaxSAT solver as the set of worlds its hard clauses admit; compute() returns
# None iff that set is empty, otherwise a model denoting one of its worlds
wof = z3.Function("world_of_model", Opq, L.World)


@fn("pysat.examples.rc2.RC2", tb="TB-sat")
def _rc2(ex, args, kwargs, node):
    (w,) = args
    o = ex.st.obj(w.ref)
    ref = ex.st.alloc({"kind": "solver", "A": o["A"], "pushed": [], "base": None, "rc2": True})
    return VRef(ref, TSolverT)


@meth("Solver", "compute", tb="TB-sat")
def _rc2_compute(ex, s, args, kwargs, node):
    o = ex.st.obj(s.ref)
    m = VOpaque("rc2 model", ex.st.fresh_const("model", Opq))
    empty = L.isempty(o["A"])
    ex.st.assume(z3.Implies(z3.Not(empty), z3.Select(o["A"], wof(m.t))))
    return VOptional(empty, m, TOpaque)


fn("inference.tseitin_transformation:TseitinTransformation", tb="TB-py")(_mk_instance("TseitinTransformation"))


@fn("builtins.list", tb="TB-py")
def _list(ex, args, kwargs, node):
    if not args:
        return VEmptyList()
    (x,) = args
    if isinstance(x, VList):
        return VList(x.t, x.et)
    if isinstance(x, VSet):
        return x.enum()
    raise Unsupported("list() of this argument")


# ---------------------------------------------------------------------------
# TB-pd: a pandas DataFrame as one map row-position -> value per column; df.at[r, c] = v
# ---------------------------------------------------------------------------
DF_COLS = {"index": L.Int, "result": L.Bool, "inference_timed_out": L.Bool, "preprocessing_timed_out": L.Bool, "query": StrSort}


@fn("pandas.DataFrame", tb="TB-pd")
def _dataframe(ex, args, kwargs, node):
    cols = {c: ex.st.fresh_const(f"df!{c}", z3.ArraySort(L.Int, s)) for c, s in DF_COLS.items()}
    ref = ex.st.alloc({"kind": "df", "cols": cols})
    return VRef(ref, TOpaque)


@fn("pandas.Series", tb="TB-pd")
def _series(ex, args, kwargs, node):
    return VOpaque("series")


def df_store(ex, df, row, col, v, node):
    rec = ex.st.obj(df.ref)
    if not (isinstance(col, VStr) and col.const is not None) or not isinstance(row, VInt):
        raise Unsupported("df.at[...] with non-literal column / non-int row")
    if col.const not in DF_COLS:
        return  # timing / descriptive columns are not modelled
    sort = DF_COLS[col.const]
    if isinstance(v, VBool) or isinstance(v, VInt) or isinstance(v, VStr):
        t = v.t
    else:
        raise Unsupported(f"df.at[..., {col.const}] = value of type {v.ty}")
    if t.sort() != sort:
        raise Unsupported(f"df column {col.const}: sort {t.sort()} stored")
    cols = dict(rec["cols"])
    cols[col.const] = z3.Store(cols[col.const], row.t, t)
    ex.st.update(df.ref, cols=cols)


@fn("builtins.enumerate", tb="TB-py")
def _enumerate(ex, args, kwargs, node):
    seq = ex.as_sequence(args[0], node)
    start = kwargs.get("start", args[1] if len(args) > 1 else VInt(0))
    return VSeq(seq.len(), lambda i: VTuple([VInt(start.t + i), seq.at(i)]))


@fn("builtins.round", tb="TB-py")
def _round(ex, args, kwargs, node):
    return VFloat()


# ---------------------------------------------------------------------------
# TB-zexpr: z3 expressions as syntax trees (pyvc/zexpr.py) and the IDPool
# ---------------------------------------------------------------------------
def _zx():
    from . import zexpr as ZX

    return ZX


def _ze_pred(name):
    def h(ex, args, kwargs, node):
        ZX = _zx()
        (v,) = args
        if not isinstance(v, ZX.VZE):
            raise Unsupported(f"{name} of a value that is not a z3 syntax tree")
        return VBool(getattr(ZX, name)(v.t))

    return h


for _n in ("is_not", "is_or", "is_false"):
    fn(f"z3.{_n}", f"z3.z3.{_n}", tb="TB-zexpr")(_ze_pred(_n))


@meth("ZExpr", "children", tb="TB-zexpr")
def _ze_children(ex, e, args, kwargs, node):
    ZX = _zx()
    return VList(ZX.kids(e.t), ZX.TZE)


@meth("idpool", "id", tb="TB-zexpr")
def _pool_id(ex, p, args, kwargs, node):
    ZX = _zx()
    (e,) = args
    if isinstance(e, VInt):
        # the id of an integer object (a conditional's key used as the name of a helper variable): positive,
        # the same for the same key; ids of keys and ids of syntax trees are different objects' ids
        ex.st.assume(pid_key(e.t) >= 1)
        return VInt(pid_key(e.t))
    if not isinstance(e, ZX.VZE):
        raise Unsupported("IDPool.id of a value that is not a z3 syntax tree")
    return VInt(ZX.pid(e.t))


pid_key = z3.Function("pid_key", L.Int, L.Int)


@fn("z3.Tactic", "z3.z3.Tactic", tb="TB-tac")
def _z3tactic(ex, args, kwargs, node):
    v = VOpaque("z3 tactic")
    v.kind = "tactic"
    return v


# ---------------------------------------------------------------------------
# TB-antlr (stream level): a CommonTokenStream is the list `toks` of the types of its on-channel tokens -- the last one is
# EOF and no earlier one is -- and a position `pos`.  LA(1) is the type at the position, LT(1) that token (opaque),
# consume() advances by one and raises IllegalStateException at EOF (antlr4/BufferedTokenStream.py).
# ---------------------------------------------------------------------------
TOKEN_EOF = -1
constants["antlr4.Token.EOF"] = VInt(TOKEN_EOF)
constants["antlr4.Token.Token.EOF"] = VInt(TOKEN_EOF)
STREAM_MODS = {("CommonTokenStream", "consume"): ["pos"]}


def stream_wf(toks, pos):
    p = z3.Int("_ts_p")
    n = L.LInt.len(toks)
    return [
        n >= 1,
        0 <= pos,
        pos < n,
        L.LInt.at(toks, n - 1) == TOKEN_EOF,
        L.Forall([p], [L.LInt.at(toks, p)], z3.Implies(z3.And(0 <= p, p < n - 1), L.LInt.at(toks, p) != TOKEN_EOF), "stream.eof.last"),
    ]


def _stream(ex, s):
    rec = ex.st.obj(s.ref)
    return rec["fields"]["toks"], rec["fields"]["pos"]


@meth("CommonTokenStream", "LA", tb="TB-antlr")
def _ts_la(ex, s, args, kwargs, node):
    toks, pos = _stream(ex, s)
    if len(args) != 1 or not (isinstance(args[0], VInt) and z3.is_int_value(z3.simplify(args[0].t)) and z3.simplify(args[0].t).as_long() == 1):
        raise Unsupported("LA(k) for k != 1")
    return VInt(L.LInt.at(toks.t, pos.t))


@meth("CommonTokenStream", "LT", tb="TB-antlr")
def _ts_lt(ex, s, args, kwargs, node):
    return VOpaque("token")


@meth("CommonTokenStream", "consume", tb="TB-antlr")
def _ts_consume(ex, s, args, kwargs, node):
    toks, pos = _stream(ex, s)
    ex.oblige("noraise.consume_eof", node, L.LInt.at(toks.t, pos.t) != TOKEN_EOF)  # IllegalStateException("cannot consume EOF")
    ex.st.set_field(s.ref, "pos", VInt(pos.t + 1))
    return VNone()


def _parser_const(name):
    """a token-type constant of the generated parser, read from the real file on every run"""
    import os
    import re

    src = open(os.path.join(os.environ.get("INFOCF_REPO", "/repo"), "parser", "CKBParser.py")).read()
    m = re.search(rf"^\s+{name}\s*=\s*(\d+)\s*$", src, re.M)
    if not m:
        raise Unsupported(f"shape mismatch: CKBParser.{name} not found")
    return int(m.group(1))


try:
    TOKEN_NEWLINE = _parser_const("NEWLINE")
    constants["parser.CKBParser:CKBParser.NEWLINE"] = VInt(TOKEN_NEWLINE)
except (Unsupported, OSError):
    TOKEN_NEWLINE = None  # the contracts that need it come out UNDECIDED (shape mismatch), nothing else is affected


# ---------------------------------------------------------------------------
# TB-antlr (recogniser level): lexer and parser objects with their error listeners.  ANTLR reports every lexical /
# syntax error to the registered listeners and then RECOVERS (skips or invents tokens) and carries on; only a listener
# that raises turns an error into a rejection.  Ghost predicates: LexClean(toks) -- no lexical error was reported while
# these tokens were produced; ParseClean(tree) -- no syntax error was reported while this tree was built.  A start rule
# that returns normally has these properties exactly for the recognisers whose only listener is a raising one.
# ---------------------------------------------------------------------------
LexOf = z3.Function("LexOf", StrSort, L.LInt.sort)
LexClean = z3.Function("LexClean", L.LInt.sort, L.Bool)
ParseClean = z3.Function("ParseClean", Ctx, L.Bool)
StartPos = z3.Function("ParseStop", Ctx, L.Int)  # the stream position at which the start rule stopped
TLexer = TObj("CKBLexer", {"default_listeners": TBool, "throwing": TBool})
TParser = TObj("CKBParser", {"default_listeners": TBool, "throwing": TBool})
TTokenStream = TObj("CommonTokenStream", {"toks": TList(TInt), "pos": TInt})
TVisitor = TObj("myVisitor", {"sigcheck": TList(TStr), "signature": TOpaque})


@fn("antlr4.InputStream", tb="TB-antlr")
def _input_stream(ex, args, kwargs, node):
    (s,) = args
    if not isinstance(s, VStr):
        raise Unsupported("InputStream of a non-string")
    v = VOpaque("InputStream")
    v.kind = "input_stream"
    v.src = s
    return v


@fn("parser.Wrappers:_ThrowingErrorListener", tb="TB-antlr")
def _throwing_listener(ex, args, kwargs, node):
    # its syntaxError never returns normally: contract parser.Wrappers:_ThrowingErrorListener.syntaxError (proved)
    v = VOpaque("listener")
    v.kind = "throwing_listener"
    return v


@fn("parser.CKBLexer:CKBLexer", tb="TB-antlr")
def _lexer(ex, args, kwargs, node):
    (s,) = args
    if getattr(s, "kind", None) != "input_stream":
        raise Unsupported("CKBLexer of something else than an InputStream")
    ref = ex.st.alloc({"kind": "obj", "cls": "CKBLexer", "fields": {"default_listeners": VBool(True), "throwing": VBool(False)}, "src": s.src})
    return VRef(ref, TLexer)


@fn("antlr4.CommonTokenStream", tb="TB-antlr")
def _token_stream(ex, args, kwargs, node):
    (lx,) = args
    if not (isinstance(lx, VRef) and ex.st.obj(lx.ref).get("cls") == "CKBLexer"):
        raise Unsupported("CommonTokenStream of something else than a lexer")
    toks = VList(LexOf(ex.st.obj(lx.ref)["src"].t), TInt)
    ex.st.assume(stream_wf(toks.t, z3.IntVal(0)))
    ref = ex.st.alloc({"kind": "obj", "cls": "CommonTokenStream", "fields": {"toks": toks, "pos": VInt(0)}, "lexer": lx.ref})
    return VRef(ref, TTokenStream)


@fn("parser.CKBParser:CKBParser", tb="TB-antlr")
def _parser(ex, args, kwargs, node):
    (ts,) = args
    if not (isinstance(ts, VRef) and ex.st.obj(ts.ref).get("cls") == "CommonTokenStream"):
        raise Unsupported("CKBParser of something else than a token stream")
    ref = ex.st.alloc({"kind": "obj", "cls": "CKBParser", "fields": {"default_listeners": VBool(True), "throwing": VBool(False)}, "stream": ts.ref})
    return VRef(ref, TParser)


@meth("CKBLexer", "removeErrorListeners", tb="TB-antlr")
@meth("CKBParser", "removeErrorListeners", tb="TB-antlr")
def _remove_listeners(ex, o, args, kwargs, node):
    ex.st.set_field(o.ref, "default_listeners", VBool(False))
    ex.st.set_field(o.ref, "throwing", VBool(False))
    return VNone()


@meth("CKBLexer", "addErrorListener", tb="TB-antlr")
@meth("CKBParser", "addErrorListener", tb="TB-antlr")
def _add_listener(ex, o, args, kwargs, node):
    (l,) = args
    if getattr(l, "kind", None) != "throwing_listener":
        raise Unsupported("addErrorListener of an unknown listener")
    ex.st.set_field(o.ref, "throwing", VBool(True))
    return VNone()


def _start_rule(ex, p, args, kwargs, node):
    """parser.<start rule>(): may raise only through a raising listener; otherwise returns a tree, the stream has moved
    forward to where the rule stopped, and no error was reported to a recogniser whose listeners include a raising one"""
    prec = ex.st.obj(p.ref)
    sref = prec["stream"]
    srec = ex.st.obj(sref)
    lrec = ex.st.obj(srec["lexer"])
    toks, pos = srec["fields"]["toks"], srec["fields"]["pos"]
    may = z3.Or(prec["fields"]["throwing"].t, lrec["fields"]["throwing"].t)
    if not z3.is_false(z3.simplify(may)):
        _may_raise(ex, node, "Exception")
    tree = VCtx(ex.st.fresh_const("tree", Ctx))
    npos = StartPos(tree.t)
    ex.st.assume([pos.t <= npos, npos < L.LInt.len(toks.t)])
    ex.st.assume(z3.Implies(lrec["fields"]["throwing"].t, LexClean(toks.t)))
    ex.st.assume(z3.Implies(prec["fields"]["throwing"].t, ParseClean(tree.t)))
    ex.st.set_field(sref, "pos", VInt(npos))
    return tree


methods[("CKBParser", "formula")] = lambda ex, p, a, k, n: _start_rule(ex, p, a, k, n)
methods[("CKBParser", "ckbs")] = lambda ex, p, a, k, n: _start_rule(ex, p, a, k, n)


@fn("parser.myVisitor:myVisitor", tb="TB-antlr")
def _new_visitor(ex, args, kwargs, node):
    if args or kwargs:
        raise Unsupported("myVisitor(...) with arguments")
    return TVisitor.fresh("visitor", ex.st)


# pysmt FNode.is_true() / is_false(): the node IS the constant (pysmt formulas are hash-consed) -- a syntactic test
@meth("Form", "is_true", tb="TB-fml")
def _f_is_true(ex, f, args, kwargs, node):
    return VBool(f.t == L.f_true)


@meth("Form", "is_false", tb="TB-fml")
def _f_is_false(ex, f, args, kwargs, node):
    return VBool(f.t == L.f_false)


@fn("builtins.range", tb="TB-py")
def _range(ex, args, kwargs, node):
    """range(n) / range(a, b) as a sequence: length max(b - a, 0), element i is a + i"""
    if kwargs or not args or len(args) > 2 or not all(isinstance(a, VInt) for a in args):
        raise Unsupported("range() of this shape")
    lo = z3.IntVal(0) if len(args) == 1 else args[0].t
    hi = args[-1].t
    n = z3.If(hi - lo >= 0, hi - lo, 0)
    return VSeq(z3.simplify(n), lambda i: VInt(z3.simplify(lo + i)))


@fn("pickle.dumps", "json.dumps", tb="TB-io")
def _dumps(ex, args, kwargs, node):
    _may_raise(ex, node, "Exception")
    return VOpaque("bytes")


@meth("path", "write_bytes", "write_text", tb="TB-io")
def _pwrite(ex, p, args, kwargs, node):
    _may_raise(ex, node, "OSError")
    return VInt(ex.st.fresh_const("written", L.Int))


# "".join(chars): the string made of the given one-character strings (TB-py); a function of the list
join_chars = z3.Function("join_chars", L.list_theory(StrSort, "Str").sort, StrSort)


@meth("str", "join", tb="TB-py")
def _str_join(ex, s, args, kwargs, node):
    (xs,) = args
    if not (s.const == "" and isinstance(xs, VList) and xs.et is TStr):
        raise Unsupported("str.join of this shape")
    return VStr(join_chars(xs.t))
