"""Contracts: inference/optimizer.py -- Optimizer.get_violated_conditional at CLAUSE level (C03, C04, C05, C11, C15).

The enumeration loop (contracts/c_mcs.py) uses the assumed interface contract GVC: "the not-ignored keys whose
conditional the model's world falsifies".  Here the real body is proved against what it computes on integer clauses:

    result = { k in keys(nf_cnf_dict) \\ ignore  |  some clause of nf_cnf_dict[k] contains no literal of the model }

PROVIDED cost is at least the number of such (key, clause) pairs -- the early exit `counter == cost` stops the scan as
soon as that many unsatisfied clauses have been counted, which is sound exactly under this bound (RC2's cost counts the
unsatisfied soft clauses, and every clause of a not-ignored key is a soft clause: precondition soft_covers of MCS).
What remains assumed of GVC is the step from clauses to worlds (TB-tac: an unsatisfied clause of nf_cnf_dict[k] under
an optimal model means the model's world falsifies conditional k) and rc2.cost >= that count.
Lemmas (lemmas/zlemmas.py, explicit inductions): UCount.nonneg, UCount.mono, KCount.mono, KCount.flat."""
import z3

from pyvc import iterm as IT
from pyvc import logic as L
from pyvc.contract import Contract, LoopSpec
from pyvc.logic import Forall, LInt, LLInt
from pyvc.values import *  # noqa

mem_I = L.mem_Int
ValS = z3.ArraySort(L.Int, LLInt.sort)  # key -> clause list
NFT = TDict(TList(TList(TInt)))

# HitBy(clause, model): some literal of the model occurs in the clause (an existential with a witness function)
HitBy = z3.Function("HitBy", LInt.sort, LInt.sort, L.Bool)
_hw = z3.Function("HitBy!w", LInt.sort, LInt.sort, L.Int)
_hc, _hm = z3.Consts("_hb_c _hb_m", LInt.sort)
_hx = z3.Int("_hb_x")
HITBY_DEF = [
    Forall([_hc, _hm, _hx], [HitBy(_hc, _hm), mem_I(_hc, _hx)], z3.Implies(z3.And(mem_I(_hm, _hx), mem_I(_hc, _hx)), HitBy(_hc, _hm)), "def.HitBy.intro"),
    Forall([_hc, _hm], [HitBy(_hc, _hm)], z3.Implies(HitBy(_hc, _hm), z3.And(mem_I(_hm, _hw(_hc, _hm)), mem_I(_hc, _hw(_hc, _hm)))), "def.HitBy.elim"),
]
# UCount(clauses, model, n): how many of the first n clauses contain no literal of the model
UCount = L.prefix_fun("UCount", [LLInt.sort, LInt.sort], L.Int, lambda cl, m: z3.IntVal(0), lambda cl, m, i, prev: prev + z3.If(HitBy(LLInt.at(cl, i), m), 0, 1))


def contrib(keys, val, ign, m, p):
    k = LInt.at(keys, p)
    cl = z3.Select(val, k)
    return z3.If(mem_I(ign, k), 0, UCount(cl, m, LLInt.len(cl)))


# KCount(keys, val, ignore, model, n): unsatisfied clauses of the not-ignored keys among the first n keys
KCount = L.prefix_fun("KCount", [LInt.sort, ValS, LInt.sort, LInt.sort], L.Int, lambda ks, v, ig, m: z3.IntVal(0), lambda ks, v, ig, m, p, prev: prev + contrib(ks, v, ig, m, p))
# SeenViol(keys, val, ignore, model, k, n): k is one of the first n keys, not ignored, with an unsatisfied clause
SeenViol, _ = IT.defpred_some(
    "SeenViol",
    [LInt.sort, ValS, LInt.sort, LInt.sort, L.Int, L.Int],
    lambda x: x[5],
    lambda x, p: z3.And(LInt.at(x[0], p) == x[4], z3.Not(mem_I(x[2], x[4])), UCount(z3.Select(x[1], x[4]), x[3], LLInt.len(z3.Select(x[1], x[4]))) > 0),
    lambda x, p: LInt.at(x[0], p),
    step=True,
)

_cl = z3.Const("_gv_cl", LLInt.sort)
_m = z3.Const("_gv_m", LInt.sort)
_ks = z3.Const("_gv_ks", LInt.sort)
_v = z3.Const("_gv_v", ValS)
_ig = z3.Const("_gv_ig", LInt.sort)
_a, _b, _p = z3.Ints("_gv_a _gv_b _gv_p")
GVC_LEMMAS = [
    Forall([_cl, _m, _a], [UCount(_cl, _m, _a)], UCount(_cl, _m, _a) >= 0, "lemma.UCount.nonneg"),
    Forall([_cl, _m, _a, _b], [UCount(_cl, _m, _a), UCount(_cl, _m, _b)], z3.Implies(z3.And(0 <= _a, _a <= _b), UCount(_cl, _m, _a) <= UCount(_cl, _m, _b)), "lemma.UCount.mono"),
    Forall([_ks, _v, _ig, _m, _a, _b], [KCount(_ks, _v, _ig, _m, _a), KCount(_ks, _v, _ig, _m, _b)], z3.Implies(z3.And(0 <= _a, _a <= _b), KCount(_ks, _v, _ig, _m, _a) <= KCount(_ks, _v, _ig, _m, _b)), "lemma.KCount.mono"),
    Forall(
        [_ks, _v, _ig, _m, _a, _p],
        [KCount(_ks, _v, _ig, _m, _a), LInt.at(_ks, _p)],
        z3.Implies(z3.And(0 <= _a, _a <= _p, _p < LInt.len(_ks), KCount(_ks, _v, _ig, _m, _a) == KCount(_ks, _v, _ig, _m, LInt.len(_ks))), contrib(_ks, _v, _ig, _m, _p) == 0),
        "lemma.KCount.flat",
    ),
]

GOPT = TObj("Optimizer", {"epistemic_state": TRec({"nf_cnf_dict": NFT})})


def _nf(c):
    return c.es("nf_cnf_dict")


def _args(c):
    d = _nf(c)
    return (d.keys, d.val, c.ignore.t, c.model.t)


def _viol_is(c, violated, n, extra=None, name="gvc.violated"):
    k = z3.Int("_gvi_k")
    rhs = SeenViol(*_args(c), k, n)
    if extra is not None:
        rhs = z3.Or(rhs, extra(k))
    return IT.both([k], z3.IsMember(k, violated), rhs, name, rhs_trigger=SeenViol(*_args(c), k, n))


def _outer_inv(s, j, pre):
    a = _args(s)
    n = LInt.len(a[0])
    return [
        s.counter.t == KCount(*a, j),
        s.counter.t < s.cost.t,
        z3.Implies(j < n, KCount(*a, j + 1) >= KCount(*a, j)),  # (also names the count one key further, for the early exit)
    ] + _viol_is(s, s.violated.t, j, name="gvc.outer")


def _inner_inv(s, i, pre):
    cl = s.conditional.t
    m = s.model.t
    idx = s.index.t
    return [
        s.counter.t == pre.counter.t + UCount(cl, m, i),
        s.counter.t < s.cost.t,
        z3.Implies(i < LLInt.len(cl), UCount(cl, m, i + 1) >= UCount(cl, m, i)),  # (also names the count one clause further)
    ] + IT.both([z3.Int("_gvn_k")], z3.IsMember(z3.Int("_gvn_k"), s.violated.t), z3.Or(z3.IsMember(z3.Int("_gvn_k"), pre.violated.t), z3.And(z3.Int("_gvn_k") == idx, UCount(cl, m, i) > 0)), "gvc.inner", rhs_trigger=z3.IsMember(z3.Int("_gvn_k"), pre.violated.t))


def _gvc_post(c, r):
    a = _args(c)
    return _viol_is(c, r.t, LInt.len(a[0]), name="get_violated_conditional.result")


Contract(
    "inference.optimizer:Optimizer.get_violated_conditional#impl",
    params={"self": GOPT, "model": TList(TInt), "cost": TInt, "ignore": TList(TInt)},
    returns=TSet(TInt),
    locals={"violated": TSet(TInt)},
    requires=lambda c: [c.cost.t >= KCount(*_args(c), LInt.len(_args(c)[0])), KCount(*_args(c), 0) == 0],
    ensures=_gvc_post,
    loops={
        0: LoopSpec("for (index, conditional) in nf_cnf_dict.items()", _outer_inv),
        1: LoopSpec("for clause in conditional", _inner_inv),
    },
    axioms=GVC_LEMMAS + HITBY_DEF,
    properties=["C03", "C04", "C05", "C11", "C15"],
    fuel=5,
    note="clause level: the result is the set of not-ignored keys with a clause that contains no literal of the model, provided "
    "cost is at least the number of such clauses (the early exit `counter == cost`)",
)
