"""Lemma library, z3 part (DESIGN §2.4a step 2): code-independent facts about the
specification functions, proved on every run by Engine P's own discharge procedure.

A lemma that is used as an axiom elsewhere (TH.axiom named `lemma.*` or listed in DERIVED)
is proved here with that axiom EXCLUDED from the theory, so nothing is circular.  Lemmas
that need induction are proved by an explicit schema: base case and step case are two
separate quantifier-free obligations, the induction hypothesis is a hypothesis of the
step.  Lemmas that are not proved are returned as `assumed` and show up in the evidence.
"""
from __future__ import annotations

import z3

from contracts import c_inference as CI
from contracts.spec import PS, PSK
from pyvc import logic as L
from pyvc.logic import LCnd, LInt, LLCnd, LLInt, check_valid
from pyvc.values import StrSort


def _prove(name, obligations, exclude=(), extra_axioms=(), fuel=4):
    """obligations: list of (label, hyps, goal, seed_terms)"""
    worst = "proved"
    parts = []
    secs = 0.0
    for label, hyps, goal, seeds in obligations:
        for fl in range(min(fuel, 4), fuel + 1):
            st, info = check_valid(hyps, goal, exclude=exclude, seed_terms=seeds, fuel=fl, extra_axioms=extra_axioms)
            if st == "proved":
                break
        parts.append({"part": label, "status": st})
        secs += info.get("seconds", 0)
        if st != "proved":
            worst = st if worst == "proved" else worst
    return {"name": name, "status": worst, "parts": parts, "seconds": round(secs, 3)}


# ---------------------------------------------------------------------------
def lemma_lenGLs(spec, LT, LLT, xs, tag):
    """len(GLs(cs, n)) = max(n, 0), by induction on n (axiom lemma.lenGLs<tag>)"""
    cs = z3.Const("cs_l", LT.sort)
    n = z3.Int("n_l")
    ax = f"lemma.lenGLs{tag}"
    claim = lambda k: LLT.len(spec.GLs(*xs, cs, k)) == z3.If(k <= 0, 0, k)
    return _prove(
        ax,
        [
            ("base n<=0", [n <= 0], claim(n), []),
            ("step", [n >= 0, claim(n)], claim(n + 1), []),
        ],
        exclude=[ax],
    )


def lemma_Lrest(spec, LT, xs, tag):
    """L-rest: if no item of R is tolerated by R (the greedy layer of R is empty) then the
    filtered remainder FN(R, |R|) is R itself; hence GR(cs, stop+1) = GR(cs, stop).
    Three inductions over the prefix length, each with one unfolding per step:
      (B) len FT(R, n) <= len FT(R, N) for n <= N        (downward, as d = N - n)
      (C) if len FT(R, N) = 0 then len FN(R, n) = n and FN(R, n)[k] = R[k] for k < n <= N
    and list extensionality for FN(R, N) = R."""
    R = z3.Const("R_lr", LT.sort)
    N = LT.len(R)
    d, n, k = z3.Ints("d_lr n_lr k_lr")
    FT = lambda m: spec.FT(*xs, R, m)
    FN = lambda m: spec.FN(*xs, R, m)
    B = lambda dd: z3.Implies(z3.And(0 <= dd, dd <= N), LT.len(FT(N - dd)) <= LT.len(FT(N)))
    r1 = _prove(f"L-rest{tag}.B", [("base d=0", [d == 0], B(d), []), ("step", [d >= 0, B(d)], B(d + 1), [FT(N - d)])])
    empty = LT.len(FT(N)) == 0
    allB = B(N - n)  # instance of (B) at n
    allB1 = B(N - (n + 1))
    C = lambda m: z3.Implies(z3.And(0 <= m, m <= N), z3.And(LT.len(FN(m)) == m, z3.Implies(z3.And(0 <= k, k < m), LT.at(FN(m), k) == LT.at(R, k))))
    r2 = _prove(
        f"L-rest{tag}.C",
        [
            ("base n=0", [n == 0, empty], C(n), []),
            ("step", [n >= 0, empty, allB, allB1, C(n)], C(n + 1), [FT(n + 1), FN(n + 1), LT.at(LT.snoc(FN(n), LT.at(R, n)), k)]),
        ],
    )
    # extensionality: same length, same elements
    kk = LT.diff(FN(N), R)
    Ck = z3.substitute(C(N), [(k, kk)])
    r3 = _prove(f"L-rest{tag}.ext", [("FN(R,|R|) = R", [empty, Ck, LT.ext_facts(FN(N), R)], FN(N) == R, [])])
    # consequence used by the extended partition: GR(cs, stop+1) = GR(cs, stop)
    cs = z3.Const("cs_lr", LT.sort)
    stp = spec.stop(*xs, cs)
    G = spec.GR(*xs, cs, stp)
    inst = z3.Implies(LT.len(spec.FT(*xs, G, LT.len(G))) == 0, spec.FN(*xs, G, LT.len(G)) == G)  # the lemma at R := GR(cs, stop)
    r4 = _prove(f"L-rest{tag}.GR", [("GR(cs,stop+1) = GR(cs,stop)", [inst], spec.GR(*xs, cs, stp + 1) == G, [spec.GR(*xs, cs, stp + 1)])])
    rs = (r1, r2, r3, r4)
    st = "proved" if all(r["status"] == "proved" for r in rs) else ("failed" if any(r["status"] == "failed" for r in rs) else "undecided")
    return {"name": f"lemma.L-rest{tag} (empty layer => the remainder is unchanged)", "status": st, "parts": [p for r in rs for p in r["parts"]], "seconds": sum(r["seconds"] for r in rs)}


_ANE: dict = {}


def _all_non_empty(spec, LT, xs, tag):
    """AllNonEmpty(cs, n): the greedy layers 0..n-1 of cs are all non-empty (a defined predicate, shared by L-stop and L-least)"""
    from pyvc import iterm as IT

    if tag not in _ANE:
        _ANE[tag], _w = IT.defpred_all(f"AllNonEmpty{tag}", [s_.sort() for s_ in xs] + [LT.sort, L.Int], lambda x: x[-1], lambda x, j: LT.len(spec.FT(*x[:-2], spec.GR(*x[:-1], j), LT.len(spec.GR(*x[:-1], j)))) > 0, lambda x, j: spec.GR(*x[:-1], j))
    return _ANE[tag]


def lemma_Lleast(spec, LT, xs, tag):
    """L-least (the least-number principle for "the greedy layer is empty"): the axioms def.stop.1 / def.stop.2 that
    postulate `stop(cs)` -- an index >= 0 whose layer is empty while all earlier layers are non-empty -- are satisfiable
    for every cs: the recursively defined index
        LE(cs, 0) = 0,   LE(cs, n+1) = LE(cs, n) if LE(cs, n) < n, else n if layer n is empty, else n+1
    evaluated at n = |cs| + 1 has both properties.  By induction on n:  (A) 0 <= LE(n) <= n,  (B) LE(n) < n => layer
    LE(n) is empty,  (C) all layers below LE(n) are non-empty;  with L-stop (not all of the layers 0..|cs| are non-empty)
    LE(|cs|+1) < |cs|+1, hence (B) applies."""
    EX = [f"def.stop{tag}.1", f"def.stop{tag}.2"]
    cs = z3.Const("cs_ll", LT.sort)
    n, k = z3.Ints("n_ll k_ll")
    ANE = _all_non_empty(spec, LT, xs, tag)
    GR = lambda c, j: spec.GR(*xs, c, j)
    GLlen = lambda c, j: LT.len(spec.FT(*xs, GR(c, j), LT.len(GR(c, j))))
    LE = L.prefix_fun(
        f"LeastEmpty{tag}",
        [x.sort() for x in xs] + [LT.sort],
        L.Int,
        lambda *a: z3.IntVal(0),
        lambda *a: z3.If(a[-1] < a[-2], a[-1], z3.If(LT.len(spec.FT(*a[:-3], spec.GR(*a[:-2], a[-2]), LT.len(spec.GR(*a[:-2], a[-2])))) == 0, a[-2], a[-2] + 1)),
    )
    le = lambda m: LE(*xs, cs, m)
    ane = lambda m: ANE(*xs, cs, m)
    A = lambda m: z3.And(0 <= le(m), le(m) <= m)
    B = lambda m: z3.Implies(le(m) < m, GLlen(cs, le(m)) == 0)
    C = lambda m: ane(le(m))
    claim = lambda m: z3.And(A(m), B(m), C(m))
    r1 = _prove(
        f"L-least{tag}.induction",
        [
            ("base n=0", [n == 0], claim(n), []),
            ("step", [n >= 0, claim(n)], claim(n + 1), [GR(cs, n), le(n + 1)]),
        ],
        exclude=EX,
    )
    top = LT.len(cs) + 1
    st = le(top)
    r2 = _prove(
        f"L-least{tag}.stop",
        [
            ("def.stop.1 holds of LE(|cs|+1)", [claim(top), z3.Not(ane(top))], z3.And(st >= 0, GLlen(cs, st) == 0), []),
            ("def.stop.2 holds of LE(|cs|+1)", [claim(top), 0 <= k, k < st], GLlen(cs, k) > 0, [GR(cs, k)]),
        ],
        exclude=EX,
    )
    # sanity: without L-stop's conclusion the first part must NOT be provable
    r3 = _prove(f"L-least{tag}.sanity", [("not provable without L-stop", [claim(top)], GLlen(cs, st) == 0, [])], exclude=EX)
    sane = r3["status"] != "proved"
    rs = (r1, r2)
    stt = "proved" if all(r["status"] == "proved" for r in rs) and sane else ("failed" if any(r["status"] == "failed" for r in rs) or not sane else "undecided")
    return {"name": f"lemma.L-least{tag} (a first empty greedy layer exists: def.stop is satisfiable)", "status": stt, "parts": [p for r in rs for p in r["parts"]] + [{"part": "sanity: needs L-stop", "status": "ok" if sane else "VACUOUS"}], "seconds": sum(r["seconds"] for r in (r1, r2, r3))}


def lemma_Lstop(spec, LT, xs, tag):
    """L-stop (existence part): some greedy layer with index <= |cs| is empty.
      (S1) len FT(R,n) + len FN(R,n) = n                      (induction on n)
      (S2) if the layers 0..k-1 are all non-empty then len GR(cs,k) <= |cs| - k   (induction on k,
           the hypothesis about the layers is the defined predicate AllNonEmpty)
      (S3) so the layers 0..|cs| cannot all be non-empty (a list has no negative length).
    That a FIRST such index exists -- what `stop` denotes -- is the least-number principle."""
    from pyvc import iterm as IT

    EX = [f"def.stop{tag}.1", f"def.stop{tag}.2"]  # the axioms that postulate `stop` are not used here

    R = z3.Const("R_ls", LT.sort)
    cs = z3.Const("cs_ls", LT.sort)
    n, k = z3.Ints("n_ls k_ls")
    FT = lambda r, m: spec.FT(*xs, r, m)
    FN = lambda r, m: spec.FN(*xs, r, m)
    S1 = lambda r, m: z3.Implies(z3.And(0 <= m, m <= LT.len(r)), LT.len(FT(r, m)) + LT.len(FN(r, m)) == m)
    r1 = _prove(f"L-stop{tag}.S1", [("base n=0", [n == 0], S1(R, n), []), ("step", [n >= 0, S1(R, n)], S1(R, n + 1), [FT(R, n + 1), FN(R, n + 1)])], exclude=EX)
    GR = lambda j: spec.GR(*xs, cs, j)
    GLlen = lambda j: LT.len(FT(GR(j), LT.len(GR(j))))
    ANE = _all_non_empty(spec, LT, xs, tag)
    ane = lambda m: ANE(*xs, cs, m)
    S2 = lambda m: z3.Implies(z3.And(0 <= m, ane(m)), LT.len(GR(m)) <= LT.len(cs) - m)
    inst = S1(GR(k), LT.len(GR(k)))  # (S1) at R := GR(cs,k), n := its length
    r2 = _prove(
        f"L-stop{tag}.S2",
        [
            ("base k=0", [k == 0], S2(k), [GR(0)]),
            ("step", [k >= 0, S2(k), inst], S2(k + 1), [GR(k + 1), GR(k)]),
        ],
        exclude=EX,
    )
    top = LT.len(cs) + 1
    r3 = _prove(f"L-stop{tag}.S3", [("some layer 0..|cs| is empty", [S2(top)], z3.Not(ane(top)), [])], exclude=EX)
    rs = (r1, r2, r3)
    st = "proved" if all(r["status"] == "proved" for r in rs) else ("failed" if any(r["status"] == "failed" for r in rs) else "undecided")
    return {"name": f"lemma.L-stop{tag} (some greedy layer with index <= |cs| is empty)", "status": st, "parts": [p for r in rs for p in r["parts"]], "seconds": sum(r["seconds"] for r in rs)}


def lemma_mem_snoc(elem_sort):
    LT = L.list_theory(elem_sort)
    mem, memw = L.mem_theory(elem_sort)
    l = z3.Const("l_m", LT.sort)
    e, x = z3.Const("e_m", elem_sort), z3.Const("x_m", elem_sort)
    ax = f"mem.snoc.{LT.name}"
    s = LT.snoc(l, e)
    return _prove(
        ax,
        [
            ("=>", [mem(s, x)], z3.Or(mem(l, x), x == e), [LT.at(l, memw(s, x))]),
            ("<= member", [mem(l, x)], mem(s, x), [LT.at(s, memw(l, x))]),
            ("<= new", [x == e], mem(s, x), [LT.at(s, LT.len(l))]),
        ],
        exclude=[ax],
    )


def lemma_mem_nil(elem_sort):
    LT = L.list_theory(elem_sort)
    mem, memw = L.mem_theory(elem_sort)
    x = z3.Const("x_mn", elem_sort)
    ax = f"mem.nil.{LT.name}"
    return _prove(ax, [("nil", [], z3.Not(mem(LT.nil, x)), [])], exclude=[ax])


# ---------------------------------------------------------------------------
# System Z: the descent EZ equals "some layer i <= top verifies and does not falsify"
#   R(P,H,i)   = H ∩ KL(P[top]) ∩ ... ∩ KL(P[i])          (worlds of rank <= i inside H)
#   EZ(P,q,H,i) descends from i; its context at level j is H ∩ KL(P[i]) ∩ ... ∩ KL(P[j]).
# Zmono:  H ∩ ver q = ∅  ==>  not EZ(P,q,H,i)        (nothing verifiable above => False below)
# ---------------------------------------------------------------------------
def lemma_Zmono():
    P = z3.Const("P_z", LLCnd.sort)
    q = z3.Const("q_z", L.Cnd)
    H = z3.Const("H_z", L.WSet)
    i = z3.Int("i_z")
    EZ = CI.EZ
    claim = lambda HH, k: z3.Implies(L.isempty(L.inter(HH, L.ver(q))), z3.Not(EZ(P, q, HH, k)))
    # no induction needed: the first test of EZ at any level is V = (H ∩ KL(P[i]) ∩ ver q ≠ ∅)
    return _prove("lemma.Zmono", [("direct", [], claim(H, i), [])])


def lemma_Zshrink():
    """EZ only ever looks inside H: EZ(P,q,H,i) ==> H ∩ ver q ≠ ∅ (a verifying world of
    rank <= i exists in the context) -- the V-part of `rank(AB) <= i`."""
    P = z3.Const("P_z2", LLCnd.sort)
    q = z3.Const("q_z2", L.Cnd)
    H = z3.Const("H_z2", L.WSet)
    i = z3.Int("i_z2")
    return _prove("lemma.Zshrink", [("direct", [CI.EZ(P, q, H, i)], L.nonempty(L.inter(H, L.ver(q))), [])])


# ---------------------------------------------------------------------------
# L2a: the descent equals the declarative "some layer separates":
#   R(P,i)    = worlds falsifying no conditional of the layers i..top   (Z-rank <= i)
#   DZ(P,q,i) = exists j in [0,i]:  R(P,j) ∩ ver q ≠ ∅  and  R(P,j) ∩ fal q = ∅
#             (i.e. rank(AB) <= j < rank(A not B) for some j <= i)
#   claim:  0 <= i < len P  ==>  EZ(P, q, R(P,i+1), i) = DZ(P,q,i)
# ---------------------------------------------------------------------------
RZs = z3.Function("Rset", LLCnd.sort, L.Int, L.WSet)
_P = z3.Const("_rs_P", LLCnd.sort)
_i = z3.Int("_rs_i")
L.TH.axiom(
    [_P, _i],
    RZs(_P, _i),
    RZs(_P, _i) == z3.If(_i >= LLCnd.len(_P), L.FULL, L.inter(RZs(_P, _i + 1), PS.KL((), LLCnd.at(_P, _i)))),
    "unfold.Rset",
)
DZ = z3.Function("DZ", LLCnd.sort, L.Cnd, L.Int, L.Bool)
_q = z3.Const("_dz_q", L.Cnd)


def _V(P, q, i):
    return L.nonempty(L.inter(RZs(P, i), L.ver(q)))


def _F(P, q, i):
    return L.nonempty(L.inter(RZs(P, i), L.fal(q)))


L.TH.axiom(
    [_P, _q, _i],
    DZ(_P, _q, _i),
    DZ(_P, _q, _i) == z3.Or(z3.And(_V(_P, _q, _i), z3.Not(_F(_P, _q, _i))), z3.And(_i > 0, DZ(_P, _q, _i - 1))),
    "unfold.DZ",
)


def lemma_L2a():
    P = z3.Const("P_l2", LLCnd.sort)
    q = z3.Const("q_l2", L.Cnd)
    i = z3.Int("i_l2")
    m = LLCnd.len(P)
    # (M) monotonicity: nothing verifiable at rank <= i  ==>  DZ(i) is false
    M = lambda k: z3.Implies(z3.Not(_V(P, q, k)), z3.Not(DZ(P, q, k)))
    r1 = _prove(
        "lemma.L2a.mono",
        [
            ("base i=0", [i == 0, 0 < m], M(i), [RZs(P, i)]),
            ("step", [0 <= i, i + 1 < m, M(i)], M(i + 1), [RZs(P, i), RZs(P, i + 1)]),
        ],
    )
    C = lambda k: CI.EZ(P, q, RZs(P, k + 1), k) == DZ(P, q, k)
    r2 = _prove(
        "lemma.L2a.descent",
        [
            ("base i=0", [i == 0, 0 < m], C(i), [RZs(P, i)]),
            ("step", [0 <= i, i + 1 < m, C(i), M(i)], C(i + 1), [RZs(P, i), RZs(P, i + 1)]),
        ],
    )
    st = "proved" if r1["status"] == r2["status"] == "proved" else ("failed" if "failed" in (r1["status"], r2["status"]) else "undecided")
    return {"name": "lemma.L2a (EZ = exists separating layer)", "status": st, "parts": r1["parts"] + r2["parts"], "seconds": r1["seconds"] + r2["seconds"]}


def lemma_L2b():
    """L2b: the separating-layer condition DZ is a statement about Z-RANKS OF WORLDS.
    kzw(P, w) := RZ(P, {w}, top) is the Z-rank of the single world w (the same descent the ranking
    object uses).  Proved (inductions with the context / the threshold quantified in the hypothesis):
      (R1) RZ(P, H, i) <= i + 1
      (R2) Rset is antitone: Rset(P, i) <= Rset(P, i + 1), hence Rset(P, j) <= Rset(P, i) for j <= i   (as d = i - j)
      (R3) for w in Rset(P, i+1) and every j >= 0:  RZ(P, {w}, i) <= j  <=>  j >= i+1  or  w in Rset(P, j)
      (R4) for 0 <= j < |P|:  w in Rset(P, j)  <=>  kzw(P, w) <= j                     (R3 at the top layer)
      (R5) DZ(P, q, i)  <=>  some j in [0, i] separates:  Rset(P,j) meets ver q and misses fal q
    Together: System Z's answer = "some threshold j < |P| has a verifying world of rank <= j and no
    falsifying world of rank <= j", i.e. rank(AB) < rank(A not B) with the minimum over an empty set
    infinite (that last reading of `<` between minima is arithmetic, stated in DESIGN)."""
    from contracts import c_preocf as CP
    from pyvc import iterm as IT
    from pyvc.logic import Forall

    P = z3.Const("P_2b", LLCnd.sort)
    H, H2 = z3.Consts("H_2b H2_2b", L.WSet)
    w = z3.Const("w_2b", L.World)
    q = z3.Const("q_2b", L.Cnd)
    i, j, d = z3.Ints("i_2b j_2b d_2b")
    m = LLCnd.len(P)
    RZ = CP.RZ
    single = lambda x: z3.Store(L.EMPTY, x, True)
    out = []
    # R1
    c1 = lambda HH, k: z3.Implies(0 <= k, RZ(P, HH, k) <= k + 1)
    ih1 = lambda k: Forall([H2], [RZ(P, H2, k)], c1(H2, k), "R1.ih")
    out.append(_prove("L2b.R1", [("base i=0", [i == 0], c1(H, i), []), ("step", [i >= 0, ih1(i)], c1(H, i + 1), [])]))
    # R2
    sub = lambda a, b: L.subset(a, b)
    c2 = lambda dd: z3.Implies(z3.And(0 <= dd, 0 <= i - dd), sub(RZs(P, i - dd), RZs(P, i)))
    out.append(_prove("L2b.R2", [("base d=0", [d == 0], c2(d), []), ("step", [d >= 0, c2(d)], c2(d + 1), [RZs(P, i - d - 1), RZs(P, i - d)])]))
    # R3
    def c3(k, jj):
        return z3.Implies(z3.And(0 <= k, k < m, z3.Select(RZs(P, k + 1), w), 0 <= jj), (RZ(P, single(w), k) <= jj) == z3.Or(jj >= k + 1, z3.Select(RZs(P, jj), w)))

    j2 = z3.Int("j2_2b")
    ih3 = lambda k: Forall([j2], [RZs(P, j2)], c3(k, j2), "R3.ih")
    r2inst = lambda a, b: z3.Implies(z3.And(0 <= a, a <= b), sub(RZs(P, a), RZs(P, b)))  # (R2) as proved, instantiated
    out.append(
        _prove(
            "L2b.R3",
            [
                ("base i=0", [i == 0], c3(i, j), [RZs(P, 0), RZs(P, 1), RZs(P, j)]),
                ("step", [i >= 0, ih3(i), r2inst(j, i + 1), c1(single(w), i)], c3(i + 1, j), [RZs(P, i + 1), RZs(P, i + 2), RZs(P, j), RZ(P, single(w), i)]),
            ],
            fuel=5,
        )
    )
    # R4
    kzw = RZ(P, single(w), m - 1)
    out.append(_prove("L2b.R4", [("top layer", [m >= 1, 0 <= j, j < m, c3(m - 1, j)], z3.Select(RZs(P, j), w) == (kzw <= j), [RZs(P, m)])]))
    # R5
    Sep, _sw = IT.defpred_some("SepUpTo", [LLCnd.sort, L.Cnd, L.Int], lambda x: x[2] + 1, lambda x, jj: z3.And(_V(x[0], x[1], jj), z3.Not(_F(x[0], x[1], jj))), lambda x, jj: RZs(x[0], jj))
    c5 = lambda k: z3.Implies(0 <= k, DZ(P, q, k) == Sep(P, q, k))
    SW = z3.Function("SepUpTo!w", LLCnd.sort, L.Cnd, L.Int, L.Int)
    out.append(
        _prove(
            "L2b.R5",
            [
                ("base i=0", [i == 0], c5(i), [RZs(P, 0), RZs(P, SW(P, q, 0))]),
                ("step", [i >= 0, c5(i)], c5(i + 1), [RZs(P, i + 1), RZs(P, SW(P, q, i)), RZs(P, SW(P, q, i + 1))]),
            ],
            fuel=5,
        )
    )
    worst = "proved"
    for r in out:
        if r["status"] != "proved":
            worst = r["status"] if worst == "proved" else worst
    return {"name": "lemma.L2b (separating layer <=> comparison of world ranks)", "status": worst, "parts": [{"part": r["name"], "status": r["status"]} for r in out], "seconds": round(sum(r["seconds"] for r in out), 3)}


def lemma_RangeList():
    from contracts.c_diagnostics import RangeList
    from pyvc.logic import Forall

    s_, n, i = z3.Ints("s_rl n_rl i_rl")
    ex = ["lemma.RangeList.len", "lemma.RangeList.at"]
    len_claim = lambda k: LInt.len(RangeList(s_, k)) == z3.If(k <= 0, 0, k)
    r1 = _prove("lemma.RangeList.len", [("base", [n <= 0], len_claim(n), []), ("step", [n >= 0, len_claim(n)], len_claim(n + 1), [])], exclude=ex)
    # i is an arbitrary but fixed index: the step only needs the hypothesis for the same i
    at_claim = lambda k: z3.Implies(z3.And(0 <= i, i < k), LInt.at(RangeList(s_, k), i) == s_ + i)
    r2 = _prove(
        "lemma.RangeList.at",
        [
            ("base", [n <= 0], at_claim(n), []),
            ("step", [n >= 0, at_claim(n), len_claim(n)], at_claim(n + 1), [LInt.at(LInt.snoc(RangeList(s_, n), s_ + n), i)]),
        ],
        exclude=ex,
    )
    st = "proved" if r1["status"] == r2["status"] == "proved" else "failed"
    return {"name": "lemma.RangeList (len, at)", "status": st, "parts": r1["parts"] + r2["parts"], "seconds": r1["seconds"] + r2["seconds"]}


# ---------------------------------------------------------------------------
# TB-ifml: derived facts about HoldAll / HoldUpTo (no induction: both sides are bounded
# quantifiers, the witnesses of one side instantiate the other) and the sum congruence (induction)
# ---------------------------------------------------------------------------
def lemma_HoldAll():
    from pyvc import iterm as IT

    LF = IT.LIForm
    l, l2 = z3.Consts("l_ha l2_ha", LF.sort)
    f = z3.Const("f_ha", IT.IForm)
    s = z3.Const("s_ha", IT.Asg)
    n = z3.Int("n_ha")
    H, hw = IT.HoldAll, IT.haw
    ex = list(IT.DERIVED)
    sn = LF.snoc(l, f)
    cc = LF.concat(l, l2)
    UW = z3.Function("HoldUpTo!w", LF.sort, IT.Asg, L.Int, L.Int)
    parts = [
        ("snoc =>1", [H(sn, s)], H(l, s), [LF.at(sn, hw(l, s))]),
        ("snoc =>2", [H(sn, s)], IT.hold(f, s), [LF.at(sn, LF.len(l))]),
        ("snoc <=", [H(l, s), IT.hold(f, s)], H(sn, s), [LF.at(l, hw(sn, s))]),
        ("nil", [], H(LF.nil, s), []),
        ("concat =>1", [H(cc, s)], H(l, s), [LF.at(cc, hw(l, s))]),
        ("concat =>2", [H(cc, s)], H(l2, s), [LF.at(cc, hw(l2, s) + LF.len(l))]),
        ("concat <=", [H(l, s), H(l2, s)], H(cc, s), [LF.at(l, hw(cc, s)), LF.at(l2, hw(cc, s) - LF.len(l))]),
        ("upto =>", [n == LF.len(l), IT.HoldUpTo(l, s, n)], H(l, s), [LF.at(l, hw(l, s))]),
        ("upto <=", [n == LF.len(l), H(l, s)], IT.HoldUpTo(l, s, n), [LF.at(l, UW(l, s, n))]),
    ]
    return _prove("lemma.HoldAll (snoc, nil, concat, HoldUpTo.all)", parts, exclude=ex)


def lemma_SumCong(tag):
    """SumIV(tl, s, n) != Sum<tag>(kl, s, n)  ==>  some position k < n has iv(tl[k], s) != asg(s, Name(kl[k])).
    The axiom names the position by a witness function; it is proved in the equivalent form
    (forall k < n: equal summands) ==> equal sums, by induction on n with the summand hypothesis
    instantiated at the last position."""
    from pyvc import iterm as IT
    from pyvc.logic import Forall

    S, NameFn = IT.NAMED_SUMS[tag]
    tl = z3.Const("tl_sc", IT.LITerm.sort)
    kl = z3.Const("kl_sc", LInt.sort)
    s = z3.Const("s_sc", IT.Asg)
    n, k = z3.Ints("n_sc k_sc")
    summands = lambda m: Forall([k], [IT.LITerm.at(tl, k)], z3.Implies(z3.And(0 <= k, k < m), IT.iv(IT.LITerm.at(tl, k), s) == IT.asg(s, NameFn(LInt.at(kl, k)))), "sc.summands")
    claim = lambda m: IT.SumIV(tl, s, m) == S(kl, s, m)
    return _prove(
        f"lemma.SumCong.{tag}",
        [
            ("base n<=0", [n <= 0], claim(n), []),
            ("step", [n >= 0, summands(n + 1), claim(n)], claim(n + 1), [IT.LITerm.at(tl, n)]),
        ],
        exclude=[f"lemma.SumCong.{tag}"],
    )


def lemma_SumIV_concat():
    from pyvc import iterm as IT

    LT = IT.LITerm
    a, b = z3.Consts("a_sic b_sic", LT.sort)
    s = z3.Const("s_sic", IT.Asg)
    n = z3.Int("n_sic")
    cc = LT.concat(a, b)
    ex = ["lemma.SumIV.concat"]
    c0 = lambda m: z3.Implies(m <= LT.len(a), IT.SumIV(cc, s, m) == IT.SumIV(a, s, m))
    r1 = _prove("lemma.SumIV.concat.prefix", [("base", [n <= 0], c0(n), []), ("step", [n >= 0, c0(n)], c0(n + 1), [LT.at(cc, n)])], exclude=ex)
    c1 = lambda m: z3.Implies(z3.And(0 <= m, m <= LT.len(b)), IT.SumIV(cc, s, LT.len(a) + m) == IT.SumIV(a, s, LT.len(a)) + IT.SumIV(b, s, m))
    r2 = _prove(
        "lemma.SumIV.concat.suffix",
        [("base", [n == 0, c0(LT.len(a))], c1(n), []), ("step", [n >= 0, c1(n)], c1(n + 1), [LT.at(cc, LT.len(a) + n)])],
        exclude=ex,
    )
    st = "proved" if r1["status"] == r2["status"] == "proved" else ("failed" if "failed" in (r1["status"], r2["status"]) else "undecided")
    return {"name": "lemma.SumIV.concat", "status": st, "parts": r1["parts"] + r2["parts"], "seconds": r1["seconds"] + r2["seconds"]}


def lemma_CoveredUpTo_snoc():
    from contracts import c_mcs as M

    F = z3.Const("F_cus", M.LKS.sort)
    a, X = z3.Consts("a_cus X_cus", M.KSet)
    n = z3.Int("n_cus")
    C = M.CoveredUpTo
    W = z3.Function("CoveredUpTo!w", M.LKS.sort, M.KSet, L.Int, L.Int)
    sn = M.LKS.snoc(F, a)
    m = M.LKS.len(F)
    return _prove(
        "CoveredUpTo.snoc",
        [
            ("=>", [n == m + 1, C(sn, X, n)], z3.Or(C(F, X, m), z3.IsSubset(a, X)), [M.LKS.at(F, W(sn, X, n))]),
            ("<= old", [n == m + 1, C(F, X, m)], C(sn, X, n), [M.LKS.at(sn, W(F, X, m))]),
            ("<= new", [n == m + 1, z3.IsSubset(a, X)], C(sn, X, n), [M.LKS.at(sn, m)]),
        ],
        exclude=["CoveredUpTo.snoc"],
    )


def lemma_MCS_bridge():
    """what the enumeration loop establishes (mcs_structural) implies that R represents exactly the
    inclusion-minimal violated sets (mcs_pointwise); no induction, the hypotheses are used per part"""
    from contracts import c_mcs as M

    R = z3.Const("R_mb", LLInt.sort)
    X = z3.Const("X_mb", M.LKS.sort)
    H0 = z3.Const("H_mb", L.WSet)
    val = z3.Const("val_mb", M.CMapS)
    NI = z3.Const("NI_mb", M.KSet)
    st = M.mcs_structural(R, X, H0, val, NI)
    rs_sound, rs_complete, rs_len, realised, exhaustive, emp = st
    pw = M.mcs_pointwise(R, H0, val, NI)
    snd, cmpl, emp2 = pw
    i = snd.vars[0]
    S = M.setofK(LLInt.at(R, i))
    rng = z3.And(0 <= i, i < LLInt.len(R))
    from pyvc.logic import Forall

    g_real = Forall([i], snd.triggers, z3.Implies(rng, M.Realised(H0, val, NI, S)), "bridge.sound.realised")
    g_nosm = Forall([i], snd.triggers, z3.Implies(rng, M.NoSmaller(H0, val, NI, S)), "bridge.sound.nosmaller")
    return _prove(
        "MCS.bridge (structural => pointwise)",
        [
            ("sound: realised", [rs_sound, realised], g_real, []),
            ("sound: no smaller", [rs_sound, realised, exhaustive], g_nosm, []),
            ("complete", [rs_complete, realised, exhaustive], cmpl, []),
            ("empty", [emp], emp2, []),
        ],
        extra_axioms=M.MCS_AXIOMS,
        fuel=8,
    )


def lemma_MCS_bridge2():
    """the pointwise form implies the clauses of the interface contract MCS (contracts/c_rc2backends.py),
    which speak about the FAMILY of violated sets: FamOfLL(R) == MinFamK(H, val, NI), emptiness, members"""
    from contracts import c_mcs as M
    from contracts import c_rc2backends as RC
    from pyvc.logic import Forall

    R = z3.Const("R_mb2", LLInt.sort)
    H0 = z3.Const("H_mb2", L.WSet)
    val = z3.Const("val_mb2", M.CMapS)
    NI = z3.Const("NI_mb2", M.KSet)
    snd, cmpl, emp = M.mcs_pointwise(R, H0, val, NI)
    fam, MF = RC.FamOfLL(R), RC.MinFamK(H0, val, NI)
    d = M.KFdiff(fam, MF)
    e0 = z3.EmptySet(M.KSet)
    d0 = M.KFdiff(fam, e0)
    ext = z3.Implies(fam != MF, z3.IsMember(d, fam) != z3.IsMember(d, MF))
    ext0 = z3.Implies(fam != e0, z3.IsMember(d0, fam) != z3.IsMember(d0, e0))
    first = M.setofK(LLInt.at(R, 0))
    xs = z3.Const("xs_mb2", M.KSet)
    kk = z3.Int("k_mb2")
    members = Forall([xs, kk], [z3.IsMember(kk, xs)], z3.Implies(z3.And(z3.IsMember(xs, fam), z3.IsMember(kk, xs)), z3.IsMember(kk, NI)), "mcs.members.not.ignored")
    return _prove(
        "MCS.bridge2 (pointwise => interface contract)",
        [
            ("family", [snd, cmpl, ext], fam == MF, []),
            ("empty list <=> empty hard set", [emp], (LLInt.len(R) == 0) == L.isempty(H0), []),
            ("empty list <=> empty family", [snd, ext0], (LLInt.len(R) == 0) == (fam == e0), [z3.IsMember(first, fam), LLInt.at(R, 0)]),
            ("members not ignored", [snd], members, []),
        ],
        extra_axioms=M.MCS_AXIOMS,
        fuel=8,
    )


def lemma_XI():
    """the lemmas of contracts/c_xi.py over Rem / SoftOK / AllMin / Exhaustive, each proved from the
    definitions it needs only (the lemma under proof is never among the axioms)"""
    from contracts import c_xi as X
    from contracts import c_z3backends as Z
    from pyvc import lib
    from pyvc.logic import LForm

    D = X.DEFS
    A, H = z3.Consts("A_xl H_xl", L.WSet)
    Xf = z3.Const("X_xl", X.Fam)
    p = z3.Const("p_xl", LCnd.sort)
    Ss = z3.Const("S_xl", LForm.sort)
    wm, w = z3.Consts("wm_xl w_xl", L.World)
    T = z3.Const("T_xl", X.CSet)
    new = X.ViolC(wm, p)
    rem = X.Rem(A, H, Xf, p)
    prem = [rem, X.SoftOK(Ss, p, LCnd.len(p)), LForm.len(Ss) == LCnd.len(p), lib.OptModel(wm, A, Ss)]
    base = D["ViolC"] + D["sets"]
    out = []
    out.append(_prove("XI.new-minimal: realised", [("", prem, X.RealC(H, p, new), [])], extra_axioms=base + D["Realised"] + D["Rem"], fuel=6))
    out.append(_prove("XI.new-minimal: nothing smaller", [("", prem, X.NoSmC(H, p, new), [])], extra_axioms=base + D["NoSmaller"] + D["Covered"] + D["Rem"] + D["SoftOK"], fuel=10))
    addX = z3.SetAdd(Xf, T)
    out.append(_prove("XI.add", [("", [X.AllMin(Xf, H, p), X.RealC(H, p, T), X.NoSmC(H, p, T)], X.AllMin(addX, H, p), [z3.IsMember(X.amw(addX, H, p), Xf)])], extra_axioms=D["AllMin"], fuel=5))
    out.append(_prove("XI.exit-unsat", [("", [rem, A == L.EMPTY], X.Exh(Xf, H, p), [])], extra_axioms=D["Exh"] + D["Rem"], fuel=5))
    e = z3.EmptySet(L.Cnd)
    out.append(_prove("XI.exit-empty", [("", [], X.Exh(z3.SetAdd(Xf, e), H, p), [z3.IsMember(e, z3.SetAdd(Xf, e))])], extra_axioms=D["Exh"] + D["Covered"], fuel=5))
    e2 = z3.EmptySet(X.CSet)
    out.append(_prove("XI.start", [("rem", [], X.Rem(H, H, e2, p), []), ("allmin", [], X.AllMin(e2, H, p), [])], extra_axioms=D["Rem"] + D["AllMin"] + D["Covered"], fuel=5))
    # MAny pointwise: induction on n
    fl = z3.Const("fl_xl", LForm.sort)
    n = z3.Int("n_xl")
    claim = lambda k: z3.Implies(z3.And(0 <= k, k <= LForm.len(fl)), z3.Select(L.MAny(fl, k), w) == X.AnyHolds(fl, w, k))
    AW = z3.Function("AnyHolds!w", LForm.sort, L.World, L.Int, L.Int)
    out.append(
        _prove(
            "MAny.pointwise",
            [("base", [n <= 0], claim(n), []), ("step", [n >= 0, claim(n)], claim(n + 1), [LForm.at(fl, n), LForm.at(fl, AW(fl, w, n)), LForm.at(fl, AW(fl, w, n + 1))])],
            fuel=5,
        )
    )
    # derived axioms used for the blocking step
    S2 = z3.Const("S2_xl", X.CSet)
    cadd = X.Covered(z3.SetAdd(Xf, S2), p, w)
    rhs = z3.Or(X.Covered(Xf, p, w), z3.IsSubset(S2, X.ViolC(w, p)))
    CW = X.covw
    out.append(
        _prove(
            "CoveredBy.add",
            [
                ("=>", [cadd], rhs, [z3.IsMember(CW(z3.SetAdd(Xf, S2), p, w), Xf)]),
                ("<= old", [X.Covered(Xf, p, w)], cadd, [z3.IsMember(CW(Xf, p, w), z3.SetAdd(Xf, S2))]),
                ("<= new", [z3.IsSubset(S2, X.ViolC(w, p))], cadd, [z3.IsMember(S2, z3.SetAdd(Xf, S2))]),
            ],
            extra_axioms=D["Covered"],
            fuel=5,
        )
    )
    kk = z3.Int("k_xl")
    memCn, _mw = L.mem_theory(L.Cnd)
    out.append(_prove("mem.at.Cnd", [("", [0 <= kk, kk < LCnd.len(p)], memCn(p, LCnd.at(p, kk)), [])], fuel=4))
    out.append(
        _prove(
            "def.ViolC.at",
            [("", [0 <= kk, kk < LCnd.len(p)], z3.IsMember(LCnd.at(p, kk), X.ViolC(w, p)) == z3.Select(L.fal(LCnd.at(p, kk)), w), [])],
            extra_axioms=D["ViolC"][:1] + [X.MEM_AT_C],
            fuel=5,
        )
    )
    # sanity: without the optimum premise the central lemma must NOT be provable
    neg = _prove("(sanity) XI.new-minimal without OptModel", [("", prem[:3] + [z3.Select(A, wm)], X.NoSmC(H, p, new), [])], extra_axioms=base + D["NoSmaller"] + D["Covered"] + D["Rem"] + D["SoftOK"], fuel=8)
    out.append({"name": "(sanity) XI.new-minimal needs the optimum premise", "status": "proved" if neg["status"] == "failed" else "failed", "seconds": neg["seconds"]})
    # bridge: AllMin and Exhaustive give the family of minimal falsification sets
    MF = Z.MinFam(H, p)
    d = X.Fdiff(Xf, MF)
    ext = z3.Implies(Xf != MF, z3.IsMember(d, Xf) != z3.IsMember(d, MF))
    out.append(
        _prove(
            "XI.bridge",
            [("family", [X.AllMin(Xf, H, p), X.Exh(Xf, H, p), ext], Xf == MF, [])],
            extra_axioms=D["ViolC"] + D["sets"][:2] + D["Realised"] + D["NoSmaller"] + D["Covered"] + D["AllMin"] + D["Exh"] + D["MinFam"],
            fuel=8,
        )
    )
    worst = "proved"
    for r in out:
        if r["status"] != "proved":
            worst = r["status"] if worst == "proved" else worst
    return {"name": "lemmas XI.* (z3 Optimize enumeration)", "status": worst, "parts": [{"part": r["name"], "status": r["status"]} for r in out], "seconds": round(sum(r["seconds"] for r in out), 3)}


def lemma_KeySoftN_mono():
    from contracts import c_rc2backends as RC

    s1, s2 = z3.Consts("s1_ks s2_ks", RC.CSoft)
    cl = z3.Const("cl_ks", RC.LClause.sort)
    n = z3.Int("n_ks")
    W = z3.Function("KeySoftN!w", RC.CSoft, RC.LClause.sort, L.Int, L.Int)
    return _prove(
        "KeySoftN.mono",
        [("", [RC.KeySoftN(s1, cl, n), z3.IsSubset(s1, s2)], RC.KeySoftN(s2, cl, n), [RC.LClause.at(cl, W(s2, cl, n))])],
        exclude=["KeySoftN.mono"],
    )


def lemma_CnfHolds_snoc():
    from pyvc import zexpr as ZX

    cnf = z3.Const("cnf_cs", LLInt.sort)
    cl = z3.Const("cl_cs", LInt.sort)
    li = z3.Int("li_cs")
    sg = z3.Const("sg_cs", ZX.ZS)
    n = z3.Int("n_cs")
    CW = z3.Function("z_CnfHolds!w", LLInt.sort, ZX.ZS, L.Int, L.Int)
    KW = z3.Function("z_ClauseHolds!w", LInt.sort, ZX.ZS, L.Int, L.Int)
    sc = LLInt.snoc(cnf, cl)
    m = LLInt.len(cnf)
    C, K = ZX.CnfHolds, ZX.ClauseHolds
    r1 = _prove(
        "CnfHolds.snoc",
        [
            ("=> old", [n == m + 1, C(sc, sg, n)], C(cnf, sg, m), [LLInt.at(sc, CW(cnf, sg, m))]),
            ("=> new", [n == m + 1, C(sc, sg, n)], K(cl, sg, LInt.len(cl)), [LLInt.at(sc, m)]),
            ("<=", [n == m + 1, C(cnf, sg, m), K(cl, sg, LInt.len(cl))], C(sc, sg, n), [LLInt.at(cnf, CW(sc, sg, n))]),
        ],
        exclude=["CnfHolds.snoc"],
    )
    sl = LInt.snoc(cl, li)
    k = LInt.len(cl)
    r2 = _prove(
        "ClauseHolds.snoc",
        [
            ("=>", [n == k + 1, K(sl, sg, n)], z3.Or(K(cl, sg, k), ZX.lt(li, sg)), [LInt.at(cl, KW(sl, sg, n))]),
            ("<= old", [n == k + 1, K(cl, sg, k)], K(sl, sg, n), [LInt.at(sl, KW(cl, sg, k))]),
            ("<= new", [n == k + 1, ZX.lt(li, sg)], K(sl, sg, n), [LInt.at(sl, k)]),
        ],
        exclude=["ClauseHolds.snoc"],
    )
    st = "proved" if r1["status"] == r2["status"] == "proved" else ("failed" if "failed" in (r1["status"], r2["status"]) else "undecided")
    return {"name": "CnfHolds.snoc / ClauseHolds.snoc", "status": st, "parts": r1["parts"] + r2["parts"], "seconds": r1["seconds"] + r2["seconds"]}


def lemma_SeenRank_step():
    """the one-step unfolding of a bound-indexed `some` predicate (here SeenRank) follows from its
    elimination / introduction axioms"""
    from contracts import c_preocf as CP

    ks = z3.Const("ks_sr", CP.LStr.sort)
    vl = z3.Const("vl_sr", z3.ArraySort(StrSort, CP._OI.sort()))
    w = z3.Const("w_sr", StrSort)
    k, n = z3.Ints("k_sr n_sr")
    P = CP.SeenRank
    W = z3.Function("SeenRank!w", CP.LStr.sort, z3.ArraySort(StrSort, CP._OI.sort()), StrSort, L.Int, L.Int, L.Int)
    v = CP._OI.wrap(z3.Select(vl, w))
    last = z3.And(CP.LStr.at(ks, n - 1) == w, z3.Not(v.isnone), v.val.t == k)
    return _prove(
        "SeenRank.step",
        [
            ("=>", [n >= 1, P(ks, vl, w, k, n)], z3.Or(P(ks, vl, w, k, n - 1), last), [CP.LStr.at(ks, W(ks, vl, w, k, n))]),
            ("<= prev", [n >= 1, P(ks, vl, w, k, n - 1)], P(ks, vl, w, k, n), [CP.LStr.at(ks, W(ks, vl, w, k, n - 1))]),
            ("<= last", [n >= 1, last], P(ks, vl, w, k, n), [CP.LStr.at(ks, n - 1)]),
        ],
        exclude=["SeenRank.step"],
    )


def lemma_step(name):
    """generic: the one-step unfolding P(.., n) = P(.., n-1) and/or body(n-1) of a bound-indexed predicate follows from
    its elimination / introduction axioms"""
    from pyvc import iterm as IT
    from pyvc import run as _run

    _run.load_contracts()  # (registers the predicates of all contract modules)

    P, W, xs, body, trig, conj = IT.STEP_PREDS[name]
    cs = [z3.Const(f"{name}_c{j}", x.sort()) for j, x in enumerate(xs)]
    n = cs[-1]
    prevargs = cs[:-1] + [n - 1]
    last = body(cs, n - 1)
    if conj:
        obl = [
            ("=> prev", [n >= 1, P(*cs)], P(*prevargs), [trig(cs, W(*prevargs))]),
            ("=> last", [n >= 1, P(*cs)], last, [trig(cs, n - 1)]),
            ("<=", [n >= 1, P(*prevargs), last], P(*cs), [trig(cs, W(*cs))]),
        ]
    else:
        obl = [
            ("=>", [n >= 1, P(*cs)], z3.Or(P(*prevargs), last), [trig(cs, W(*cs))]),
            ("<= prev", [n >= 1, P(*prevargs)], P(*cs), [trig(cs, W(*prevargs))]),
            ("<= last", [n >= 1, last], P(*cs), [trig(cs, n - 1)]),
        ]
    return _prove(name + ".step", obl, exclude=[name + ".step"])


def lemma_WofN_map():
    """LitsOK(r, bv, sig, n) and n >= 0 imply MAll(r, n) = WofN(bv, sig, n): induction on n, one unfolding per step"""
    from contracts import c_preocf as CP

    r = z3.Const("r_wm", L.LForm.sort)
    bv = z3.Const("bv_wm", StrSort)
    sig = z3.Const("sig_wm", CP.LStr.sort)
    n = z3.Int("n_wm")
    claim = lambda k: z3.Implies(CP.LitsOK(r, bv, sig, k), L.MAll(r, k) == CP.WofN(bv, sig, k))
    return _prove(
        "lemma.WofN.map",
        [
            ("base n=0", [n == 0], claim(n), []),
            ("step", [n >= 0, claim(n)], claim(n + 1), [L.LForm.at(r, n)]),
        ],
        exclude=["lemma.WofN.map"],
    )


def lemma_GVC():
    """counting lemmas for get_violated_conditional (contracts/c_gvc.py): UCount >= 0, UCount and KCount are monotone in
    the bound (inductions on the upper bound), and a flat stretch of KCount has zero contributions (from monotonicity)"""
    from contracts import c_gvc as G

    cl = z3.Const("cl_g", LLInt.sort)
    m = z3.Const("m_g", LInt.sort)
    ks = z3.Const("ks_g", LInt.sort)
    v = z3.Const("v_g", G.ValS)
    ig = z3.Const("ig_g", LInt.sort)
    a, n, p = z3.Ints("a_g n_g p_g")
    U = lambda k: G.UCount(cl, m, k)
    K = lambda k: G.KCount(ks, v, ig, m, k)
    names = ["lemma.UCount.nonneg", "lemma.UCount.mono", "lemma.KCount.mono", "lemma.KCount.flat"]
    r1 = _prove("lemma.UCount.nonneg", [("base n<=0", [n <= 0], U(n) >= 0, []), ("step", [n >= 0, U(n) >= 0], U(n + 1) >= 0, [])], exclude=names, extra_axioms=G.HITBY_DEF)
    mono_u = lambda k: z3.Implies(a <= k, U(a) <= U(k))
    r2 = _prove("lemma.UCount.mono", [("base n=a", [0 <= a, n == a], mono_u(n), []), ("step", [0 <= a, n >= 0, mono_u(n)], mono_u(n + 1), [])], exclude=names, extra_axioms=G.HITBY_DEF)
    mono_k = lambda k: z3.Implies(a <= k, K(a) <= K(k))
    nonneg = G.GVC_LEMMAS[0]
    r3 = _prove("lemma.KCount.mono", [("base n=a", [0 <= a, n == a], mono_k(n), []), ("step", [0 <= a, n >= 0, mono_k(n)], mono_k(n + 1), [])], exclude=names, extra_axioms=G.HITBY_DEF + [nonneg])
    N = LInt.len(ks)
    r4 = _prove(
        "lemma.KCount.flat",
        [("flat", [0 <= a, a <= p, p < N, K(a) == K(N)], G.contrib(ks, v, ig, m, p) == 0, [K(p), K(p + 1)])],
        exclude=names,
        extra_axioms=G.HITBY_DEF + [nonneg, G.GVC_LEMMAS[2]],
    )
    parts = r1["parts"] + r2["parts"] + r3["parts"] + r4["parts"]
    sts = [r["status"] for r in (r1, r2, r3, r4)]
    st = "proved" if all(x == "proved" for x in sts) else ("failed" if "failed" in sts else "undecided")
    return {"name": "GVC counting lemmas (UCount.nonneg, UCount.mono, KCount.mono, KCount.flat)", "status": st, "parts": parts, "seconds": sum(r["seconds"] for r in (r1, r2, r3, r4))}


def lemma_mem_at():
    mem, memw = L.mem_theory(L.Int)
    l = z3.Const("l_mat", LInt.sort)
    i = z3.Int("i_mat")
    return _prove("mem.at.Int", [("at", [0 <= i, i < LInt.len(l)], mem(l, LInt.at(l, i)), [])])


LEMMAS = {
    "HoldAll": lemma_HoldAll,
    "SumCong.Eta": lambda: lemma_SumCong("Eta"),
    "SumCong.Gm": lambda: lemma_SumCong("Gm"),
    "SumCong.Gp": lambda: lemma_SumCong("Gp"),
    "SumIV.concat": lemma_SumIV_concat,
    "mem.at.Int": lemma_mem_at,
    "CoveredUpTo.snoc": lemma_CoveredUpTo_snoc,
    "KeySoftN.mono": lemma_KeySoftN_mono,
    "SeenRank.step": lemma_SeenRank_step,
    "MargAtt.step": lambda: lemma_step("MargAtt"),
    "MargLB.step": lambda: lemma_step("MargLB"),
    "MargAny.step": lambda: lemma_step("MargAny"),
    "LitsOK.step": lambda: lemma_step("LitsOK"),
    "WofN.map": lemma_WofN_map,
    "GVC.count": lemma_GVC,
    "SeenViol.step": lambda: lemma_step("SeenViol"),
    "InKey.step": lambda: lemma_step("InKey"),
    "GenBlock.step": lambda: lemma_step("GenBlock"),
    "CnfHolds.snoc": lemma_CnfHolds_snoc,
    "MCS.bridge": lemma_MCS_bridge,
    "MCS.bridge2": lemma_MCS_bridge2,
    "XI": lemma_XI,
    "RangeList": lemma_RangeList,
    "L2a": lemma_L2a,
    "L2b": lemma_L2b,
    "lenGLs": lambda: lemma_lenGLs(PS, LCnd, LLCnd, (), ""),
    "L-stop": lambda: lemma_Lstop(PS, LCnd, (), ""),
    "L-stopk": lambda: lemma_Lstop(PSK, LInt, (z3.Const("val_ls", z3.ArraySort(L.Int, L.Cnd)),), "k"),
    "L-least": lambda: lemma_Lleast(PS, LCnd, (), ""),
    "L-leastk": lambda: lemma_Lleast(PSK, LInt, (z3.Const("val_ll", z3.ArraySort(L.Int, L.Cnd)),), "k"),
    "L-rest": lambda: lemma_Lrest(PS, LCnd, (), ""),
    "L-restk": lambda: lemma_Lrest(PSK, LInt, (z3.Const("val_lr", z3.ArraySort(L.Int, L.Cnd)),), "k"),
    "lenGLsk": lambda: lemma_lenGLs(PSK, LInt, LLInt, (z3.Const("val_l", z3.ArraySort(L.Int, L.Cnd)),), "k"),
    "mem.snoc.Int": lambda: lemma_mem_snoc(L.Int),
    "mem.nil.Int": lambda: lemma_mem_nil(L.Int),
    "mem.snoc.Str": lambda: lemma_mem_snoc(StrSort),
    "mem.nil.Str": lambda: lemma_mem_nil(StrSort),
    "Zmono": lemma_Zmono,
    "Zshrink": lemma_Zshrink,
}


def run(names):
    out = []
    for n in names:
        out.append(LEMMAS[n]())
    return out


if __name__ == "__main__":
    import sys

    from pyvc import run as R

    R.load_contracts()
    for r in run(sys.argv[1:] or list(LEMMAS)):
        print(r)
