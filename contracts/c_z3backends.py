"""Contracts: inference/conditional_z3.py (translation), system_w_z3.py, lex_inf_z3.py
(_inference level; the correction-set recursion is an ASSUMED contract, bounded by Engine B)"""
import z3

from contracts.c_inference import DeadlineT, SelfT, feas_of, q_nontrivial
from contracts.spec import PS
from pyvc import logic as L
from pyvc.contract import Contract, LoopSpec
from pyvc.logic import LCnd, LLCnd
from pyvc.values import *  # noqa

Contract(
    "inference.conditional_z3:Conditional_z3.translate_from_existing",
    params={"cls": TCallable("inference.conditional_z3:Conditional_z3"), "existing": TCnd},
    returns=TCnd,
    ensures=lambda c, r: [
        L.M(L.ant(r.t)) == L.M(L.ant(c.existing.t)),
        L.M(L.cons(r.t)) == L.M(L.cons(c.existing.t)),
    ],
    properties=["C03", "C04", "C07", "C11"],
)

for mod in ("inference.system_w_z3", "inference.lex_inf_z3"):
    Contract(
        f"{mod}:makeOptimizer",
        params={},
        returns=TSolverT,
        ensures=lambda c, r: [c.A(r) == L.FULL],
        properties=["C03", "C04"],
    )

PZ3 = TList(TList(TCnd))  # the z3 back-ends keep a list of layers of translated conditionals

# preferred-structure recursion of System W over a context H of admissible worlds
# (DESIGN §5 C03: Wrec); only its use is verified here
_WREC = z3.Function("WREC", LLCnd.sort, L.WSet, L.WSet, L.WSet, L.Int, L.Bool)


def WREC(P, q, H, i):
    """depends on the query only through its verification / falsification sets"""
    return _WREC(P, L.ver(q), L.fal(q), H, i)

# lexicographic comparison over contexts (Hv, Hf) (DESIGN §5 C04: Lspec)
_LREC = z3.Function("LREC", LLCnd.sort, L.WSet, L.WSet, L.WSet, L.WSet, L.Int, L.Bool)


def LREC(P, q, Hv, Hf, i):
    return _LREC(P, L.ver(q), L.fal(q), Hv, Hf, i)


WZ = SelfT("SystemWZ3", partition=PZ3)
LZ = SelfT("LexInfZ3", partition=PZ3)


def _Pz(c):
    return c.es("partition").t


def _idx_ok(c):
    return [0 <= c.partition_index.t, c.partition_index.t < LLCnd.len(_Pz(c))]


Contract(
    "inference.system_w_z3:SystemWZ3._rec_inference",
    params={"self": WZ, "opt": TSolverT, "partition_index": TInt, "query": TCnd},
    returns=TBool,
    requires=_idx_ok,
    ensures=lambda c, r: [r.t == WREC(_Pz(c), c.query.t, c.old.A(c.old.opt), c.partition_index.t), c.A(c.opt) == c.old.A(c.old.opt)],
    raises={"TimeoutError": lambda c: z3.BoolVal(True)},
    trusted=True,
    note="ASSUMED: the recursion over minimal correction sets computes Wrec for the optimizer's current hard set "
    "and restores the optimizer (push/pop); decided by Engine B only (C03, C07)",
)
Contract(
    "inference.lex_inf_z3:LexInfZ3._rec_inference",
    params={"self": LZ, "opt_v": TSolverT, "opt_f": TSolverT, "partition_index": TInt, "query": TCnd},
    returns=TBool,
    requires=_idx_ok,
    ensures=lambda c, r: [
        r.t == LREC(_Pz(c), c.query.t, c.old.A(c.old.opt_v), c.old.A(c.old.opt_f), c.partition_index.t)
    ],
    raises={"TimeoutError": lambda c: z3.BoolVal(True)},
    trusted=True,
    note="ASSUMED, as above (C04, C07)",
)


def _pre(c):
    return q_nontrivial(c) + [LLCnd.len(_Pz(c)) >= 1]


def _inv_last(name):
    def inv(s, j, pre):
        P = _Pz(s)
        last = LLCnd.at(P, LLCnd.len(P) - 1)
        sv = getattr(s, name)
        return [s.A(sv) == L.inter(pre.A(getattr(pre, name)), PS.K(last, j))]

    return inv


def _inv_last2(s, j, pre):
    return _inv_last("opt_v")(s, j, pre) + _inv_last("opt_f")(s, j, pre)


def _w_post(c, r):
    P, q = _Pz(c), c.query.t
    m = LLCnd.len(P)
    F = feas_of(P)
    ext = z3.If(
        z3.Or(L.isempty(L.inter(F, L.M(L.ant(q)))), L.isempty(L.inter(F, L.fal(q)))),
        True,
        z3.If(m < 2, False, WREC(P, q, F, m - 2)),
    )
    return [r.t == z3.If(c.weakly.t, ext, WREC(P, q, L.FULL, m - 1))]


def _l_post(c, r):
    P, q = _Pz(c), c.query.t
    m = LLCnd.len(P)
    F = feas_of(P)
    ext = z3.If(
        z3.Or(L.isempty(L.inter(F, L.M(L.ant(q)))), L.isempty(L.inter(F, L.fal(q)))),
        True,
        z3.If(m < 2, False, LREC(P, q, F, F, m - 2)),
    )
    return [r.t == z3.If(c.weakly.t, ext, LREC(P, q, L.FULL, L.FULL, m - 1))]


Contract(
    "inference.system_w_z3:SystemWZ3._inference",
    params={"self": WZ, "query": TCnd, "weakly": TBool, "deadline": DeadlineT},
    returns=TBool,
    requires=_pre,
    ensures=_w_post,
    raises={"TimeoutError": lambda c: z3.BoolVal(True)},
    loops={
        0: LoopSpec("for c in self.epistemic_state['partition'][-1]", _inv_last("taut_solver")),
        1: LoopSpec("for c in self.epistemic_state['partition'][-1]", _inv_last("contra_solver")),
        2: LoopSpec("for c in self.epistemic_state['partition'][-1]", _inv_last("opt")),
    },
    properties=["C03", "C07", "C11", "C14"],
)
Contract(
    "inference.lex_inf_z3:LexInfZ3._inference",
    params={"self": LZ, "query": TCnd, "weakly": TBool, "deadline": DeadlineT},
    returns=TBool,
    requires=_pre,
    ensures=_l_post,
    raises={"TimeoutError": lambda c: z3.BoolVal(True)},
    loops={
        0: LoopSpec("for c in self.epistemic_state['partition'][-1]", _inv_last("taut_solver")),
        1: LoopSpec("for c in self.epistemic_state['partition'][-1]", _inv_last("contra_solver")),
        2: LoopSpec("for c in self.epistemic_state['partition'][-1]", _inv_last2),
    },
    properties=["C04", "C07", "C11", "C14"],
)
