#!/venv/bin/python
"""write seeded/SUMMARY.md from seeded/*/meta.json"""
import glob
import json
import os

HERE = os.path.dirname(os.path.dirname(os.path.abspath(__file__)))
rows = []
for f in sorted(glob.glob(os.path.join(HERE, "seeded", "*", "meta.json"))):
    m = json.load(open(f))
    how = []
    for c, v in (m.get("checks") or {}).items():
        p = any("VIOLATION" in l and ("post" in l or "pre@call" in l or "inv." in l or "noraise" in l or "frame." in l) for l in v["lines"])
        nofail = any("no-failing-input-found" in l for l in v["lines"])
        b = any("VIOLATION" in l for l in v["lines"]) and not nofail
        und = sum(1 for l in v["lines"] if l.startswith("UNDECIDED"))
        how.append(f"{c}: exit {v['exit']}" + (" P" if p else "") + (" B" if b else "") + (f" (undecided functions: {und})" if und else ""))
    first = ""
    np = os.path.join(os.path.dirname(f), "notes.md")
    rows.append((m["name"], m["property"], "yes" if m.get("confirmed") else "NO", "; ".join(how), m.get("needs", "")))
with open(os.path.join(HERE, "seeded", "SUMMARY.md"), "w") as out:
    out.write("# Seeded changes (written by sub-agents from the property text only)\n\n")
    out.write("confirmed = suite still passes with the patch, demo fails with it and passes without (re-run here).\n\n")
    out.write("| change | property | confirmed | quick check on the mutated tree |\n|---|---|---|---|\n")
    for r in rows:
        out.write(f"| {r[0]} | {r[1]} | {r[2]} | {r[3]} |\n")
    caught = sum(1 for r in rows if "exit 1" in r[3])
    out.write(f"\n{caught} of {len(rows)} changes make the check of their property exit 1.\n")
print(open(os.path.join(HERE, "seeded", "SUMMARY.md")).read())
