"""Engine B: direct differential checks of the pure combinatorial helpers (C15, C03, C04):
remove_supersets, any_subset_of_all (four copies), get_violated_conditional,
exclude_violated.  Inputs are enumerated exhaustively for tiny universes and sampled for
larger ones -- in particular lists whose ORDER is adversarial (supersets before subsets),
which the MaxSAT loop produces only for special clause-cost patterns."""
from __future__ import annotations

import itertools
import random

from .common import merge, pmap  # noqa: F401  (sys.path side effect)


def _minimal(sets):
    fs = [frozenset(s) for s in sets]
    return {a for a in fs if not any(b < a for b in fs)}


def _asa(A, B):
    return all(any(a <= b for a in A) for b in B)


def _chunk(args):
    kind, seed, n = args
    rng = random.Random(seed)
    out = {"evaluations": 0, "fingerprints": [], "violations": [], "rejected": False}
    from inference import lex_inf, lex_inf_z3, optimizer, system_w, system_w_z3

    def bad(k, inp, exp, obs):
        out["violations"].append(dict(module="pure", kind=k, input=inp, expected=exp, observed=obs))

    if kind == "remove_supersets":
        universe = list(range(1, 5))
        subsets = [frozenset(c) for r in range(0, 4) for c in itertools.combinations(universe, r)]
        for _ in range(n):
            k = rng.randint(0, 5)
            lst = [set(rng.choice(subsets)) for _ in range(k)]
            if rng.random() < 0.5:
                lst.sort(key=len, reverse=True)  # adversarial order: supersets first
            inp = [sorted(s) for s in lst]
            try:
                got = optimizer.remove_supersets([set(s) for s in lst])
            except BaseException as e:  # noqa
                bad("remove_supersets-exception", inp, None, f"{type(e).__name__}: {e}")
                continue
            out["evaluations"] += 1
            out["fingerprints"].append(("rs", tuple(map(tuple, inp))))
            want = _minimal(lst)
            got_sets = [frozenset(x) for x in got]
            if set(got_sets) != want or len(got_sets) != len(set(got_sets)) or any(len(x) != len(set(x)) for x in got):
                bad("remove_supersets", inp, sorted(map(sorted, want)), [sorted(x) for x in got])
    elif kind == "any_subset_of_all":
        universe = list(range(1, 4))
        subsets = [frozenset(c) for r in range(0, 4) for c in itertools.combinations(universe, r)]
        fns = [system_w.any_subset_of_all, system_w_z3.any_subset_of_all, lex_inf.any_subset_of_all, lex_inf_z3.any_subset_of_all]
        for _ in range(n):
            A = frozenset(rng.sample(subsets, rng.randint(0, 3)))
            B = frozenset(rng.sample(subsets, rng.randint(0, 3)))
            want = _asa(A, B)
            for f in fns:
                got = f(A, B)
                out["evaluations"] += 1
                if got != want:
                    bad("any_subset_of_all", dict(A=[sorted(a) for a in A], B=[sorted(b) for b in B], copy=f.__module__), want, got)
            out["fingerprints"].append(("asa", A, B))
    elif kind == "violated":
        # get_violated_conditional / exclude_violated on explicit clause sets
        from pysat.card import IDPool

        for _ in range(n):
            nvars = rng.randint(2, 4)
            keys = rng.sample(range(0, 9), rng.randint(1, 3))
            nf = {}
            for k in keys:
                cl = []
                for _c in range(rng.randint(1, 3)):
                    vs = rng.sample(range(1, nvars + 1), rng.randint(1, min(2, nvars)))
                    cl.append([v if rng.random() < 0.5 else -v for v in vs])
                nf[k] = cl
            pool = IDPool(start_from=nvars + 1)
            es = {"pmaxsat_solver": "rc2", "nf_cnf_dict": nf, "pool": pool}
            opt = optimizer.OptimizerRC2(es)
            ignore = [k for k in keys if rng.random() < 0.25]
            model = [v if rng.random() < 0.5 else -v for v in range(1, nvars + 1)]
            unsat = {k: [c for c in nf[k] if not any(l in model for l in c)] for k in keys}
            cost = sum(len(unsat[k]) for k in keys if k not in ignore)
            want = {k for k in keys if k not in ignore and unsat[k]}
            got = opt.get_violated_conditional(model, cost, ignore)
            out["evaluations"] += 1
            out["fingerprints"].append(("gv", tuple(sorted((k, tuple(map(tuple, v))) for k, v in nf.items())), tuple(model), tuple(ignore)))
            inp = dict(nf={str(k): v for k, v in nf.items()}, model=model, cost=cost, ignore=ignore)
            if got != want:
                bad("get_violated_conditional", inp, sorted(want), sorted(got))
            if want:
                # blocking clauses: an assignment (extended by SOME helper values) satisfies them iff
                # it satisfies every clause of nf[k] for at least one k in `want`
                clauses = opt.exclude_violated(set(want))
                helpers = sorted({abs(l) for c in clauses for l in c} - set(range(1, nvars + 1)))
                for bits in itertools.product([False, True], repeat=nvars):
                    asg = {v: bits[v - 1] for v in range(1, nvars + 1)}
                    sem = any(all(any(asg[abs(l)] == (l > 0) for l in c) for c in nf[k]) for k in want)
                    ok = False
                    for hb in itertools.product([False, True], repeat=len(helpers)):
                        full = dict(asg)
                        full.update(dict(zip(helpers, hb)))
                        if all(any(full[abs(l)] == (l > 0) for l in c) for c in clauses):
                            ok = True
                            break
                    out["evaluations"] += 1
                    if ok != sem:
                        bad("exclude_violated", dict(inp, assignment=[int(b) for b in bits], violated=sorted(want)), sem, ok)
                        break
    return out


def run(tier, seed):
    n = 400 if tier == "quick" else 6000
    items = []
    for kind in ("remove_supersets", "any_subset_of_all", "violated"):
        for i in range(16):
            items.append((kind, seed * 100 + i, n // 4 if kind == "violated" else n))
    res = merge(pmap(_chunk, items))
    res["scope"] = (
        f"pure helpers: remove_supersets on {16 * n} random lists of <= 5 subsets of a 4-element universe (half in adversarial order), "
        f"any_subset_of_all (4 copies) on {16 * n} random pairs of families, get_violated_conditional / exclude_violated on {16 * (n // 4)} random clause sets with all assignments"
    )
    res["samples"] = [dict(kind=k, chunk_seed=s, n=m) for k, s, m in items[:2]]
    return res


def replay(v):
    k = v["kind"]
    from inference import optimizer

    if k.startswith("remove_supersets"):
        lst = [set(x) for x in v["input"]]
        got = optimizer.remove_supersets([set(s) for s in lst])
        want = _minimal(lst)
        gs = [frozenset(x) for x in got]
        return {"violates": set(gs) != want or len(gs) != len(set(gs)), "observed": [sorted(x) for x in got]}
    return {"violates": False, "note": "replay by re-running the chunk: ./check with the same seed"}
