"""Engine B for C10: the parser yields exactly the documented meaning, or rejects.

The oracle is a small hand-written lexer + recursive-descent parser that follows
docs/CL_SYNTAX.md (precedence ! > , > ;  parentheses, Top/Bottom, Java comments) and the
token / layout rules of parser/CKB.g4 (ID, WS, COMMENT, BLOCKCOMMENT, NEWLINE and the
places where NEWLINE may occur).  It shares no code with the ANTLR-generated parser or with
myVisitor.  Meaning is compared by truth table only (associativity is irrelevant).

Every judgement is a function of (entry, text) alone -> `judge(entry, text)`; `replay`
re-runs exactly that.  An exception of the checker itself (e.g. the reference disagreeing
with the generator that produced a text) is an AssertionError and propagates.
"""
from __future__ import annotations

import hashlib
import itertools
import random

from .common import pmap  # also puts /repo and /verif on sys.path and silences logging

MODULE = "c10"
MAX_VIOL_PER_WORKER = 25
MAX_VIOLATIONS = 200


# ===========================================================================
# reference lexer / parser (the oracle)
# ===========================================================================
class Reject(Exception):
    """the reference does not accept the text"""


_LETTERS = "abcdefghijklmnopqrstuvwxyzABCDEFGHIJKLMNOPQRSTUVWXYZ"
_IDCHARS = _LETTERS + "0123456789_-"
_PUNCT = "!,;()|{}"
_KEYWORDS = ("signature", "conditionals")


def _lex(text):
    """list of (kind, value); kinds: 'ID', 'KW', 'NL', one punctuation character, 'EOF'"""
    toks = []
    i, n = 0, len(text)
    while i < n:
        ch = text[i]
        if ch == " " or ch == "\t":
            i += 1
        elif ch == "\n":
            toks.append(("NL", "\n"))
            i += 1
        elif ch == "\r":
            i += 2 if text[i + 1 : i + 2] == "\n" else 1
            toks.append(("NL", "\n"))
        elif ch == "/":
            nxt = text[i + 1 : i + 2]
            if nxt == "/":  # line comment: up to, not including, the line end
                i += 2
                while i < n and text[i] not in "\r\n":
                    i += 1
            elif nxt == "*":  # block comment: up to the first '*/'
                j = text.find("*/", i + 2)
                if j < 0:
                    raise Reject("unterminated block comment")
                i = j + 2
            else:
                raise Reject("illegal character '/'")
        elif ch in _LETTERS:
            j = i + 1
            while j < n and text[j] in _IDCHARS:
                j += 1
            word = text[i:j]
            toks.append(("KW" if word in _KEYWORDS else "ID", word))
            i = j
        elif ch in _PUNCT:
            toks.append((ch, ch))
            i += 1
        else:
            raise Reject(f"illegal character {ch!r}")
    toks.append(("EOF", None))
    return toks


class _P:
    def __init__(self, toks):
        self.t = toks
        self.i = 0

    def kind(self):
        return self.t[self.i][0]

    def val(self):
        return self.t[self.i][1]

    def expect(self, kind):
        if self.t[self.i][0] != kind:
            raise Reject(f"expected {kind} got {self.t[self.i]}")
        v = self.t[self.i][1]
        self.i += 1
        return v

    def expect_kw(self, word):
        if self.t[self.i] != ("KW", word):
            raise Reject(f"expected keyword {word} got {self.t[self.i]}")
        self.i += 1

    def skip_nl(self):
        while self.t[self.i][0] == "NL":
            self.i += 1

    def nl_plus(self):
        self.expect("NL")
        self.skip_nl()

    # formula :=  disj ;  ';' loosest, ',' tighter, '!' tightest, parentheses, Top/Bottom
    def formula(self):
        left = self.conj()
        while self.kind() == ";":
            self.i += 1
            left = ("or", left, self.conj())
        return left

    def conj(self):
        left = self.neg()
        while self.kind() == ",":
            self.i += 1
            left = ("and", left, self.neg())
        return left

    def neg(self):
        k = self.kind()
        if k == "!":
            self.i += 1
            return ("not", self.neg())
        if k == "(":
            self.i += 1
            f = self.formula()
            self.expect(")")
            return f
        if k == "ID":
            v = self.val()
            self.i += 1
            if v == "Top":
                return ("top",)
            if v == "Bottom":
                return ("bot",)
            return ("var", v)
        raise Reject(f"formula cannot start with {self.t[self.i]}")

    def cond(self):
        self.expect("(")
        b = self.formula()  # consequent BEFORE the bar
        self.expect("|")
        a = self.formula()  # antecedent AFTER the bar
        self.expect(")")
        return (b, a)

    def condlist(self):
        out = []
        while True:
            out.append(self.cond())
            if self.kind() == ",":
                self.i += 1
                self.skip_nl()
                continue
            self.skip_nl()
            return out

    def block(self):
        self.expect_kw("conditionals")
        self.nl_plus()
        name = self.expect("ID")
        self.skip_nl()
        self.expect("{")
        self.skip_nl()
        conds = []
        if self.kind() == "}":
            self.i += 1
        else:
            conds = self.condlist()
            self.expect("}")
        return (name, conds)


def ref_formula(text):
    p = _P(_lex(text))
    f = p.formula()
    p.skip_nl()  # trailing newlines after a complete formula are tolerated
    p.expect("EOF")
    return f


def ref_base(text):
    """-> (signature list, [(name, [(B, A), ...]), ...])"""
    p = _P(_lex(text))
    p.skip_nl()
    p.expect_kw("signature")
    p.nl_plus()
    sig = [p.expect("ID")]
    while p.kind() == ",":
        p.i += 1
        sig.append(p.expect("ID"))
    p.expect("NL")
    if len(set(sig)) != len(sig):
        raise Reject("duplicate signature atom")
    if "Top" in sig or "Bottom" in sig:
        raise Reject("constant in signature")
    blocks = []
    while True:
        p.skip_nl()
        if p.t[p.i] == ("KW", "conditionals"):
            blocks.append(p.block())
        else:
            break
    if not blocks:
        raise Reject("no conditionals block")
    p.expect("EOF")
    return sig, blocks


def ref_queries(text):
    """a query list '(B|A),(B|A)...' (newlines allowed after a comma and around the list),
    or - as parse_queries documents - a complete belief base whose conditionals are the queries"""
    try:
        p = _P(_lex(text))
        p.skip_nl()
        conds = p.condlist()
        p.expect("EOF")
        return conds, "list"
    except Reject:
        sig, blocks = ref_base(text)
        return blocks[0][1], "base" if len(blocks) == 1 else "multi"


def ast_atoms(f, acc=None):
    acc = set() if acc is None else acc
    if f[0] == "var":
        acc.add(f[1])
    else:
        for x in f[1:]:
            ast_atoms(x, acc)
    return acc


def ast_ev(f, w):
    k = f[0]
    if k == "var":
        return w[f[1]]
    if k == "top":
        return True
    if k == "bot":
        return False
    if k == "not":
        return not ast_ev(f[1], w)
    if k == "and":
        return ast_ev(f[1], w) and ast_ev(f[2], w)
    if k == "or":
        return ast_ev(f[1], w) or ast_ev(f[2], w)
    raise AssertionError(f)


def ast_text(f):
    k = f[0]
    if k == "var":
        return f[1]
    if k == "top":
        return "Top"
    if k == "bot":
        return "Bottom"
    if k == "not":
        return "!" + ast_text(f[1])
    return "(" + ast_text(f[1]) + (" , " if k == "and" else " ; ") + ast_text(f[2]) + ")"


# ===========================================================================
# the real parser
# ===========================================================================
def _real(entry, text):
    from parser import Wrappers

    return getattr(Wrappers, entry)(text)


def _call(entry, text):
    """-> (True, result) | (False, 'ExcType: msg')"""
    try:
        return True, _real(entry, text)
    except RecursionError:
        raise
    except Exception as e:  # the real parser rejects by raising
        return False, f"{type(e).__name__}: {str(e)[:160]}"


def _same_meaning(real_f, ast):
    """truth tables of the pysmt formula and the reference AST over the union of their atoms"""
    from pysmt.shortcuts import get_free_variables

    from oracle.core import ev

    atoms = set(ast_atoms(ast))
    try:
        atoms |= {v.symbol_name() for v in get_free_variables(real_f)}
    except Exception:
        return False
    atoms = sorted(atoms)
    if len(atoms) > 14:
        raise AssertionError("checker: too many atoms for a truth table")
    for bits in itertools.product((False, True), repeat=len(atoms)):
        w = dict(zip(atoms, bits))
        try:
            if bool(ev(real_f, w)) != ast_ev(ast, w):
                return False
        except (ValueError, KeyError, AttributeError):
            return False
    return True


def _viol(kind, entry, text, expected, observed):
    return {"module": MODULE, "kind": kind, "input": {"text": text, "entry": entry}, "expected": expected, "observed": observed}


def _conds_text(conds):
    return [f"({ast_text(b)} | {ast_text(a)})" for b, a in conds]


def _check_conditionals(entry, text, got, want, out):
    """got: dict key->Conditional from the real parser; want: [(B,A)] from the reference"""
    keys = list(got.keys())
    n = len(want)
    if keys != list(range(1, n + 1)) or any(type(k) is not int for k in keys):
        out["violations"].append(_viol("wrong-structure", entry, text, f"keys 1..{n} in file order", f"keys {keys!r}"))
        return
    for k, (b, a) in zip(keys, want):
        c = got[k]
        okb, oka = _same_meaning(c.consequence, b), _same_meaning(c.antecedence, a)
        if not (okb and oka):
            swapped = _same_meaning(c.consequence, a) and _same_meaning(c.antecedence, b)
            out["violations"].append(
                _viol(
                    "wrong-structure" if swapped else "wrong-meaning",
                    entry,
                    text,
                    f"conditional {k} = ({ast_text(b)} | {ast_text(a)})",
                    f"conditional {k}: consequence {c.consequence}, antecedence {c.antecedence}" + (" (consequent/antecedent swapped)" if swapped else ""),
                )
            )
            continue
        # text representation re-parses to an equivalent conditional
        rep = str(c)
        atoms = sorted(ast_atoms(b) | ast_atoms(a)) or ["a"]
        wrapped = "signature\n" + ",".join(atoms) + "\nconditionals\nrt{\n" + rep + "\n}"
        ok, res = _call("parse_belief_base", wrapped)
        out["evaluations"] += 1
        good = False
        if ok:
            cs = getattr(res, "conditionals", None)
            if isinstance(cs, dict) and list(cs.keys()) == [1]:
                good = _same_meaning(cs[1].consequence, b) and _same_meaning(cs[1].antecedence, a)
            res = {kk: f"({cc.consequence} | {cc.antecedence})" for kk, cc in cs.items()} if isinstance(cs, dict) else repr(res)
        if not good:
            out["violations"].append(
                _viol("roundtrip", entry, text, f"str(conditional {k}) = {rep!r} re-parses to ({ast_text(b)} | {ast_text(a)})", f"re-parse gave {res}")
            )


def judge(entry, text):
    """judge ONE input of ONE entry point of the real parser against the reference.
    -> dict(evaluations, violations, ref_ok, real_ok, note)"""
    out = {"evaluations": 1, "violations": [], "ref_ok": False, "real_ok": False, "note": None}
    try:
        if entry == "parse_formula":
            ref = ref_formula(text)
        elif entry == "parse_belief_base":
            ref = ref_base(text)
        elif entry == "parse_queries":
            ref = ref_queries(text)
        else:
            raise AssertionError(f"unknown entry {entry}")
        out["ref_ok"] = True
    except Reject as e:
        ref = None
        why = str(e)
    ok, res = _call(entry, text)
    out["real_ok"] = ok
    if ref is None:
        if ok:
            shown = str(res) if entry == "parse_formula" else {k: str(c) for k, c in getattr(res, "conditionals", {}).items()}
            out["violations"].append(_viol("accepts-malformed", entry, text, f"rejected ({why})", f"accepted as {shown}"))
        return out
    if not ok:
        if entry == "parse_queries" and "conditionals" in text and ref[1] == "list":
            # parse_queries_from_str routes every text containing the word 'conditionals' (even inside a
            # comment or an atom name) to the belief-base parser, which then rejects a bare query list.
            # A rejection is allowed by the property ("... or rejects"): observation, not a violation.
            out["note"] = "query-list-containing-word-conditionals-rejected"
            return out
        out["violations"].append(_viol("rejects-wellformed", entry, text, "accepted" if entry != "parse_formula" else f"accepted as {ast_text(ref)}", res))
        return out
    if entry == "parse_formula":
        if not _same_meaning(res, ref):
            out["violations"].append(_viol("wrong-meaning", entry, text, ast_text(ref), str(res)))
        return out
    if entry == "parse_belief_base":
        sig, blocks = ref
        got_sig = getattr(res, "signature", None)
        if not isinstance(got_sig, list) or got_sig != sig:
            out["violations"].append(_viol("wrong-structure", entry, text, f"signature {sig}", f"signature {got_sig!r}"))
        if len(blocks) > 1:
            # several 'conditionals' blocks are grammatical; which of them a "parsed base" is, the
            # property does not say -> only the signature is judged, the case is recorded.
            out["note"] = "multi-block"
            return out
        want = blocks[0][1]
    else:
        want, how = ref
        if how == "multi":
            out["note"] = "multi-block"
            return out
    got = getattr(res, "conditionals", None)
    if not isinstance(got, dict):
        out["violations"].append(_viol("wrong-structure", entry, text, "a dict of conditionals", repr(got)))
        return out
    _check_conditionals(entry, text, got, want, out)
    return out


def replay(v):
    inp = v["input"]
    r = judge(inp["entry"], inp["text"])
    kinds = [x["kind"] for x in r["violations"]]
    same = [x for x in r["violations"] if x["kind"] == v.get("kind")]
    return {
        "violates": bool(r["violations"]),
        "same_kind": bool(same),
        "kinds": kinds,
        "observed": (same or r["violations"] or [{"observed": f"reference accepts={r['ref_ok']}, real accepts={r['real_ok']}: no disagreement"}])[0]["observed"],
    }


# ===========================================================================
# bookkeeping shared by the workers
# ===========================================================================
def _fp(entry, text):
    return hashlib.sha1((entry + "\0" + text).encode("utf-8", "surrogatepass")).hexdigest()[:16]


def _new():
    return {"evaluations": 0, "fingerprints": [], "violations": [], "nviol": 0, "stats": {}, "samples": []}


def _bump(acc, key, n=1):
    acc["stats"][key] = acc["stats"].get(key, 0) + n


def _absorb(acc, entry, text, r, tag, variant=False):
    """fold one judge() result into a worker accumulator"""
    acc["evaluations"] += r["evaluations"]
    if r["ref_ok"] or r["real_ok"] or variant:
        acc["fingerprints"].append(_fp(entry, text))
    _bump(acc, f"{tag}:{'ref+' if r['ref_ok'] else 'ref-'}{'real+' if r['real_ok'] else 'real-'}")
    if r["note"]:
        _bump(acc, "note:" + r["note"])
    acc["nviol"] += len(r["violations"])
    for x in r["violations"]:
        _bump(acc, "violation:" + x["kind"] + ":" + entry)
        if len(acc["violations"]) < MAX_VIOL_PER_WORKER:
            acc["violations"].append(x)


# ===========================================================================
# part 1: exhaustive short token strings
# ===========================================================================
ALPHABET = ["a", "b", "Top", "Bottom", "!", ",", ";", "(", ")"]


def _w_exhaustive(item):
    length, prefix, joiner = item
    acc = _new()
    tag = "exh-sp" if joiner == " " else "exh-nosp"
    for suffix in itertools.product(ALPHABET, repeat=length - len(prefix)):
        text = joiner.join(prefix + suffix)
        r = judge("parse_formula", text)
        _absorb(acc, "parse_formula", text, r, tag)
    return acc


def _exhaustive_items(maxlen, maxlen_nosp):
    items = []
    for joiner, top in ((" ", maxlen), ("", maxlen_nosp)):
        for length in range(1, top + 1):
            plen = min(length, 2) if length < 6 else 3
            for prefix in itertools.product(ALPHABET, repeat=plen):
                items.append((length, prefix, joiner))
    return items


# ===========================================================================
# generators
# ===========================================================================
ATOM_POOL = ["a", "b", "c", "d", "e", "f", "x1", "p_2", "Q-r", "aB3", "top", "bottom", "Topp", "Bottom_", "TOP", "signature1", "sig", "z9_-", "A"]
H_SEPS = ["", "", "", " ", " ", "  ", "\t", " \t ", "/**/", " /* c */ ", "/* a,b;(|} */", "/* line1\n line2 */", "/* // */", "/***/", " /* * / */ "]
NL_TOKS = ["\n", "\n", "\n", "\r\n", "\r", "//c\n", " // x, (y|z) } signature\n", "// /* open\n", "\n\n"]
ILLEGAL = ["#", "&", "|", "&&", "||", "~", "-", "^", "@", ".", ":", "=", "<", ">", "*", "/", "+", '"', "'", "[", "]", "\\", "_", "1", "?", "%", "$", "{", "}", "\x0c", "\xa0", "\u2028", "\x85", "\u00e9", "\u0660", "->", "*/"]


CHARSET = "ab1_-!,;()|{} \t\n\r/*#&TB"


def char_edits(rng, text, k=2):
    """k single-character edits (delete / insert / replace) of a well-formed text; the reference decides each"""
    out = []
    for _ in range(k):
        r = rng.random()
        if r < 0.34 and text:
            i = rng.randrange(len(text))
            out.append(("char-deleted", text[:i] + text[i + 1 :]))
        elif r < 0.67:
            i = rng.randint(0, len(text))
            out.append(("char-inserted", text[:i] + rng.choice(CHARSET) + text[i:]))
        elif text:
            i = rng.randrange(len(text))
            out.append(("char-replaced", text[:i] + rng.choice(CHARSET) + text[i + 1 :]))
    return out


def rnd_ast(rng, atoms, depth):
    if depth <= 0 or rng.random() < 0.22:
        r = rng.random()
        if r < 0.07:
            return ("top",)
        if r < 0.14:
            return ("bot",)
        return ("var", rng.choice(atoms))
    r = rng.random()
    if r < 0.25:
        return ("not", rnd_ast(rng, atoms, depth - 1))
    left, right = rnd_ast(rng, atoms, depth - 1), rnd_ast(rng, atoms, depth - 1)
    return ("and" if r < 0.63 else "or", left, right)


_PREC = {"or": 1, "and": 2, "not": 3, "var": 4, "top": 4, "bot": 4}


def render(rng, f, ctx, out, redundant=0.12):
    """tokens of a text that denotes f under the DOCUMENTED precedences (parentheses only where
    needed, plus some redundant ones)"""
    k = f[0]
    paren = _PREC[k] < ctx or rng.random() < redundant
    if paren:
        out.append("(")
    if k == "var":
        out.append(f[1])
    elif k == "top":
        out.append("Top")
    elif k == "bot":
        out.append("Bottom")
    elif k == "not":
        out.append("!")
        render(rng, f[1], 3, out, redundant)
    elif k == "and":
        render(rng, f[1], 2, out, redundant)
        out.append(",")
        render(rng, f[2], 2, out, redundant)
    else:
        render(rng, f[1], 1, out, redundant)
        out.append(";")
        render(rng, f[2], 1, out, redundant)
    if paren:
        out.append(")")
    return out


def join_tokens(rng, toks, plain=False):
    if plain:
        return " ".join(toks)
    parts = []
    for i, t in enumerate(toks):
        if i:
            parts.append(rng.choice(H_SEPS))
        parts.append(t)
    return "".join(parts)


def _equal_tt(f, g):
    atoms = sorted(ast_atoms(f) | ast_atoms(g))
    return all(ast_ev(f, w) == ast_ev(g, w) for bits in itertools.product((False, True), repeat=len(atoms)) for w in [dict(zip(atoms, bits))])


def _is_id(t):
    return t[0] in _LETTERS


def mutate_formula_tokens(rng, toks):
    """-> list of (class, text) malformed-by-intent variants; the reference decides each"""
    out = []
    n = len(toks)

    def j(ts):
        return join_tokens(rng, ts, plain=rng.random() < 0.5)

    out.append(("trailing-token", j(toks + [rng.choice(["b", ")", "(", "!", ",", ";", "|", "}", "{", "Top", "a b", ") )", "signature"])])))
    seps = [i for i, t in enumerate(toks) if t in ",;"]
    if seps:
        i = rng.choice(seps)
        out.append(("deleted-separator", j(toks[:i] + toks[i + 1 :])))
        out.append(("replaced-operator", j(toks[:i] + [rng.choice(["&", "|", "&&", "||", "^", "+", "*", "->", ".", ":"])] + toks[i + 1 :])))
    ill = rng.choice(ILLEGAL)
    pos = rng.randint(0, n)
    out.append(("illegal-character", j(toks[:pos] + [ill] + toks[pos:])))
    ids = [i for i, t in enumerate(toks) if _is_id(t)]
    if ids:
        i = rng.choice(ids)
        ill = rng.choice(ILLEGAL)
        glued = rng.choice([toks[i] + ill, ill + toks[i], toks[i] + ill + "x"])
        out.append(("illegal-character-in-name", j(toks[:i] + [glued] + toks[i + 1 :])))
        out.append(("keyword-as-atom", j(toks[:i] + [rng.choice(_KEYWORDS)] + toks[i + 1 :])))
    parens = [i for i, t in enumerate(toks) if t in "()"]
    if parens and rng.random() < 0.6:
        i = rng.choice(parens)
        out.append(("unbalanced-parenthesis", j(toks[:i] + toks[i + 1 :])))
    else:
        pos = rng.randint(0, n)
        out.append(("unbalanced-parenthesis", j(toks[:pos] + [rng.choice("()")] + toks[pos:])))
    if n >= 2:
        pos = rng.randint(1, n - 1)
        out.append(("newline-inside", j(toks[:pos] + [rng.choice(NL_TOKS)] + toks[pos:])))
    out.append(("leading-newline", rng.choice(["\n", "\r\n", "//c\n"]) + j(toks)))
    r = rng.random()
    i = rng.randrange(n)
    if r < 0.3:
        out.append(("deleted-token", j(toks[:i] + toks[i + 1 :])))
    elif r < 0.6:
        out.append(("duplicated-token", j(toks[: i + 1] + toks[i:])))
    elif n >= 2:
        i = rng.randrange(n - 1)
        out.append(("swapped-tokens", j(toks[:i] + [toks[i + 1], toks[i]] + toks[i + 2 :])))
    if rng.random() < 0.3:
        pos = rng.randint(0, n)
        out.append(("unterminated-comment", j(toks[:pos] + [rng.choice(["/*", "/* x", "/*/"])] + toks[pos:])))
    return out


def _w_formulas(item):
    seed, count = item
    rng = random.Random(seed)
    acc = _new()
    for _ in range(count):
        atoms = rng.sample(ATOM_POOL, rng.randint(1, 4))
        ast = rnd_ast(rng, atoms, rng.randint(1, 6))
        toks = render(rng, ast, 0, [])
        lead = rng.choice(["", "", " ", "\t", "/* lead */", " /* l\n */ "])
        trail = rng.choice(["", "", " ", "\n", "\r\n", "\n\n \n", " // done", " // done\n", "/* t */", "\t/* t */\n//x", "\r"])
        text = lead + join_tokens(rng, toks) + trail
        # self-check of the oracle: the reference reads the generated text as the generated formula
        try:
            back = ref_formula(text)
        except Reject as e:
            raise AssertionError(f"checker: reference rejects a generated well-formed formula {text!r}: {e}")
        if not _equal_tt(back, ast):
            raise AssertionError(f"checker: reference misreads {text!r}")
        r = judge("parse_formula", text)
        _absorb(acc, "parse_formula", text, r, "rnd-formula")
        if len(acc["samples"]) < 1:
            acc["samples"].append({"entry": "parse_formula", "text": text, "reference": ast_text(back), "real_accepts": r["real_ok"], "violations": len(r["violations"])})
        for cls, mtext in mutate_formula_tokens(rng, toks) + char_edits(rng, text):
            r = judge("parse_formula", mtext)
            _absorb(acc, "parse_formula", mtext, r, "mut-formula", variant=True)
            if not r["ref_ok"]:
                _bump(acc, "malformed-class:" + cls)
    return acc


FIXED_FORMULAS = ["", " ", "\t", "\n", "// only a comment", "/* only */", "()", "!", "Top Bottom", "a,", ";a", "(a", "a)", "! !", "a ! b", "(a)(b)", "a , , b", "Top()", "a /* x", "a */", "signature", "conditionals", "(a|b)", "a|b", "{a}", "a\n", "a\n\n", "a //c\n", "a\r\n", "!!a", "!a,b;c", "a;b,c", "a,b;c", "!(a;b),c", "Top;Bottom", "!Top", "top", "a1_-"]
FIXED_QUERIES = [
    "(b|a),(c|a)",
    "(b|a)",
    "(f|p),\n(w|p)\n",
    "(b|a) (c|a)",
    "",
    " \n ",
    "(b|a),",
    "(b|a)}\n",
    "(b|a)\n}\n junk{",
    "signature\n a,b\nconditionals\nq{\n(b|a),\n(a|b)\n}",
    # observation only (see judge): the word 'conditionals' inside a well-formed query list
    "(b|a) // conditionals of the birds base",
    "(conditionalsX|a)",
]
FIXED_BASES = [
    "signature\n   b, p, f, w\n\nconditionals\nbirds005{\n   (f | b),\n   (!f | p),\n   (b | p),\n   (w | b)\n}\n",  # the documented example
    "signature\n a,b\nconditionals\nkb{ }",
    "signature\n a,b\nconditionals\nkb{}\n",
    "signature\n a,b\nconditionals\nkb{(b|a)} junk (",
    "signature\n a,b\nconditionals\nkb{(b|a)}\n)))",
    "signature\n a,b\nconditionals\nkb{(b|a)(a|b)}",
    "signature\n a,b\nconditionals\nkb{(b a)}",
    "signature\n a,a\nconditionals\nkb{(b|a)}",
    "signature\n a,Top\nconditionals\nkb{(b|a)}",
    "signature\n a,b\nconditionals\nkb{(b|a)",
    "signature\n a,b\nconditionals\nkb{(b|a)}\nsignature\n a\nconditionals\nk2{(a|a)}",
    "signature\n a,b\n",
    "",
]


def _w_fixed(_item):
    acc = _new()
    for entry, texts in (("parse_formula", FIXED_FORMULAS), ("parse_queries", FIXED_QUERIES), ("parse_belief_base", FIXED_BASES)):
        for text in texts:
            r = judge(entry, text)
            _absorb(acc, entry, text, r, "fixed-" + entry, variant=True)
    return acc


# ---------------------------------------------------------------------------
# belief bases and query lists
# ---------------------------------------------------------------------------
def _nl_run(rng, lo, hi=2):
    return [("nl", rng.choice(NL_TOKS)) for _ in range(rng.randint(lo, hi))]


def _cond_tokens(rng, b, a):
    ts = [("c_open", "(")]
    ts += [("f", t) for t in render(rng, b, 0, [])]
    ts.append(("c_bar", "|"))
    ts += [("f", t) for t in render(rng, a, 0, [])]
    ts.append(("c_close", ")"))
    return ts


def _condlist_tokens(rng, conds):
    ts = []
    for i, (b, a) in enumerate(conds):
        if i:
            ts.append(("c_comma", ","))
            ts += _nl_run(rng, 0, 2)
        ts += _cond_tokens(rng, b, a)
    return ts


def base_tokens(rng, sig, name, conds):
    ts = _nl_run(rng, 0, 1) if rng.random() < 0.3 else []
    ts.append(("kw_sig", "signature"))
    ts += _nl_run(rng, 1, 2)
    for i, s in enumerate(sig):
        if i:
            ts.append(("sig_comma", ","))
        ts.append(("sig_id", s))
    ts.append(("sig_nl", rng.choice(NL_TOKS)))
    ts += _nl_run(rng, 0, 1)
    ts.append(("kw_cond", "conditionals"))
    ts += _nl_run(rng, 1, 2)
    ts.append(("name", name))
    ts += _nl_run(rng, 0, 1)
    ts.append(("open", "{"))
    ts += _nl_run(rng, 0, 2)
    ts += _condlist_tokens(rng, conds)
    if conds:
        ts += _nl_run(rng, 0, 2)
    ts.append(("close", "}"))
    ts += _nl_run(rng, 0, 2)
    return ts


def join_kinded(rng, ts, plain=False):
    parts = []
    for i, (k, t) in enumerate(ts):
        if i:
            parts.append(" " if plain and k != "nl" else ("" if plain else rng.choice(H_SEPS)))
        parts.append(t)
    return "".join(parts)


def _idx(ts, *kinds):
    return [i for i, (k, _) in enumerate(ts) if k in kinds]


JUNK = ["junk", ")", "(", "}", "{", ",", "(a|b)", "signature", "#", "a,b", "conditionals", "kb2{(a|b)}", "|", "!"]
# classes the task names explicitly: by construction malformed, the reference MUST reject them
MUST_REJECT = {"junk-after-brace", "missing-comma", "missing-bar", "duplicate-signature-atom", "constant-in-signature", "missing-closing-brace", "second-signature-block"}


def mutate_base_tokens(rng, ts, sig):
    out = []

    def without(i):
        return ts[:i] + ts[i + 1 :]

    def with_at(i, *new):
        return ts[:i] + list(new) + ts[i:]

    out.append(("junk-after-brace", ts + [("junk", rng.choice(JUNK))]))
    commas = _idx(ts, "c_comma")
    if commas:
        out.append(("missing-comma", without(rng.choice(commas))))
        out.append(("newline-before-comma", with_at(rng.choice(commas), ("nl", "\n"))))
        i = rng.choice(commas)
        out.append(("double-comma", with_at(i, ("c_comma", ","))))
    bars = _idx(ts, "c_bar")
    if bars:
        i = rng.choice(bars)
        out.append(("missing-bar", without(i)))
        out.append(("bar-replaced", ts[:i] + [("junk", rng.choice([",", ";", "||", "/", ":", "|!|"]))] + ts[i + 1 :]))
        inner = [i for i in range(1, len(ts)) if ts[i][0] in ("f", "c_bar", "c_close")]
        out.append(("newline-inside-conditional", with_at(rng.choice(inner), ("nl", rng.choice(NL_TOKS)))))
        closes = _idx(ts, "c_close")
        out.append(("trailing-comma", with_at(closes[-1] + 1, ("c_comma", ","))))
        i = rng.choice(_idx(ts, "c_open"))
        out.append(("missing-open-parenthesis", without(i)))
        out.append(("missing-close-parenthesis", without(rng.choice(closes))))
        i = rng.choice(_idx(ts, "c_open"))
        out.append(("double-parenthesised-conditional", with_at(i, ("junk", "("))))
    sid = _idx(ts, "sig_id")
    i = rng.choice(sid)
    out.append(("duplicate-signature-atom", with_at(i + 1, ("sig_comma", ","), ("sig_id", rng.choice(sig)))))
    i = rng.choice(sid)
    const = rng.choice(["Top", "Bottom"])
    out.append(("constant-in-signature", with_at(i + 1, ("sig_comma", ","), ("sig_id", const)) if rng.random() < 0.5 else with_at(i, ("sig_id", const), ("sig_comma", ","))))
    out.append(("missing-closing-brace", without(_idx(ts, "close")[0])))
    second = [("nl", "\n"), ("kw_sig", "signature"), ("nl", "\n"), ("sig_id", sig[0]), ("sig_nl", "\n"), ("kw_cond", "conditionals"), ("nl", "\n"), ("name", "second"), ("open", "{"), ("c_open", "("), ("f", sig[0]), ("c_bar", "|"), ("f", sig[0]), ("c_close", ")"), ("close", "}")]
    out.append(("second-signature-block", ts + second if rng.random() < 0.7 else ts + second[:5]))
    out.append(("missing-opening-brace", without(_idx(ts, "open")[0])))
    out.append(("missing-name", without(_idx(ts, "name")[0])))
    out.append(("missing-keyword", without(rng.choice(_idx(ts, "kw_sig", "kw_cond")))))
    sc = _idx(ts, "sig_comma")
    if sc:
        out.append(("signature-over-two-lines", with_at(rng.choice(sc) + 1, ("nl", "\n"))))
        out.append(("signature-missing-comma", without(rng.choice(sc))))
    out.append(("signature-trailing-comma", with_at(sid[-1] + 1, ("sig_comma", ","))))
    out.append(("signature-line-not-terminated", without(_idx(ts, "sig_nl")[0])))
    # remove the mandatory newline run after a keyword
    kw = rng.choice(_idx(ts, "kw_sig", "kw_cond"))
    j = kw + 1
    while j < len(ts) and ts[j][0] == "nl":
        j += 1
    out.append(("no-newline-after-keyword", ts[: kw + 1] + ts[j:]))
    out.append(("illegal-character", with_at(rng.randint(0, len(ts)), ("junk", rng.choice(ILLEGAL)))))
    out.append(("keyword-as-name", [(k, (rng.choice(_KEYWORDS) if k == "name" else t)) for k, t in ts]))
    i = rng.randrange(len(ts))
    out.append(("deleted-token", without(i)))
    i = rng.randrange(len(ts))
    out.append(("duplicated-token", with_at(i, ts[i])))
    if len(ts) >= 2:
        i = rng.randrange(len(ts) - 1)
        out.append(("swapped-tokens", ts[:i] + [ts[i + 1], ts[i]] + ts[i + 2 :]))
    out.append(("unterminated-comment", with_at(rng.randint(0, len(ts)), ("junk", "/*"))))
    return out


def mutate_query_tokens(rng, ts):
    out = []

    def without(i):
        return ts[:i] + ts[i + 1 :]

    def with_at(i, *new):
        return ts[:i] + list(new) + ts[i:]

    out.append(("junk-after-list", ts + [("junk", rng.choice(["junk", ")", "(", "}", "} junk", "}\n}", "{", ",", "(a|b)", "#", "a,b", "|", "} //", "}\nkb2{(a|b)"]))]))
    commas = _idx(ts, "c_comma")
    if commas:
        out.append(("missing-comma", without(rng.choice(commas))))
        out.append(("newline-before-comma", with_at(rng.choice(commas), ("nl", "\n"))))
    bars = _idx(ts, "c_bar")
    i = rng.choice(bars)
    out.append(("missing-bar", without(i)))
    inner = [i for i in range(1, len(ts)) if ts[i][0] in ("f", "c_bar", "c_close")]
    out.append(("newline-inside-conditional", with_at(rng.choice(inner), ("nl", rng.choice(NL_TOKS)))))
    out.append(("trailing-comma", with_at(_idx(ts, "c_close")[-1] + 1, ("c_comma", ","))))
    out.append(("missing-close-parenthesis", without(rng.choice(_idx(ts, "c_close")))))
    out.append(("illegal-character", with_at(rng.randint(0, len(ts)), ("junk", rng.choice(ILLEGAL)))))
    out.append(("brace-injection", with_at(rng.choice(_idx(ts, "c_close")) + 1, ("junk", rng.choice(["}", "{", "}{", "} ,"])))))
    i = rng.randrange(len(ts))
    out.append(("deleted-token", without(i)))
    i = rng.randrange(len(ts))
    out.append(("duplicated-token", with_at(i, ts[i])))
    out.append(("unterminated-comment", with_at(rng.randint(0, len(ts)), ("junk", "/*"))))
    return out


def _w_bases(item):
    seed, count = item
    rng = random.Random(seed)
    acc = _new()
    pool = [a for a in ATOM_POOL]
    for _ in range(count):
        sig = rng.sample(pool, rng.randint(1, 5))
        name = rng.choice(["kb", "birds005", "K_1", "Top", "x-y", "a", sig[0]])
        n = rng.choice([0, 1, 1, 2, 2, 3, 3, 4, 5, 6])
        conds = [(rnd_ast(rng, sig, rng.randint(0, 3)), rnd_ast(rng, sig, rng.randint(0, 3))) for _ in range(n)]
        ts = base_tokens(rng, sig, name, conds)
        text = join_kinded(rng, ts, plain=rng.random() < 0.3)
        try:
            rsig, blocks = ref_base(text)
        except Reject as e:
            raise AssertionError(f"checker: reference rejects a generated well-formed base {text!r}: {e}")
        if rsig != sig or len(blocks) != 1 or blocks[0][0] != name or len(blocks[0][1]) != n or not all(
            _equal_tt(rb, b) and _equal_tt(ra, a) for (rb, ra), (b, a) in zip(blocks[0][1], conds)
        ):
            raise AssertionError(f"checker: reference misreads the generated base {text!r}")
        r = judge("parse_belief_base", text)
        _absorb(acc, "parse_belief_base", text, r, "rnd-base")
        if len(acc["samples"]) < 1 and n >= 2:
            acc["samples"].append({"entry": "parse_belief_base", "text": text, "reference": {"signature": rsig, "conditionals": _conds_text(blocks[0][1])}, "real_accepts": r["real_ok"], "violations": len(r["violations"])})
        variants = [(cls, join_kinded(rng, mts, plain=rng.random() < 0.5)) for cls, mts in mutate_base_tokens(rng, ts, sig)]
        for cls, mtext in variants + char_edits(rng, text, 3):
            r = judge("parse_belief_base", mtext)
            _absorb(acc, "parse_belief_base", mtext, r, "mut-base", variant=True)
            if not r["ref_ok"]:
                _bump(acc, "malformed-class:" + cls)
            elif cls in MUST_REJECT:
                raise AssertionError(f"checker: reference accepts a base malformed by construction ({cls}): {mtext!r}")
        if rng.random() < 0.03:
            # two 'conditionals' blocks: grammatical; recorded, only the signature is judged
            text2 = text.rstrip("\n\r") + "\nconditionals\nsecond{\n(" + sig[0] + "|" + sig[0] + ")\n}\n"
            try:
                ref_base(text2)
            except Reject as e:
                raise AssertionError(f"checker: reference rejects a generated two-block base {text2!r}: {e}")
            r = judge("parse_belief_base", text2)
            _absorb(acc, "parse_belief_base", text2, r, "multi-block")
    return acc


def _w_queries(item):
    seed, count = item
    rng = random.Random(seed)
    acc = _new()
    for _ in range(count):
        atoms = rng.sample(["a", "b", "c", "d", "e", "f"], rng.randint(1, 4)) if rng.random() < 0.7 else rng.sample(ATOM_POOL, rng.randint(1, 4))
        n = rng.randint(1, 5)
        conds = [(rnd_ast(rng, atoms, rng.randint(0, 3)), rnd_ast(rng, atoms, rng.randint(0, 3))) for _ in range(n)]
        ts = (_nl_run(rng, 0, 1) if rng.random() < 0.2 else []) + _condlist_tokens(rng, conds) + _nl_run(rng, 0, 2)
        text = join_kinded(rng, ts, plain=rng.random() < 0.4)
        try:
            rconds, how = ref_queries(text)
        except Reject as e:
            raise AssertionError(f"checker: reference rejects a generated well-formed query list {text!r}: {e}")
        if how != "list" or len(rconds) != n or not all(_equal_tt(rb, b) and _equal_tt(ra, a) for (rb, ra), (b, a) in zip(rconds, conds)):
            raise AssertionError(f"checker: reference misreads the generated query list {text!r}")
        r = judge("parse_queries", text)
        _absorb(acc, "parse_queries", text, r, "rnd-queries")
        if len(acc["samples"]) < 1 and n >= 2:
            acc["samples"].append({"entry": "parse_queries", "text": text, "reference": _conds_text(rconds), "real_accepts": r["real_ok"], "violations": len(r["violations"])})
        variants = [(cls, join_kinded(rng, mts, plain=rng.random() < 0.5)) for cls, mts in mutate_query_tokens(rng, ts)]
        for cls, mtext in variants + char_edits(rng, text):
            r = judge("parse_queries", mtext)
            _absorb(acc, "parse_queries", mtext, r, "mut-queries", variant=True)
            if not r["ref_ok"]:
                _bump(acc, "malformed-class:" + cls)
    return acc


# ===========================================================================
# driver entry points
# ===========================================================================
def run(tier, seed):
    thorough = tier == "thorough"
    rng = random.Random(seed)
    maxlen, maxlen_nosp = (6, 5) if thorough else (5, 4)
    n_formulas, n_bases, n_queries = (32000, 6000, 4000) if thorough else (2400, 450, 300)
    per = 125 if thorough else 50
    jobs = [("exh", it) for it in _exhaustive_items(maxlen, maxlen_nosp)]
    jobs += [("fixed", None)]
    jobs += [("formulas", (rng.randrange(2**62), per)) for _ in range(n_formulas // per)]
    jobs += [("bases", (rng.randrange(2**62), max(5, per // 5))) for _ in range(n_bases // max(5, per // 5))]
    jobs += [("queries", (rng.randrange(2**62), max(5, per // 5))) for _ in range(n_queries // max(5, per // 5))]
    # heavy random jobs first so that the pool stays busy
    jobs.sort(key=lambda j: 0 if j[0] != "exh" else 1)
    results = pmap(_dispatch, jobs)
    tot = {"evaluations": 0, "fingerprints": set(), "violations": [], "samples": [], "extra": {"stats": {}, "violations_total": 0}}
    for r in results:
        tot["evaluations"] += r["evaluations"]
        tot["fingerprints"].update(r["fingerprints"])
        tot["violations"].extend(r["violations"])
        tot["extra"]["violations_total"] += r["nviol"]
        for k, v in r["stats"].items():
            tot["extra"]["stats"][k] = tot["extra"]["stats"].get(k, 0) + v
        for s in r["samples"]:
            if len(tot["samples"]) < 3 and not any(s["entry"] == x["entry"] for x in tot["samples"]):
                tot["samples"].append(s)
    # one representative per (kind, entry) first, then the rest
    seen, first, rest = set(), [], []
    for v in tot["violations"]:
        key = (v["kind"], v["input"]["entry"])
        (rest if key in seen else first).append(v)
        seen.add(key)
    tot["violations"] = (first + rest)[:MAX_VIOLATIONS]  # the full count is extra["violations_total"]
    tot["extra"]["stats"] = dict(sorted(tot["extra"]["stats"].items()))
    st = tot["extra"]["stats"]
    # vacuity guards of the checker itself
    if not any(k.endswith("ref+real+") for k in st) or not any(k.startswith("malformed-class:") for k in st):
        raise AssertionError("checker: no accepted or no malformed case was exercised")
    nexh = sum(len(ALPHABET) ** k for k in range(1, maxlen + 1))
    nnosp = sum(len(ALPHABET) ** k for k in range(1, maxlen_nosp + 1))
    tot["scope"] = (
        f"parse_formula on ALL {nexh} token strings of length <= {maxlen} over {{a,b,Top,Bottom,!,',',';',(,)}} joined by one space "
        f"and all {nnosp} of length <= {maxlen_nosp} joined without spaces (accept/reject and truth table vs the reference parser); "
        f"{n_formulas // per * per} seeded random formulas (depth <= 6, <= 4 atoms from a pool with digits/_/-/look-alikes of Top/Bottom/keywords, "
        f"random whitespace/comments) each with ~12 malformed variants (token-level classes and single-character edits); {n_bases // max(5, per // 5) * max(5, per // 5)} random belief-base texts (1-5 atoms, 0-6 conditionals, "
        f"random newlines/comments) each with ~30 malformed variants, via parse_belief_base; {n_queries // max(5, per // 5) * max(5, per // 5)} random query lists "
        f"each with ~13 malformed variants, via parse_queries; str(conditional) of every accepted conditional re-parsed"
    )
    tot["rule"] = (
        "a case is one (entry point, input text); distinct = distinct text per entry point; non-trivial = at least one of reference/real "
        "accepts it, or it is a malformed variant derived from an accepted text; short strings rejected by both sides are evaluated but not counted"
    )
    return tot


def _dispatch(job):
    kind, item = job
    if kind == "exh":
        return _w_exhaustive(item)
    if kind == "fixed":
        return _w_fixed(item)
    if kind == "formulas":
        return _w_formulas(item)
    if kind == "bases":
        return _w_bases(item)
    return _w_queries(item)
