"""Symbolic values and type descriptors of Engine P.

A type descriptor (T*) knows how to create a fresh symbolic value; a value (V*) wraps
z3 terms.  Containers are immutable logical values (DESIGN §2.2); objects with
identity (solvers, records, instances) live in the state's heap and are referred to by
reference.
"""
from __future__ import annotations

import itertools

import z3

from . import logic as L

StrSort = z3.DeclareSort("Str")
# strings as a length and a character function (TB-py): s[k] is the one-character string chr_at(s, k);
# int(s) is int_of_str(s) where s is an integer literal, ValueError otherwise
strlen = z3.Function("strlen", StrSort, z3.IntSort())
chr_at = z3.Function("chr_at", StrSort, z3.IntSort(), StrSort)
is_int_literal = z3.Function("is_int_literal", StrSort, z3.BoolSort())
int_of_str = z3.Function("int_of_str", StrSort, z3.IntSort())
Opq = z3.DeclareSort("Opaque")


class Unsupported(Exception):
    """The function leaves the supported subset: it becomes UNDECIDED for Engine P."""


# ----------------------------------------------------------------------------
# values
# ----------------------------------------------------------------------------
class V:
    ty: "T"
    escaped = False


class VBool(V):
    def __init__(self, t):
        self.t = t if z3.is_expr(t) else z3.BoolVal(bool(t))
        self.ty = TBool


class VInt(V):
    def __init__(self, t):
        self.t = t if z3.is_expr(t) else z3.IntVal(int(t))
        self.ty = TInt


class VFloat(V):
    """floats only occur in timing code: an uninterpreted value (DESIGN §2.2)."""

    def __init__(self, t=None):
        self.t = t if t is not None else z3.FreshConst(Opq, "float")
        self.ty = TFloat


class VStr(V):
    lits: dict = {}

    def __init__(self, t=None, const=None):
        if const is not None:
            if const not in VStr.lits:
                new = z3.Const(f"str!{len(VStr.lits)}", StrSort)
                for old in VStr.lits.values():
                    L.TH.fact(new != old)  # distinct literals denote distinct strings
                VStr.lits[const] = new
            t = VStr.lits[const]
        self.t = t
        self.const = const
        self.ty = TStr


class VNone(V):
    def __init__(self):
        self.ty = TNone


class VForm(V):
    def __init__(self, t):
        self.t = t
        self.ty = TForm


class VCnd(V):
    def __init__(self, t):
        self.t = t
        self.ty = TCnd


class VList(V):
    def __init__(self, t, et):
        self.t = t
        self.et = et
        self.ty = TList(et)
        self.LT = et.list_theory()

    def len(self):
        return self.LT.len(self.t)

    def at(self, i):
        return self.et.wrap(self.LT.at(self.t, i))


class VSet(V):
    """finite set / frozenset of values of type et: Array(et, Bool)"""

    def __init__(self, t, et):
        self.t = t
        self.et = et
        self.ty = TSet(et)

    def enum(self):
        return VList(L.enum_theory(self.et.sort())[0](self.t), self.et)


class VFalseOr(V):
    """the Python value `False` or a value of type `inner`"""

    def __init__(self, isfalse, val, inner):
        self.isfalse = isfalse
        self.val = val  # V of type inner (meaningful when not isfalse)
        self.ty = TFalseOr(inner)


class VOptional(V):
    """None or a value of type inner"""

    def __init__(self, isnone, val, inner):
        self.isnone = isnone
        self.val = val
        self.inner = inner
        self.ty = TOptional(inner)


class VTuple(V):
    def __init__(self, items):
        self.items = list(items)
        self.ty = TTuple([i.ty for i in items])


class VDict(V):
    """dict[int, elem]: insertion-ordered key list + total map; the domain is the set
    of elements of the key list (keys pairwise distinct: an invariant of the type)."""

    def __init__(self, keys, val, et, kt=None):
        self.keys = keys  # list-of-keys term
        self.val = val  # Array key -> elem sort
        self.et = et
        self.kt = kt if kt is not None else TInt
        self.KL = self.kt.list_theory()
        self.ty = TDict(et, self.kt)

    def keylist(self):
        return VList(self.keys, self.kt)


class VRef(V):
    """reference to a heap object (solver, record, instance)"""

    def __init__(self, ref, ty):
        self.ref = ref
        self.ty = ty


class VOpaque(V):
    def __init__(self, what="", t=None):
        self.what = what
        self.t = t if t is not None else z3.FreshConst(Opq, "opq")
        self.ty = TOpaque


class VCallable(V):
    """a function / class / bound method known by qualified name"""

    def __init__(self, qual, bound=None):
        self.qual = qual
        self.bound = bound
        self.ty = TOpaque


# ----------------------------------------------------------------------------
# types
# ----------------------------------------------------------------------------
_fresh = itertools.count()


class T:
    def fresh(self, name, st):
        raise NotImplementedError

    def sort(self):
        raise Unsupported(f"type {self} has no term representation")

    def wrap(self, t):
        raise Unsupported(f"type {self} cannot wrap a term")

    def list_theory(self):
        return L.list_theory(self.sort())

    def __repr__(self):
        return self.__class__.__name__


class _TBool(T):
    def fresh(self, name, st):
        return VBool(st.fresh_const(name, L.Bool))

    def sort(self):
        return L.Bool

    def wrap(self, t):
        return VBool(t)


class _TInt(T):
    def fresh(self, name, st):
        return VInt(st.fresh_const(name, L.Int))

    def sort(self):
        return L.Int

    def wrap(self, t):
        return VInt(t)


class _TFloat(T):
    def fresh(self, name, st):
        return VFloat(st.fresh_const(name, Opq))

    def sort(self):
        return Opq

    def wrap(self, t):
        return VFloat(t)


class _TStr(T):
    def fresh(self, name, st):
        return VStr(st.fresh_const(name, StrSort))

    def sort(self):
        return StrSort

    def wrap(self, t):
        return VStr(t)


class _TNone(T):
    def fresh(self, name, st):
        return VNone()


class _TForm(T):
    def fresh(self, name, st):
        return VForm(st.fresh_const(name, L.Formula))

    def sort(self):
        return L.Formula

    def wrap(self, t):
        return VForm(t)


class _TCnd(T):
    def fresh(self, name, st):
        return VCnd(st.fresh_const(name, L.Cnd))

    def sort(self):
        return L.Cnd

    def wrap(self, t):
        return VCnd(t)


class _TOpaque(T):
    def fresh(self, name, st):
        return VOpaque(name, st.fresh_const(name, Opq))

    def sort(self):
        return Opq

    def wrap(self, t):
        return VOpaque("", t)


TBool, TInt, TFloat, TStr, TNone, TForm, TCnd, TOpaque = (
    _TBool(),
    _TInt(),
    _TFloat(),
    _TStr(),
    _TNone(),
    _TForm(),
    _TCnd(),
    _TOpaque(),
)


class TList(T):
    def __init__(self, et):
        self.et = et

    def sort(self):
        return self.et.list_theory().sort

    def fresh(self, name, st):
        return VList(st.fresh_const(name, self.sort()), self.et)

    def wrap(self, t):
        return VList(t, self.et)

    def __repr__(self):
        return f"TList({self.et})"


class TSet(T):
    def __init__(self, et):
        self.et = et

    def sort(self):
        return z3.SetSort(self.et.sort())

    def fresh(self, name, st):
        return VSet(st.fresh_const(name, self.sort()), self.et)

    def wrap(self, t):
        return VSet(t, self.et)

    def __repr__(self):
        return f"TSet({self.et})"


class TFalseOr(T):
    def __init__(self, inner):
        self.inner = inner

    def fresh(self, name, st):
        return VFalseOr(st.fresh_const(name + "!isfalse", L.Bool), self.inner.fresh(name + "!val", st), self.inner)


_OptInt = z3.Datatype("OptInt")
_OptInt.declare("none")
_OptInt.declare("some", ("val", L.Int))
OptInt = _OptInt.create()


class TOptional(T):
    def __init__(self, inner):
        self.inner = inner

    def fresh(self, name, st):
        return VOptional(st.fresh_const(name + "!isnone", L.Bool), self.inner.fresh(name + "!val", st), self.inner)

    def sort(self):
        if self.inner is TInt:
            return OptInt
        return _opt_sort(self.inner)

    def wrap(self, t):
        if self.inner is TInt:
            return VOptional(OptInt.is_none(t), VInt(OptInt.val(t)), self.inner)
        S = _opt_sort(self.inner)
        return VOptional(S.recognizer(0)(t), self.inner.wrap(S.accessor(1, 0)(t)), self.inner)


_opt_sorts: dict = {}


def _opt_sort(inner):
    """Optional[T] for a T with a term representation: datatype none | some(val)"""
    s = inner.sort()
    key = s.name()
    if key not in _opt_sorts:
        dt = z3.Datatype("Opt_" + key)
        dt.declare("none")
        dt.declare("some", ("val", s))
        _opt_sorts[key] = dt.create()
    return _opt_sorts[key]


def opt_term(v, ty=None):
    """term for an Optional[T] / T / None value (T = int unless `ty` says otherwise)"""
    inner = ty.inner if ty is not None else (v.inner if isinstance(v, VOptional) else TInt)
    if inner is TInt:
        if isinstance(v, VOptional) and v.inner is TInt:
            return z3.If(v.isnone, OptInt.none, OptInt.some(v.val.t))
        if isinstance(v, VInt):
            return OptInt.some(v.t)
        if isinstance(v, VNone):
            return OptInt.none
        raise Unsupported(f"cannot store {v.ty} as Optional[int]")
    S = _opt_sort(inner)
    if isinstance(v, VNone):
        return S.constructor(0)()
    if isinstance(v, VOptional):
        return z3.If(v.isnone, S.constructor(0)(), S.constructor(1)(value_term(v.val, inner)))
    return S.constructor(1)(value_term(v, inner))


_tuple_sorts: dict = {}


class TTuple(T):
    def __init__(self, items):
        self.items = items

    def fresh(self, name, st):
        return VTuple([t.fresh(f"{name}!{i}", st) for i, t in enumerate(self.items)])

    def sort(self):
        key = tuple(t.sort().name() for t in self.items)
        if key not in _tuple_sorts:
            dt = z3.Datatype("Tup_" + "_".join(key))
            dt.declare("mk", *[(f"f{i}", t.sort()) for i, t in enumerate(self.items)])
            _tuple_sorts[key] = dt.create()
        return _tuple_sorts[key]

    def wrap(self, t):
        S = self.sort()
        return VTuple([ty.wrap(S.accessor(0, i)(t)) for i, ty in enumerate(self.items)])

    def term(self, v):
        S = self.sort()
        if not isinstance(v, VTuple) or len(v.items) != len(self.items):
            raise Unsupported("tuple shape")
        return S.constructor(0)(*[value_term(x, ty) for x, ty in zip(v.items, self.items)])


def value_term(v, ty):
    """z3 term of value v seen at type ty (for storing into containers)"""
    if isinstance(ty, TTuple):
        return ty.term(v)
    if isinstance(ty, TOptional):
        return opt_term(v, ty)
    if ty is TFloat and isinstance(v, VInt):
        return z3.FreshConst(Opq, "float")
    if not hasattr(v, "t"):
        raise Unsupported(f"value of type {v.ty} has no term")
    if v.t.sort() != ty.sort():
        raise Unsupported(f"value of sort {v.t.sort()} stored at type {ty}")
    return v.t


class VSeq(V):
    """a read-only sequence given by its length and an element function (dict.items(),
    enumerate(...))"""

    def __init__(self, n, at):
        self._n = n
        self._at = at
        self.ty = TOpaque

    def len(self):
        return self._n

    def at(self, i):
        return self._at(i)


class TDict(T):
    def __init__(self, et, kt=None):
        self.et = et
        self.kt = kt if kt is not None else TInt

    def fresh(self, name, st):
        KL = self.kt.list_theory()
        keys = st.fresh_const(name + "!keys", KL.sort)
        val = st.fresh_const(name + "!val", z3.ArraySort(self.kt.sort(), self.et.sort()))
        d = VDict(keys, val, self.et, self.kt)
        st.assume(distinct_keys(keys, KL))
        return d


def distinct_keys(keys, KL=None):
    KL = KL or L.LInt
    i, j = z3.Ints("_dk_i _dk_j")
    return L.Forall(
        [i, j],
        [KL.at(keys, i), KL.at(keys, j)],
        z3.Implies(
            z3.And(0 <= i, i < j, j < KL.len(keys)),
            KL.at(keys, i) != KL.at(keys, j),
        ),
        "dict.keys.distinct",
    )


class TSolver(T):
    """pysmt Solver / z3 Solver / z3 Optimize ghost state (DESIGN §3 TB-solver)"""

    def fresh(self, name, st):
        ref = st.alloc({"kind": "solver", "A": st.fresh_const(name + "!A", L.WSet), "pushed": [], "base": name, "S": st.fresh_const(name + "!S", L.LForm.sort), "pushedS": [], "soft": st.fresh_const(name + "!soft", z3.SetSort(z3.DeclareSort("Clause")))})
        return VRef(ref, self)


class TObj(T):
    def __init__(self, cls, fields):
        self.cls = cls
        self.fields = fields

    def fresh(self, name, st):
        rec = {"kind": "obj", "cls": self.cls, "fields": {}}
        for k, t in self.fields.items():
            rec["fields"][k] = t.fresh(f"{name}.{k}", st)
        return VRef(st.alloc(rec), self)

    def __repr__(self):
        return f"TObj({self.cls})"


class TRec(T):
    """dict with constant string keys (the epistemic state)"""

    def __init__(self, fields):
        self.fields = fields

    def fresh(self, name, st):
        rec = {"kind": "rec", "fields": {}}
        for k, t in self.fields.items():
            rec["fields"][k] = t.fresh(f"{name}[{k}]", st)
            if isinstance(rec["fields"][k], (VList, VDict, VSet)):
                # aliasing assumption (DESIGN, TB-py): different entries of the epistemic state hold
                # different container objects (each is created by its own dict() / list expression)
                rec["fields"][k].oid = f"{name}[{k}]"
        return VRef(st.alloc(rec), self)


TSolverT = TSolver()

OPQ_NONE = z3.Const("opq_none", Opq)  # the value None stored in an untyped attribute


class TDyn(T):
    """object whose attribute dictionary is manipulated dynamically (hasattr / getattr /
    setattr): attribute names -> (present?, value)"""

    def fresh(self, name, st):
        ref = st.alloc(
            {
                "kind": "dyn",
                "present": st.fresh_const(name + "!present", z3.ArraySort(StrSort, L.Bool)),
                "val": st.fresh_const(name + "!attrs", z3.ArraySort(StrSort, Opq)),
            }
        )
        return VRef(ref, self)


TDynT = TDyn()


class VConcDict(V):
    """dict built along one path from literal operations: the structure is concrete"""

    def __init__(self, items=None):
        self.items = list(items or [])  # list of (key V, value V), insertion ordered
        self.ty = TOpaque


class TCallable(T):
    """a class / function object passed as a value (e.g. `cls` of a classmethod)"""

    def __init__(self, qual):
        self.qual = qual

    def fresh(self, name, st):
        return VCallable(self.qual)


def same_type_fresh(v: V, name, st):
    return v.ty.fresh(name, st)


# ----------------------------------------------------------------------------
# integer-sorted pysmt terms / constraints (pyvc.iterm, TB-ifml)
# ----------------------------------------------------------------------------
class VITerm(V):
    def __init__(self, t):
        self.t = t
        self.ty = TITerm


class VIForm(V):
    def __init__(self, t):
        self.t = t
        self.ty = TIForm


class _TITerm(T):
    def fresh(self, name, st):
        return VITerm(st.fresh_const(name, self.sort()))

    def sort(self):
        from . import iterm

        return iterm.ITerm

    def wrap(self, t):
        return VITerm(t)


class _TIForm(T):
    def fresh(self, name, st):
        return VIForm(st.fresh_const(name, self.sort()))

    def sort(self):
        from . import iterm

        return iterm.IForm

    def wrap(self, t):
        return VIForm(t)


TITerm, TIForm = _TITerm(), _TIForm()


class TFunInt(T):
    """a callable parameter int^n -> int, denoted by a given z3 function (it is assumed to be a function
    of its arguments: no state, no exceptions)"""

    def __init__(self, fn):
        self.fn = fn

    def fresh(self, name, st):
        v = VOpaque("function parameter " + name)
        v.kind = "pyfun"
        v.fn = self.fn
        return v
