"""regenerate MANIFEST.json from driver/props.py (run: /venv/bin/python -m driver.mkmanifest)"""
import json
import os
import subprocess
import sys

HERE = os.path.dirname(os.path.dirname(os.path.abspath(__file__)))
sys.path.insert(0, HERE)
from driver.props import PROPS, NOT_APPLICABLE, available  # noqa: E402

ids = [json.loads(l)["id"] for l in open(os.path.join(HERE, "properties.jsonl"))]
fixes = subprocess.check_output(["git", "-C", "/repo", "log", "--format=%h", "35ecb8f..HEAD"]).decode().split()
m = {
    "version": 1,
    "setup_cmd": "true",
    "hooks": {
        "guard": "INFOCF_VERIF",
        "enable": "no source hooks: contracts are sidecar files under /verif/contracts and run-time interposition (Engine B wrappers, fault injection) is done from outside the repository; the checks set INFOCF_VERIF=1 but /repo never reads it",
        "baseline_off_cmd": "cd /repo && /venv/bin/python -m pytest -ra -q -p no:cacheprovider --timeout=900 --continue-on-collection-errors",
        "source_commits": [],
        "add_only": True,
    },
    "engines": [
        {"name": "Engine P (pyvc)", "path": "pyvc/", "serves_properties": sorted(p for p in PROPS if available(p)), "kind_free_text": "contract-based deductive verification: sidecar contracts + AST symbolic executor over the real /repo source -> VCs -> own ground instantiation -> z3 decides the quantifier-free result"},
        {"name": "Engine B", "path": "bounded/ oracle/", "serves_properties": sorted(p for p in PROPS if available(p)), "kind_free_text": "bounded stand-in: real code vs brute-force world-enumeration oracle on stated scopes; never counted as proved"},
    ],
    "checks": [],
    "notes": "fix: commits made in /repo (each a genuine defect, see known_findings.jsonl): " + " ".join(reversed(fixes)),
    "not_applicable": [],
}
for i in ids:
    if i in PROPS and available(i):
        s = PROPS[i]
        m["checks"].append(
            {
                "property_id": i,
                "quick_cmd": f"./check {i} --tier quick",
                "thorough_cmd": f"./check {i} --tier thorough",
                "evidence_file": f"evidence/{i}.json",
                "replay_cmd_template": "./check replay {path}",
                "engine": "Engine P (pyvc) + Engine B",
                "level_claimed": {"category": s["level"], "text": s["explanation"], "design_ref": f"DESIGN.md section 5 ({i})"},
                "level_note": "trusted library contracts: " + ", ".join(s.get("trusted", [])) + "; assumed (not proved here): " + "; ".join(s.get("assumed", []) or ["none"]),
                "technique": s.get("technique", "contract-based deductive verification of the real source (sidecar contracts, generated VCs, z3) with a bounded oracle comparison as stand-in"),
            }
        )
    else:
        m["not_applicable"].append({"property_id": i, "reason": NOT_APPLICABLE.get(i, "check not built yet (machinery under construction; see DESIGN.md section 9)")})
json.dump(m, open(os.path.join(HERE, "MANIFEST.json"), "w"), indent=1)
print("checks:", [c["property_id"] for c in m["checks"]], "n/a:", len(m["not_applicable"]))
