"""Contracts: any_subset_of_all (four copies: system_w, system_w_z3, lex_inf, lex_inf_z3).

ASA(X, Y) -- the relation the W recursions are specified with -- is DEFINED here:
    ASA(X, Y)  <=>  for every b in Y there is an a in X with a <= b
and the four copies `all(any(a.issubset(b) for a in A) for b in B)` are proved to compute it
(all / any over generators are translated into bounded quantifiers with witness functions)."""
import z3

from contracts import c_rc2backends as RC
from contracts import c_z3backends as Z
from pyvc import logic as L
from pyvc.contract import Contract
from pyvc.logic import Forall
from pyvc.values import *  # noqa


def asa_axioms(tag, ASA, FamS, SetS):
    HasSub = z3.Function(f"HasSub{tag}", FamS, SetS, L.Bool)
    hw = z3.Function(f"HasSub{tag}!w", FamS, SetS, SetS)
    aw = z3.Function(f"ASA{tag}!w", FamS, FamS, SetS)
    X, Y = z3.Consts(f"_asa{tag}_X _asa{tag}_Y", FamS)
    a, b = z3.Consts(f"_asa{tag}_a _asa{tag}_b", SetS)
    hs = HasSub(X, b)
    asa = ASA(X, Y)
    return [
        Forall([X, b], [hs], z3.Implies(hs, z3.And(z3.IsMember(hw(X, b), X), z3.IsSubset(hw(X, b), b))), f"HasSub{tag}.elim"),
        Forall([X, b, a], [hs, z3.IsMember(a, X)], z3.Implies(z3.And(z3.IsMember(a, X), z3.IsSubset(a, b)), hs), f"HasSub{tag}.intro"),
        Forall([X, Y, b], [asa, z3.IsMember(b, Y)], z3.Implies(z3.And(asa, z3.IsMember(b, Y)), HasSub(X, b)), f"def.ASA{tag}.elim"),
        Forall([X, Y], [asa], z3.Implies(z3.Not(asa), z3.And(z3.IsMember(aw(X, Y), Y), z3.Not(HasSub(X, aw(X, Y))))), f"def.ASA{tag}.intro"),
    ]


ASA_K = asa_axioms("K", RC.ASAK, RC.KFam, RC.KSet)
ASA_C = asa_axioms("C", Z.ASA, Z.Fam, Z.CSet)

for _mod, _ty, _asa, _ax, _props in (
    ("inference.system_w", RC.SSK, RC.ASAK, ASA_K, ["C03", "C11"]),
    ("inference.lex_inf", RC.SSK, RC.ASAK, ASA_K, ["C04"]),
    ("inference.system_w_z3", Z.SSC, Z.ASA, ASA_C, ["C03", "C11"]),
    ("inference.lex_inf_z3", Z.SSC, Z.ASA, ASA_C, ["C04"]),
):
    Contract(
        f"{_mod}:any_subset_of_all",
        params={"A": _ty, "B": _ty},
        returns=TBool,
        ensures=(lambda asa: (lambda c, r: [r.t == asa(c._st.env["A"].t, c._st.env["B"].t)]))(_asa),  # (View.A is the solver accessor)
        axioms=_ax,
        fuel=5,
        properties=_props,
        note="every member of B has a subset in A (the definition of ASA)",
    )
