#!/venv/bin/python
"""Self-test of Engine P on toy functions with KNOWN verdicts (soundness-critical features of the executor).

A scratch "repository" with one module is written to a temporary directory (removed afterwards), toy contracts are
registered, and every function must come out with the expected status: a `proved` where `failed` is expected means the
executor assumes too much (unsound), a `failed` where `proved` is expected means it lost information.
Run:  /venv/bin/python -m tools.engine_selftest      (exit 0 = all verdicts as expected)"""
import os
import shutil
import sys
import tempfile

HERE = os.path.dirname(os.path.dirname(os.path.abspath(__file__)))
sys.path.insert(0, HERE)

TOY = '''
def absall(xs: list[int]) -> list[int]:
    return [x if x >= 0 else -x for x in xs]


def absall_uniform(xs: list[int]) -> list[int]:
    return [x if x >= 0 else -x for x in xs]


def abs_wrong(xs: list[int]) -> list[int]:
    return [x if x >= 0 else x for x in xs]


def grow(xs: list[int]) -> set[int]:
    seen: set[int] = set()
    for x in xs:
        seen.add(x)
    return seen


def keep_nonneg(xs: list[int]) -> list[int]:
    return [x for x in xs if x >= 0]


def keep_nonneg_wrong(xs: list[int]) -> list[int]:
    return [x for x in xs if x > 0]


def digits(s: str) -> list[int]:
    return [int(c) for c in s]


def digits_wrong(s: str) -> list[int]:
    return [int(c) + 1 for c in s]


'''


def main():
    tmp = tempfile.mkdtemp(prefix="pyvc_selftest_")
    try:
        os.makedirs(os.path.join(tmp, "inference"))
        os.makedirs(os.path.join(tmp, "parser"))
        real = os.environ.get("INFOCF_REPO", "/repo")
        shutil.copy(os.path.join(real, "parser", "CKBParser.py"), os.path.join(tmp, "parser", "CKBParser.py"))  # (token constants are read from it)
        with open(os.path.join(tmp, "inference", "zz_toy.py"), "w") as f:
            f.write(TOY)
        os.environ["INFOCF_REPO"] = tmp
        import z3

        from pyvc import logic as L
        from pyvc import run as R
        from pyvc.contract import Contract
        from pyvc.values import TInt, TList, TSet

        LI = L.LInt
        i, j = z3.Ints("_st_i _st_j")

        def rng(r):
            return z3.And(0 <= i, i < LI.len(r.t))

        def abs_post(c, r):
            return [
                LI.len(r.t) == LI.len(c.xs.t),
                L.Forall([i], [LI.at(r.t, i)], z3.Implies(rng(r), z3.And(LI.at(r.t, i) >= 0, z3.Or(LI.at(r.t, i) == LI.at(c.xs.t, i), LI.at(r.t, i) == -LI.at(c.xs.t, i)))), "abs"),
            ]

        def uniform_post(c, r):
            # FALSE for mixed lists such as [1, -1]: "the first two elements are treated alike"
            same0 = LI.at(r.t, 0) == LI.at(c.xs.t, 0)
            same1 = LI.at(r.t, 1) == LI.at(c.xs.t, 1)
            return [z3.Implies(z3.And(LI.len(c.xs.t) >= 2, LI.at(c.xs.t, 0) != 0, LI.at(c.xs.t, 1) != 0), same0 == same1)]

        def grow_post_wrong(c, r):
            return [r.t == z3.EmptySet(L.Int)]  # FALSE: the loop adds elements

        def keep_post(c, r):
            x = z3.Int("_st_x")
            return [
                L.Forall([i], [LI.at(r.t, i)], z3.Implies(rng(r), z3.And(LI.at(r.t, i) >= 0, L.mem_Int(c.xs.t, LI.at(r.t, i)))), "keep.sound"),
                L.Forall([j], [LI.at(c.xs.t, j)], z3.Implies(z3.And(0 <= j, j < LI.len(c.xs.t), LI.at(c.xs.t, j) >= 0), L.mem_Int(r.t, LI.at(c.xs.t, j))), "keep.complete"),
            ]

        from pyvc.contract import LoopSpec
        from pyvc.values import TStr, chr_at, int_of_str, is_int_literal, strlen

        def digits_post(c, r):
            return [
                LI.len(r.t) == strlen(c.s.t),
                L.Forall([i], [LI.at(r.t, i)], z3.Implies(rng(r), LI.at(r.t, i) == int_of_str(chr_at(c.s.t, i))), "digits"),
            ]

        def digits_pre(c):
            return [L.Forall([i], [chr_at(c.s.t, i)], z3.Implies(z3.And(0 <= i, i < strlen(c.s.t)), is_int_literal(chr_at(c.s.t, i))), "digit.string")]

        # a list comprehension run as a loop with an invariant: the accumulator equals a recursively defined specification
        Kept = L.prefix_fun("SelfTestKept", [LI.sort], LI.sort, lambda xs: LI.nil, lambda xs, k, prev: z3.If(LI.at(xs, k) >= 0, LI.snoc(prev, LI.at(xs, k)), prev))

        cases = [
            ("absall", abs_post, TList(TInt), {}, "proved"),
            ("absall_uniform", uniform_post, TList(TInt), {}, "failed"),
            ("abs_wrong", abs_post, TList(TInt), {}, "failed"),
            ("grow", grow_post_wrong, TSet(TInt), {0: LoopSpec("for x in xs", lambda s, k, pre: [])}, "failed"),
            ("keep_nonneg", keep_post, TList(TInt), {}, "proved"),
            ("keep_nonneg_wrong", keep_post, TList(TInt), {}, "failed"),
        ]
        for name, post, ret, loops, _exp in cases:
            Contract("inference.zz_toy:" + name, params={"xs": TList(TInt)}, returns=ret, ensures=post, loops=loops, locals={"seen": TSet(TInt)} if name == "grow" else {}, properties=[])
        for name, exp in (("digits", "proved"), ("digits_wrong", "failed")):
            Contract("inference.zz_toy:" + name, params={"s": TStr}, returns=TList(TInt), requires=digits_pre, ensures=digits_post, properties=[])
            cases.append((name, None, None, None, exp))
        for tag, exp, spec_fn in (("", "proved", lambda xs, n: Kept(xs, n)), ("#wrong", "failed", lambda xs, n: Kept(xs, n - 1))):
            Contract(
                "inference.zz_toy:keep_nonneg#loop" + tag,
                params={"xs": TList(TInt)},
                returns=TList(TInt),
                ensures=lambda c, r, f=spec_fn: [r.t == f(c.xs.t, LI.len(c.xs.t))],
                loops={"lc0": LoopSpec("[... for x in xs]", lambda s, k, pre: [s._st.env["_lc0"].t == Kept(s.xs.t, k)])},
                locals={"_lc0": TList(TInt)},
                properties=[],
            )
            cases.append(("keep_nonneg#loop" + tag, None, None, None, exp))
        bad = 0
        for name, _post, _ret, _loops, exp in cases:
            res = R.verify_function("inference.zz_toy:" + name)
            got = res["status"] if isinstance(res, dict) else getattr(res, "status", str(res))
            ok = got == exp
            bad += 0 if ok else 1
            print(f"{'ok ' if ok else 'BAD'} {name}: expected {exp}, got {got}")
        return 1 if bad else 0
    finally:
        shutil.rmtree(tmp, ignore_errors=True)


if __name__ == "__main__":
    sys.exit(main())
