"""Engine B for C14: time budgets never produce an unflagged wrong answer.

Deterministic fault injection from outside (nothing under /repo is touched): inside the
worker process the three observers of inference.deadline.Deadline (expired, remaining_ms,
remaining_seconds) and z3.Optimize.check are replaced by counting wrappers.  A fault-free
run with large budgets counts the N observations / optimizer checks of a call; then, for
every k in 1..N, the same call is repeated on a FRESH manager with the fault at k:

  deadline         the k-th observation of any Deadline and every later one report expiry
  deadline-object  the Deadline object observed at the k-th observation is expired from
                   then on, other Deadline objects (the next query's) are untouched
  check            the k-th call of z3.Optimize.check returns z3.unknown (only that call)
  clock            (settings with a total budget) the clock read by preprocess_belief_base /
                   single_inference (inference.inference.perf_counter_ns) jumps by total+5 s (k=1),
                   total (k=2), total-1 ms (k=3) per reading: preprocessing appears to have used
                   up the total budget, so the derived per-query budget is negative / zero / 1 ms

and is followed by a fault-free call without budgets on the SAME manager.  Reference =
the rows of a run without budgets and without faults on a fresh manager.
"""
from __future__ import annotations

import hashlib
import json
import multiprocessing as mp
import random
from time import perf_counter

from .common import BeliefBase, Queries, merge, pmap, rnd_conditional, s3_base, split_text, texts_of

CONFIGS = [
    ("p-entailment", "rc2"),
    ("system-z", "rc2"),
    ("system-w", "rc2"),
    ("system-w", "z3"),
    ("lex_inf", "rc2"),
    ("lex_inf", "z3"),
    ("c-inference", "rc2"),
]

BIG = 1000
BUDGETS = {
    # small budgets replaced by large ones: real time never expires, the injected fault does
    "inf": dict(inference_timeout=BIG),
    "total": dict(total_timeout=BIG),
    "pre": dict(preprocessing_timeout=BIG),
    "total+inf": dict(total_timeout=BIG, inference_timeout=BIG // 2),
    "total+pre": dict(total_timeout=BIG, preprocessing_timeout=BIG // 2),
    "total<inf,pre": dict(total_timeout=BIG // 2, inference_timeout=BIG, preprocessing_timeout=BIG),
    "pre+inf": dict(preprocessing_timeout=BIG, inference_timeout=BIG),
    "all": dict(total_timeout=BIG, preprocessing_timeout=BIG // 3, inference_timeout=BIG // 4),
    "none": dict(),  # every budget 0 = no budget; only the optimizer can give up
}
KINDS = ("deadline", "deadline-object", "check", "clock")
CLOCK_DELTAS = (5.0, 0.0, -0.001)

BIRDS_SIG = ["b", "p", "f", "w"]
BIRDS = {1: ("f", "b"), 2: ("!f", "p"), 3: ("b", "p"), 4: ("w", "b")}
BIRDS_QUERIES = [[1, ["f", "p"]], [2, ["w", "p"]], [3, ["!f", "(p,b)"]], [4, ["b", "f"]]]


# ---------------------------------------------------------------------------
# interposition
# ---------------------------------------------------------------------------
class _Injector:
    """counting / faulting wrappers; install() and uninstall() must bracket every use"""

    def __init__(self):
        self.reset(None, None)
        self._orig = None

    def reset(self, kind, k):
        self.kind, self.k = kind, k
        self.obs = 0
        self.checks = 0
        self.fired = 0
        self.dead = set()
        self.step_ns = 0
        self.clock_calls = 0

    def disarm(self):
        self.kind, self.k = None, None
        self.step_ns = 0

    def _observe(self, dl):
        self.obs += 1
        if self.k is None:
            return False
        if self.kind == "deadline" and self.obs >= self.k:
            self.fired += 1
            return True
        if self.kind == "deadline-object":
            if self.obs == self.k:
                self.dead.add(dl.end)
            if dl.end in self.dead:
                self.fired += 1
                return True
        return False

    def install(self):
        import z3
        import inference.inference as infmod
        from inference.deadline import Deadline

        assert self._orig is None
        self._orig = (Deadline.expired, Deadline.remaining_ms, Deadline.remaining_seconds, z3.Optimize.check, infmod.perf_counter_ns)
        inj = self
        orig_check = z3.Optimize.check
        orig_clock = infmod.perf_counter_ns

        def clock():
            if inj.step_ns:
                inj.clock_calls += 1
                inj.fired += 1
            return orig_clock() + inj.clock_calls * inj.step_ns

        def real(dl):
            return max(0.0, dl.end - perf_counter())

        def expired(dl):
            return True if inj._observe(dl) else real(dl) <= 0.0

        def remaining_ms(dl):
            return 0 if inj._observe(dl) else int(real(dl) * 1000)

        def remaining_seconds(dl):
            return 0.0 if inj._observe(dl) else real(dl)

        def check(opt, *a):
            inj.checks += 1
            if inj.kind == "check" and inj.k is not None and inj.checks == inj.k:
                inj.fired += 1
                return z3.unknown
            return orig_check(opt, *a)

        Deadline.expired = expired
        Deadline.remaining_ms = remaining_ms
        Deadline.remaining_seconds = remaining_seconds
        z3.Optimize.check = check
        infmod.perf_counter_ns = clock

    def uninstall(self):
        import z3
        import inference.inference as infmod
        from inference.deadline import Deadline

        if self._orig is None:
            return
        Deadline.expired, Deadline.remaining_ms, Deadline.remaining_seconds, z3.Optimize.check, infmod.perf_counter_ns = self._orig
        self._orig = None


def _allow_children():
    cfg = mp.current_process()._config
    old = cfg.get("daemon")
    cfg["daemon"] = False
    return old


def _restore_children(old):
    cfg = mp.current_process()._config
    if old is None:
        cfg.pop("daemon", None)
    else:
        cfg["daemon"] = old


# ---------------------------------------------------------------------------
# running and judging
# ---------------------------------------------------------------------------
def _plain(x):
    try:
        import numpy as np

        if isinstance(x, np.generic):
            x = x.item()
    except Exception:  # noqa
        pass
    if isinstance(x, (bool, int, str)) or x is None:
        return x
    return repr(x)


def _txt(pair):
    return f"({pair[0]}|{pair[1]})"


def _mkqueries(queries):
    from oracle.gen import cond as mkcond

    return Queries({k: mkcond(*p) for k, p in queries})


def _call(manager, queries, budgets, multi=False):
    """-> (rows or None, exception text or None); rows = [index, result, text, inference_timed_out, preprocessing_timed_out]"""
    old = _allow_children() if multi else None
    try:
        df = manager.inference(_mkqueries(queries), multi_inference=multi, **budgets)
        rows = [
            [_plain(r["index"]), _plain(r["result"]), str(r["query"]), _plain(r["inference_timed_out"]), _plain(r["preprocessing_timed_out"])]
            for _, r in df.iterrows()
        ]
        return rows, None
    except AssertionError as e:
        if str(e) in ("belief base inconsistent", "belief base empty"):
            raise
        return None, f"AssertionError: {e}"
    except BaseException as e:  # noqa
        if isinstance(e, (KeyboardInterrupt, SystemExit)):
            raise
        return None, f"{type(e).__name__}: {e}"
    finally:
        if multi:
            _restore_children(old)


def _judge(rows, exc, queries, ref, later):
    """the property, row by row.  later=True: fault-free call without budgets after the faulted one.

    -> (kind or None, details, n_flagged)"""
    p = "later-call-" if later else ""
    if exc is not None:
        return p + "exception", [dict(what="exception escaped inference()", observed=exc)], 0
    bad = []
    if len(rows) != len(queries):
        return p + "rows-malformed", [dict(what="row-count", expected=len(queries), observed=len(rows))], 0
    flagged = 0
    kinds = []
    for i, ((key, pair), row) in enumerate(zip(queries, rows)):
        idx, res, text, ito, pto = row
        if text != _txt(pair) or idx != key:
            bad.append(dict(what="row does not belong to the submitted query", row=i, expected=[key, _txt(pair)], observed=[idx, text]))
            kinds.append(p + "rows-malformed")
            continue
        if not isinstance(ito, bool) or not isinstance(pto, bool) or not isinstance(res, bool):
            bad.append(dict(what="non-boolean result/flag", row=i, observed=row))
            kinds.append(p + "rows-malformed")
            continue
        if ito or pto:
            flagged += 1
            if res is not False:
                bad.append(dict(what="row flagged as timed out but answer is not False", row=i, observed=row))
                kinds.append(p + "flagged-row-true")
            if later and ito:
                bad.append(dict(what="fault-free call without budgets reports an inference timeout", row=i, observed=row))
                kinds.append("later-call-changed")
        elif res is not ref[i][1]:
            bad.append(dict(what="unflagged row differs from the run without budgets", row=i, query=text, expected=ref[i][1], observed=res))
            kinds.append("later-call-changed" if later else "unflagged-wrong-answer")
    if not bad:
        return None, [], flagged
    order = ["unflagged-wrong-answer", "later-call-changed", "flagged-row-true", "later-call-flagged-row-true", "rows-malformed", "later-call-rows-malformed"]
    return min(kinds, key=lambda x: order.index(x) if x in order else 99), bad, flagged


def _build(sig, cond_texts):
    from oracle.gen import cond as mkcond

    conds = {}
    for k, (b, a) in cond_texts.items():
        c = mkcond(b, a)
        c.index = int(k)
        conds[int(k)] = c
    return BeliefBase(list(sig), conds, "c14")


def _manager(sig, cond_texts, system, pm, weakly):
    from inference.inference_manager import InferenceManager

    return InferenceManager(_build(sig, cond_texts), system, pmaxsat_solver=pm, weakly=weakly)


def _reference(sig, cond_texts, system, pm, weakly, queries):
    rows, exc = _call(_manager(sig, cond_texts, system, pm, weakly), queries, {})
    if exc is not None:
        raise RuntimeError(f"reference run without budgets failed: {exc}")
    for (key, pair), row in zip(queries, rows):
        if row[0] != key or row[2] != _txt(pair) or row[3] or row[4]:
            raise RuntimeError(f"reference run without budgets is malformed: {rows}")
    return rows


def _one_fault(inj, sig, cond_texts, system, pm, weakly, queries, budgets, kind, k, multi, ref):
    """fresh manager; call under the fault; then a fault-free call without budgets on the same manager"""
    m = _manager(sig, cond_texts, system, pm, weakly)
    inj.reset(kind, k)
    if kind == "clock":
        inj.step_ns = int((budgets["total_timeout"] + CLOCK_DELTAS[k - 1]) * 1e9)
    rows1, exc1 = _call(m, queries, budgets, multi)
    fired = inj.fired
    inj.disarm()
    k1, d1, flagged = _judge(rows1, exc1, queries, ref, later=False)
    rows2, exc2 = _call(m, queries, {}, False)
    k2, d2, _ = _judge(rows2, exc2, queries, ref, later=True)
    found = []
    if k1:
        found.append(dict(kind=k1, details=d1, rows=rows1, call="faulted"))
    if k2:
        found.append(dict(kind=k2, details=d2, rows=rows2, call="later", faulted_rows=rows1))
    return found, flagged, fired


def _sample_ks(n, cap, rng):
    """all k in 1..n, or (quick tier) the first 8, the last 2 and a seeded sample of the rest"""
    if cap is None or n <= cap:
        return list(range(1, n + 1))
    if cap < 8:
        return sorted({1 + round(i * (n - 1) / max(1, cap - 1)) for i in range(cap)})
    head = list(range(1, min(8, cap // 2) + 1))
    tail = [n - 1, n][-max(1, min(2, cap // 4)) :]
    rest = [k for k in range(head[-1] + 1, tail[0])]
    more = max(0, min(len(rest), cap - len(head) - len(tail)))
    return sorted(set(head + tail + rng.sample(rest, more)))


def _base_id(sig, cond_texts):
    return hashlib.sha1(json.dumps([list(sig), sorted((str(k), list(v)) for k, v in cond_texts.items())]).encode()).hexdigest()[:12]


def _unit(args):
    sig, cond_texts, system, pm, weakly, queries, bname, kinds, cap, seed, multi = args
    out = {"evaluations": 0, "fingerprints": [], "violations": [], "rejected": False, "extra": {}}
    budgets = BUDGETS[bname]
    rng = random.Random(seed)
    try:
        ref = _reference(sig, cond_texts, system, pm, weakly, queries)
    except AssertionError:
        out["rejected"] = True
        return out
    bid = _base_id(sig, cond_texts)

    def record(f, kind, k):
        out["violations"].append(
            dict(
                module="c14",
                kind=f["kind"],
                input=dict(
                    signature=list(sig),
                    conditionals={str(kk): list(t) for kk, t in cond_texts.items()},
                    system=system,
                    pmaxsat=pm,
                    weakly=weakly,
                    queries=[[key, list(p)] for key, p in queries],
                    budget_setting=bname,
                    budgets=dict(budgets),
                    multi_inference=multi,
                    fault=dict(kind=kind, k=k),
                    judged_call=f["call"],
                ),
                expected=dict(
                    reference_rows=[r[:3] for r in ref],
                    rule="every row flagged (inference_timed_out or preprocessing_timed_out) with result False, or result equal to the reference; no exception; "
                    "the later fault-free call without budgets gives the reference rows (or rows flagged preprocessing_timed_out)",
                ),
                observed=dict(rows=f["rows"], details=f["details"], **({"faulted_rows": f["faulted_rows"]} if "faulted_rows" in f else {})),
            )
        )

    inj = _Injector()
    inj.install()
    try:
        # fault-free run under the budgets: budget arithmetic, and the counts
        inj.reset(None, None)
        m = _manager(sig, cond_texts, system, pm, weakly)
        rows, exc = _call(m, queries, budgets, False)
        n_obs, n_checks = inj.obs, inj.checks
        out["evaluations"] += 1
        kd, dd, flagged = _judge(rows, exc, queries, ref, later=False)
        if kd:
            record(dict(kind=kd, details=dd, rows=rows, call="fault-free-with-budgets"), None, None)
        if flagged:
            out["extra"]["spurious_flags_without_fault"] = flagged
        # ... and again on the same manager (preprocessing already done, budgets re-derived)
        rows, exc = _call(m, queries, budgets, multi)
        out["evaluations"] += 1
        kd, dd, flagged2 = _judge(rows, exc, queries, ref, later=False)
        if kd:
            record(dict(kind=kd, details=dd, rows=rows, call="fault-free-with-budgets-second-call"), None, None)
        if flagged2:
            out["extra"]["spurious_flags_without_fault"] = out["extra"].get("spurious_flags_without_fault", 0) + flagged2
        out["extra"]["observations"] = n_obs
        out["extra"]["checks"] = n_checks
        for kind in kinds:
            n = n_checks if kind == "check" else n_obs
            if kind == "clock":
                n = len(CLOCK_DELTAS) if budgets.get("total_timeout") else 0
            for k in _sample_ks(n, cap, rng):
                found, flagged, fired = _one_fault(inj, sig, cond_texts, system, pm, weakly, queries, budgets, kind, k, multi, ref)
                out["evaluations"] += 2
                out["extra"]["fault_runs"] = out["extra"].get("fault_runs", 0) + 1
                if flagged:
                    out["fingerprints"].append((bid, system, pm, weakly, bname, multi, kind, k))
                elif fired and not found:
                    out["extra"]["fault_absorbed_without_flag"] = out["extra"].get("fault_absorbed_without_flag", 0) + 1
                for f in found:
                    record(f, kind, k)
    finally:
        inj.uninstall()
    return out


# ---------------------------------------------------------------------------
# driver side
# ---------------------------------------------------------------------------
def _queries_for(rng, sig, conds, n=3):
    texts = list(texts_of(conds).values())
    qs = [tuple(rng.choice(texts))]
    tries = 0
    while len(qs) < n and tries < 50:
        tries += 1
        q = split_text(str(rnd_conditional(rng, sig, 2, 0.04)))
        if q not in qs:
            qs.append(q)
    rng.shuffle(qs)
    keys = rng.choice([None, None, [7, 0, -2, 100, 3]])
    return [[(keys[i] if keys else i + 1), list(q)] for i, q in enumerate(qs)]


def run(tier, seed):
    from inference.consistency_sat import consistency

    rng = random.Random(seed)
    thorough = tier == "thorough"
    n_bases = 60 if thorough else 10
    per_cfg = 6 if thorough else 1  # budget settings per (S3 base, operator, mode), rotating over all settings
    cap = None if thorough else 25
    names = list(BUDGETS)
    units = []
    rot = 0

    def add(sig, ctexts, queries, settings_per_cfg, multi_some):
        nonlocal rot
        for weakly in (False, True):
            for system, pm in CONFIGS:
                if system == "c-inference" and weakly:
                    continue
                passive = system in ("p-entailment", "system-z")  # never look at a deadline: one setting shows that
                chosen = []
                for _ in range(1 if passive and not settings_per_cfg >= len(names) else settings_per_cfg):
                    chosen.append(names[rot % len(names)])
                    rot += 1
                for bname in dict.fromkeys(chosen):
                    units.append((sig, ctexts, system, pm, weakly, queries, bname, KINDS, cap, rng.randrange(10**9), False))
                if multi_some and not passive:
                    units.append((sig, ctexts, system, pm, weakly, queries, "total+inf", ("deadline", "check", "clock"), cap, rng.randrange(10**9), True))

    add(BIRDS_SIG, dict(BIRDS), BIRDS_QUERIES, len(names) if thorough else 4, True)
    skipped = 0
    got = 0
    weak_only = 0
    while got < n_bases and skipped < 200 * n_bases:
        sig, conds = s3_base(rng, consts=0.06)
        bb = BeliefBase(list(sig), dict(conds), "c14")
        # bases every mode refuses are skipped; bases only the extended mode accepts make up at most a third
        if consistency(bb, "z3", False)[0] is False:
            if consistency(bb, "z3", True)[0] is False or weak_only >= n_bases // 3:
                skipped += 1
                continue
            weak_only += 1
        got += 1
        add(sig, texts_of(conds), _queries_for(rng, sig, conds), per_cfg, thorough and got % 10 == 0)
    order = list(range(len(units)))
    random.Random(seed + 1).shuffle(order)
    results = pmap(_unit, [units[i] for i in order])
    res = merge(results)
    extra = {"units": len(units), "bases_skipped": skipped, "bases_accepted_in_extended_mode_only": weak_only}
    for r in results:
        for k, v in r.get("extra", {}).items():
            extra[k] = extra.get(k, 0) + v
    by_kind = {}
    for fp in res["fingerprints"]:
        by_kind[fp[6]] = by_kind.get(fp[6], 0) + 1
    extra["flagging_faults_by_kind"] = by_kind
    res["extra"] = extra
    res["scope"] = (
        f"birds base ({len(names) if thorough else 4} budget settings per operator, plus parallel evaluation under 'total+inf') + {n_bases} seeded S3 bases "
        f"({per_cfg} budget setting(s) per operator and mode, rotating over {names}) x 7 operator/back-end pairs x strict/extended (c-inference strict only); "
        f"3-4 queries per call; faults {KINDS} at {'every' if thorough else 'every (at most 25 sampled)'} k in 1..N, N counted in a fault-free run; "
        f"budgets of {BIG} s stand for small ones, expiry is injected; no real-time expiry is exercised"
    )
    res["rule"] = (
        "reference = rows of a run without budgets/faults on a fresh manager; judged: the fault-free calls under each budget setting (first and second call), "
        "each faulted call on a fresh manager, and a fault-free call without budgets after it on the same manager; a case "
        "(base, operator, back-end, mode, budget setting, parallel?, fault kind, k) is distinct by these and non-trivial when the fault flagged at least one row"
    )
    res["samples"] = [
        dict(signature=u[0], conditionals={str(k): list(v) for k, v in u[1].items()}, system=u[2], pmaxsat=u[3], weakly=u[4], queries=u[5], budget_setting=u[6], multi_inference=u[10])
        for u in (units[0], units[len(units) // 2], units[-1])
    ]
    return res


def replay(v):
    inp = v["input"]
    ctexts = {int(k): tuple(t) for k, t in inp["conditionals"].items()}
    queries = [(k, tuple(p)) for k, p in inp["queries"]]
    budgets = {k: val for k, val in inp["budgets"].items()}
    args = (inp["signature"], ctexts, inp["system"], inp["pmaxsat"], inp["weakly"], queries)
    try:
        ref = _reference(*args)
    except AssertionError as e:
        return {"violates": False, "note": f"base refused: {e}"}
    fault = inp.get("fault") or {}
    inj = _Injector()
    inj.install()
    try:
        if fault.get("k") is None:
            m = _manager(*args[:5])
            found = []
            for name, multi in (("fault-free-with-budgets", False), ("fault-free-with-budgets-second-call", bool(inp.get("multi_inference")))):
                inj.reset(None, None)
                rows, exc = _call(m, queries, budgets, multi)
                kd, dd, _ = _judge(rows, exc, queries, ref, later=False)
                if kd:
                    found.append(dict(kind=kd, details=dd, rows=rows, call=name))
            fired = 0
        else:
            found, _, fired = _one_fault(inj, *args, budgets, fault["kind"], fault["k"], bool(inp.get("multi_inference")), ref)
    finally:
        inj.uninstall()
    same = [f for f in found if f["kind"] == v.get("kind") and f["call"] == inp.get("judged_call")]
    return {
        "violates": bool(found),
        "same_kind_same_call": bool(same),
        "fault_fired": fired,
        "found": [dict(kind=f["kind"], call=f["call"], details=f["details"], rows=f["rows"]) for f in found],
    }
