"""Contracts: inference/system_w.py, inference/lex_inf.py (rc2 back-end recursions, key level).

The partial-MaxSAT layer is ASSUMED (named in the evidence):
  * Inv_es   for every base key k: k is a key of f_cnf_dict / nf_cnf_dict and the clause lists
             denote fal(D[k]) / nf(D[k]) (C15's faithfulness + TB-tac freshness of auxiliaries);
             query_v_cnf / query_f_cnf denote ver / fal of the current query; every layer of the
             partition consists of base keys
  * MCS      minimal_correction_subsets(wcnf, ignore) enumerates the inclusion-minimal sets
             { k not ignored | w falsifies D[k] } over the worlds w admitted by wcnf's hard clauses,
             each as a duplicate-free list, no two lists with the same elements
What is verified is the real control structure of the recursions: which clause sets become hard
constraints for which tie, the subset / cardinality tests, the exists/forall over candidates,
the base case, and that nothing else happens to the caller's WCNF.
"""
import z3

from contracts.c_consistency_sat import BeliefBaseT
from contracts.c_inference import DeadlineT, ES_COMMON
from pyvc import lib
from pyvc import logic as L
from pyvc.contract import Contract, LoopSpec
from pyvc.lib import Den, DcP, LClause, TClause
from pyvc.logic import LInt, LLInt
from pyvc.values import *  # noqa

KSet = z3.SetSort(L.Int)
KFam = z3.SetSort(KSet)
CMapS = z3.ArraySort(L.Int, L.Cnd)
SK = TSet(TInt)
SSK = TSet(SK)
enumK, _eidxK, cardK = L.enum_theory(L.Int)
setofK = L.set_of_list(L.Int)
LKS = L.list_theory(KSet)

CnfDictT = TDict(TList(TClause))
ES_RC2 = dict(ES_COMMON)
ES_RC2.update(
    {
        "partition": TList(TList(TInt)),
        "nf_cnf_dict": CnfDictT,
        "f_cnf_dict": CnfDictT,
        "v_cnf_dict": CnfDictT,
        "query_v_cnf": TList(TClause),
        "query_f_cnf": TList(TClause),
    }
)


def SelfRC2(cls):
    return TObj(cls, {"epistemic_state": TRec(ES_RC2)})


def _es(c, key, selfname="self"):
    return c.es(key, selfname)


def _val(c, selfname="self"):
    return c.field(_es(c, "belief_base", selfname), "conditionals")


def _P(c):
    return _es(c, "partition").t


# --- specification vocabulary at key level -----------------------------------------------
MinFamK = z3.Function("MinFamK", L.WSet, CMapS, KSet, KFam)  # minimal falsified key sets over H within a key set
ASAK = z3.Function("ASAK", KFam, KFam, L.Bool)
FamOfLL = z3.Function("FamOfLL", LLInt.sort, KFam)  # a list of key lists read as a set of key sets
IgnoreOf = z3.Function("IgnoreOf", LLInt.sort, L.Int, LInt.sort)  # keys of all layers but layer i
NotIgnored = z3.Function("NotIgnored", LInt.sort, KSet)  # base keys outside an ignore list
_v = z3.Const("_k_val", CMapS)
_l = z3.Const("_k_l", LInt.sort)
FalPK = L.prefix_fun("FalPK", [CMapS, LInt.sort], L.WSet, lambda v, l: L.FULL, lambda v, l, k, prev: L.inter(prev, L.fal(z3.Select(v, LInt.at(l, k)))))
NfPK = L.prefix_fun("NfPK", [CMapS, LInt.sort], L.WSet, lambda v, l: L.FULL, lambda v, l, k, prev: L.inter(prev, L.nf(z3.Select(v, LInt.at(l, k)))))
_Pp = z3.Const("_k_P", LLInt.sort)
_ii = z3.Int("_k_i")
# ASSUMED: the partition's layers are disjoint and cover the base, so "not ignored" = the layer
L.TH.axiom([_Pp, _ii], IgnoreOf(_Pp, _ii), NotIgnored(IgnoreOf(_Pp, _ii)) == setofK(LLInt.at(_Pp, _ii)), "assumed.ignore.complement")


def ExactK(H, val, partset, xi):
    e1 = enumK(xi)
    e2 = enumK(z3.SetDifference(partset, xi))
    return L.inter(L.inter(H, FalPK(val, e1, LInt.len(e1))), NfPK(val, e2, LInt.len(e2)))


def inv_es(c, selfname="self"):
    d = _val(c, selfname)
    f, nf = _es(c, "f_cnf_dict", selfname), _es(c, "nf_cnf_dict", selfname)
    k = z3.Int("_ies_k")
    i, j = z3.Ints("_ies_i _ies_j")
    P = _es(c, "partition", selfname).t
    return [
        L.Forall(
            [k],
            [L.mem_Int(d.keys, k)],
            z3.Implies(
                L.mem_Int(d.keys, k),
                z3.And(
                    L.mem_Int(f.keys, k),
                    L.mem_Int(nf.keys, k),
                    Den(z3.Select(f.val, k)) == L.fal(z3.Select(d.val, k)),
                    Den(z3.Select(nf.val, k)) == L.nf(z3.Select(d.val, k)),
                ),
            ),
            "Inv_es.cnf",
        ),
        L.Forall(
            [i, j],
            [LInt.at(LLInt.at(P, i), j)],
            z3.Implies(z3.And(0 <= i, i < LLInt.len(P), 0 <= j, j < LInt.len(LLInt.at(P, i))), L.mem_Int(d.keys, LInt.at(LLInt.at(P, i), j))),
            "Inv_es.partition.keys",
        ),
    ]


# --- assumed: the MaxSAT enumeration -------------------------------------------------------
OPT = TObj("Optimizer", {"epistemic_state": TRec(ES_RC2)})


def _mcs_post(c, r):
    val = _val(c).val
    fam = FamOfLL(r.t)
    xs = z3.Const("_mcs_xs", KSet)
    kk = z3.Int("_mcs_k")
    return [
        fam == MinFamK(c.A(c.wcnf), val, NotIgnored(c.ignore.t)),
        # nothing is returned exactly when no world satisfies the hard clauses
        (r.len() == 0) == L.isempty(c.A(c.wcnf)),
        # every returned key is one of the keys that were not ignored
        L.Forall([xs, kk], [z3.IsMember(kk, xs)], z3.Implies(z3.And(z3.IsMember(xs, fam), z3.IsMember(kk, xs)), z3.IsMember(kk, NotIgnored(c.ignore.t))), "mcs.members.not.ignored"),
    ]


Contract(
    "inference.optimizer:Optimizer.minimal_correction_subsets",
    params={"self": OPT, "wcnf": TSolverT, "ignore": TList(TInt), "deadline": DeadlineT},
    returns=TList(TList(TInt)),
    ensures=_mcs_post,
    raises={"TimeoutError": lambda c: z3.BoolVal(True)},
    trusted=True,
    note="ASSUMED (MCS, see module docstring); compared with brute force for every construction the operators use by module c15",
)
Contract(
    "inference.system_w:any_subset_of_all",
    params={"A": SSK, "B": SSK},
    returns=TBool,
    ensures=lambda c, r: [r.t == ASAK(c._st.env["A"].t, c._st.env["B"].t)],
    trusted=True,
    note="ASSUMED (all/any over generators): every member of B has a subset in A; exhaustive on small universes in module `pure`",
)

# --- WRECK: System W recursion at key level --------------------------------------------------
WRECK = z3.Function("WRECK", LLInt.sort, CMapS, L.WSet, L.WSet, L.WSet, L.Int, L.Bool)
AtLevelWK = z3.Function("AtLevelWK", L.WSet, L.Bool)
_m = z3.Const("_mkk", L.WSet)
L.TH.axiom([_m], AtLevelWK(_m), AtLevelWK(_m), "marker.WK")
_wV, _wF, _wH = z3.Consts("_wk_V _wk_F _wk_H", L.WSet)
_wxi = z3.Const("_wk_xi", KSet)
_wn = z3.Int("_wk_n")
witWK = z3.Function("witWK", LLInt.sort, CMapS, L.WSet, L.WSet, L.WSet, L.Int, KSet)
_partset = NotIgnored(IgnoreOf(_Pp, _ii))  # = the keys of layer i (assumed.ignore.complement); this is the shape the code produces
_XV = MinFamK(L.inter(_wH, _wV), _v, _partset)
_XF = MinFamK(L.inter(_wH, _wF), _v, _partset)
_S = z3.SetIntersect(_XV, _XF)
_me = WRECK(_Pp, _v, _wV, _wF, _wH, _ii)


def _next(xi):
    return z3.And(_ii > 0, WRECK(_Pp, _v, _wV, _wF, ExactK(_wH, _v, _partset, xi), _ii - 1))


_wit = witWK(_Pp, _v, _wV, _wF, _wH, _ii)
_A = [_Pp, _v, _wV, _wF, _wH, _ii]
WRECK_AXIOMS = [
    L.Forall(_A, [_me, AtLevelWK(_wH)], z3.Implies(_me, ASAK(_XV, _XF)), "def.WRECK.elim.asa"),
    L.Forall(_A + [_wxi], [_me, AtLevelWK(_wH), z3.IsMember(_wxi, _S)], z3.Implies(z3.And(_me, z3.IsMember(_wxi, _S)), _next(_wxi)), "def.WRECK.elim.all"),
    L.Forall(_A + [_wxi, _wn], [_me, AtLevelWK(_wH), FalPK(_v, enumK(_wxi), _wn)], z3.Implies(z3.And(_me, z3.IsMember(_wxi, _S)), _next(_wxi)), "def.WRECK.elim.all.2"),
    L.Forall(_A, [_me, AtLevelWK(_wH)], z3.Implies(z3.Not(_me), z3.Or(z3.Not(ASAK(_XV, _XF)), z3.And(z3.IsMember(_wit, _S), z3.Not(_next(_wit))))), "def.WRECK.intro"),
]

SW = SelfRC2("SystemW")


def _qsets(c):
    """the query's verification / falsification sets as denoted by the stored query CNFs"""
    return Den(_es(c, "query_v_cnf").t), Den(_es(c, "query_f_cnf").t)


def _w_pre(c):
    P = _P(c)
    return inv_es(c) + [0 <= c.partition_index.t, c.partition_index.t < LLInt.len(P), AtLevelWK(c.A(c.hard_constraints))]


def _w_post(c, r):
    V, F = _qsets(c)
    return [
        r.t == WRECK(_P(c), _val(c).val, V, F, c.old.A(c.old.hard_constraints), c.partition_index.t),
        c.A(c.hard_constraints) == c.old.A(c.old.hard_constraints),
    ]


def _w_inv_ties(s, j, pre):
    V, F = _qsets(s)
    P, i = _P(s), s.partition_index.t
    H = pre.A(pre.hard_constraints)
    lst = s._st.env["__seq4"].t
    k = z3.Int("_wt_k")
    partset = NotIgnored(IgnoreOf(P, i))
    xs = z3.Const("_wt_xs", KSet)
    kk = z3.Int("_wt_kk")
    S = z3.SetIntersect(s.xi_i_set.t, s.xi_i_prime_set.t)
    return [
        s.A(s.hard_constraints) == H,
        L.Forall(
            [k],
            [LKS.at(lst, k)],
            z3.Implies(z3.And(0 <= k, k < j), z3.And(i > 0, WRECK(P, _val(s).val, V, F, ExactK(H, _val(s).val, partset, LKS.at(lst, k)), i - 1))),
            "ties.hold.so.far",
        ),
        # every key of every tied set is a key of the current layer (from the MCS contract)
        L.Forall(
            [xs, kk],
            [z3.IsMember(kk, xs)],
            z3.Implies(z3.And(z3.IsMember(xs, S), z3.IsMember(kk, xs)), L.mem_Int(LLInt.at(P, i), kk)),
            "tied.keys.in.layer",
        ),
    ]


def _unchanged(name):
    return lambda s, j, pre: [s.A(getattr(s, name)) == pre.A(getattr(pre, name))]


def _appended(name, cnfvar):
    return lambda s, j, pre: [s.A(getattr(s, name)) == L.inter(pre.A(getattr(pre, name)), DcP(getattr(s, cnfvar), j))]


def _hard_query(name, key):
    return lambda s, j, pre: [s.A(getattr(s, name)) == L.inter(pre.A(getattr(pre, name)), DcP(_es(s, key).t, j))]


def _w_inv_fal(s, j, pre):
    return [s.A(s.hard_constraints_new) == L.inter(pre.A(pre.hard_constraints_new), FalPK(_val(s).val, enumK(s.xi_i.t), j))]


def _w_inv_nf(s, j, pre):
    P, i = _P(s), s.partition_index.t
    rest = z3.SetDifference(setofK(LLInt.at(P, i)), s.xi_i.t)
    return [s.A(s.hard_constraints_new) == L.inter(pre.A(pre.hard_constraints_new), NfPK(_val(s).val, enumK(rest), j))]


def _cnf_of(dictkey, var):
    """invariant of `[w.append(c) for c in es[dictkey][i]]`: the clauses appended so far"""

    def inv(s, j, pre):
        cnf = z3.Select(_es(s, dictkey).val, getattr(s, var).t)
        return [s.A(s.hard_constraints_new) == L.inter(pre.A(pre.hard_constraints_new), DcP(cnf, j))]

    return inv


ABS_W = {
    "[item for sublist in self.epistemic_state['partition'] if sublist != part for item in sublist]": (
        lambda s: VList(IgnoreOf(_P(s), s.partition_index.t), TInt),
        "TB-py: the keys of all layers other than the current one",
    ),
    "frozenset([frozenset(l) for l in xi_i_list])": (lambda s: VSet(FamOfLL(s.xi_i_list.t), SK), "TB-py: a list of key lists read as a set of key sets"),
    "frozenset([frozenset(l) for l in xi_i_prime_list])": (lambda s: VSet(FamOfLL(s.xi_i_prime_list.t), SK), "TB-py: as above"),
}

Contract(
    "inference.system_w:SystemW._rec_inference",
    params={"self": SW, "hard_constraints": TSolverT, "partition_index": TInt, "deadline": DeadlineT},
    returns=TBool,
    requires=_w_pre,
    ensures=_w_post,
    raises={
        "TimeoutError": lambda c: z3.BoolVal(True),
        "ValueError": lambda c: z3.Not(lib.StartsWith(_es(c, "pmaxsat_solver").t, VStr(const="rc2").t)),
    },
    fuel=5,
    axioms=WRECK_AXIOMS,
    abstractions=ABS_W,
    loops={
        0: LoopSpec("for index in part", lambda s, j, pre: [s.A(s.wcnf) == pre.A(pre.wcnf), s.A(s.hard_constraints) == pre.A(pre.hard_constraints)]),
        1: LoopSpec("[... for s in softc]", _unchanged("wcnf")),
        2: LoopSpec("[... for c in *", _hard_query("wcnf", "query_v_cnf")),
        3: LoopSpec("[... for c in *", _hard_query("wcnf_prime", "query_f_cnf")),
        4: LoopSpec("for xi_i in xi_i_set & xi_i_prime_set", _w_inv_ties),
        5: LoopSpec("for i in xi_i", _w_inv_fal),
        6: LoopSpec("[... for c in *", _cnf_of("f_cnf_dict", "i")),
        7: LoopSpec("for i in frozenset(part) - xi_i", _w_inv_nf),
        8: LoopSpec("[... for c in *", _cnf_of("nf_cnf_dict", "i")),
    },
    properties=["C03", "C07", "C11"],
    note="refinement of the rc2 recursion to WRECK under the assumed Inv_es and MCS contracts",
)


# ---------------------------------------------------------------------------
# SystemW._inference (rc2): query CNFs, feasibility constraints, top index, no-finite-layer case
# ---------------------------------------------------------------------------
TS = TObj("TseitinTransformation", {"epistemic_state": TRec(ES_RC2)})
LLClause = L.list_theory(LClause.sort)

Contract(
    "inference.tseitin_transformation:TseitinTransformation.query_to_cnf",
    params={"self": TS, "query": TCnd},
    returns=TList(TList(TClause)),
    ensures=lambda c, r: [
        r.len() == 2,
        Den(LLClause.at(r.t, 0)) == L.ver(c.query.t),
        Den(LLClause.at(r.t, 1)) == L.fal(c.query.t),
    ],
    trusted=True,
    note="ASSUMED (C15 part 1: faithful CNFs of the query's verification / falsification); truth-table checked by module c15",
)


def _feas(c):
    P = _P(c)
    last = LLInt.at(P, LLInt.len(P) - 1)
    return NfPK(_val(c).val, last, LInt.len(last))


def _wi_pre(c):
    P = _P(c)
    return inv_es(c) + [LLInt.len(P) >= 1]


def _wi_post(c, r):
    P, q = _P(c), c.query.t
    m = LLInt.len(P)
    val = _val(c).val
    V, F = L.ver(q), L.fal(q)
    Fe = _feas(c)
    ext = z3.If(m < 2, L.isempty(L.inter(Fe, F)), WRECK(P, val, V, F, Fe, m - 2))
    return [r.t == z3.If(c.weakly.t, ext, WRECK(P, val, V, F, L.FULL, m - 1))]


def _wi_inv_last(s, j, pre):
    P = _P(s)
    last = LLInt.at(P, LLInt.len(P) - 1)
    return [s.A(s.wcnf) == L.inter(pre.A(pre.wcnf), NfPK(_val(s).val, last, j))]


Contract(
    "inference.system_w:SystemW._inference",
    params={"self": SW, "query": TCnd, "weakly": TBool, "deadline": DeadlineT},
    returns=TBool,
    requires=_wi_pre,
    ensures=_wi_post,
    raises={
        "TimeoutError": lambda c: z3.BoolVal(True),
        "ValueError": lambda c: z3.Not(lib.StartsWith(_es(c, "pmaxsat_solver").t, VStr(const="rc2").t)),
    },
    fuel=4,
    loops={
        0: LoopSpec("for index in self.epistemic_state['partition'][-1]", _wi_inv_last),
        1: LoopSpec("[... for c in *", lambda s, j, pre: [s.A(s.wcnf) == L.inter(pre.A(pre.wcnf), DcP(z3.Select(_es(s, "nf_cnf_dict").val, s.index.t), j))]),
        2: LoopSpec("[... for c in *", _hard_query("wcnf", "query_f_cnf")),
    },
    properties=["C03", "C07", "C11", "C12"],
)
